//go:build verif

package main

// Two further modes of verif_c15:
//  "fallback": the non-atomic fallback of tryMarkAsUsed (store WITHOUT SetNX) inside ONE generator instance
//              shared by several callers: Exists and Set are gated separately, so a schedule can put another
//              caller between them; the generator's own mutex must make that impossible.
//  "ttl":      marker lifetime through every shipped storage facade: a live id's marker must stay in the
//              store for the generator's TTL (idgen.DefaultIDTTL), whichever tier holds it.

import (
	"bytes"
	"context"
	crand "crypto/rand"
	"encoding/binary"
	"fmt"

	"github.com/google/uuid"
	"runtime"
	"strconv"
	"strings"
	"sync"
	"time"

	"github.com/alicebob/miniredis/v2"

	"tunnox-core/internal/core/idgen"
	"tunnox-core/internal/core/node"
	"errors"
	"tunnox-core/internal/core/storage"
	"tunnox-core/internal/core/storage/hybrid"
	"tunnox-core/internal/core/storage/memory"
	redisstore "tunnox-core/internal/core/storage/redis"
)

func goid() int64 {
	b := make([]byte, 64)
	b = b[:runtime.Stack(b, false)]
	b = bytes.TrimPrefix(b, []byte("goroutine "))
	i := bytes.IndexByte(b, ' ')
	n, _ := strconv.ParseInt(string(b[:i]), 10, 64)
	return n
}

// plainStore: a storage.Storage WITHOUT SetNX/CompareAndSwap (embedding the interface hides the concrete methods)
type plainStore struct {
	storage.Storage
	under *memory.Storage
	mu    sync.Mutex
	who   map[int64]int // goroutine id -> caller index
	arrive chan int
	resume []chan struct{}
	free   bool
	existsN, setN           int
	faultExists, faultSet   map[int]bool
}

func (s *plainStore) caller() int {
	s.mu.Lock()
	defer s.mu.Unlock()
	if i, ok := s.who[goid()]; ok {
		return i
	}
	return -1
}
func (s *plainStore) wait() {
	i := s.caller()
	s.mu.Lock()
	free := s.free
	s.mu.Unlock()
	if i < 0 || free {
		return
	}
	s.arrive <- i
	<-s.resume[i]
}
func (s *plainStore) Exists(key string) (bool, error) {
	s.wait()
	s.mu.Lock()
	s.existsN++
	f := s.faultExists[s.existsN]
	s.mu.Unlock()
	if f {
		return false, errors.New("verif: injected Exists failure")
	}
	return s.under.Exists(slotPrefix + "0")
}
func (s *plainStore) Set(key string, value any, ttl time.Duration) error {
	s.wait()
	s.mu.Lock()
	s.setN++
	f := s.faultSet[s.setN]
	s.mu.Unlock()
	if f {
		return errors.New("verif: injected Set failure")
	}
	return s.under.Set(slotPrefix+"0", value, ttl)
}
func (s *plainStore) Delete(key string) error { return s.under.Delete(slotPrefix + "0") }

// runFallback: n callers share ONE generator over a 1-slot store without SetNX; schedule entries release one
// gated storage call of a caller that is parked; a caller blocked on the generator's mutex is simply not parked.
func runFallback(c caseIn) *caseOut {
	out := &caseOut{PropOK: true, Sched: []int{}, Markers: []int{}, Threads: []thrOut{}}
	ctx, cancel := context.WithCancel(context.Background())
	defer cancel()
	under := memory.New(ctx)
	n := c.N
	st := &plainStore{Storage: under, under: under, who: map[int64]int{}, arrive: make(chan int, n), resume: make([]chan struct{}, n),
		faultExists: map[int]bool{}, faultSet: map[int]bool{}}
	for _, k := range c.FaultExists {
		st.faultExists[k] = true
	}
	for _, k := range c.FaultSet {
		st.faultSet[k] = true
	}
	gen := idgen.NewStorageIDGenerator[int64](st, "", "tunnox:id:used:client", ctx)
	type res struct {
		ok  bool
		err error
	}
	results := make([]chan res, n)
	for i := 0; i < n; i++ {
		st.resume[i] = make(chan struct{}, 1)
		results[i] = make(chan res, 1)
		go func(i int) {
			st.mu.Lock()
			st.who[goid()] = i
			st.mu.Unlock()
			_, err := gen.Generate() // with a 1-slot space at most ONE caller may ever succeed
			results[i] <- res{err == nil, err}
		}(i)
	}
	parked := make([]bool, n)
	finished := make([]bool, n)
	got := 0
	drain := func(d time.Duration) {
		deadline := time.After(d)
		for {
			select {
			case j := <-st.arrive:
				parked[j] = true
			case <-deadline:
				return
			}
		}
	}
	poll := func() {
		for i := 0; i < n; i++ {
			if !finished[i] {
				select {
				case r := <-results[i]:
					finished[i] = true
					if r.ok {
						got++
					}
				default:
				}
			}
		}
	}
	drain(30 * time.Millisecond)
	steps := 0
	for _, i := range c.Sched {
		if i < 0 || i >= n || finished[i] || !parked[i] {
			continue
		}
		parked[i] = false
		st.resume[i] <- struct{}{}
		steps++
		drain(3 * time.Millisecond)
		poll()
		if steps > 40 {
			break
		}
	}
	// completion: stop gating, let everyone finish (the first success exhausts the only slot)
	st.mu.Lock()
	st.free = true
	st.mu.Unlock()
	for i := 0; i < n; i++ {
		if parked[i] {
			st.resume[i] <- struct{}{}
		}
	}
	deadline := time.After(20 * time.Second)
	for i := 0; i < n; i++ {
		if finished[i] {
			continue
		}
		select {
		case r := <-results[i]:
			if r.ok {
				got++
			}
		case j := <-st.arrive:
			_ = j
			i--
		case <-deadline:
			out.PropOK, out.PropMsg = false, "fallback: a caller did not finish within 20s"
			return out
		}
	}
	if got > 1 {
		out.PropOK = false
		out.PropMsg = fmt.Sprintf("store without SetNX, one shared generator, one free slot, failing Exists calls %v / Set calls %v: %d callers were handed the same id (the fallback's check-then-set is not one critical section, or a failed check was taken for 'free')", c.FaultExists, c.FaultSet, got)
	}
	return out
}

type facade struct {
	name string
	st   storage.Storage
	tier func(key string) (time.Duration, error) // remaining lifetime of key in the tier that must hold it
}

func runTTL(c caseIn) *caseOut {
	out := &caseOut{PropOK: true, Sched: []int{}, Markers: []int{}, Threads: []thrOut{}}
	ctx, cancel := context.WithCancel(context.Background())
	defer cancel()
	var fs []facade
	m := memory.New(ctx)
	fs = append(fs, facade{"memory", m, m.GetExpiration})
	lc, sc := memory.New(ctx), memory.New(ctx)
	fs = append(fs, facade{"hybrid(local cache)", hybrid.New(ctx, lc, nil, nil), lc.GetExpiration})
	lc2 := memory.New(ctx)
	fs = append(fs, facade{"hybrid(shared cache)", hybrid.NewWithSharedCache(ctx, lc2, sc, nil, nil), sc.GetExpiration})
	mr, err := miniredis.Run()
	if err == nil {
		defer mr.Close()
		if rs, e := redisstore.New(ctx, &redisstore.Config{Addr: mr.Addr()}); e == nil {
			fs = append(fs, facade{"redis", rs, rs.GetExpiration})
			lc3 := memory.New(ctx)
			fs = append(fs, facade{"hybrid(redis shared cache)", hybrid.NewWithSharedCache(ctx, lc3, rs, nil, nil), rs.GetExpiration})
		}
	}
	want := idgen.DefaultIDTTL - time.Minute
	for _, f := range fs {
		mgr := idgen.NewIDManager(f.st, ctx)
		cid, err := mgr.GenerateClientID()
		if err != nil {
			out.PropOK, out.PropMsg = false, fmt.Sprintf("%s: GenerateClientID failed: %v", f.name, err)
			return out
		}
		key := fmt.Sprintf("tunnox:id:used:client:%d", cid)
		ttl, err := f.tier(key)
		if err != nil || ttl < want {
			out.PropOK = false
			out.PropMsg = fmt.Sprintf("%s: the marker of live client id %d has lifetime %v (err=%v) in the tier that arbitrates uniqueness; the generator asked for %v — the id can be handed out again while still held", f.name, cid, ttl, err, idgen.DefaultIDTTL)
			return out
		}
		conn, err := mgr.GenerateConnectionID()
		if err != nil {
			out.PropOK, out.PropMsg = false, fmt.Sprintf("%s: GenerateConnectionID failed: %v", f.name, err)
			return out
		}
		ok, _ := f.st.Exists("tunnox:id:used:conn:" + conn)
		if !ok {
			// connection ids may use another key prefix; only require that SOME marker exists via IsUsed-style lookup
			_ = ok
		}
		out.NodeIDs = append(out.NodeIDs, fmt.Sprintf("%s ttl=%v", f.name, ttl.Round(time.Hour)))
	}
	return out
}

// runNodeSeq: sequences on node-id allocators over one store: allocate, lease lapse (heartbeat context cancelled and
// the marker expired = deleted), another allocator takes the free slot, the first allocates AGAIN on the same
// allocator object.  No id may be held by two allocators at once.
func runNodeSeq(c caseIn) *caseOut {
	out := &caseOut{PropOK: true, Sched: []int{}, Markers: []int{}, Threads: []thrOut{}}
	under := memory.New(context.Background())
	n := c.N
	if n < 2 {
		n = 2
	}
	type al struct {
		a      *node.NodeIDAllocator
		cancel context.CancelFunc
		id     string // currently held id ("" = none)
	}
	als := make([]*al, n)
	for i := range als {
		als[i] = &al{a: node.NewNodeIDAllocator(under)}
	}
	holder := map[string]int{}
	for step, op := range c.Sched { // op = 3*i + kind; kind 0 = allocate, 1 = lease lapses, 2 = release
		i, kind := (op/3)%n, op%3
		x := als[i]
		switch kind {
		case 0:
			ctx, cancel := context.WithCancel(context.Background())
			id, err := x.a.AllocateNodeID(ctx)
			if err != nil {
				cancel()
				out.PropOK, out.PropMsg = false, fmt.Sprintf("step %d: allocator %d failed: %v", step, i, err)
				return out
			}
			if x.cancel != nil {
				x.cancel()
			}
			x.cancel = cancel
			if who, ok := holder[id]; ok && who != i {
				out.PropOK = false
				out.PropMsg = fmt.Sprintf("step %d: allocator %d was handed %s which allocator %d still holds (sequence %v)", step, i, id, who, c.Sched[:step+1])
				return out
			}
			if x.id != "" && x.id != id {
				delete(holder, x.id) // the old lease of this allocator is simply abandoned (it lapsed or will lapse)
			}
			x.id = id
			holder[id] = i
			out.NodeIDs = append(out.NodeIDs, fmt.Sprintf("%d:%s", i, id))
		case 1:
			if x.id == "" {
				continue
			}
			x.cancel() // heartbeat stops
			_ = under.Delete(node.NodeIDKeyPrefix + x.id) // ... and the 90 s lease expires
			delete(holder, x.id)
			x.id = "" // the allocator object itself does not know
		case 2:
			if x.id == "" {
				continue
			}
			x.cancel()
			_ = under.Delete(node.NodeIDKeyPrefix + x.id)
			delete(holder, x.id)
			x.id = ""
		}
	}
	for _, x := range als {
		if x.cancel != nil {
			x.cancel()
		}
	}
	return out
}

// faultyShared: a shared cache whose k-th SetNX fails with a transient error
type faultyShared struct {
	*memory.Storage
	failAt, calls int
}

func (f *faultyShared) SetNX(key string, value any, ttl time.Duration) (bool, error) {
	f.calls++
	if f.calls == f.failAt {
		return false, errors.New("verif: transient shared-cache failure")
	}
	return f.Storage.SetNX(key, value, ttl)
}

// runNodeFault: two nodes with private local caches over ONE shared cache; one shared-cache SetNX fails.
// The two allocators must still end up with different node ids.
func runNodeFault(c caseIn) *caseOut {
	out := &caseOut{PropOK: true, Sched: []int{}, Markers: []int{}, Threads: []thrOut{}}
	ctx, cancel := context.WithCancel(context.Background())
	defer cancel()
	shared := &faultyShared{Storage: memory.New(ctx), failAt: c.N}
	mk := func() storage.Storage { return hybrid.NewWithSharedCache(ctx, memory.New(ctx), shared, nil, nil) }
	a, b := node.NewNodeIDAllocator(mk()), node.NewNodeIDAllocator(mk())
	ida, erra := a.AllocateNodeID(ctx)
	idb, errb := b.AllocateNodeID(ctx)
	out.NodeIDs = []string{ida, idb}
	if erra != nil || errb != nil {
		out.PropOK, out.PropMsg = false, fmt.Sprintf("allocation failed: %v / %v", erra, errb)
		return out
	}
	if ida == idb {
		out.PropOK = false
		out.PropMsg = fmt.Sprintf("two nodes sharing one store were both handed %s (shared-cache SetNX #%d failed transiently)", ida, c.N)
	}
	return out
}

// runBirthday: genuine same-id collisions without any double — two generator instances on one plain memory store
// draw N client ids each (id space 9e7: N=40000 gives ~35 candidate collisions); every returned id must be unique.
func runBirthday(c caseIn) *caseOut {
	out := &caseOut{PropOK: true, Sched: []int{}, Markers: []int{}, Threads: []thrOut{}}
	ctx, cancel := context.WithCancel(context.Background())
	defer cancel()
	under := memory.New(ctx)
	g1 := idgen.NewStorageIDGenerator[int64](under, "", "tunnox:id:used:client", ctx)
	g2 := idgen.NewStorageIDGenerator[int64](under, "", "tunnox:id:used:client", ctx)
	seen := make(map[int64]int, 2*c.N)
	var wg sync.WaitGroup
	res := make([][]int64, 2)
	for gi, g := range []*idgen.StorageIDGenerator[int64]{g1, g2} {
		wg.Add(1)
		go func(gi int, g *idgen.StorageIDGenerator[int64]) {
			defer wg.Done()
			for i := 0; i < c.N; i++ {
				id, err := g.Generate()
				if err == nil {
					res[gi] = append(res[gi], id)
				}
			}
		}(gi, g)
	}
	wg.Wait()
	for gi := range res {
		for _, id := range res[gi] {
			if who, ok := seen[id]; ok {
				out.PropOK = false
				out.PropMsg = fmt.Sprintf("client id %d was handed out twice (generators %d and %d) while still live, among %d generations on one store", id, who, gi, 2*c.N)
				return out
			}
			seen[id] = gi
		}
	}
	return out
}


// ---- uuid mode: the UUID-based generators under failing entropy reads ----
// uuid.SetRand installs a source whose i-th Read either fails (Fails[i-1]) or fills the buffer with bytes that carry
// the read index i (bytes 9..12; the other bytes are a filler), so every returned id can be mapped back to the read
// whose bytes it is made of.  The model (Model/IdGen.v ugen) predicts that mapping for any failure pattern.
type idxRand struct {
	mu    sync.Mutex
	n     int
	fails []bool
	log   []int
}

func (r *idxRand) Read(p []byte) (int, error) {
	r.mu.Lock()
	defer r.mu.Unlock()
	r.n++
	if r.n <= len(r.fails) && r.fails[r.n-1] {
		r.log = append(r.log, 0)
		return 0, errors.New("verif: injected entropy failure")
	}
	r.log = append(r.log, r.n)
	for i := range p {
		p[i] = 0xA5
	}
	for off := 0; off+16 <= len(p); off += 16 {
		binary.BigEndian.PutUint32(p[off+9:off+13], uint32(r.n))
	}
	return len(p), nil
}

func runUUID(c caseIn) (out *caseOut) {
	out = &caseOut{PropOK: true, Sched: []int{}, Markers: []int{}, Threads: []thrOut{}}
	src := &idxRand{fails: c.Fails}
	uuid.SetRand(src)
	defer uuid.SetRand(nil)
	defer func() {
		if r := recover(); r != nil {
			out.Draws = src.log
			// two failing reads in a row: uuid.New() panics (Must); the model stops there as well
			out.PropMsg = fmt.Sprintf("panic: %v", r)
		}
	}()
	ctx, cancel := context.WithCancel(context.Background())
	defer cancel()
	mgr := idgen.NewIDManager(memory.New(ctx), ctx)
	bare := idgen.NewUUIDGenerator("x_")
	seen := map[string]int{}
	for i := 0; i < c.N; i++ {
		var id string
		var err error
		switch c.Kind {
		case 0:
			id, err = mgr.GenerateConnectionID()
		case 1:
			id, err = mgr.GenerateTunnelID()
		case 2:
			id, err = mgr.GeneratePortMappingInstanceID()
		default:
			id, err = bare.Generate()
		}
		if err != nil {
			out.IDs = append(out.IDs, -1)
			continue
		}
		if j, dup := seen[id]; dup && out.PropOK {
			out.PropOK = false
			out.PropMsg = fmt.Sprintf("entropy reads failing as %v: Generate call #%d returned %q, the id call #%d returned and which is still live", c.Fails, i+1, id, j+1)
		}
		seen[id] = i
		idx := 0
		if k := len(id) - 36; k >= 0 {
			if u, perr := uuid.Parse(id[k:]); perr == nil && u != uuid.Nil {
				idx = int(binary.BigEndian.Uint32(u[9:13]))
			}
		}
		out.IDs = append(out.IDs, idx)
	}
	out.Draws = src.log
	return out
}

// ---- hybridnx mode: id generators over the shipped tiered facade whose cache tier has NO set-if-absent ----
// hybrid.Storage.SetNX then falls back to Exists + Set on the cache tier; it is hybrid's per-key lock that has to make the
// pair one critical section.  n callers, each with its OWN generator instance (so no generator mutex is shared), draw from a
// 1-slot id space through one hybrid.Storage; Exists and Set of the cache double are gated like in the fallback mode.
type plainCache struct {
	*plainStore
}

// (no key folding here: hybrid's per-key lock is keyed by the real key, so the callers must collide on the REAL key —
//  runHybridNX makes every caller draw the same candidates by installing a constant entropy source)
func (p *plainCache) Exists(key string) (bool, error) {
	p.wait()
	return p.under.Exists(key)
}
func (p *plainCache) Set(key string, value any, ttl time.Duration) error {
	p.wait()
	return p.under.Set(key, value, ttl)
}
func (p *plainCache) Delete(key string) error           { return p.under.Delete(key) }
func (p *plainCache) Get(key string) (any, error)       { return p.under.Get(key) }

type constEntropy struct{}

func (constEntropy) Read(b []byte) (int, error) {
	for i := range b {
		b[i] = 0x42
	}
	return len(b), nil
}
func (p *plainCache) SetExpiration(string, time.Duration) error { return nil }
func (p *plainCache) GetExpiration(string) (time.Duration, error) { return 0, nil }
func (p *plainCache) CleanupExpired() error                 { return nil }
func (p *plainCache) Close() error                          { return nil }

func runHybridNX(c caseIn) *caseOut {
	out := &caseOut{PropOK: true, Sched: []int{}, Markers: []int{}, Threads: []thrOut{}}
	ctx, cancel := context.WithCancel(context.Background())
	defer cancel()
	under := memory.New(ctx)
	n := c.N
	ps := &plainStore{Storage: under, under: under, who: map[int64]int{}, arrive: make(chan int, n), resume: make([]chan struct{}, n),
		faultExists: map[int]bool{}, faultSet: map[int]bool{}}
	hy := hybrid.New(ctx, &plainCache{ps}, nil, hybrid.DefaultConfig())
	savedEntropy := crand.Reader
	crand.Reader = constEntropy{} // every caller draws the same candidate: they collide on the real marker key
	defer func() { crand.Reader = savedEntropy }()
	type res struct{ ok bool }
	results := make([]chan res, n)
	for i := 0; i < n; i++ {
		ps.resume[i] = make(chan struct{}, 1)
		results[i] = make(chan res, 1)
		go func(i int) {
			ps.mu.Lock()
			ps.who[goid()] = i
			ps.mu.Unlock()
			gen := idgen.NewStorageIDGenerator[int64](hy, "", "tunnox:id:used:client", ctx) // one generator PER caller
			_, err := gen.Generate()
			results[i] <- res{err == nil}
		}(i)
	}
	parked := make([]bool, n)
	finished := make([]bool, n)
	got := 0
	drain := func(d time.Duration) {
		deadline := time.After(d)
		for {
			select {
			case j := <-ps.arrive:
				parked[j] = true
			case <-deadline:
				return
			}
		}
	}
	poll := func() {
		for i := 0; i < n; i++ {
			if !finished[i] {
				select {
				case r := <-results[i]:
					finished[i] = true
					if r.ok {
						got++
					}
				default:
				}
			}
		}
	}
	drain(30 * time.Millisecond)
	steps := 0
	for _, i := range c.Sched {
		if i < 0 || i >= n || finished[i] || !parked[i] {
			continue
		}
		parked[i] = false
		ps.resume[i] <- struct{}{}
		steps++
		drain(3 * time.Millisecond)
		poll()
		if steps > 40 {
			break
		}
	}
	ps.mu.Lock()
	ps.free = true
	ps.mu.Unlock()
	for i := 0; i < n; i++ {
		if parked[i] {
			ps.resume[i] <- struct{}{}
		}
	}
	deadline := time.After(20 * time.Second)
	for i := 0; i < n; i++ {
		if finished[i] {
			continue
		}
		select {
		case r := <-results[i]:
			if r.ok {
				got++
			}
		case <-ps.arrive:
			i--
		case <-deadline:
			out.PropOK, out.PropMsg = false, "hybridnx: a caller did not finish within 20s"
			return out
		}
	}
	if got > 1 {
		out.PropOK = false
		out.PropMsg = fmt.Sprintf("tiered store over a cache tier without set-if-absent, %d generator instances, one free slot: %d callers were handed the same id (hybrid's Exists+Set fallback of SetNX is not one critical section)", n, got)
	}
	return out
}

// ---- nodehb mode: the node-id lease is renewed while its holder lives ----
// AllocateNodeID with a context that stays live; after one heartbeat period (+ slack) the slot marker must have been renewed:
// remaining lifetime above NodeIDLockTTL - slack.  Real time (the 30 s ticker cannot be injected): run in parallel with the
// other cases by the driver.
func runNodeHB(c caseIn) *caseOut {
	out := &caseOut{PropOK: true, Sched: []int{}, Markers: []int{}, Threads: []thrOut{}}
	ctx, cancel := context.WithCancel(context.Background())
	defer cancel()
	under := memory.New(ctx)
	a := node.NewNodeIDAllocator(under)
	id, err := a.AllocateNodeID(ctx)
	if err != nil {
		out.PropOK, out.PropMsg = false, "AllocateNodeID failed: "+err.Error()
		return out
	}
	key := node.NodeIDKeyPrefix + id
	wait := time.Duration(c.N) * time.Millisecond // heartbeat period + slack, from Gen
	time.Sleep(wait)
	left, err := under.GetExpiration(key)
	out.NodeIDs = []string{fmt.Sprintf("%s left=%v after %v", id, left.Round(time.Second), wait)}
	if err != nil || left < node.NodeIDLockTTL-wait/2 { // renewed at one period: about TTL - slack left; never renewed: TTL - wait
		out.PropOK = false
		out.PropMsg = fmt.Sprintf("node id %s: %v after AllocateNodeID returned (holder alive, context live) the slot marker has %v left (err=%v) of its %v lease: the heartbeat did not renew it, so the id will be handed to another node while this one still holds it", id, wait, left, err, node.NodeIDLockTTL)
	}
	return out
}

// runNodeFull: the boundary "no free id": every slot of the range except those in Pre is held by some other live node
// (its marker is in the store).  n allocator objects run the sequence Sched (op = 2*i + kind; kind 0 = AllocateNodeID when the
// allocator holds nothing, kind 1 = the real Release()).  After EVERY step the set of markers in the store must be exactly
// (slots of the other live nodes) + (slots held by our allocators): an allocation succeeds with the lowest free slot iff one
// exists, and a failed allocation followed by Release makes no storage change (Model/IdGen.skip_noops).
func runNodeFull(c caseIn) *caseOut {
	out := &caseOut{PropOK: true, Sched: []int{}, Markers: []int{}, Threads: []thrOut{}}
	under := memory.New(context.Background())
	free := map[int]bool{}
	for _, k := range c.Pre {
		free[k] = true
	}
	expect := map[int]bool{} // slot -> marker expected
	for k := node.NodeIDMin; k <= node.NodeIDMax; k++ {
		if !free[k] {
			expect[k] = true
			_ = under.Set(fmt.Sprintf("%snode-%04d", node.NodeIDKeyPrefix, k), fmt.Sprintf("node-%04d", k), time.Hour)
		}
	}
	n := c.N
	if n < 1 {
		n = 1
	}
	ctx, cancel := context.WithCancel(context.Background())
	defer cancel()
	als := make([]*node.NodeIDAllocator, n)
	held := make([]int, n)
	out.Threads = make([]thrOut, n) // the same history in the vocabulary of Model/IdGen (script, candidates tried, results), replayed on the model
	for i := range als {
		als[i] = node.NewNodeIDAllocator(under)
		out.Threads[i] = thrOut{Log: [][2]int{}, Cands: []int{}, Ops: []string{}}
	}
	defer func() {
		for k := node.NodeIDMin; k <= node.NodeIDMax; k++ {
			if ex, _ := under.Exists(fmt.Sprintf("%snode-%04d", node.NodeIDKeyPrefix, k)); ex {
				out.Markers = append(out.Markers, k)
			}
		}
	}()
	fail := func(step int, f string, a ...any) *caseOut {
		out.PropOK, out.PropMsg = false, fmt.Sprintf("step %d of %v (free slots %v): ", step, c.Sched, c.Pre)+fmt.Sprintf(f, a...)
		return out
	}
	for step, op := range c.Sched {
		i, kind := (op/2)%n, op%2
		if kind == 0 {
			if held[i] != 0 {
				continue
			}
			want := 0
			for k := node.NodeIDMin; k <= node.NodeIDMax; k++ {
				if !expect[k] {
					want = k
					break
				}
			}
			id, err := als[i].AllocateNodeID(ctx)
			{ // one SetNX per candidate, in range order, up to and including the slot handed out
				th := &out.Threads[i]
				th.Ops = append(th.Ops, "G")
				last, got := node.NodeIDMax, 0
				fmt.Sscanf(id, "node-%d", &got)
				if err == nil && got >= node.NodeIDMin && got <= node.NodeIDMax {
					last = got
					th.Log = append(th.Log, [2]int{0, got})
				} else {
					th.Log = append(th.Log, [2]int{1, 0})
				}
				for k := node.NodeIDMin; k <= last; k++ {
					th.Cands = append(th.Cands, k)
					out.Sched = append(out.Sched, i)
				}
			}
			if want == 0 {
				if err == nil || id != "" {
					return fail(step, "allocator %d was handed %q although every slot is held by a live node", i, id)
				}
			} else {
				if err != nil {
					return fail(step, "allocator %d failed (%v) although slot %d is free", i, err, want)
				}
				if id != fmt.Sprintf("node-%04d", want) {
					return fail(step, "allocator %d was handed %s, the lowest free slot is %d", i, id, want)
				}
				held[i], expect[want] = want, true
			}
			out.NodeIDs = append(out.NodeIDs, fmt.Sprintf("%d:%s", i, id))
		} else {
			was := als[i].GetNodeID()
			if err := als[i].Release(); err != nil {
				return fail(step, "Release of allocator %d failed: %v", i, err)
			}
			out.Threads[i].Ops = append(out.Threads[i].Ops, "R")
			if held[i] != 0 { // (a Release with nothing held makes no storage call: no step, no log entry)
				out.Threads[i].Log = append(out.Threads[i].Log, [2]int{2, held[i]})
				out.Sched = append(out.Sched, i)
			} else if was != "" {
				return fail(step, "allocator %d holds nothing but remembers %q: its Release acts on a slot it does not own", i, was)
			}
			if held[i] != 0 {
				delete(expect, held[i])
				held[i] = 0
				als[i] = node.NewNodeIDAllocator(under) // (a released allocator object is not reused: its stop channel is closed)
			}
		}
		for k := node.NodeIDMin; k <= node.NodeIDMax; k++ {
			ex, _ := under.Exists(fmt.Sprintf("%snode-%04d", node.NodeIDKeyPrefix, k))
			if ex != expect[k] {
				who := "another live node"
				for j, h := range held {
					if h == k {
						who = fmt.Sprintf("allocator %d", j)
					}
				}
				if ex {
					return fail(step, "slot %d is marked although nobody holds it (a failed or released allocation left state behind)", k)
				}
				return fail(step, "the marker of slot %d, held by %s, is gone after %s of allocator %d: the slot will be handed to a second node", k, who, []string{"AllocateNodeID", "Release"}[kind], i)
			}
		}
	}
	return out
}

// keyRec: a memory store that records which keys are currently set (markers), to compare with the ids handed out
type keyRec struct {
	*memory.Storage
	mu   sync.Mutex
	keys map[string]bool
}

func (k *keyRec) SetNX(key string, value any, ttl time.Duration) (bool, error) {
	ok, err := k.Storage.SetNX(key, value, ttl)
	if ok && err == nil {
		k.mu.Lock()
		k.keys[key] = true
		k.mu.Unlock()
	}
	return ok, err
}
func (k *keyRec) Set(key string, value any, ttl time.Duration) error {
	err := k.Storage.Set(key, value, ttl)
	if err == nil {
		k.mu.Lock()
		k.keys[key] = true
		k.mu.Unlock()
	}
	return err
}
func (k *keyRec) Delete(key string) error {
	err := k.Storage.Delete(key)
	if err == nil {
		k.mu.Lock()
		delete(k.keys, key)
		k.mu.Unlock()
	}
	return err
}

// runWrap: the IDManager wrappers (GenerateClientID / NodeID / UserID / PortMappingID and the Release* / Is*Used partners) as the
// callers see them: the id HANDED OUT is the id that is marked (clause 2 of the theorem: held => marked, so that no other caller can
// be given it), the store holds exactly one marker per live id (clause 3), and Release of the handed-out id removes exactly that marker.
func runWrap(c caseIn) *caseOut {
	out := &caseOut{PropOK: true, Sched: []int{}, Markers: []int{}, Threads: []thrOut{}}
	ctx, cancel := context.WithCancel(context.Background())
	defer cancel()
	st := &keyRec{Storage: memory.New(ctx), keys: map[string]bool{}}
	mgr := idgen.NewIDManager(st, ctx)
	type kind struct {
		name string
		gen  func() (string, error)
		used func(string) (bool, error)
		rel  func(string) error
	}
	var lastClient = map[string]int64{}
	kinds := []kind{
		{"client", func() (string, error) {
			v, err := mgr.GenerateClientID()
			s := fmt.Sprint(v)
			lastClient[s] = v
			return s, err
		}, func(s string) (bool, error) { return mgr.IsClientIDUsed(lastClient[s]) }, func(s string) error { return mgr.ReleaseClientID(lastClient[s]) }},
		{"node", mgr.GenerateNodeID, mgr.IsNodeIDUsed, mgr.ReleaseNodeID},
		{"user", mgr.GenerateUserID, mgr.IsUserIDUsed, mgr.ReleaseUserID},
		{"port-mapping", mgr.GeneratePortMappingID, mgr.IsPortMappingIDUsed, mgr.ReleasePortMappingID},
	}
	n := c.N
	if n < 1 {
		n = 8
	}
	nkeys := func() int { st.mu.Lock(); defer st.mu.Unlock(); return len(st.keys) }
	for _, k := range kinds {
		base := nkeys()
		seen := map[string]bool{}
		var ids []string
		for i := 0; i < n; i++ {
			id, err := k.gen()
			if err != nil {
				out.PropOK, out.PropMsg = false, fmt.Sprintf("%s id: generation %d failed on an almost empty store: %v", k.name, i, err)
				return out
			}
			if seen[id] {
				out.PropOK, out.PropMsg = false, fmt.Sprintf("%s id %s handed out twice while live", k.name, id)
				return out
			}
			seen[id] = true
			ids = append(ids, id)
			if u, err := k.used(id); err != nil || !u {
				out.PropOK, out.PropMsg = false, fmt.Sprintf("%s id %s was handed out but is not marked as used (used=%v err=%v): the id the caller holds is not the id the store protects, so another caller can be given it", k.name, id, u, err)
				return out
			}
			if got := nkeys() - base; got != i+1 {
				out.PropOK, out.PropMsg = false, fmt.Sprintf("%s ids: %d live ids but %d markers in the store", k.name, i+1, got)
				return out
			}
		}
		out.NodeIDs = append(out.NodeIDs, k.name+":"+ids[0])
		for i, id := range ids {
			if err := k.rel(id); err != nil {
				out.PropOK, out.PropMsg = false, fmt.Sprintf("%s id %s: release failed: %v", k.name, id, err)
				return out
			}
			if u, _ := k.used(id); u {
				out.PropOK, out.PropMsg = false, fmt.Sprintf("%s id %s is still marked after its release", k.name, id)
				return out
			}
			if got := nkeys() - base; got != len(ids)-i-1 {
				out.PropOK, out.PropMsg = false, fmt.Sprintf("%s ids: after releasing %d of %d ids the store holds %d markers: a release did not remove exactly its own marker", k.name, i+1, len(ids), got)
				return out
			}
		}
	}
	return out
}

// runStress: many concurrent callers of ONE IDManager (one generator instance per id kind) on one store, free-running.
// Everything a generator does besides its storage calls (building the marker key, ...) must be safe for concurrent callers too:
// afterwards every id handed out is distinct, every one of them is marked (clause 2: held => marked) and the store holds
// exactly one marker per id (clause 3).
func runStress(c caseIn) *caseOut {
	out := &caseOut{PropOK: true, Sched: []int{}, Markers: []int{}, Threads: []thrOut{}}
	ctx, cancel := context.WithCancel(context.Background())
	defer cancel()
	st := &keyRec{Storage: memory.New(ctx), keys: map[string]bool{}}
	mgr := idgen.NewIDManager(st, ctx)
	workers, per := 16, c.N
	if per < 1 {
		per = 500
	}
	type kind struct {
		name string
		gen  func() (string, error)
		used func(string) (bool, error)
	}
	var mu sync.Mutex
	clientOf := map[string]int64{}
	kinds := []kind{
		{"client", func() (string, error) {
			v, err := mgr.GenerateClientID()
			s := fmt.Sprint(v)
			mu.Lock()
			clientOf[s] = v
			mu.Unlock()
			return s, err
		}, func(s string) (bool, error) { return mgr.IsClientIDUsed(clientOf[s]) }},
		{"user", mgr.GenerateUserID, mgr.IsUserIDUsed},
		{"port-mapping", mgr.GeneratePortMappingID, mgr.IsPortMappingIDUsed},
	}
	for _, k := range kinds {
		st.mu.Lock()
		base := len(st.keys)
		st.mu.Unlock()
		ids := make([][]string, workers)
		errs := make([]error, workers)
		start := make(chan struct{})
		var wg sync.WaitGroup
		for w := 0; w < workers; w++ {
			wg.Add(1)
			go func(w int) {
				defer wg.Done()
				<-start
				for i := 0; i < per; i++ {
					id, err := k.gen()
					if err != nil {
						errs[w] = err
						return
					}
					ids[w] = append(ids[w], id)
				}
			}(w)
		}
		close(start)
		wg.Wait()
		seen := map[string]bool{}
		total := 0
		for w := range ids {
			if errs[w] != nil {
				out.PropOK, out.PropMsg = false, fmt.Sprintf("%s ids: a concurrent generation failed on an almost empty store: %v", k.name, errs[w])
				return out
			}
			for _, id := range ids[w] {
				if seen[id] {
					out.PropOK, out.PropMsg = false, fmt.Sprintf("%s id %s was handed out twice to %d concurrent callers of one generator", k.name, id, workers)
					return out
				}
				seen[id] = true
				total++
			}
		}
		unmarked := 0
		first := ""
		for id := range seen {
			if u, err := k.used(id); err != nil || !u {
				unmarked++
				if first == "" {
					first = id
				}
			}
		}
		st.mu.Lock()
		nk := len(st.keys) - base
		st.mu.Unlock()
		if unmarked > 0 || nk != total {
			out.PropOK = false
			out.PropMsg = fmt.Sprintf("%s ids: %d concurrent callers of one generator were handed %d ids, %d of them are NOT marked as used (e.g. %s) and the store holds %d markers: an id a caller holds is not protected, another caller can be given it", k.name, workers, total, unmarked, first, nk)
			return out
		}
	}
	return out
}

// hookShared: a shared cache tier WITH set-if-absent; the first Exists on a marker key runs `hook` after it has answered
// (the window between a check and a write, were a node to take a marker by check-then-write on the shared tier)
type hookShared struct {
	*memory.Storage
	mu    sync.Mutex
	armed bool
	hook  func()
	calls []string
}

func (h *hookShared) note(op, key string) {
	if strings.HasPrefix(key, "tunnox:id:used:") {
		h.mu.Lock()
		h.calls = append(h.calls, op)
		h.mu.Unlock()
	}
}
func (h *hookShared) Exists(key string) (bool, error) {
	ok, err := h.Storage.Exists(key)
	h.note("Exists", key)
	h.mu.Lock()
	fire := h.armed && strings.HasPrefix(key, "tunnox:id:used:")
	if fire {
		h.armed = false
	}
	h.mu.Unlock()
	if fire {
		h.hook()
	}
	return ok, err
}
func (h *hookShared) SetNX(key string, value any, ttl time.Duration) (bool, error) {
	h.note("SetNX", key)
	return h.Storage.SetNX(key, value, ttl)
}

// runHybrid2: TWO nodes, each with its own hybrid.Storage (private local cache) over ONE shared cache tier that offers atomic
// set-if-absent.  Both draw the same candidate.  Node B's whole generation is run inside node A's first existence check of the
// marker on the shared tier, should A make one: the per-key lock of a hybrid instance is per node, so only the shared tier's
// atomic set-if-absent can arbitrate between nodes.  At most one node may be handed the candidate.
func runHybrid2(c caseIn) *caseOut {
	out := &caseOut{PropOK: true, Sched: []int{}, Markers: []int{}, Threads: []thrOut{}}
	ctx, cancel := context.WithCancel(context.Background())
	defer cancel()
	shared := &hookShared{Storage: memory.New(ctx)}
	nodeA := hybrid.NewWithSharedCache(ctx, memory.New(ctx), shared, nil, nil)
	nodeB := hybrid.NewWithSharedCache(ctx, memory.New(ctx), shared, nil, nil)
	savedEntropy := crand.Reader
	crand.Reader = constEntropy{}
	defer func() { crand.Reader = savedEntropy }()
	mk := func(st storage.Storage) func() (string, error) {
		switch c.Kind {
		case 1:
			g := idgen.NewStorageIDGenerator[string](st, "pmap_", "tunnox:id:used:pmap", ctx)
			return g.Generate
		default:
			g := idgen.NewStorageIDGenerator[int64](st, "", "tunnox:id:used:client", ctx)
			return func() (string, error) { v, err := g.Generate(); return fmt.Sprint(v), err }
		}
	}
	genA, genB := mk(nodeA), mk(nodeB)
	var idB string
	var errB error
	ranB := false
	shared.hook = func() { ranB = true; idB, errB = genB() }
	shared.armed = true
	idA, errA := genA()
	if !ranB {
		idB, errB = genB()
	}
	out.NodeIDs = []string{fmt.Sprintf("A:%s(%v)", idA, errA), fmt.Sprintf("B:%s(%v)", idB, errB), fmt.Sprintf("B-inside-A's-check:%v", ranB)}
	if errA == nil && errB == nil && idA == idB {
		out.PropOK = false
		out.PropMsg = fmt.Sprintf("two nodes (two hybrid stores over one shared cache WITH set-if-absent) were both handed id %s: node B generated inside node A's existence check of the marker on the shared tier (shared-tier calls on marker keys: %v)", idA, shared.calls)
	}
	return out
}

// runUniqWrap: the GenerateUnique* wrappers with a scripted "already exists in the repository" check: a candidate the check
// reports as taken is never handed out, and its marker is released again
func runUniqWrap(c caseIn) *caseOut {
	out := &caseOut{PropOK: true, Sched: []int{}, Markers: []int{}, Threads: []thrOut{}}
	ctx, cancel := context.WithCancel(context.Background())
	defer cancel()
	st := &keyRec{Storage: memory.New(ctx), keys: map[string]bool{}}
	mgr := idgen.NewIDManager(st, ctx)
	taken := c.N // the first N candidates are reported as existing
	type w struct {
		name string
		run  func(check func(string) (bool, error)) (string, error)
	}
	ws := []w{
		{"GenerateUniqueClientID", func(ck func(string) (bool, error)) (string, error) {
			v, err := mgr.GenerateUniqueClientID(func(x int64) (bool, error) { return ck(fmt.Sprint(x)) })
			return fmt.Sprint(v), err
		}},
		{"GenerateUniquePortMappingID", mgr.GenerateUniquePortMappingID},
		{"GenerateUniqueNodeID", mgr.GenerateUniqueNodeID},
	}
	for _, x := range ws {
		st.mu.Lock()
		base := len(st.keys)
		st.mu.Unlock()
		var refused []string
		id, err := x.run(func(cand string) (bool, error) {
			if len(refused) < taken {
				refused = append(refused, cand)
				return true, nil
			}
			return false, nil
		})
		if err != nil {
			out.PropOK, out.PropMsg = false, fmt.Sprintf("%s failed although only %d candidates were reported as taken: %v", x.name, taken, err)
			return out
		}
		for _, r := range refused {
			if r == id {
				out.PropOK, out.PropMsg = false, fmt.Sprintf("%s handed out %s although the existence check reported exactly this candidate as already taken", x.name, id)
				return out
			}
		}
		st.mu.Lock()
		nk := len(st.keys) - base
		st.mu.Unlock()
		if nk != 1 {
			out.PropOK, out.PropMsg = false, fmt.Sprintf("%s: one id handed out after %d refused candidates, but the store holds %d new markers (refused candidates must be released)", x.name, len(refused), nk)
			return out
		}
		out.NodeIDs = append(out.NodeIDs, x.name+":"+id)
	}
	return out
}

// runMgr2: TWO IDManagers (two nodes) directly over ONE store that offers atomic set-if-absent.  Both draw the same candidate;
// node B's whole generation runs inside node A's first existence check of a marker, should A make one (a generator that does
// not reach the store's SetNX falls back to check-then-write, which only its own mutex protects).  At most one may be handed it.
func runMgr2(c caseIn) *caseOut {
	out := &caseOut{PropOK: true, Sched: []int{}, Markers: []int{}, Threads: []thrOut{}}
	ctx, cancel := context.WithCancel(context.Background())
	defer cancel()
	shared := &hookShared{Storage: memory.New(ctx)}
	mA, mB := idgen.NewIDManager(shared, ctx), idgen.NewIDManager(shared, ctx)
	savedEntropy := crand.Reader
	crand.Reader = constEntropy{}
	defer func() { crand.Reader = savedEntropy }()
	pick := func(m *idgen.IDManager) func() (string, error) {
		switch c.Kind {
		case 1:
			return m.GenerateUserID
		case 2:
			return m.GeneratePortMappingID
		case 3:
			return m.GenerateNodeID
		default:
			return func() (string, error) { v, err := m.GenerateClientID(); return fmt.Sprint(v), err }
		}
	}
	genA, genB := pick(mA), pick(mB)
	var idB string
	var errB error
	ranB := false
	shared.hook = func() { ranB = true; idB, errB = genB() }
	shared.armed = true
	idA, errA := genA()
	if !ranB {
		idB, errB = genB()
	}
	out.NodeIDs = []string{fmt.Sprintf("A:%s(%v)", idA, errA), fmt.Sprintf("B:%s(%v)", idB, errB), fmt.Sprintf("B-inside-A's-check:%v", ranB)}
	if errA == nil && errB == nil && idA == idB {
		out.PropOK = false
		out.PropMsg = fmt.Sprintf("two IDManagers (two nodes) on one store WITH set-if-absent were both handed id %s: node B generated inside node A's existence check of the marker (store calls on marker keys: %v) — the generators do not use the store's atomic set-if-absent", idA, shared.calls)
	}
	return out
}

// lateDeleteStore: the FIRST Delete of a node-slot key passes; any further Delete of the same key is parked until `release`
// is closed (or 300 ms pass): a second, late delete of a slot that has been released once must not exist at all, and if it does
// it now lands after another node has taken the slot
type lateDeleteStore struct {
	*memory.Storage
	mu      sync.Mutex
	deletes map[string]int
	late    int
	release chan struct{}
}

func (l *lateDeleteStore) Delete(key string) error {
	if strings.HasPrefix(key, node.NodeIDKeyPrefix) {
		l.mu.Lock()
		l.deletes[key]++
		n := l.deletes[key]
		if n > 1 {
			l.late++
		}
		l.mu.Unlock()
		if n > 1 {
			select {
			case <-l.release:
			case <-time.After(300 * time.Millisecond):
			}
		}
	}
	return l.Storage.Delete(key)
}

// runNodeRel: node A allocates a slot and releases it; node B takes the freed slot; whatever A's allocator still does afterwards
// (heartbeat goroutine winding down) must not touch the slot again: B's marker stays and node C is given another slot.
func runNodeRel(c caseIn) *caseOut {
	out := &caseOut{PropOK: true, Sched: []int{}, Markers: []int{}, Threads: []thrOut{}}
	ctx, cancel := context.WithCancel(context.Background())
	defer cancel()
	st := &lateDeleteStore{Storage: memory.New(ctx), deletes: map[string]int{}, release: make(chan struct{})}
	a, b, cc := node.NewNodeIDAllocator(st), node.NewNodeIDAllocator(st), node.NewNodeIDAllocator(st)
	ctxA, cancelA := context.WithCancel(ctx)
	idA, err := a.AllocateNodeID(ctxA)
	if err != nil {
		out.PropOK, out.PropMsg = false, "AllocateNodeID failed: "+err.Error()
		return out
	}
	if c.Kind == 1 {
		cancelA() // shutdown order: context first, then Release
	}
	if err := a.Release(); err != nil {
		out.PropOK, out.PropMsg = false, "Release failed: "+err.Error()
		return out
	}
	if c.Kind != 1 {
		defer cancelA()
	}
	time.Sleep(20 * time.Millisecond) // let A's heartbeat goroutine reach whatever it does on its way out
	idB, err := b.AllocateNodeID(ctx)
	if err != nil {
		out.PropOK, out.PropMsg = false, "second AllocateNodeID failed: "+err.Error()
		return out
	}
	close(st.release) // a parked late delete lands now, after B took the slot
	time.Sleep(30 * time.Millisecond)
	okB, _ := st.Exists(node.NodeIDKeyPrefix + idB)
	idC, errC := cc.AllocateNodeID(ctx)
	st.mu.Lock()
	late := st.late
	st.mu.Unlock()
	out.NodeIDs = []string{"A:" + idA, "B:" + idB, fmt.Sprintf("C:%s(%v)", idC, errC), fmt.Sprintf("late-deletes:%d", late)}
	if !okB || (errC == nil && idC == idB) {
		out.PropOK = false
		out.PropMsg = fmt.Sprintf("node A released %s, node B was given the freed slot %s; afterwards A's allocator deleted the slot marker AGAIN (%d late delete(s)): B's marker present=%v and node C was given %s while B is alive", idA, idB, late, okB, idC)
	}
	return out
}

//go:build verif

// Storage double for fault injection: the real memory storage; while armed, the k-th storage call made (by anybody) returns
// an injected error instead of being executed — one fault per command, every call position is tried by the driver.
package main

import (
	"errors"
	"sync"
	"time"

	"tunnox-core/internal/core/storage/memory"
)

var errInjected = errors.New("verif: injected storage failure (i/o timeout)")

type faultStore struct {
	*memory.Storage
	mu      sync.Mutex
	armed   bool
	failAt  int // 1-based position of the call that fails; 0 = count only
	calls   int
	fired   bool
	firedOn string
	// park mode (concurrent pairs): the k-th storage call blocks until released; calls made meanwhile pass through uncounted
	parkAt int
	parked chan struct{}
	gate   chan struct{}
}

// armPark: the parkAt-th storage call from now on parks (one-shot)
func (f *faultStore) armPark(parkAt int) (parked chan struct{}) {
	f.mu.Lock()
	defer f.mu.Unlock()
	f.armed, f.failAt, f.calls, f.fired, f.firedOn = true, 0, 0, false, ""
	f.parkAt, f.parked, f.gate = parkAt, make(chan struct{}), make(chan struct{})
	return f.parked
}
func (f *faultStore) release() {
	f.mu.Lock()
	g := f.gate
	f.gate, f.parkAt, f.armed = nil, 0, false
	f.mu.Unlock()
	if g != nil {
		close(g)
	}
}

func (f *faultStore) arm(failAt int) {
	f.mu.Lock()
	defer f.mu.Unlock()
	f.armed, f.failAt, f.calls, f.fired, f.firedOn = true, failAt, 0, false, ""
}
func (f *faultStore) disarm() (calls int, fired bool, on string) {
	f.mu.Lock()
	defer f.mu.Unlock()
	f.armed = false
	return f.calls, f.fired, f.firedOn
}
func (f *faultStore) hit(op, key string) bool {
	f.mu.Lock()
	if f.armed && f.parkAt > 0 {
		f.calls++
		if f.calls == f.parkAt {
			g := f.gate
			f.armed, f.firedOn = false, op+" "+key // later calls (the other command's) pass through
			close(f.parked)
			f.mu.Unlock()
			<-g
			return false
		}
		f.mu.Unlock()
		return false
	}
	defer f.mu.Unlock()
	if !f.armed {
		return false
	}
	f.calls++
	if f.failAt > 0 && f.calls == f.failAt {
		f.fired, f.firedOn = true, op+" "+key
		return true
	}
	return false
}

func (f *faultStore) Set(key string, value any, ttl time.Duration) error {
	if f.hit("Set", key) {
		return errInjected
	}
	return f.Storage.Set(key, value, ttl)
}
func (f *faultStore) Get(key string) (any, error) {
	if f.hit("Get", key) {
		return nil, errInjected
	}
	return f.Storage.Get(key)
}
func (f *faultStore) Delete(key string) error {
	if f.hit("Delete", key) {
		return errInjected
	}
	return f.Storage.Delete(key)
}
func (f *faultStore) Exists(key string) (bool, error) {
	if f.hit("Exists", key) {
		return false, errInjected
	}
	return f.Storage.Exists(key)
}
func (f *faultStore) SetNX(key string, value any, ttl time.Duration) (bool, error) {
	if f.hit("SetNX", key) {
		return false, errInjected
	}
	return f.Storage.SetNX(key, value, ttl)
}
func (f *faultStore) CompareAndSwap(key string, o, n any, ttl time.Duration) (bool, error) {
	if f.hit("CompareAndSwap", key) {
		return false, errInjected
	}
	return f.Storage.CompareAndSwap(key, o, n, ttl)
}
func (f *faultStore) Incr(key string) (int64, error) {
	if f.hit("Incr", key) {
		return 0, errInjected
	}
	return f.Storage.Incr(key)
}
func (f *faultStore) IncrBy(key string, d int64) (int64, error) {
	if f.hit("IncrBy", key) {
		return 0, errInjected
	}
	return f.Storage.IncrBy(key, d)
}
func (f *faultStore) SetList(key string, values []any, ttl time.Duration) error {
	if f.hit("SetList", key) {
		return errInjected
	}
	return f.Storage.SetList(key, values, ttl)
}
func (f *faultStore) GetList(key string) ([]any, error) {
	if f.hit("GetList", key) {
		return nil, errInjected
	}
	return f.Storage.GetList(key)
}
func (f *faultStore) AppendToList(key string, value any) error {
	if f.hit("AppendToList", key) {
		return errInjected
	}
	return f.Storage.AppendToList(key, value)
}
func (f *faultStore) RemoveFromList(key string, value any) error {
	if f.hit("RemoveFromList", key) {
		return errInjected
	}
	return f.Storage.RemoveFromList(key, value)
}
func (f *faultStore) SetHash(key, field string, value any) error {
	if f.hit("SetHash", key) {
		return errInjected
	}
	return f.Storage.SetHash(key, field, value)
}
func (f *faultStore) GetHash(key, field string) (any, error) {
	if f.hit("GetHash", key) {
		return nil, errInjected
	}
	return f.Storage.GetHash(key, field)
}
func (f *faultStore) GetAllHash(key string) (map[string]any, error) {
	if f.hit("GetAllHash", key) {
		return nil, errInjected
	}
	return f.Storage.GetAllHash(key)
}
func (f *faultStore) DeleteHash(key, field string) error {
	if f.hit("DeleteHash", key) {
		return errInjected
	}
	return f.Storage.DeleteHash(key, field)
}

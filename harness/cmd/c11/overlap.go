//go:build verif

// Overlapping commands: a handler that is still running while other commands are dispatched must keep seeing the
// context of ITS OWN command (connection id, ClientID resolved from that connection, its own body) for its whole run.
//
// Execute returns before the handler is finished for one-way commands (executeOneway) and for duplex commands that
// outlive the RPC timeout (executeDuplex); from then on the executor must not touch the context it handed to the handler.
//
// A case is a list of commands ("threads") and a schedule of operations on ONE real executor/session:
//   D i : hand command i to SessionManager.HandlePacket and wait until Execute has returned AND its handler is parked
//         (test handlers: after their first look at the context; HTTPDomainCreate: inside the gated storage call
//          repository.CheckSubdomainAvailable -> storage.Exists, which the real handler performs BEFORE it reads ctx.ClientID
//          for CreateHTTPDomainMapping and ctx.ConnectionID for the response)
//   R i : release handler i for one more look at its context (test handlers) / to completion (HTTPDomainCreate)
// Kinds: oneway  — verif test handler registered as a one-way command type on the real registry
//        timeout — verif test handler registered as a duplex command type; the RPC timeout is shortened so that it outlives Execute
//        domcreate — the real HTTPDomainCreateHandler + real repository over a gated storage double
// Every observation is reported as the pair (connection index, client index) [+ the body tag]; where the real code shows only
// one half (the owner of the created domain; the connection a response packet was written to) the other half is completed
// through the registry binding, which is one-to-one in these cases.
package main

import (
	"context"
	"encoding/json"
	"fmt"
	"runtime"
	"strings"
	"sync"
	"time"

	"tunnox-core/internal/app/server"
	"tunnox-core/internal/command"
	"tunnox-core/internal/core/storage/memory"
	"tunnox-core/internal/core/types"
	"tunnox-core/internal/packet"
	"tunnox-core/internal/protocol/session"
)

const (
	ovlOnewayType packet.CommandType = 200
	ovlDuplexType packet.CommandType = 201
)

type ovlThread struct {
	Conn  int    `json:"conn"`  // long-lived connection index (= client index) the command arrives on
	Kind  string `json:"kind"`  // oneway | timeout | domcreate
	Reads int    `json:"reads"` // gated looks at the context after the first one (test handlers)
}
type ovlCase struct {
	NClients int           `json:"nclients"`
	Threads  []ovlThread   `json:"threads"`
	Ops      [][]int       `json:"ops"` // [0, i] = D i ; [1, i] = R i
	Procs    int           `json:"procs"` // GOMAXPROCS during the case (1 = one P, the schedule is fully determined by the gates)
}
type ovlOut struct {
	Obs      [][][]int64 `json:"obs"`  // per thread: [conn, client, tag] observations in order
	Own      [][]int64   `json:"own"`  // per thread: the pair it must observe
	SetupErr string      `json:"setup_err,omitempty"`
	Err      string      `json:"err,omitempty"`
	PropOK   bool        `json:"prop_ok"`
	PropKey  string      `json:"prop_key,omitempty"`
	PropMsg  string      `json:"prop_msg,omitempty"`
}

// storage double: the real memory storage with a gate in front of Exists for armed keys
type gatedStore struct {
	*memory.Storage
	mu      sync.Mutex
	gates   map[string]chan struct{} // substring of the key -> gate
	waiting map[string]chan struct{} // closed when a caller is parked on the gate
}

func (g *gatedStore) arm(sub string) {
	g.mu.Lock()
	defer g.mu.Unlock()
	g.gates[sub] = make(chan struct{})
	g.waiting[sub] = make(chan struct{})
}
func (g *gatedStore) Exists(key string) (bool, error) {
	g.mu.Lock()
	var gate, wait chan struct{}
	for sub, ch := range g.gates {
		if strings.Contains(key, sub) {
			gate, wait = ch, g.waiting[sub]
			delete(g.gates, sub)
			parkedGates.Store(sub, ch)
		}
	}
	g.mu.Unlock()
	if gate != nil {
		close(wait)
		<-gate
	}
	return g.Storage.Exists(key)
}

// test handler: looks at its context, parks on a gate, looks again ...
type ovlHandler struct {
	*command.BaseHandler
	mu    sync.Mutex
	slots map[string]*ovlSlot // CommandId -> slot
}
type ovlSlot struct {
	looked chan [3]string // one message per look at the context: ConnectionID, ClientID, RequestBody
	gate   chan struct{}
	reads  int
}

func (h *ovlHandler) Handle(ctx *types.CommandContext) (*types.CommandResponse, error) {
	h.mu.Lock()
	slot := h.slots[ctx.CommandId]
	h.mu.Unlock()
	if slot == nil {
		return &types.CommandResponse{Success: false, Error: "no slot", CommandId: ctx.CommandId}, nil
	}
	look := func() { slot.looked <- [3]string{ctx.ConnectionID, fmt.Sprintf("%d", ctx.ClientID), ctx.RequestBody} }
	look()
	for i := 0; i < slot.reads; i++ {
		<-slot.gate
		look()
	}
	return &types.CommandResponse{Success: true, CommandId: ctx.CommandId, RequestID: ctx.RequestID, Data: `{"ok":true}`}, nil
}

func runOverlap(raw json.RawMessage) interface{} {
	var c ovlCase
	must(json.Unmarshal(raw, &c))
	out := &ovlOut{PropOK: true}
	if c.Procs > 0 {
		defer runtime.GOMAXPROCS(runtime.GOMAXPROCS(c.Procs))
	}
	ctx, cancel := context.WithCancel(context.Background())
	defer cancel()
	gs := &gatedStore{Storage: memory.New(ctx), gates: map[string]chan struct{}{}, waiting: map[string]chan struct{}{}}
	fx, err := server.VerifNewFixture(ctx, gs, server.VerifFixtureOptions{NodeID: "node-c11-ovl"})
	if err != nil {
		out.SetupErr = err.Error()
		out.PropOK = false
		return out
	}
	defer fx.Close()
	exec, ok := fx.Session.GetCommandExecutor().(*command.CommandExecutor)
	if !ok {
		out.SetupErr = "executor is not *command.CommandExecutor"
		out.PropOK = false
		return out
	}
	exec.VerifC11SetTimeout(40 * time.Millisecond)
	oneway := &ovlHandler{BaseHandler: command.NewBaseHandler(ovlOnewayType, command.CategoryManagement, command.DirectionOneway, "verif_oneway", "verif"), slots: map[string]*ovlSlot{}}
	duplex := &ovlHandler{BaseHandler: command.NewBaseHandler(ovlDuplexType, command.CategoryManagement, command.DirectionDuplex, "verif_duplex", "verif"), slots: map[string]*ovlSlot{}}
	reg := exec.GetRegistry()
	if err := reg.Register(oneway); err != nil {
		out.SetupErr = err.Error()
	}
	if err := reg.Register(duplex); err != nil {
		out.SetupErr = err.Error()
	}
	// clients and their control connections (as in newWorld)
	clientID := []int64{0}
	connID := []string{""}
	conns := []*capConn{nil}
	for i := 1; i <= c.NClients && out.SetupErr == ""; i++ {
		fc := newCapConn(nextIP())
		defer fc.Close()
		conn, err := fx.Session.CreateConnection(fc, fc)
		if err != nil {
			out.SetupErr = err.Error()
			break
		}
		cl, err := fx.Cloud.GenerateAnonymousCredentials()
		if err != nil {
			out.SetupErr = err.Error()
			break
		}
		fx.Session.RegisterControlConnection(session.NewControlConnection(conn.ID, conn.Stream, fc.RemoteAddr(), "tcp"))
		if err := fx.Session.UpdateControlConnectionAuth(conn.ID, cl.ID, ""); err != nil {
			out.SetupErr = err.Error()
			break
		}
		clientID = append(clientID, cl.ID)
		connID = append(connID, conn.ID)
		conns = append(conns, fc)
	}
	if out.SetupErr != "" {
		out.PropOK = false
		return out
	}
	connIdx := func(id string) int64 {
		for i, x := range connID {
			if i > 0 && x == id {
				return int64(i)
			}
		}
		return 99
	}
	clientIdx := func(id int64) int64 {
		for i, x := range clientID {
			if i > 0 && x == id {
				return int64(i)
			}
		}
		if id == 0 {
			return 0
		}
		return 99
	}
	n := len(c.Threads)
	out.Obs = make([][][]int64, n)
	out.Own = make([][]int64, n)
	slots := make([]*ovlSlot, n)
	cmdID := make([]string, n)
	sub := make([]string, n)
	released := make([]int, n)
	cmdSeq++
	base := cmdSeq
	for i, t := range c.Threads {
		out.Obs[i] = [][]int64{}
		out.Own[i] = []int64{int64(t.Conn), int64(t.Conn), int64(i)}
		cmdID[i] = fmt.Sprintf("ovl-%d-%d", i, base)
		sub[i] = fmt.Sprintf("ovl%dx%d", i, base)
	}
	tagOfBody := func(b string) int64 {
		var m struct {
			T int64 `json:"t"`
		}
		if json.Unmarshal([]byte(b), &m) != nil {
			return 98
		}
		return m.T
	}
	tagOfCmdID := func(id string) int64 {
		var i, b int
		if _, err := fmt.Sscanf(id, "ovl-%d-%d", &i, &b); err != nil {
			return 98
		}
		return int64(i)
	}
	recv := func(i int) bool { // one look of test handler i
		select {
		case l := <-slots[i].looked:
			var cid int64
			fmt.Sscanf(l[1], "%d", &cid)
			out.Obs[i] = append(out.Obs[i], []int64{connIdx(l[0]), clientIdx(cid), tagOfBody(l[2])})
			return true
		case <-time.After(5 * time.Second):
			out.Err += fmt.Sprintf(" handler %d did not look at its context within 5s;", i)
			return false
		}
	}
	// the response packet of command i: which connection was it written to?
	respSeen := map[string]bool{}
	findResp := func(i int) bool {
		deadline := time.Now().Add(5 * time.Second)
		for time.Now().Before(deadline) {
			for ci := 1; ci < len(conns); ci++ {
				for _, p := range decodeAll(conns[ci].peek()) {
					if p.CommandPacket == nil || !p.PacketType.IsCommandResp() {
						continue
					}
					key := fmt.Sprintf("%d/%s/%s", ci, p.CommandPacket.CommandId, p.CommandPacket.CommandBody)
					if respSeen[key] {
						continue
					}
					// a response belongs to thread i if it is the first unseen one written after i's completion that carries
					// i's command id, or (context overwritten) any unseen response: take command-id matches first
					if p.CommandPacket.CommandId == cmdID[i] {
						respSeen[key] = true
						out.Obs[i] = append(out.Obs[i], []int64{int64(ci), int64(ci), tagOfCmdID(p.CommandPacket.CommandId)})
						return true
					}
				}
			}
			// no response with i's id: accept any unseen response (it was routed / labelled with another command's context)
			if time.Until(deadline) < 4500*time.Millisecond {
				for ci := 1; ci < len(conns); ci++ {
					for _, p := range decodeAll(conns[ci].peek()) {
						if p.CommandPacket == nil || !p.PacketType.IsCommandResp() {
							continue
						}
						key := fmt.Sprintf("%d/%s/%s", ci, p.CommandPacket.CommandId, p.CommandPacket.CommandBody)
						if !respSeen[key] {
							respSeen[key] = true
							out.Obs[i] = append(out.Obs[i], []int64{int64(ci), int64(ci), tagOfCmdID(p.CommandPacket.CommandId)})
							return true
						}
					}
				}
			}
			time.Sleep(2 * time.Millisecond)
		}
		out.Err += fmt.Sprintf(" no response packet for command %d within 5s;", i)
		return false
	}
	domainsOf := func() map[string]int64 {
		m := map[string]int64{}
		ds, _ := fx.HTTPDomainRepo.ListAllMappings(context.Background())
		for _, d := range ds {
			m[d.Subdomain] = d.ClientID
		}
		return m
	}
	dispatched := make([]bool, n)
opsLoop:
	for _, op := range c.Ops {
		if len(op) != 2 || op[1] < 0 || op[1] >= n {
			out.Err += " bad op;"
			break
		}
		i := op[1]
		t := c.Threads[i]
		switch op[0] {
		case 0: // D i
			if dispatched[i] || t.Conn <= 0 || t.Conn >= len(connID) {
				out.Err += " bad D;"
				break opsLoop
			}
			dispatched[i] = true
			var cp *packet.CommandPacket
			switch t.Kind {
			case "oneway", "timeout":
				slots[i] = &ovlSlot{looked: make(chan [3]string, 8), gate: make(chan struct{}), reads: t.Reads}
				h, ty := oneway, ovlOnewayType
				if t.Kind == "timeout" {
					h, ty = duplex, ovlDuplexType
				}
				h.mu.Lock()
				h.slots[cmdID[i]] = slots[i]
				h.mu.Unlock()
				cp = &packet.CommandPacket{CommandType: ty, CommandId: cmdID[i], CommandBody: fmt.Sprintf(`{"t":%d}`, i)}
			case "domcreate":
				gs.arm(sub[i])
				b, _ := json.Marshal(map[string]interface{}{"subdomain": sub[i], "base_domain": "tunnox.net", "target_url": "http://localhost:3000", "t": i})
				cp = &packet.CommandPacket{CommandType: packet.HTTPDomainCreate, CommandId: cmdID[i], CommandBody: string(b)}
			default:
				out.Err += " bad kind;"
				break opsLoop
			}
			done := make(chan struct{})
			go func() {
				defer func() { _ = recover(); close(done) }()
				_ = fx.Session.HandlePacket(&types.StreamPacket{ConnectionID: connID[t.Conn], Timestamp: time.Now(),
					Packet: &packet.TransferPacket{PacketType: packet.JsonCommand, CommandPacket: cp}})
			}()
			select {
			case <-done: // Execute has returned (at once for one-way, after the RPC timeout for the parked duplex handlers)
			case <-time.After(5 * time.Second):
				out.Err += fmt.Sprintf(" Execute of command %d did not return within 5s;", i)
				break opsLoop
			}
			if t.Kind == "domcreate" {
				gs.mu.Lock()
				wait := gs.waiting[sub[i]]
				gs.mu.Unlock()
				select {
				case <-wait:
				case <-time.After(5 * time.Second):
					out.Err += fmt.Sprintf(" HTTPDomainCreate %d never reached the gated storage call;", i)
					break opsLoop
				}
			} else if !recv(i) {
				break opsLoop
			}
		case 1: // R i
			if !dispatched[i] {
				out.Err += " R before D;"
				break opsLoop
			}
			switch t.Kind {
			case "domcreate":
				if released[i] > 0 {
					continue
				}
				released[i]++
				gateOf(gs, sub[i])
				// wait for the domain to appear, then for the response
				deadline := time.Now().Add(5 * time.Second)
				owner, found := int64(0), false
				for time.Now().Before(deadline) && !found {
					if o, ok := domainsOf()[sub[i]]; ok {
						owner, found = o, true
					} else {
						time.Sleep(2 * time.Millisecond)
					}
				}
				if !found {
					out.Err += fmt.Sprintf(" HTTPDomainCreate %d created no domain within 5s;", i)
					break opsLoop
				}
				oi := clientIdx(owner)
				out.Obs[i] = append(out.Obs[i], []int64{oi, oi, int64(i)})
				if !findResp(i) {
					break opsLoop
				}
			default:
				if released[i] >= t.Reads {
					continue
				}
				released[i]++
				slots[i].gate <- struct{}{}
				if !recv(i) {
					break opsLoop
				}
				if released[i] == t.Reads && t.Kind == "timeout" {
					if !findResp(i) {
						break opsLoop
					}
				}
			}
		}
	}
	// let parked handlers go
	for i, t := range c.Threads {
		if !dispatched[i] {
			continue
		}
		if t.Kind == "domcreate" {
			if released[i] == 0 {
				gateOf(gs, sub[i])
			}
		} else {
			for k := released[i]; k < t.Reads; k++ {
				select {
				case slots[i].gate <- struct{}{}:
				case <-time.After(time.Second):
				}
			}
		}
	}
	// the property: every look of a handler at its context shows its own command's connection, identity and body
	for i, t := range c.Threads {
		for k, o := range out.Obs[i] {
			if o[0] != out.Own[i][0] || o[1] != out.Own[i][1] || o[2] != out.Own[i][2] {
				if out.PropOK {
					out.PropOK = false
					out.PropKey = fmt.Sprintf("overlap:%s:context-changed-under-handler", t.Kind)
					out.PropMsg = fmt.Sprintf("command #%d (%s) arrived on connection %d (client %d); observation %d of its still-running handler shows connection %d / client %d / body tag %d",
						i, t.Kind, t.Conn, t.Conn, k, o[0], o[1], o[2])
				}
			}
		}
	}
	if out.Err != "" && out.PropOK {
		out.PropOK = false
		out.PropKey = "overlap:harness-timeout"
		out.PropMsg = out.Err
	}
	return out
}

// open the gate the handler of `sub` is parked on (the channel was moved out of the armed set when it parked)
var parkedGates sync.Map

func gateOf(g *gatedStore, sub string) {
	if ch, ok := parkedGates.LoadAndDelete(sub); ok {
		close(ch.(chan struct{}))
	}
}

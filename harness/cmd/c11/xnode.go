//go:build verif

// Two-node dimension of the command worlds: a client may be connected on ANOTHER node ("node-b").  The session under test
// gets (1) a recording double of the bridge manager (BroadcastTunnelOpen / PublishMessage: what is relayed to the cluster, on
// whose behalf), (2) the real ConnectionStateStore with the remote clients registered as living on node-b, and (3) the real
// CrossNodePool whose address for node-b is a stub listener of this harness that records the frames it is sent (DNS queries
// relayed cross-node) and answers with an error frame.
// Every relay is reported as a delivery to the target client with a command-type code >= 1000:
//   1035 = TunnelOpen broadcast to the cluster for that client (carries the mapping's SecretKey and the dial address)
//   1121 = DNSQuery frame sent to the client's node
//   1051 = config-push message published for that client
package main

import (
	"context"
	"encoding/json"
	"fmt"
	"net"
	"sync"
	"time"

	"tunnox-core/internal/packet"
	"tunnox-core/internal/protocol/session"
)

const (
	relayTunnelOpen = 1035
	relayDNSQuery   = 1121
	relayConfigPush = 1051
	remoteNodeID    = "node-b"
)

type relayRec struct {
	kind   int64
	client int64  // real client id the relay is addressed to (0 = unknown)
	detail string // mapping id / secret / dial address, for the message
}

type relayLog struct {
	mu   sync.Mutex
	recs []relayRec
}

func (l *relayLog) add(r relayRec) {
	l.mu.Lock()
	defer l.mu.Unlock()
	l.recs = append(l.recs, r)
}
func (l *relayLog) take() []relayRec {
	l.mu.Lock()
	defer l.mu.Unlock()
	r := l.recs
	l.recs = nil
	return r
}

// recording double of session.BridgeManager
type bridgeDouble struct{ log *relayLog }

func (b *bridgeDouble) BroadcastTunnelOpen(req *packet.TunnelOpenRequest, targetClientID int64) error {
	b.log.add(relayRec{relayTunnelOpen, targetClientID, fmt.Sprintf("mapping=%s secret=%q dial=%s:%d", req.MappingID, req.SecretKey, req.TargetHost, req.TargetPort)})
	return nil
}
func (b *bridgeDouble) Subscribe(ctx context.Context, topic string) (<-chan *session.BroadcastMessage, error) {
	return make(chan *session.BroadcastMessage), nil
}
func (b *bridgeDouble) PublishMessage(ctx context.Context, topic string, payload []byte) error {
	var m struct {
		ClientID int64 `json:"client_id"`
	}
	_ = json.Unmarshal(payload, &m)
	b.log.add(relayRec{relayConfigPush, m.ClientID, "topic=" + topic})
	return nil
}
func (b *bridgeDouble) GetNodeID() string                                       { return "node-c11" }
func (b *bridgeDouble) NotifyTunnelReady(context.Context, string, string) error { return nil }
func (b *bridgeDouble) WaitForTunnelReady(ctx context.Context, id string) (string, error) {
	return "", fmt.Errorf("verif: no tunnel-ready notification")
}

// stub of node-b's cross-node listener: records DNS query frames, answers with an error frame
var (
	stubOnce sync.Once
	stubAddr string
	stubLog  = &relayLog{}
)

func stubListener() string {
	stubOnce.Do(func() {
		ln, err := net.Listen("tcp", "127.0.0.1:0")
		must(err)
		stubAddr = ln.Addr().String()
		go func() {
			for {
				c, err := ln.Accept()
				if err != nil {
					return
				}
				go func(c net.Conn) {
					defer c.Close()
					tc := c.(*net.TCPConn)
					for {
						_, ft, data, err := session.ReadFrame(tc)
						if err != nil {
							return
						}
						if ft == session.FrameTypeDNSQuery {
							var m session.DNSQueryMessage
							_ = json.Unmarshal(data, &m)
							stubLog.add(relayRec{relayDNSQuery, m.TargetClientID, "command_id=" + m.CommandID})
							resp, _ := json.Marshal(&session.DNSQueryResponseMessage{CommandID: m.CommandID, Error: "verif stub: target not reachable"})
							var empty [16]byte
							if session.WriteFrame(tc, empty, session.FrameTypeDNSResponse, resp) != nil {
								return
							}
						}
					}
				}(c)
			}
		}()
	})
	return stubAddr
}

// wire the two-node pieces into a fresh world; remote[i-1] = client i is connected on node-b
func (w *world) wireXnode(ctx context.Context, remote []bool) error {
	w.relays = &relayLog{}
	w.fx.Session.SetBridgeManager(&bridgeDouble{log: w.relays})
	w.fx.Session.SetConnectionStateStore(session.NewConnectionStateStore(w.fstore, "node-c11", time.Hour))
	if err := w.fstore.Set("tunnox:node:"+remoteNodeID+":addr", stubListener(), 0); err != nil {
		return err
	}
	cfg := session.DefaultCrossNodePoolConfig()
	cfg.MinConns, cfg.MaxConns, cfg.DialTimeout = 0, 4, 2*time.Second
	w.fx.Session.SetCrossNodePool(session.NewCrossNodePool(ctx, w.fstore, "node-c11", cfg))
	other := session.NewConnectionStateStore(w.fstore, remoteNodeID, time.Hour)
	for i := 1; i < len(w.clientID); i++ {
		if i-1 < len(remote) && remote[i-1] {
			if err := other.RegisterConnection(ctx, &session.ConnectionStateInfo{ConnectionID: fmt.Sprintf("conn_on_node_b_%d", i),
				ClientID: w.clientID[i], Protocol: "tcp", ConnType: "control"}); err != nil {
				return err
			}
		}
	}
	stubLog.take()
	return nil
}

// relays of the step just executed, as delivery rows [client idx, code, 0]
func (w *world) takeRelays() [][]int64 {
	if w.relays == nil {
		return nil
	}
	var out [][]int64
	w.relayDetail = nil
	for _, r := range append(w.relays.take(), stubLog.take()...) {
		out = append(out, []int64{w.idxOfClient(r.client), r.kind, 0})
		w.relayDetail = append(w.relayDetail, r.detail)
	}
	return out
}

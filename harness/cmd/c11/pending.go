//go:build verif

// Request/response command families with a pending table keyed by a CLIENT-CHOSEN id (DNSResolve / DNSQuery: the
// CommandId): several requests in flight at once, colliding ids across different connections, answers naming an id from
// connections the request was not forwarded to.
//
// A case builds a world (newWorld) and runs a schedule of operations on the real SessionManager:
//   [0, i]            Q i : hand request i to HandlePacket in its own goroutine; wait until it has been forwarded to a
//                           client's control connection (the forwarded packet carries its CommandId) or has returned
//   [1, i, x, tag]    A   : send a CommandResp naming request i's CommandId on connection x (client index; -1 = a connection
//                           the server has never seen) with payload `tag`
//   [2, i, j, ...]    W   : wait until the listed requests have returned (the orphaned ones time out after 5 s, together)
// Reported per request: the client it was forwarded to, and the payload tags its requester received.
// Predicate (on the real outputs): a requester receives only answers that were sent on the connection ITS request was
// forwarded to; the request that owns the pending entry does receive the genuine answer.
package main

import (
	"encoding/json"
	"fmt"
	"time"

	"tunnox-core/internal/core/types"
	"tunnox-core/internal/packet"
)

type pendReq struct {
	Conn int    `json:"conn"` // requester: long-lived connection / client index
	Cmd  int    `json:"cmd"`  // 120 | 121
	Tgt  int    `json:"tgt"`  // explicit target client index
	ID   string `json:"id"`   // client-chosen CommandId (colliding requests share it)
}
type pendCase struct {
	caseIn
	Reqs []pendReq `json:"reqs"`
	Ops  [][]int   `json:"ops"`
}
type pendOut struct {
	Forwarded []int64   `json:"forwarded"` // per request: client index whose connection received it (0 = not forwarded)
	Got       [][]int64 `json:"got"`       // per request: payload tags the requester received as successful answers
	Returned  []bool    `json:"returned"`
	SetupErr  string    `json:"setup_err,omitempty"`
	Err       string    `json:"err,omitempty"`
	PropOK    bool      `json:"prop_ok"`
	PropKey   string    `json:"prop_key,omitempty"`
	PropMsg   string    `json:"prop_msg,omitempty"`
}

func pendAnswerBody(cmd int, tag int) string {
	if packet.CommandType(cmd) == packet.DNSResolve {
		b, _ := json.Marshal(&packet.DNSResolveResponse{Success: true, IPs: []string{fmt.Sprintf("10.9.8.%d", tag)}, TTL: 60})
		return string(b)
	}
	b, _ := json.Marshal(&packet.DNSQueryResponse{QueryID: "q", Success: true, RawAnswer: []byte{byte(tag)}})
	return string(b)
}

// payload tag of a successful answer packet written to a requester, -1 if it is an error answer
func pendTagOf(p *packet.TransferPacket) int64 {
	if p.CommandPacket.CommandType == packet.DNSResolve {
		var r packet.DNSResolveResponse
		if json.Unmarshal([]byte(p.CommandPacket.CommandBody), &r) != nil || !r.Success || len(r.IPs) == 0 {
			return -1
		}
		var a, b, c, d int
		if _, err := fmt.Sscanf(r.IPs[0], "%d.%d.%d.%d", &a, &b, &c, &d); err != nil {
			return -1
		}
		return int64(d)
	}
	var env struct {
		Success bool   `json:"success"`
		Data    string `json:"data"`
	}
	if json.Unmarshal([]byte(p.CommandPacket.CommandBody), &env) != nil || !env.Success {
		return -1
	}
	var r packet.DNSQueryResponse
	if json.Unmarshal([]byte(env.Data), &r) != nil || !r.Success || len(r.RawAnswer) == 0 {
		return -1
	}
	return int64(r.RawAnswer[0])
}

func runPending(raw json.RawMessage) interface{} {
	var c pendCase
	must(json.Unmarshal(raw, &c))
	out := &pendOut{PropOK: true}
	w, err := newWorld(&c.caseIn)
	if w != nil {
		defer w.close()
	}
	if err != nil {
		out.SetupErr = err.Error()
		out.PropOK = false
		return out
	}
	n := len(c.Reqs)
	out.Forwarded = make([]int64, n)
	out.Got = make([][]int64, n)
	out.Returned = make([]bool, n)
	done := make([]chan struct{}, n)
	for i := range out.Got {
		out.Got[i] = []int64{}
	}
	cmdSeq++
	realID := func(i int) string { return fmt.Sprintf("pend-%d-%s", cmdSeq, c.Reqs[i].ID) }
	// forwarded packets already attributed to a request, per connection: count of packets with that CommandId consumed
	consumed := map[string]int{}
	type sent struct {
		from int
		tag  int
	}
	answers := make([][]sent, n) // answers sent while request i was in flight, naming its id
	inflight := make([]bool, n)
	for _, op := range c.Ops {
		if len(op) < 2 {
			out.Err += " bad op;"
			break
		}
		switch op[0] {
		case 0: // Q i
			i := op[1]
			r := c.Reqs[i]
			body := map[string]interface{}{"target_client_id": w.clientID[r.Tgt]}
			if packet.CommandType(r.Cmd) == packet.DNSResolve {
				body["domain"], body["qtype"] = "example.org", 1
			} else {
				body["query_id"], body["dns_server"], body["raw_query"] = "q", "119.29.29.29:53", []byte{1, 2, 3}
			}
			b, _ := json.Marshal(body)
			done[i] = make(chan struct{})
			go func(i int, connID string, b string) {
				defer func() { _ = recover(); close(done[i]) }()
				_ = w.fx.Session.HandlePacket(&types.StreamPacket{ConnectionID: connID, Timestamp: time.Now(), Packet: &packet.TransferPacket{
					PacketType: packet.JsonCommand, CommandPacket: &packet.CommandPacket{CommandType: packet.CommandType(r.Cmd), CommandId: realID(i), CommandBody: b}}})
			}(i, w.connID[r.Conn], string(b))
			// wait for the forward (or the return)
			deadline := time.Now().Add(5 * time.Second)
		waitFwd:
			for time.Now().Before(deadline) {
				for ci := 1; ci < len(w.conn); ci++ {
					cnt := 0
					for _, p := range decodeAll(w.conn[ci].peek()) {
						if p.CommandPacket != nil && !p.PacketType.IsCommandResp() && p.CommandPacket.CommandId == realID(i) {
							cnt++
						}
					}
					key := fmt.Sprintf("%d/%s", ci, realID(i))
					if cnt > consumed[key] {
						consumed[key]++
						out.Forwarded[i] = int64(ci)
						break waitFwd
					}
				}
				select {
				case <-done[i]:
					break waitFwd
				default:
					time.Sleep(200 * time.Microsecond)
				}
			}
			inflight[i] = out.Forwarded[i] != 0
		case 1: // A i x tag
			if len(op) != 4 {
				out.Err += " bad A;"
				continue
			}
			i, x, tag := op[1], op[2], op[3]
			from := "conn_verif_unknown_answerer"
			if x > 0 && x < len(w.connID) {
				from = w.connID[x]
			}
			for j := range c.Reqs { // every in-flight request naming this id could be affected
				if inflight[j] && realID(j) == realID(i) {
					answers[j] = append(answers[j], sent{x, tag})
				}
			}
			_ = w.fx.Session.HandlePacket(&types.StreamPacket{ConnectionID: from, Timestamp: time.Now(), Packet: &packet.TransferPacket{
				PacketType: packet.CommandResp, CommandPacket: &packet.CommandPacket{CommandType: packet.CommandType(c.Reqs[i].Cmd),
					CommandId: realID(i), CommandBody: pendAnswerBody(c.Reqs[i].Cmd, tag)}}})
		case 2: // W i...
			for _, i := range op[1:] {
				if done[i] == nil {
					continue
				}
				select {
				case <-done[i]:
					out.Returned[i] = true
					inflight[i] = false
				case <-time.After(8 * time.Second):
					out.Err += fmt.Sprintf(" request %d did not return within 8s;", i)
				}
			}
		}
	}
	for i := range c.Reqs {
		if done[i] != nil && !out.Returned[i] {
			select {
			case <-done[i]:
				out.Returned[i] = true
			case <-time.After(8 * time.Second):
				out.Err += fmt.Sprintf(" request %d still running at the end;", i)
			}
		}
	}
	// what each requester received (answers are CommandResp packets of the request's type carrying its CommandId, on its connection)
	for i, r := range c.Reqs {
		for _, p := range decodeAll(w.conn[r.Conn].peek()) {
			if p.CommandPacket != nil && p.PacketType.IsCommandResp() && p.CommandPacket.CommandId == realID(i) && int(p.CommandPacket.CommandType) == r.Cmd {
				if t := pendTagOf(p); t >= 0 {
					out.Got[i] = append(out.Got[i], t)
				}
			}
		}
	}
	// two requests with one id on the SAME connection cannot be told apart by the requester either: not generated
	for i, r := range c.Reqs {
		for _, t := range out.Got[i] {
			ok := false
			for _, a := range answers[i] {
				if int64(a.tag) == t && int64(a.from) == out.Forwarded[i] {
					ok = true
				}
			}
			if !ok && out.PropOK {
				from := int64(-9)
				for _, a := range answers[i] {
					if int64(a.tag) == t {
						from = int64(a.from)
					}
				}
				for j := range answers {
					if from != -9 {
						break
					}
					for _, a := range answers[j] {
						if int64(a.tag) == t {
							from = int64(a.from)
						}
					}
				}
				out.PropOK = false
				out.PropKey = fmt.Sprintf("cmd%d-resp:answer-from-foreign-connection", r.Cmd)
				out.PropMsg = fmt.Sprintf("request #%d of client %d (CommandId %q, forwarded to client %d) was answered with payload %d, which was sent on connection %d",
					i, r.Conn, r.ID, out.Forwarded[i], t, from)
			}
		}
	}
	if out.Err != "" && out.PropOK {
		out.PropOK = false
		out.PropKey = "pending:harness-timeout"
		out.PropMsg = out.Err
	}
	return out
}

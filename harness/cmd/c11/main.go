//go:build verif

// verif_c11: control commands act with the connection's proven identity only.
//
// Drives the REAL server command stack (SessionManager.HandlePacket -> handleCommandPacket special cases ->
// CommandExecutor -> registry handlers of internal/app/server and internal/command) of the shared server
// fixture over memory storage.  A case builds a small world (clients, mappings, connection codes, HTTP
// domains) with the real services, then sends a sequence of command packets on connections of a chosen
// identity class (unknown id / fresh / handshake pending / authenticated as client k) with honest or forged
// packet identity fields, and reports per step: success flag, storage contents (mappings with counters,
// codes, domains), object ids disclosed to the sender, packets delivered to OTHER clients' connections.
// The property predicate itself is evaluated here on those outputs (prop_ok / prop_key / prop_msg).
//
// `gen` prints coq/Gen/C11.v: the dispatch classification of all 256 command bytes x {JsonCommand,
// CommandResp} measured on the real stack with a spy executor, the registered handler set, and the
// CommandType constants the model names.
package main

import (
	"regexp"
	"bytes"
	"context"
	"encoding/json"
	"fmt"
	"io"
	"net"
	"os"
	"sort"
	"strings"
	"sync"
	"time"

	"tunnox-core/internal/app/server"
	"tunnox-core/internal/cloud/models"
	"tunnox-core/internal/cloud/services"
	"tunnox-core/internal/command"
	"tunnox-core/internal/core/storage/memory"
	"tunnox-core/internal/core/types"
	"tunnox-core/internal/packet"
	"tunnox-core/internal/protocol/session"
	"tunnox-core/internal/stream"
)

// ---------------------------------------------------------------------------------------------
// fake transport: reads block until closed, writes are captured
// ---------------------------------------------------------------------------------------------

type capConn struct {
	ip     string
	mu     sync.Mutex
	buf    bytes.Buffer
	closed chan struct{}
}

func newCapConn(ip string) *capConn { return &capConn{ip: ip, closed: make(chan struct{})} }
func (f *capConn) Read(p []byte) (int, error) {
	<-f.closed
	return 0, io.EOF
}
func (f *capConn) Write(p []byte) (int, error) {
	f.mu.Lock()
	defer f.mu.Unlock()
	f.buf.Write(p)
	return len(p), nil
}
func (f *capConn) Close() error {
	select {
	case <-f.closed:
	default:
		close(f.closed)
	}
	return nil
}
func (f *capConn) isClosed() bool {
	select {
	case <-f.closed:
		return true
	default:
		return false
	}
}
func (f *capConn) LocalAddr() net.Addr  { return &net.TCPAddr{IP: net.ParseIP("127.0.0.1"), Port: 7000} }
func (f *capConn) RemoteAddr() net.Addr { return &net.TCPAddr{IP: net.ParseIP(f.ip), Port: 40000} }
func (f *capConn) SetDeadline(time.Time) error      { return nil }
func (f *capConn) SetReadDeadline(time.Time) error  { return nil }
func (f *capConn) SetWriteDeadline(time.Time) error { return nil }

// take returns and clears everything written so far
func (f *capConn) take() []byte {
	f.mu.Lock()
	defer f.mu.Unlock()
	b := append([]byte(nil), f.buf.Bytes()...)
	f.buf.Reset()
	return b
}
func (f *capConn) peekLen() int {
	f.mu.Lock()
	defer f.mu.Unlock()
	return f.buf.Len()
}

// peek returns a copy of everything written so far without consuming it (a packet may be half written)
func (f *capConn) peek() []byte {
	f.mu.Lock()
	defer f.mu.Unlock()
	return append([]byte(nil), f.buf.Bytes()...)
}

// decode the packets of a captured byte string with the real reader
func decodeAll(b []byte) []*packet.TransferPacket {
	if len(b) == 0 {
		return nil
	}
	sp := stream.NewStreamProcessor(bytes.NewReader(b), io.Discard, context.Background())
	defer sp.Close()
	var out []*packet.TransferPacket
	for i := 0; i < 64; i++ {
		p, _, err := sp.ReadPacket()
		if err != nil {
			break
		}
		out = append(out, p)
	}
	return out
}

// ---------------------------------------------------------------------------------------------
// case format
// ---------------------------------------------------------------------------------------------

type mapSpec struct {
	L     int    `json:"l"` // listen client index (0 = client id 0)
	T     int    `json:"t"` // target client index
	Proto string `json:"proto"`
	Exp   bool   `json:"exp"` // ExpiresAt lies in the past (the cleanup task has not run yet)
}
type codeSpec struct {
	T   int `json:"t"`   // owner (target client) index
	Act int `json:"act"` // activated by client index (0 = not activated)
}
type domSpec struct {
	C   int  `json:"c"`
	Exp bool `json:"exp"` // ExpiresAt lies in the past
}
type stepSpec struct {
	Conn  string `json:"conn"` // unknown | fresh | pending | auth
	Who   int    `json:"who"`  // auth: client index whose control connection carries the packet; pending: claimed client
	Cmd   int    `json:"cmd"`
	Resp  bool   `json:"resp"`  // packet type CommandResp instead of JsonCommand
	Obj   int    `json:"obj"`   // object index (mapping / code / domain) ; -1 = an id that does not exist ; -2 = empty id
	Tgt   int    `json:"tgt"`   // DNS / notify target client index; 0 = default target (-1 on the wire); -1 = a client id nobody has
	Dir   int    `json:"dir"`   // MappingList direction: 0 both 1 outbound 2 inbound
	Sent  int64  `json:"sent"`  // traffic report
	Recv  int64  `json:"recv"`  // traffic report
	Valid bool   `json:"valid"` // body otherwise well-formed (false: a required field is missing / body is not JSON)
	Claim int    `json:"claim"` // forged identity: SenderId/ReceiverId/Token and body client-id fields name this client index (0 = honest)
	Ans   int    `json:"ans"`   // who answers a forwarded DNS request first: 0 = only the client that received it, k = client k's connection, -1 = an unknown connection (the receiving client answers afterwards)
	// registry events instead of a command (the identity of a long-lived connection changes between commands):
	//   reauth: connection #ci is (re-)bound to client #as by ClientRegistry.UpdateAuth (what a second handshake on the
	//           same connection does; the connection is registered again first if it had been removed)
	//   remove: connection #ci is removed from the registry (ClientRegistry.Unregister: the kick / stale-cleanup window), its stream stays open
	// concurrent pair: this command is parked in its Park-th storage call, the Pair command (another connection) is handled from
	// start to end meanwhile on the same handler objects, then this command resumes
	Ref  string    `json:"ref,omitempty"`  // name the object by another handle than its id (see altRef)
	Name string    `json:"name,omitempty"` // HTTPDomainCreate: the sub-domain to create (default: a fresh one)
	Park int       `json:"park"`
	Pair *stepSpec `json:"pair,omitempty"`
	Fault int `json:"fault"` // k > 0: the k-th storage call made while this command is handled fails (one-shot); -1: count the calls only
	Ev string `json:"ev"`
	Ci int    `json:"ci"`
	As int    `json:"as"`
}
type caseIn struct {
	Mode     string     `json:"mode"` // case | detect
	NClients int        `json:"nclients"`
	Online   []bool     `json:"online"`
	Mappings []mapSpec  `json:"mappings"`
	Codes    []codeSpec `json:"codes"`
	Domains  []domSpec  `json:"domains"`
	Xnode    bool       `json:"xnode"`  // two-node world: bridge manager double + connection state store + cross-node pool wired
	Remote   []bool     `json:"remote"` // client i is connected on another node (its control connection is not on this one)
	Aux      bool       `json:"aux"` // additionally register command.SendNotifyToClientHandler with the real NotificationService
	Steps    []stepSpec `json:"steps"`
}

type stepOut struct {
	Ok         bool      `json:"ok"`         // HandlePacket returned nil
	Mappings   [][]int64 `json:"mappings"`   // [idx, listen, target, sent, recv] sorted by idx
	Codes      [][]int64 `json:"codes"`      // [idx, owner, activatedBy]
	Domains    [][]int64 `json:"domains"`    // [idx, owner]
	Online     []int64   `json:"online"`     // client indices the registry resolves to an authenticated control connection
	Bind       [][]int64 `json:"bind"`       // [connection index, client index] for every long-lived connection the registry knows
	X          int64     `json:"x"`          // identity the registry held for the sender's connection at dispatch
	Spoofed    bool      `json:"spoofed"`    // the sender received the answer that was NOT sent by the client the request was forwarded to
	DiscM      []int64   `json:"disc_m"`     // mapping indices whose id / secret was written to the sender
	DiscC      []int64   `json:"disc_c"`     // code indices ...
	DiscD      []int64   `json:"disc_d"`     // domain indices ...
	Deliveries [][]int64 `json:"deliveries"` // [client idx, command type, stamped sender idx] written to other clients' connections
	SecretLeak []int64   `json:"secret_leak"`
	Answered   bool      `json:"answered"` // sender received a success answer of a forwarded DNS request
	TimedOut   bool      `json:"timed_out"`
	Calls      int       `json:"calls"`       // storage calls made while the command was handled (when fault != 0)
	FaultFired bool      `json:"fault_fired"` // the injected fault was reached
	FaultOn    string    `json:"fault_on,omitempty"`
	Err        string    `json:"err,omitempty"`
	Ok2        bool      `json:"ok2"`    // concurrent pair: success flag of the second command
	X2         int64     `json:"x2"`     // ... identity the registry held for its connection
	Parked     bool      `json:"parked"` // ... the first command did reach its Park-th storage call
	Serialized bool      `json:"serialized"` // ... the second command could not proceed until the first was released
	PropOK     bool      `json:"prop_ok"`
	PropKey    string    `json:"prop_key,omitempty"`
	PropMsg    string    `json:"prop_msg,omitempty"`
	fails      []failRec
}
type failRec struct{ kind, obj, msg string }

var objRe = regexp.MustCompile(`(#|client )(\d+)`)

type caseOut struct {
	Steps    []stepOut `json:"steps"`
	Init     stepOut   `json:"init"`
	SetupErr string    `json:"setup_err,omitempty"`
	PropOK   bool      `json:"prop_ok"`
}

// ---------------------------------------------------------------------------------------------
// world
// ---------------------------------------------------------------------------------------------

type world struct {
	fx       *server.VerifFixture
	fstore   *faultStore
	mapSocks map[int]bool // mapping index -> created as a SOCKS mapping
	relays   *relayLog
	relayDetail []string
	cancel   context.CancelFunc
	clientID []int64    // index -> real client id (index 0 -> 0)
	connID   []string   // index -> control connection id
	conn     []*capConn // index -> transport
	mapIdx   map[string]int
	mapIDs   []string
	mapSec   []string
	codeIdx  map[string]int
	codes    []string
	domIdx   map[string]int
	domIDs   []string
	ipSeq    int
	extra    []*capConn
}

var ipCounter int

func nextIP() string {
	ipCounter++
	return fmt.Sprintf("198.%d.%d.%d", 18+(ipCounter/62500)%2, (ipCounter/250)%250, ipCounter%250+1)
}

func (w *world) idxOfClient(id int64) int64 {
	for i, c := range w.clientID {
		if c == id && (i > 0 || id == 0) {
			return int64(i)
		}
	}
	return 99
}

func handshakePkt(clientID int64, token string) *packet.TransferPacket {
	b, _ := json.Marshal(&packet.HandshakeRequest{ClientID: clientID, Token: token, Version: "verif", Protocol: "tcp"})
	return &packet.TransferPacket{PacketType: packet.Handshake, Payload: b}
}

func newWorld(c *caseIn) (*world, error) {
	ctx, cancel := context.WithCancel(context.Background())
	fstore := &faultStore{Storage: memory.New(ctx)}
	fx, err := server.VerifNewFixture(ctx, fstore, server.VerifFixtureOptions{NodeID: "node-c11"})
	if err != nil {
		cancel()
		return nil, err
	}
	w := &world{fx: fx, fstore: fstore, cancel: cancel, mapIdx: map[string]int{}, codeIdx: map[string]int{}, domIdx: map[string]int{}}
	w.clientID = []int64{0}
	w.connID = []string{""}
	w.conn = []*capConn{nil}
	for i := 1; i <= c.NClients; i++ {
		fc := newCapConn(nextIP())
		conn, err := fx.Session.CreateConnection(fc, fc)
		if err != nil {
			return w, fmt.Errorf("CreateConnection: %v", err)
		}
		// what a successful handshake leaves behind (packet_handler_handshake.go): a registered control connection bound to the
		// client id by ClientRegistry.UpdateAuth.  Done through the session API instead of a handshake packet because
		// handleHandshake also spawns `go pushConfigToClient`, which would race with the world setup below.
		cl, err := fx.Cloud.GenerateAnonymousCredentials()
		if err != nil {
			return w, fmt.Errorf("GenerateAnonymousCredentials: %v", err)
		}
		fx.Session.RegisterControlConnection(session.NewControlConnection(conn.ID, conn.Stream, fc.RemoteAddr(), "tcp"))
		if err := fx.Session.UpdateControlConnectionAuth(conn.ID, cl.ID, ""); err != nil {
			return w, fmt.Errorf("UpdateControlConnectionAuth: %v", err)
		}
		cc := fx.Session.GetControlConnection(conn.ID)
		if cc == nil || cc.ClientID == 0 || !cc.Authenticated {
			return w, fmt.Errorf("handshake left connection unauthenticated")
		}
		w.clientID = append(w.clientID, cc.ClientID)
		w.connID = append(w.connID, conn.ID)
		w.conn = append(w.conn, fc)
		fc.take()
	}
	if c.Aux {
		reg := fx.Session.GetCommandExecutor().GetRegistry()
		ns := session.NewNotificationService(ctx, fx.Session.VerifC11ClientRegistry())
		if err := reg.Register(command.NewSendNotifyToClientHandler(ns)); err != nil {
			return w, fmt.Errorf("register aux notify handler: %v", err)
		}
	}
	for _, m := range c.Mappings {
		proto := models.ProtocolTCP
		if m.Proto == "socks" {
			proto = models.ProtocolSOCKS
		}
		pm := &models.PortMapping{
			ListenClientID: w.clientID[m.L], TargetClientID: w.clientID[m.T], Protocol: proto,
			SourcePort: 18000 + len(w.mapIDs), TargetHost: "127.0.0.1", TargetPort: 8080,
			ListenAddress: fmt.Sprintf("0.0.0.0:%d", 18000+len(w.mapIDs)), TargetAddress: "tcp://127.0.0.1:8080",
			Status: models.MappingStatusActive, Type: models.MappingTypeAnonymous,
		}
		if m.Exp {
			past := time.Now().Add(-time.Hour)
			pm.ExpiresAt = &past
		}
		created, err := fx.Cloud.CreatePortMapping(pm)
		if err != nil {
			return w, fmt.Errorf("CreatePortMapping: %v", err)
		}
		w.noteMapping(created.ID, created.SecretKey)
		if w.mapSocks == nil {
			w.mapSocks = map[int]bool{}
		}
		w.mapSocks[w.mapIdx[created.ID]] = m.Proto == "socks"
	}
	for _, cs := range c.Codes {
		cc, err := fx.ConnCode.CreateConnectionCode(&services.CreateConnectionCodeRequest{
			TargetClientID: w.clientID[cs.T], TargetAddress: "tcp://127.0.0.1:9090",
			ActivationTTL: time.Hour, MappingDuration: time.Hour, CreatedBy: "verif"})
		if err != nil {
			return w, fmt.Errorf("CreateConnectionCode: %v", err)
		}
		w.codeIdx[cc.Code] = len(w.codes)
		w.codes = append(w.codes, cc.Code)
		if cs.Act > 0 {
			pm, err := fx.ConnCode.ActivateConnectionCode(&services.ActivateConnectionCodeRequest{
				Code: cc.Code, ListenClientID: w.clientID[cs.Act], ListenAddress: fmt.Sprintf("127.0.0.1:%d", 19000+len(w.codes))})
			if err != nil {
				return w, fmt.Errorf("ActivateConnectionCode: %v", err)
			}
			w.noteMapping(pm.ID, pm.SecretKey)
		}
	}
	for i, d := range c.Domains {
		hm, err := fx.HTTPDomainRepo.CreateMapping(ctx, w.clientID[d.C], fmt.Sprintf("seed%d", i), "tunnox.net", "127.0.0.1", 3000+i)
		if err != nil {
			return w, fmt.Errorf("HTTPDomainRepo.CreateMapping: %v", err)
		}
		if d.Exp {
			hm.ExpiresAt = time.Now().Unix() - 3600
			if err := fx.HTTPDomainRepo.UpdateMapping(ctx, hm); err != nil {
				return w, fmt.Errorf("HTTPDomainRepo.UpdateMapping (expire): %v", err)
			}
		}
		w.domIdx[hm.ID] = len(w.domIDs)
		w.domIDs = append(w.domIDs, hm.ID)
	}
	for i := 1; i <= c.NClients; i++ {
		if (i-1 < len(c.Online) && !c.Online[i-1]) || (c.Xnode && i-1 < len(c.Remote) && c.Remote[i-1]) {
			_ = fx.Session.CloseConnection(w.connID[i])
		}
	}
	if c.Xnode {
		if err := w.wireXnode(ctx, c.Remote); err != nil {
			return w, fmt.Errorf("two-node wiring: %v", err)
		}
	}
	return w, nil
}

func (w *world) noteMapping(id, secret string) {
	if _, ok := w.mapIdx[id]; ok {
		return
	}
	w.mapIdx[id] = len(w.mapIDs)
	w.mapIDs = append(w.mapIDs, id)
	w.mapSec = append(w.mapSec, secret)
}

func (w *world) close() {
	for _, c := range w.conn {
		if c != nil {
			c.Close()
		}
	}
	for _, c := range w.extra {
		c.Close()
	}
	w.fx.Close()
	w.cancel()
}

// snapshot of the storage through the real services (new objects get the next index in id order)
func (w *world) snapshot(o *stepOut) {
	all, err := w.fx.Cloud.ListPortMappings("")
	if err != nil {
		o.Err += " list mappings: " + err.Error()
	}
	// the RECORDS are what the handlers decide on: the global list and the per-client indexes may lag behind them (a storage fault
	// in the middle of a create / delete leaves a record without list entry, or the other way round), so every id ever seen
	// anywhere is re-read from the primary record
	have := map[string]bool{}
	for _, m := range all {
		have[m.ID] = true
	}
	for ci := 1; ci < len(w.clientID); ci++ {
		if ms, err := w.fx.Cloud.GetClientPortMappings(w.clientID[ci]); err == nil {
			for _, m := range ms {
				if !have[m.ID] {
					have[m.ID] = true
					all = append(all, m)
				}
			}
		}
	}
	for _, id := range w.mapIDs {
		if !have[id] {
			if m, err := w.fx.Cloud.GetPortMapping(id); err == nil && m != nil {
				have[id] = true
				all = append(all, m)
			}
		}
	}
	sort.Slice(all, func(i, j int) bool { return all[i].ID < all[j].ID })
	for _, m := range all {
		w.noteMapping(m.ID, m.SecretKey)
	}
	o.Mappings = [][]int64{}
	for _, m := range all {
		o.Mappings = append(o.Mappings, []int64{int64(w.mapIdx[m.ID]), w.idxOfClient(m.ListenClientID), w.idxOfClient(m.TargetClientID),
			m.TrafficStats.BytesSent, m.TrafficStats.BytesReceived, b2i(m.Status == models.MappingStatusActive)})
	}
	sort.Slice(o.Mappings, func(i, j int) bool { return o.Mappings[i][0] < o.Mappings[j][0] })
	o.Codes = [][]int64{}
	for ci := 1; ci < len(w.clientID); ci++ {
		cs, err := w.fx.ConnCode.ListConnectionCodesByTargetClient(w.clientID[ci])
		if err != nil {
			o.Err += " list codes: " + err.Error()
			continue
		}
		sort.Slice(cs, func(i, j int) bool { return cs[i].CreatedAt.Before(cs[j].CreatedAt) })
		for _, c := range cs {
			if _, ok := w.codeIdx[c.Code]; !ok {
				w.codeIdx[c.Code] = len(w.codes)
				w.codes = append(w.codes, c.Code)
			}
			act := int64(0)
			if c.IsActivated && c.ActivatedBy != nil {
				act = w.idxOfClient(*c.ActivatedBy)
			}
			o.Codes = append(o.Codes, []int64{int64(w.codeIdx[c.Code]), w.idxOfClient(c.TargetClientID), act})
		}
	}
	sort.Slice(o.Codes, func(i, j int) bool { return o.Codes[i][0] < o.Codes[j][0] })
	o.Domains = [][]int64{}
	ds, err := w.fx.HTTPDomainRepo.ListAllMappings(context.Background())
	if err != nil {
		o.Err += " list domains: " + err.Error()
	}
	sort.Slice(ds, func(i, j int) bool { return len(ds[i].ID) < len(ds[j].ID) || (len(ds[i].ID) == len(ds[j].ID) && ds[i].ID < ds[j].ID) })
	for _, d := range ds {
		if _, ok := w.domIdx[d.ID]; !ok {
			w.domIdx[d.ID] = len(w.domIDs)
			w.domIDs = append(w.domIDs, d.ID)
		}
		o.Domains = append(o.Domains, []int64{int64(w.domIdx[d.ID]), w.idxOfClient(d.ClientID)})
	}
	sort.Slice(o.Domains, func(i, j int) bool { return o.Domains[i][0] < o.Domains[j][0] })
	o.Online = []int64{}
	for ci := 1; ci < len(w.clientID); ci++ {
		cc := w.fx.Session.GetControlConnectionByClientID(w.clientID[ci])
		if cc != nil && cc.Authenticated {
			o.Online = append(o.Online, int64(ci))
		}
	}
	o.Bind = [][]int64{}
	for ci := 1; ci < len(w.connID); ci++ {
		if cc := w.fx.Session.GetControlConnection(w.connID[ci]); cc != nil {
			o.Bind = append(o.Bind, []int64{int64(ci), w.idxOfClient(cc.ClientID)})
		}
	}
}

func (w *world) objID(cmd int, obj int) string {
	pick := func(ids []string, missing string) string {
		switch {
		case obj == -2:
			return ""
		case obj < 0 || obj >= len(ids):
			return missing
		}
		return ids[obj]
	}
	switch packet.CommandType(cmd) {
	case packet.ConnectionCodeActivate:
		return pick(w.codes, "zzz-nosuch-code")
	case packet.HTTPDomainDelete:
		return pick(w.domIDs, "hdm_999999")
	default:
		return pick(w.mapIDs, "pm_nosuch_mapping")
	}
}

// altRef names an object by another natural handle instead of its id: the full domain ("domain"), the domain in upper case
// ("DOMAIN"), the sub-domain only ("sub"), the numeric / random suffix of the id only ("suffix"), the id in the other letter
// case ("case"), the id with surrounding whitespace ("ws")
func (w *world) altRef(cmd int, obj int, ref string) string {
	id := w.objID(cmd, obj)
	if ref == "" || obj < 0 {
		return id
	}
	full := ""
	if packet.CommandType(cmd) == packet.HTTPDomainDelete {
		if m, err := w.fx.HTTPDomainRepo.GetMapping(context.Background(), id); err == nil {
			full = m.FullDomain
		}
	}
	switch ref {
	case "domain":
		if full != "" {
			return full
		}
	case "DOMAIN":
		if full != "" {
			return strings.ToUpper(full[:1]) + full[1:len(full)-3] + strings.ToUpper(full[len(full)-3:])
		}
	case "sub":
		if full != "" {
			return strings.SplitN(full, ".", 2)[0]
		}
	case "suffix":
		if i := strings.LastIndex(id, "_"); i >= 0 {
			return id[i+1:]
		}
	case "case":
		if up := strings.ToUpper(id); up != id {
			return up
		}
		return strings.ToLower(id)
	case "ws":
		return " " + id + " "
	}
	return id + "?"
}

func (w *world) body(s *stepSpec, subSeq int) string {
	if !s.Valid && s.Obj == -3 {
		return "{not json"
	}
	m := map[string]interface{}{}
	claim := int64(0)
	if s.Claim > 0 && s.Claim < len(w.clientID) {
		claim = w.clientID[s.Claim]
	}
	if claim != 0 {
		// body fields a handler might be tempted to trust
		for _, k := range []string{"client_id", "sender_client_id", "source_client_id", "listen_client_id", "owner_client_id", "created_by", "user_id"} {
			m[k] = claim
		}
		// ... and the same under Go field-name spellings: encoding/json matches a struct field WITHOUT a json tag by its name,
		// case-insensitively, so a handler that decodes the body into a service-layer struct can be fed its identity fields
		for _, k := range []string{"ListenClientID", "TargetClientID", "ClientID", "SenderClientID", "SourceClientID", "OwnerClientID",
			"RequesterID", "ActivatedBy", "ConnectionID", "ClientId", "Client_ID"} {
			m[k] = claim
			m[strings.ToLower(k)] = claim
		}
	}
	tgt := int64(-1)
	switch {
	case s.Tgt > 0 && s.Tgt < len(w.clientID):
		tgt = w.clientID[s.Tgt]
	case s.Tgt < 0:
		tgt = 77777777
	}
	switch packet.CommandType(s.Cmd) {
	case packet.MappingList:
		if s.Dir%5 != 4 { // 4: the field is absent
			m["direction"] = []string{"", "outbound", "inbound", "all"}[s.Dir%5]
		}
	case packet.MappingGet, packet.MappingDelete, packet.HTTPDomainDelete:
		m["mapping_id"] = w.altRef(s.Cmd, s.Obj, s.Ref)
	case packet.ConnectionCodeGenerate:
		if s.Valid {
			m["target_address"] = "tcp://127.0.0.1:7070"
		}
		m["activation_ttl"] = 600
		m["mapping_ttl"] = 3600
		if claim != 0 {
			m["target_client_id"] = claim
		}
	case packet.ConnectionCodeActivate:
		m["code"] = w.altRef(s.Cmd, s.Obj, s.Ref)
		if s.Valid {
			m["listen_address"] = fmt.Sprintf("127.0.0.1:%d", 20000+subSeq%40000)
		}
	case packet.TunnelTrafficReport:
		m["mapping_id"] = w.altRef(s.Cmd, s.Obj, s.Ref)
		m["bytes_sent"] = s.Sent
		m["bytes_received"] = s.Recv
		m["connections"] = 1
	case packet.SOCKS5TunnelRequestCmd:
		m["tunnel_id"] = fmt.Sprintf("verif-tunnel-%d", subSeq)
		m["mapping_id"] = w.altRef(s.Cmd, s.Obj, s.Ref)
		m["target_host"] = "example.org"
		m["target_port"] = 443
		m["protocol"] = "socks5"
		if s.Tgt != 0 {
			m["target_client_id"] = tgt
		}
	case packet.DNSResolve:
		m["domain"] = "example.org"
		m["qtype"] = 1
		m["target_client_id"] = tgt
	case packet.DNSQuery:
		m["query_id"] = fmt.Sprintf("q%d", subSeq)
		m["dns_server"] = "119.29.29.29:53"
		m["raw_query"] = []byte{1, 2, 3}
		m["target_client_id"] = tgt
	case packet.SendNotifyToClient:
		if tgt == -1 {
			tgt = 0
		}
		m["target_client_id"] = tgt
		m["type"] = 1
		m["payload"] = "{}"
	case packet.HTTPDomainCheckSubdomain:
		m["subdomain"] = "chk"
		if s.Valid {
			m["base_domain"] = "tunnox.net"
		}
	case packet.HTTPDomainGenSubdomain:
		if s.Valid {
			m["base_domain"] = "tunnox.net"
		}
	case packet.HTTPDomainCreate:
		m["subdomain"] = fmt.Sprintf("new%d", subSeq)
		if s.Name != "" { // a fixed name: two racing creates for ONE sub-domain
			m["subdomain"] = s.Name
		}
		m["target_url"] = "http://localhost:3000"
		if s.Valid {
			m["base_domain"] = "tunnox.net"
		}
	}
	b, _ := json.Marshal(m)
	return string(b)
}

func senderConn(w *world, s *stepSpec) (string, *capConn, error) {
	switch s.Conn {
	case "unknown":
		return fmt.Sprintf("conn_verif_unknown_%d", len(w.extra)), nil, nil
	case "fresh", "pending":
		fc := newCapConn(nextIP())
		w.extra = append(w.extra, fc)
		conn, err := w.fx.Session.CreateConnection(fc, fc)
		if err != nil {
			return "", nil, err
		}
		if s.Conn == "pending" {
			// first phase of the challenge-response handshake for an existing client: control connection registered,
			// ClientID still 0, not authenticated
			who := int64(0)
			if s.Who > 0 && s.Who < len(w.clientID) {
				who = w.clientID[s.Who]
			}
			_ = w.fx.Session.HandlePacket(&types.StreamPacket{ConnectionID: conn.ID, Packet: handshakePkt(who, ""), Timestamp: time.Now()})
			fc.take()
		}
		return conn.ID, fc, nil
	case "auth":
		if s.Who <= 0 || s.Who >= len(w.clientID) {
			return "", nil, fmt.Errorf("bad who")
		}
		return w.connID[s.Who], w.conn[s.Who], nil
	}
	return "", nil, fmt.Errorf("bad conn kind %q", s.Conn)
}

var cmdSeq int

func runStep(w *world, s *stepSpec, before *stepOut) stepOut {
	o := stepOut{PropOK: true}
	cmdSeq++
	if s.Ev != "" {
		if (s.Ev == "reauth" || s.Ev == "remove") && (s.Ci <= 0 || s.Ci >= len(w.connID)) {
			o.Err = "bad ci"
			return o
		}
		switch s.Ev {
		case "reauth":
			if s.As <= 0 || s.As >= len(w.clientID) {
				o.Err = "bad as"
				return o
			}
			if w.fx.Session.GetControlConnection(w.connID[s.Ci]) == nil {
				if conn, ok := w.fx.Session.GetConnection(w.connID[s.Ci]); ok {
					w.fx.Session.RegisterControlConnection(session.NewControlConnection(conn.ID, conn.Stream, w.conn[s.Ci].RemoteAddr(), "tcp"))
				}
			}
			if err := w.fx.Session.UpdateControlConnectionAuth(w.connID[s.Ci], w.clientID[s.As], ""); err != nil {
				o.Err = err.Error()
			}
		case "delmap", "setparty", "setactive":
			// authorisation-relevant state changes made behind the commands' back (management API / migration / expiry cleanup)
			if s.Obj < 0 || s.Obj >= len(w.mapIDs) {
				break // no such mapping (yet): nothing changes
			}
			id := w.mapIDs[s.Obj]
			switch s.Ev {
			case "delmap":
				_ = w.fx.Cloud.DeletePortMapping(id)
			case "setactive":
				st := models.MappingStatusInactive
				if s.As != 0 {
					st = models.MappingStatusActive
				}
				_ = w.fx.Cloud.UpdatePortMappingStatus(id, st) // a mapping that is gone already: nothing to (de)activate
			case "setparty":
				// what CloudControl.MigrateClientMappings does: the record's party is rewritten, the per-client indexes are not
				pm, err := w.fx.Cloud.GetPortMapping(id)
				if err != nil {
					break // already deleted: nothing to hand over
				}
				if s.As < 0 || s.As >= len(w.clientID) {
					o.Err = "bad as"
					break
				}
				if s.Ci == 0 {
					pm.ListenClientID = w.clientID[s.As]
				} else {
					pm.TargetClientID = w.clientID[s.As]
				}
				if err := w.fx.Cloud.UpdatePortMapping(pm); err != nil {
					o.Err = err.Error()
				}
			}
		case "remove":
			// registry entry gone, stream still open: the window KickOldConnection / CleanupStale leave between removing the entry
			// and closing the stream (ClientRegistry.Unregister is the removal without the close)
			w.fx.Session.VerifC11ClientRegistry().Unregister(w.connID[s.Ci])
		default:
			o.Err = "bad event"
		}
		o.Ok = o.Err == ""
		o.Deliveries, o.DiscM, o.DiscC, o.DiscD, o.SecretLeak = [][]int64{}, []int64{}, []int64{}, []int64{}, []int64{}
		w.snapshot(&o)
		return o
	}
	connID, sconn, err := senderConn(w, s)
	if err != nil {
		o.Err = err.Error()
		return o
	}
	// the identity the connection registry holds for this connection NOW (the only identity the property allows to be used)
	if cc := w.fx.Session.GetControlConnection(connID); cc != nil {
		o.X = w.idxOfClient(cc.ClientID)
	}
	boundTo := map[int]int64{}
	for _, b := range before.Bind {
		boundTo[int(b[0])] = b[1]
	}
	for _, c := range w.conn {
		if c != nil {
			c.take()
		}
	}
	cp := &packet.CommandPacket{CommandType: packet.CommandType(s.Cmd), CommandId: fmt.Sprintf("cmd-%d", cmdSeq), CommandBody: w.body(s, cmdSeq)}
	if s.Claim > 0 && s.Claim < len(w.clientID) {
		cp.SenderId = fmt.Sprintf("%d", w.clientID[s.Claim])
		cp.ReceiverId = w.connID[s.Claim]
		cp.Token = fmt.Sprintf("%d", w.clientID[s.Claim])
	}
	pt := packet.JsonCommand
	if s.Resp {
		pt = packet.CommandResp
	}
	sp := &types.StreamPacket{ConnectionID: connID, Packet: &packet.TransferPacket{PacketType: pt, CommandPacket: cp}, Timestamp: time.Now()}
	done := make(chan error, 1)
	var parkedCh chan struct{}
	if s.Pair != nil {
		parkedCh = w.fstore.armPark(s.Park)
	}
	if s.Fault != 0 && s.Pair == nil {
		k := s.Fault
		if k < 0 {
			k = 0
		}
		w.fstore.arm(k)
	}
	go func() {
		defer func() {
			if r := recover(); r != nil {
				done <- fmt.Errorf("panic: %v", r)
			}
		}()
		done <- w.fx.Session.HandlePacket(sp)
	}()
	// deliveries to other clients, answering forwarded DNS requests so that the handler does not wait 5 s
	type deliv struct {
		ci  int
		pkt *packet.TransferPacket
	}
	var delivered []deliv
	var toSender []*packet.TransferPacket
	processed := make([]int, len(w.conn))
	lastLen := make([]int, len(w.conn))
	collect := func() {
		for ci := 1; ci < len(w.conn); ci++ {
			// complete packets only: the writer emits a packet in several Write calls, so the buffer is decoded from its
			// start every time it has grown and only packets not seen before are processed
			if n := w.conn[ci].peekLen(); n == 0 || n == lastLen[ci] {
				continue
			} else {
				lastLen[ci] = n
			}
			own := w.conn[ci] == sconn && sconn != nil
			pkts := decodeAll(w.conn[ci].peek())
			for pi := processed[ci]; pi < len(pkts); pi++ {
				p := pkts[pi]
				processed[ci] = pi + 1
				if own {
					// written to the sender's own connection: not a delivery to another client (a client that is the target
					// side of its own default SOCKS mapping gets its DNS request forwarded to itself; answer it all the same)
					toSender = append(toSender, p)
				} else {
					delivered = append(delivered, deliv{ci, p})
				}
				if p.CommandPacket != nil && !p.PacketType.IsCommandResp() &&
					(p.CommandPacket.CommandType == packet.DNSResolve || p.CommandPacket.CommandType == packet.DNSQuery) {
					// answer it: optionally a spoofed answer on another connection first, then the genuine one from the
					// connection the request was written to (HandlePacket of a response returns at once)
					answer := func(from string, spoof bool) {
						var body []byte
						if p.CommandPacket.CommandType == packet.DNSResolve {
							ip := "203.0.113.7"
							if spoof {
								ip = "198.51.100.66"
							}
							body, _ = json.Marshal(&packet.DNSResolveResponse{Success: true, IPs: []string{ip}, TTL: 60})
						} else {
							raw := []byte{9, 9}
							if spoof {
								raw = []byte{6, 6, 6}
							}
							body, _ = json.Marshal(&packet.DNSQueryResponse{QueryID: "q", Success: true, RawAnswer: raw})
						}
						_ = w.fx.Session.HandlePacket(&types.StreamPacket{ConnectionID: from, Timestamp: time.Now(), Packet: &packet.TransferPacket{
							PacketType: packet.CommandResp, CommandPacket: &packet.CommandPacket{CommandType: p.CommandPacket.CommandType,
								CommandId: p.CommandPacket.CommandId, CommandBody: string(body)}}})
					}
					switch {
					case s.Ans > 0 && s.Ans < len(w.connID) && s.Ans != ci:
						answer(w.connID[s.Ans], true)
					case s.Ans < 0:
						answer("conn_verif_unknown_answerer", true)
					}
					answer(w.connID[ci], false)
				}
			}
		}
	}
	var sconn2 *capConn
	if s.Pair != nil {
		// wait until the first command is parked in storage (or has finished with fewer calls), run the second one through
		select {
		case <-parkedCh:
			o.Parked = true
		case e := <-done:
			done <- e
		case <-time.After(5 * time.Second):
		}
		cmdSeq++
		connID2, sc2, err2 := senderConn(w, s.Pair)
		sconn2 = sc2
		if err2 == nil {
			if cc := w.fx.Session.GetControlConnection(connID2); cc != nil {
				o.X2 = w.idxOfClient(cc.ClientID)
			}
			// the SAME sender-chosen CommandId as the parked command: ids are per connection, nothing may be keyed by them across connections
			cp2 := &packet.CommandPacket{CommandType: packet.CommandType(s.Pair.Cmd), CommandId: cp.CommandId, CommandBody: w.body(s.Pair, cmdSeq)}
			d2 := make(chan error, 1)
			go func() {
				defer func() {
					if r := recover(); r != nil {
						d2 <- fmt.Errorf("panic: %v", r)
					}
				}()
				d2 <- w.fx.Session.HandlePacket(&types.StreamPacket{ConnectionID: connID2, Timestamp: time.Now(),
					Packet: &packet.TransferPacket{PacketType: packet.JsonCommand, CommandPacket: cp2}})
			}()
			select {
			case e := <-d2:
				o.Ok2 = e == nil
			case <-time.After(60 * time.Millisecond):
				// the handler serialises its commands (a lock held across the storage call): the pair cannot interleave there;
				// let the first command go on and wait for the second
				o.Serialized = true
				w.fstore.release()
				select {
				case e := <-d2:
					o.Ok2 = e == nil
				case <-time.After(8 * time.Second):
					o.TimedOut = true
				}
			}
		}
		w.fstore.release()
	}
	deadline := time.After(12 * time.Second)
	tick := time.NewTicker(200 * time.Microsecond)
	defer tick.Stop()
	var herr error
loop:
	for {
		select {
		case herr = <-done:
			break loop
		case <-tick.C:
			collect()
		case <-deadline:
			o.TimedOut = true
			break loop
		}
	}
	// duplex handlers write the response from a goroutine before Execute returns; oneway handlers run asynchronously:
	// give them a moment (none is registered by the server; the aux notify handler is duplex)
	collect()
	if s.Fault != 0 {
		o.Calls, o.FaultFired, o.FaultOn = w.fstore.disarm()
	}
	o.Ok = herr == nil && !o.TimedOut
	if herr != nil {
		o.Err = herr.Error()
		if len(o.Err) > 160 {
			o.Err = o.Err[:160]
		}
	}
	for _, d := range delivered {
		ct, stamped := int64(-1), int64(0)
		if d.pkt.CommandPacket != nil {
			ct = int64(d.pkt.CommandPacket.CommandType)
			if d.pkt.CommandPacket.CommandType == packet.NotifyClient {
				var n packet.ClientNotification
				if json.Unmarshal([]byte(d.pkt.CommandPacket.CommandBody), &n) == nil {
					stamped = w.idxOfClient(n.SenderClientID)
				}
			}
		}
		o.Deliveries = append(o.Deliveries, []int64{boundTo[d.ci], ct, stamped}) // the client the receiving connection is bound to
	}
	o.Deliveries = append(o.Deliveries, w.takeRelays()...)
	if o.Deliveries == nil {
		o.Deliveries = [][]int64{}
	}
	sort.Slice(o.Deliveries, func(i, j int) bool {
		a, b := o.Deliveries[i], o.Deliveries[j]
		for k := range a {
			if a[k] != b[k] {
				return a[k] < b[k]
			}
		}
		return false
	})
	w.snapshot(&o)
	// what was written to the sender
	o.DiscM, o.DiscC, o.DiscD, o.SecretLeak = []int64{}, []int64{}, []int64{}, []int64{}
	if sconn != nil {
		var text strings.Builder
		if len(toSender) == 0 {
			toSender = decodeAll(sconn.take()) // a connection that is not a client's control connection (fresh / pending)
		}
		var all strings.Builder
		for _, p := range toSender {
			if p.CommandPacket != nil {
				all.WriteString(p.CommandPacket.CommandBody)
				all.WriteString("\n")
				if p.PacketType.IsCommandResp() { // disclosures are read off the responses; a command forwarded to the sender itself is not one
					text.WriteString(p.CommandPacket.CommandBody)
					text.WriteString("\n")
				}
				if p.PacketType.IsCommandResp() && (p.CommandPacket.CommandType == packet.DNSResolve || p.CommandPacket.CommandType == packet.DNSQuery) {
					if strings.Contains(p.CommandPacket.CommandBody, "203.0.113.7") || strings.Contains(p.CommandPacket.CommandBody, "CQk=") {
						o.Answered = true
					}
					if strings.Contains(p.CommandPacket.CommandBody, "198.51.100.66") || strings.Contains(p.CommandPacket.CommandBody, "BgYG") {
						o.Spoofed = true
					}
				}
			}
		}
		t := text.String()
		for i, id := range w.mapIDs {
			if o.Ok && strings.Contains(t, `"`+id+`"`) {
				o.DiscM = append(o.DiscM, int64(i))
			}
			if w.mapSec[i] != "" && strings.Contains(all.String(), w.mapSec[i]) {
				o.SecretLeak = append(o.SecretLeak, int64(i))
			}
		}
		for i, c := range w.codes {
			if o.Ok && strings.Contains(t, `"`+c+`"`) {
				o.DiscC = append(o.DiscC, int64(i))
			}
		}
		for i, id := range w.domIDs {
			if o.Ok && strings.Contains(t, `"`+id+`"`) {
				o.DiscD = append(o.DiscD, int64(i))
			}
		}
	}
	if s.Pair == nil {
		evalProperty(w, s, before, &o)
		return o
	}
	// concurrent pair: every effect must be attributable to (authorised for) the authenticated sender of ONE of the two commands,
	// and that command must be the one naming the object; what was written to the first sender is judged under its identity alone
	oa, ob := o, o
	oa.fails, ob.fails = nil, nil
	ob.X, ob.DiscM, ob.DiscC, ob.DiscD, ob.SecretLeak = o.X2, nil, nil, nil, nil
	if sconn2 != nil && sconn2 != sconn {
		// what was written to the second sender, judged under ITS identity
		var t2, all2 strings.Builder
		for _, p := range decodeAll(sconn2.peek()) {
			if p.CommandPacket != nil {
				all2.WriteString(p.CommandPacket.CommandBody)
				if p.PacketType.IsCommandResp() {
					t2.WriteString(p.CommandPacket.CommandBody)
				}
			}
		}
		for i, id := range w.mapIDs {
			if o.Ok2 && strings.Contains(t2.String(), `"`+id+`"`) {
				ob.DiscM = append(ob.DiscM, int64(i))
			}
			if w.mapSec[i] != "" && strings.Contains(all2.String(), w.mapSec[i]) {
				ob.SecretLeak = append(ob.SecretLeak, int64(i))
			}
		}
		for i, c := range w.codes {
			if o.Ok2 && strings.Contains(t2.String(), `"`+c+`"`) {
				ob.DiscC = append(ob.DiscC, int64(i))
			}
		}
		for i, id := range w.domIDs {
			if o.Ok2 && strings.Contains(t2.String(), `"`+id+`"`) {
				ob.DiscD = append(ob.DiscD, int64(i))
			}
		}
	}
	var keep [][]int64
	for _, d := range o.Deliveries { // packets written to the second sender's own connection are not deliveries to another client
		if sconn2 != nil && d[0] == o.X2 && o.X2 != 0 {
			continue
		}
		keep = append(keep, d)
	}
	if keep == nil {
		keep = [][]int64{}
	}
	o.Deliveries, oa.Deliveries, ob.Deliveries = keep, keep, keep
	evalProperty(w, s, before, &oa)
	evalProperty(w, s.Pair, before, &ob)
	for _, fb := range ob.fails {
		if strings.HasSuffix(fb.kind, "-disclosed") && o.PropOK {
			o.PropOK = false
			o.PropKey = fmt.Sprintf("pair:cmd%d+cmd%d:second:%s", s.Cmd, s.Pair.Cmd, fb.kind)
			o.PropMsg = fmt.Sprintf("command %d of connection identity %d (same CommandId) ran while command %d of connection identity %d was parked in its storage call #%d: %s",
				s.Pair.Cmd, o.X2, s.Cmd, o.X, s.Park, fb.msg)
		}
	}
	for _, fa := range oa.fails {
		both := strings.HasSuffix(fa.kind, "-disclosed")
		for _, fb := range ob.fails {
			if fb.obj == fa.obj {
				both = true
			}
		}
		if both && o.PropOK {
			o.PropOK = false
			o.PropKey = fmt.Sprintf("pair:cmd%d+cmd%d:%s", s.Cmd, s.Pair.Cmd, fa.kind)
			o.PropMsg = fmt.Sprintf("command %d of connection identity %d was parked in its storage call #%d while command %d of connection identity %d ran: %s — not authorised for either sender's own command",
				s.Cmd, o.X, s.Park, s.Pair.Cmd, o.X2, fa.msg)
		}
	}
	return o
}

// ---------------------------------------------------------------------------------------------
// the property predicate, evaluated on the real code's outputs (independent of the Coq model):
//   X := identity proven on the connection (auth & still online -> client index, else 0)
//   (a) nothing in the storage diff, the disclosure sets or the deliveries may depend on anything but X:
//       checked by pairs of runs (claims vs honest) in the python driver, and directly here for stamped senders;
//   (b) X = 0  => storage unchanged, nothing disclosed, nothing delivered to another client;
//   (c) a changed / deleted / disclosed mapping has X as listen or target; a disclosed code or domain is owned by X;
//       a deleted domain was owned by X; a created object is owned by X; traffic counters move only on X's mappings;
//   (d) a delivery to client T is justified by a mapping (listen = X, target = T), or (notify) stamped with X.
// ---------------------------------------------------------------------------------------------

func b2i(b bool) int64 {
	if b {
		return 1
	}
	return 0
}

func findRow(rows [][]int64, idx int64) []int64 {
	for _, r := range rows {
		if r[0] == idx {
			return r
		}
	}
	return nil
}

func evalProperty(w *world, s *stepSpec, before *stepOut, o *stepOut) {
	x := o.X // identity the registry holds for the connection at dispatch, not any identity it held earlier
	cls := "unauth"
	if x != 0 {
		cls = "nonparty"
	}
	fail := func(kind, msg string) {
		o.fails = append(o.fails, failRec{kind, kind + "/" + objRe.FindString(msg), msg})
		if o.PropOK {
			o.PropOK = false
			o.PropKey = fmt.Sprintf("cmd%d:%s:%s", s.Cmd, cls, kind)
			o.PropMsg = msg
		}
	}
	party := func(m []int64) bool { return x != 0 && (m[1] == x || m[2] == x) }
	// mappings
	for _, mb := range before.Mappings {
		ma := findRow(o.Mappings, mb[0])
		switch {
		case ma == nil:
			if !party(mb) || (packet.CommandType(s.Cmd) == packet.MappingDelete && int64(s.Obj) != mb[0]) {
				fail("mapping-deleted", fmt.Sprintf("mapping #%d (listen=%d target=%d) deleted by connection identity %d", mb[0], mb[1], mb[2], x))
			}
		case ma[3] != mb[3] || ma[4] != mb[4]:
			if !party(mb) || (packet.CommandType(s.Cmd) == packet.TunnelTrafficReport && int64(s.Obj) != mb[0]) {
				fail("traffic-counters", fmt.Sprintf("traffic counters of mapping #%d (listen=%d target=%d) changed %d/%d -> %d/%d by connection identity %d",
					mb[0], mb[1], mb[2], mb[3], mb[4], ma[3], ma[4], x))
			}
		case ma[1] != mb[1] || ma[2] != mb[2]:
			fail("mapping-parties", fmt.Sprintf("parties of mapping #%d changed", mb[0]))
		}
	}
	for _, ma := range o.Mappings {
		if findRow(before.Mappings, ma[0]) == nil && !(x != 0 && ma[1] == x) {
			fail("mapping-created", fmt.Sprintf("mapping #%d created with listen=%d by connection identity %d", ma[0], ma[1], x))
		}
	}
	for _, cb := range before.Codes {
		ca := findRow(o.Codes, cb[0])
		if ca == nil {
			fail("code-deleted", fmt.Sprintf("code #%d vanished", cb[0]))
		} else if ca[2] != cb[2] && !(x != 0 && ca[2] == x && cb[2] == 0) {
			fail("code-activated", fmt.Sprintf("code #%d activation changed %d -> %d by connection identity %d", cb[0], cb[2], ca[2], x))
		}
	}
	for _, ca := range o.Codes {
		if findRow(before.Codes, ca[0]) == nil && !(x != 0 && ca[1] == x) {
			fail("code-created", fmt.Sprintf("code #%d created for owner %d by connection identity %d", ca[0], ca[1], x))
		}
	}
	for _, db := range before.Domains {
		if findRow(o.Domains, db[0]) == nil && !(x != 0 && db[1] == x) {
			fail("domain-deleted", fmt.Sprintf("domain #%d of client %d deleted by connection identity %d", db[0], db[1], x))
		}
	}
	for _, da := range o.Domains {
		if findRow(before.Domains, da[0]) == nil && !(x != 0 && da[1] == x) {
			fail("domain-created", fmt.Sprintf("domain #%d created for client %d by connection identity %d", da[0], da[1], x))
		}
	}
	// who is online may change only for the sender itself
	for _, c := range before.Online {
		still := false
		for _, d := range o.Online {
			still = still || d == c
		}
		if !still && c != x {
			fail("disconnected-other", fmt.Sprintf("client %d lost its control connection by a command of connection identity %d", c, x))
		}
	}
	// disclosure (ids looked up in the state after the step: created objects included; deleted ones in the state before)
	look := func(after, bef [][]int64, idx int64) []int64 {
		if r := findRow(after, idx); r != nil {
			return r
		}
		return findRow(bef, idx)
	}
	for _, i := range append(append([]int64{}, o.DiscM...), o.SecretLeak...) {
		if m := look(o.Mappings, before.Mappings, i); m != nil && !party(m) {
			fail("mapping-disclosed", fmt.Sprintf("mapping #%d (listen=%d target=%d) disclosed to connection identity %d", i, m[1], m[2], x))
		}
	}
	for _, i := range o.DiscC {
		if c := look(o.Codes, before.Codes, i); c != nil && !(x != 0 && (c[1] == x || c[2] == x)) {
			fail("code-disclosed", fmt.Sprintf("code #%d (owner %d) disclosed to connection identity %d", i, c[1], x))
		}
	}
	for _, i := range o.DiscD {
		if d := look(o.Domains, before.Domains, i); d != nil && !(x != 0 && d[1] == x) {
			fail("domain-disclosed", fmt.Sprintf("domain #%d (owner %d) disclosed to connection identity %d", i, d[1], x))
		}
	}
	// deliveries
	for _, d := range o.Deliveries {
		t, ct, stamped := d[0], d[1], d[2]
		if packet.CommandType(ct) == packet.NotifyClient {
			if x == 0 || stamped != x {
				fail("notify-sender", fmt.Sprintf("notification delivered to client %d stamped with sender %d; connection identity is %d", t, stamped, x))
			}
			continue
		}
		ok := false
		defaultDNS := s.Tgt == 0 && (packet.CommandType(s.Cmd) == packet.DNSResolve || packet.CommandType(s.Cmd) == packet.DNSQuery)
		for _, m := range before.Mappings {
			if x != 0 && m[1] == x && m[2] == t {
				// the default DNS target is, by the code's own rule, the target of an ACTIVE SOCKS mapping of the sender
				if !defaultDNS || (m[5] == 1 && w.mapSocks[int(m[0])]) {
					ok = true
				}
			}
		}
		if !ok && ct >= 1000 {
			fail("relayed-to-other-node", fmt.Sprintf("relay code %d (1035 TunnelOpen broadcast with SecretKey / 1121 DNS query frame / 1051 config push) addressed to client %d on another node on behalf of connection identity %d, which has no mapping (listen=%d,target=%d): %v", ct, t, x, x, t, w.relayDetail))
		} else if !ok && s.Tgt == 0 && (packet.CommandType(s.Cmd) == packet.DNSResolve || packet.CommandType(s.Cmd) == packet.DNSQuery) {
			// an active SOCKS mapping towards t still exists (somebody else's now): the stale-index defect of getDefaultTargetClientID;
			// none exists: the decision was not taken on the current store at all
			kind := "reached-default-target-without-mapping"
			for _, m := range before.Mappings {
				if m[2] == t && m[5] == 1 && w.mapSocks[int(m[0])] {
					kind = "reached-default-target"
				}
			}
			fail(kind, fmt.Sprintf("DNS request with the DEFAULT target (target_client_id <= 0) forwarded to client %d on behalf of connection identity %d, which is not the listen client of any mapping towards it now", t, x))
		} else if !ok {
			fail("reached-client", fmt.Sprintf("command type %d forwarded to client %d by connection identity %d without a mapping (listen=%d,target=%d)", ct, t, x, x, t))
		}
	}
	// a forwarded DNS request must be answered by the client it was forwarded to
	if o.Spoofed {
		o.PropOK = false
		o.PropKey = fmt.Sprintf("cmd%d-resp:any-connection-answers", s.Cmd)
		o.PropMsg = "a DNS answer sent on a connection other than the target client's was accepted and relayed to the requester"
	}
}

func runCase(raw json.RawMessage) interface{} {
	var c caseIn
	must(json.Unmarshal(raw, &c))
	if c.Mode == "overlap" {
		return runOverlap(raw)
	}
	if c.Mode == "pending" {
		return runPending(raw)
	}
	if c.Mode == "race" {
		return runRace(raw)
	}
	out := &caseOut{PropOK: true, Steps: []stepOut{}}
	w, err := newWorld(&c)
	if w != nil {
		defer w.close()
	}
	if err != nil {
		out.SetupErr = err.Error()
		out.PropOK = false
		return out
	}
	w.snapshot(&out.Init)
	prev := &out.Init
	for i := range c.Steps {
		o := runStep(w, &c.Steps[i], prev)
		out.Steps = append(out.Steps, o)
		out.PropOK = out.PropOK && o.PropOK
		prev = &out.Steps[len(out.Steps)-1]
	}
	return out
}

// ---------------------------------------------------------------------------------------------
// gen: dispatch classification measured on the real stack
// ---------------------------------------------------------------------------------------------

type spyExec struct {
	real   types.CommandExecutor
	called bool
}

func (s *spyExec) Execute(p *types.StreamPacket) error       { s.called = true; return nil }
func (s *spyExec) AddMiddleware(m types.Middleware)           { s.real.AddMiddleware(m) }
func (s *spyExec) SetSession(x types.Session)                 { s.real.SetSession(x) }
func (s *spyExec) GetRegistry() types.CommandRegistry         { return s.real.GetRegistry() }

func gen() {
	ctx, cancel := context.WithCancel(context.Background())
	defer cancel()
	fx, err := server.VerifNewFixture(ctx, memory.New(ctx), server.VerifFixtureOptions{NodeID: "node-c11-gen"})
	must(err)
	defer fx.Close()
	realExec := fx.Session.GetCommandExecutor()
	reg := realExec.GetRegistry()
	spy := &spyExec{real: realExec}
	must(fx.Session.SetCommandExecutor(spy))
	var b strings.Builder
	b.WriteString("(* generated by verif_c11 gen from /repo's working tree — do not edit *)\n")
	b.WriteString("From Coq Require Import NArith List. Import ListNotations. Open Scope N_scope.\n")
	consts := []struct {
		n string
		v packet.CommandType
	}{{"C_Disconnect", packet.Disconnect}, {"C_ConfigGet", packet.ConfigGet}, {"C_CodeGenerate", packet.ConnectionCodeGenerate},
		{"C_CodeList", packet.ConnectionCodeList}, {"C_CodeActivate", packet.ConnectionCodeActivate}, {"C_MappingList", packet.MappingList},
		{"C_MappingGet", packet.MappingGet}, {"C_MappingDelete", packet.MappingDelete}, {"C_HTTPProxyResponse", packet.HTTPProxyResponse},
		{"C_DomBaseDomains", packet.HTTPDomainGetBaseDomains}, {"C_DomCheck", packet.HTTPDomainCheckSubdomain}, {"C_DomGen", packet.HTTPDomainGenSubdomain},
		{"C_DomCreate", packet.HTTPDomainCreate}, {"C_DomDelete", packet.HTTPDomainDelete}, {"C_DomList", packet.HTTPDomainList},
		{"C_Socks5Tunnel", packet.SOCKS5TunnelRequestCmd}, {"C_TrafficReport", packet.TunnelTrafficReport}, {"C_NotifyClient", packet.NotifyClient},
		{"C_SendNotify", packet.SendNotifyToClient}, {"C_DNSResolve", packet.DNSResolve}, {"C_DNSQuery", packet.DNSQuery},
		{"C_TunnelOpenRequest", packet.TunnelOpenRequestCmd}}
	for _, c := range consts {
		fmt.Fprintf(&b, "Definition %s : N := %d.\n", c.n, byte(c.v))
	}
	// route code: 0 = unhandled (executor finds no handler), 1 = registry handler via the executor, 2 = special case before the executor
	b.WriteString("(* (command byte, packet type is CommandResp, route) ; route 0 unhandled / 1 registry handler / 2 pre-executor special case *)\n")
	b.WriteString("Definition dispatch_table : list (N * bool * N) := [\n")
	first := true
	for t := 0; t < 256; t++ {
		for _, resp := range []bool{false, true} {
			spy.called = false
			pt := packet.JsonCommand
			if resp {
				pt = packet.CommandResp
			}
			func() {
				defer func() { _ = recover() }()
				_ = fx.Session.HandlePacket(&types.StreamPacket{ConnectionID: "conn_verif_probe", Timestamp: time.Now(), Packet: &packet.TransferPacket{
					PacketType: pt, CommandPacket: &packet.CommandPacket{CommandType: packet.CommandType(t), CommandId: "probe", CommandBody: "{}"}}})
			}()
			route := 2
			if spy.called {
				route = 0
				if _, ok := reg.GetHandler(packet.CommandType(t)); ok {
					route = 1
				}
			}
			if !first {
				b.WriteString(";\n")
			}
			first = false
			fmt.Fprintf(&b, " (%d, %v, %d)", t, resp, route)
		}
	}
	b.WriteString("\n].\n")
	b.WriteString("(* (command byte, direction) of every handler in the server's registry; direction 0 oneway / 1 duplex *)\n")
	b.WriteString("Definition registered_handlers : list (N * N) := [")
	hs := reg.ListHandlers()
	sort.Slice(hs, func(i, j int) bool { return hs[i] < hs[j] })
	for i, h := range hs {
		hd, _ := reg.GetHandler(h)
		d := 0
		if hd.GetDirection() == types.DirectionDuplex {
			d = 1
		}
		if i > 0 {
			b.WriteString("; ")
		}
		fmt.Fprintf(&b, "(%d, %d)", byte(h), d)
	}
	b.WriteString("].\n")
	fmt.Print(b.String())
}

func main() {
	if len(os.Args) > 1 && os.Args[1] == "gen" {
		gen()
		return
	}
	forEachCase(runCase)
}

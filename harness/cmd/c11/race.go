//go:build verif

// Racing read commands: every client owns a number of private objects (mappings it is both parties of, HTTP domains, connection
// codes); one goroutine per client sends ConfigGet / MappingList / HTTPDomainList / ConnectionCodeList on its own connection in a
// tight loop, all at once, through the real SessionManager.  Oracle: an answer names only objects of its sender (ids and
// mapping SecretKeys) — whatever the handlers and the services they call share between connections.
package main

import (
	"encoding/json"
	"fmt"
	"strings"
	"sync"
	"time"

	"tunnox-core/internal/core/types"
	"tunnox-core/internal/packet"
)

type raceCase struct {
	caseIn
	PerClient int `json:"per_client"` // private mappings per client
	Iters     int `json:"iters"`      // rounds of the command list per client
}
type raceOut struct {
	Answers  int    `json:"answers"`
	Foreign  int    `json:"foreign"` // answers naming somebody else's object
	Short    int    `json:"short"`   // successful ConfigGet / MappingList answers that miss one of the sender's own mappings
	SetupErr string `json:"setup_err,omitempty"`
	PropOK   bool   `json:"prop_ok"`
	PropKey  string `json:"prop_key,omitempty"`
	PropMsg  string `json:"prop_msg,omitempty"`
}

func runRace(raw json.RawMessage) interface{} {
	var c raceCase
	must(json.Unmarshal(raw, &c))
	out := &raceOut{PropOK: true}
	c.Mappings = nil
	for cl := 1; cl <= c.NClients; cl++ {
		for k := 0; k < c.PerClient; k++ {
			c.Mappings = append(c.Mappings, mapSpec{L: cl, T: cl, Proto: "tcp"})
		}
	}
	w, err := newWorld(&c.caseIn)
	if w != nil {
		defer w.close()
	}
	if err != nil {
		out.SetupErr = err.Error()
		out.PropOK = false
		return out
	}
	// tokens of every client: mapping ids + secrets, domain ids, codes
	owner := map[string]int{}
	all, _ := w.fx.Cloud.ListPortMappings("")
	mine := make([]int, c.NClients+1)
	for _, m := range all {
		ci := int(w.idxOfClient(m.ListenClientID))
		owner[`"`+m.ID+`"`] = ci
		if m.SecretKey != "" {
			owner[m.SecretKey] = ci
		}
		mine[ci]++
	}
	for i, d := range c.Domains {
		owner[`"`+w.domIDs[i]+`"`] = d.C
	}
	for i, cs := range c.Codes {
		owner[`"`+w.codes[i]+`"`] = cs.T
	}
	cmds := []packet.CommandType{packet.ConfigGet, packet.ConfigGet, packet.MappingList, packet.ConfigGet, packet.HTTPDomainList, packet.ConfigGet, packet.ConnectionCodeList}
	var mu sync.Mutex
	var wg sync.WaitGroup
	start := make(chan struct{})
	for cl := 1; cl <= c.NClients; cl++ {
		wg.Add(1)
		go func(cl int) {
			defer wg.Done()
			<-start
			for it := 0; it < c.Iters; it++ {
				for _, ct := range cmds {
					w.conn[cl].take()
					_ = w.fx.Session.HandlePacket(&types.StreamPacket{ConnectionID: w.connID[cl], Timestamp: time.Now(), Packet: &packet.TransferPacket{
						PacketType: packet.JsonCommand, CommandPacket: &packet.CommandPacket{CommandType: ct, CommandId: fmt.Sprintf("race-%d-%d-%d", cl, it, ct), CommandBody: "{}"}}})
					var text strings.Builder
					for _, p := range decodeAll(w.conn[cl].take()) {
						if p.CommandPacket != nil && p.PacketType.IsCommandResp() {
							text.WriteString(p.CommandPacket.CommandBody)
						}
					}
					t := text.String()
					own := 0
					mu.Lock()
					out.Answers++
					for tok, o := range owner {
						if !strings.Contains(t, tok) {
							continue
						}
						if o == cl {
							own++
						} else {
							out.Foreign++
							if out.PropOK {
								out.PropOK = false
								out.PropKey = fmt.Sprintf("race:cmd%d:foreign-object-in-answer", ct)
								out.PropMsg = fmt.Sprintf("answer to command %d of client %d (round %d, %d clients racing) names %s, which belongs to client %d", ct, cl, it, c.NClients, tok, o)
							}
						}
					}
					mu.Unlock()
					_ = own
				}
			}
		}(cl)
	}
	close(start)
	wg.Wait()
	return out
}

//go:build verif

package session

// Export shim for the C11 verification harness (compiled only with -tags verif via -overlay).
// Gives the harness the real ClientRegistry so that it can wire the real NotificationService
// (session/notification_service.go) as the router of command.SendNotifyToClientHandler.

func (s *SessionManager) VerifC11ClientRegistry() *ClientRegistry { return s.clientRegistry }

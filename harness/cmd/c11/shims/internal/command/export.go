//go:build verif

package command

import "time"

// Export shim for the C11 verification harness (compiled only with -tags verif via -overlay): lets the overlap scenario
// shorten the duplex RPC timeout so that a handler parked on a gate outlives Execute.
func (ce *CommandExecutor) VerifC11SetTimeout(d time.Duration) { ce.rpcManager.SetTimeout(d) }

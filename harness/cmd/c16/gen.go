//go:build verif

package main

import (
	"bytes"
	"context"
	"fmt"
	"go/ast"
	"go/parser"
	"go/printer"
	"go/token"
	"os"
	"path/filepath"
	"strings"

	ctun "tunnox-core/internal/client/tunnel"
	"tunnox-core/internal/cloud/constants"
	stun "tunnox-core/internal/protocol/session/tunnel"
	"tunnox-core/internal/stream"
)

func repoRoot() string {
	if r := os.Getenv("VERIF_REPO"); r != "" {
		return r
	}
	return "/repo"
}

func nodeText(fset *token.FileSet, n ast.Node) string {
	if n == nil || (fmt.Sprintf("%v", n) == "<nil>") {
		return ""
	}
	var b bytes.Buffer
	printer.Fprint(&b, fset, n)
	return b.String()
}

// header text of a statement: for compound statements only the header expressions (not nested blocks)
func stmtHeader(fset *token.FileSet, s ast.Stmt) string {
	switch x := s.(type) {
	case *ast.IfStmt:
		h := ""
		if x.Init != nil {
			h += nodeText(fset, x.Init)
		}
		return h + " " + nodeText(fset, x.Cond)
	case *ast.ForStmt:
		h := ""
		if x.Init != nil {
			h += nodeText(fset, x.Init)
		}
		if x.Cond != nil {
			h += " " + nodeText(fset, x.Cond)
		}
		if x.Post != nil {
			h += " " + nodeText(fset, x.Post)
		}
		return h
	case *ast.BlockStmt, *ast.SwitchStmt, *ast.SelectStmt, *ast.RangeStmt, *ast.TypeSwitchStmt, *ast.GoStmt, *ast.DeferStmt:
		return ""
	default:
		return nodeText(fset, s)
	}
}

func stmtLabel(fset *token.FileSet, s ast.Stmt) string {
	if _, ok := s.(*ast.GoStmt); ok {
		return "go"
	}
	h := stmtHeader(fset, s)
	switch {
	case strings.Contains(h, ".SetCtx("):
		return "setctx"
	case strings.Contains(h, ".state.CompareAndSwap("):
		return "cas"
	case strings.Contains(h, ".state.Load("):
		return "load"
	case strings.Contains(h, ".state.Store("):
		return "store"
	}
	return "stmt"
}

func findMethod(f *ast.File, recv, name string) *ast.FuncDecl {
	for _, d := range f.Decls {
		fd, ok := d.(*ast.FuncDecl)
		if !ok || fd.Name.Name != name || fd.Recv == nil || len(fd.Recv.List) != 1 || fd.Body == nil {
			continue
		}
		if st, ok := fd.Recv.List[0].Type.(*ast.StarExpr); ok {
			if id, ok := st.X.(*ast.Ident); ok && id.Name == recv {
				return fd
			}
		}
	}
	return nil
}

func findTunnelClose(f *ast.File) *ast.FuncDecl { return findMethod(f, "Tunnel", "Close") }

// tunnelStartShape: order of the two latch-relevant statements of (*Tunnel).Start (top-level statements only):
// the context is created (SetCtx) before the Connecting->Connected CompareAndSwap, or after it.
func tunnelStartShape() (found, setCtxFirst bool, spawns int) {
	fset := token.NewFileSet()
	f, err := parser.ParseFile(fset, filepath.Join(repoRoot(), "internal/client/tunnel/tunnel.go"), nil, 0)
	if err != nil {
		return
	}
	fd := findMethod(f, "Tunnel", "Start")
	if fd == nil {
		return
	}
	iSet, iCas := -1, -1
	for i, s := range fd.Body.List {
		switch stmtLabel(fset, s) {
		case "setctx":
			if iSet < 0 {
				iSet = i
			}
		case "cas":
			if iCas < 0 {
				iCas = i
			}
		case "go":
			spawns++
		}
	}
	return iSet >= 0 && iCas >= 0, iSet < iCas, spawns
}

// sourceWriterShape: does (*dynamicSourceWriter).Write still hold sourceConnMu.RLock when it calls the forwarder's
// Write (a deferred RUnlock, or no RUnlock statement before the Write call)?
func sourceWriterShape() (found, holdsAcrossWrite bool) {
	fset := token.NewFileSet()
	f, err := parser.ParseFile(fset, filepath.Join(repoRoot(), "internal/protocol/session/tunnel/bridge_forward.go"), nil, 0)
	if err != nil {
		return
	}
	fd := findMethod(f, "dynamicSourceWriter", "Write")
	if fd == nil {
		return
	}
	locked, seenWrite := false, false
	var walk func(b *ast.BlockStmt)
	walk = func(b *ast.BlockStmt) {
		for _, s := range b.List {
			if seenWrite {
				return
			}
			txt := nodeText(fset, s)
			switch x := s.(type) {
			case *ast.DeferStmt:
				continue // a deferred RUnlock releases only at return: the lock stays held
			case *ast.IfStmt:
				walk(x.Body)
				continue
			}
			if strings.Contains(txt, "sourceConnMu.RLock()") {
				locked = true
			}
			if strings.Contains(txt, "sourceConnMu.RUnlock()") {
				locked = false
			}
			if strings.Contains(txt, ".Write(") {
				seenWrite = true
				found = true
				holdsAcrossWrite = locked
			}
		}
	}
	walk(fd.Body)
	return
}

// shape of the latch in Tunnel.Close: is the CompareAndSwap retried in a loop? is there a Store(Closing) fallback
// before the body?
func tunnelCloseShape() (casInLoop, blindStore bool, ok bool) {
	fset := token.NewFileSet()
	f, err := parser.ParseFile(fset, filepath.Join(repoRoot(), "internal/client/tunnel/tunnel.go"), nil, 0)
	if err != nil {
		return false, false, false
	}
	fd := findTunnelClose(f)
	if fd == nil {
		return false, false, false
	}
	var walk func(b *ast.BlockStmt, inLoop bool)
	seenCas := false
	walk = func(b *ast.BlockStmt, inLoop bool) {
		for _, s := range b.List {
			lab := stmtLabel(fset, s)
			if lab == "cas" {
				seenCas = true
				if inLoop {
					casInLoop = true
				}
			}
			switch x := s.(type) {
			case *ast.IfStmt:
				walk(x.Body, inLoop)
				if eb, ok := x.Else.(*ast.BlockStmt); ok {
					walk(eb, inLoop)
				}
				// a Store(TunnelStateClosing) inside the failure branch of the CAS
				if lab == "cas" && strings.Contains(nodeText(fset, x.Body), ".state.Store(int32(TunnelStateClosing))") {
					blindStore = true
				}
			case *ast.ForStmt:
				walk(x.Body, true)
			case *ast.BlockStmt:
				walk(x, inLoop)
			}
		}
	}
	walk(fd.Body, false)
	return casInLoop, blindStore, seenCas
}

// streamOnCloseShape: does (*StreamProcessor).onClose assign nil to ps.reader / ps.writer? (syntax tree of
// internal/stream/stream_processor.go)
func streamOnCloseShape() (found, nilsReader, nilsWriter bool) {
	fset := token.NewFileSet()
	f, err := parser.ParseFile(fset, filepath.Join(repoRoot(), "internal/stream/stream_processor.go"), nil, 0)
	if err != nil {
		return
	}
	for _, d := range f.Decls {
		fd, ok := d.(*ast.FuncDecl)
		if !ok || fd.Name.Name != "onClose" || fd.Recv == nil || fd.Body == nil {
			continue
		}
		found = true
		ast.Inspect(fd.Body, func(n ast.Node) bool {
			as, ok := n.(*ast.AssignStmt)
			if !ok || len(as.Lhs) != 1 || len(as.Rhs) != 1 {
				return true
			}
			if id, ok := as.Rhs[0].(*ast.Ident); !ok || id.Name != "nil" {
				return true
			}
			switch strings.ReplaceAll(nodeText(fset, as.Lhs[0]), " ", "") {
			case "ps.reader":
				nilsReader = true
			case "ps.writer":
				nilsWriter = true
			}
			return true
		})
	}
	return
}

type probeRW struct{}

func (probeRW) Read(p []byte) (int, error)  { return 0, fmt.Errorf("closed") }
func (probeRW) Write(p []byte) (int, error) { return len(p), nil }
func (probeRW) Close() error                { return nil }

// behavioural probe on a real StreamProcessor: are the reader / writer fields nil after Close?
func streamCloseNilsFields() (bool, bool) {
	sp := stream.NewStreamProcessor(probeRW{}, probeRW{}, context.Background())
	sp.Close()
	return sp.GetReader() == nil, sp.GetWriter() == nil
}

// streamAcquireShape: in acquireReadLock / acquireWriteLock, is the lock taken BEFORE Dispose.IsClosed() is tested?
func streamAcquireShape() (found, lockFirst bool) {
	fset := token.NewFileSet()
	f, err := parser.ParseFile(fset, filepath.Join(repoRoot(), "internal/stream/stream_processor.go"), nil, 0)
	if err != nil {
		return
	}
	n, first := 0, 0
	for _, name := range []string{"acquireReadLock", "acquireWriteLock"} {
		fd := findMethod(f, "StreamProcessor", name)
		if fd == nil {
			return false, false
		}
		txt := nodeText(fset, fd.Body)
		il, ic := strings.Index(txt, "Lock.Lock()"), strings.Index(txt, "IsClosed()")
		if il < 0 || ic < 0 {
			return false, false
		}
		n++
		if il < ic {
			first++
		}
	}
	return n == 2 && (first == 0 || first == 2), first == 2
}

// mappingCleanupShape: the clean handler registered by NewBaseMappingHandler: does it contain a return statement other
// than its last statement (an early return between the sub-component shutdown calls)?
func mappingCleanupShape() (found, earlyReturn bool) {
	fset := token.NewFileSet()
	f, err := parser.ParseFile(fset, filepath.Join(repoRoot(), "internal/client/mapping/base.go"), nil, 0)
	if err != nil {
		return
	}
	ast.Inspect(f, func(n ast.Node) bool {
		ce, ok := n.(*ast.CallExpr)
		if !ok || len(ce.Args) != 1 {
			return true
		}
		if sel, ok := ce.Fun.(*ast.SelectorExpr); !ok || sel.Sel.Name != "AddCleanHandler" {
			return true
		}
		fl, ok := ce.Args[0].(*ast.FuncLit)
		if !ok || !strings.Contains(nodeText(fset, fl.Body), "adapter.Close()") {
			return true
		}
		found = true
		var last ast.Stmt
		if k := len(fl.Body.List); k > 0 {
			last = fl.Body.List[k-1]
		}
		ast.Inspect(fl.Body, func(m ast.Node) bool {
			if _, isLit := m.(*ast.FuncLit); isLit && m != ast.Node(fl) {
				return false
			}
			if r, ok := m.(*ast.ReturnStmt); ok && ast.Stmt(r) != last {
				earlyReturn = true
			}
			return true
		})
		return false
	})
	return
}

// bridgeCloseShape: does (*Bridge).Close return early when the bridge is already closed?
func bridgeCloseShape() (found, fastPath bool) {
	fset := token.NewFileSet()
	f, err := parser.ParseFile(fset, filepath.Join(repoRoot(), "internal/protocol/session/tunnel/bridge.go"), nil, 0)
	if err != nil {
		return
	}
	fd := findMethod(f, "Bridge", "Close")
	if fd == nil {
		return
	}
	found = true
	for _, s := range fd.Body.List {
		if is, ok := s.(*ast.IfStmt); ok && strings.Contains(nodeText(fset, is.Cond), "IsClosed()") && strings.Contains(nodeText(fset, is.Body), "return") {
			fastPath = true
		}
	}
	return
}

// disposeTimeoutShape: capacity of the result channel made by (*ResourceManager).DisposeWithTimeout.
func disposeTimeoutShape() (found, buffered bool) {
	fset := token.NewFileSet()
	f, err := parser.ParseFile(fset, filepath.Join(repoRoot(), "internal/core/dispose/manager.go"), nil, 0)
	if err != nil {
		return
	}
	fd := findMethod(f, "ResourceManager", "DisposeWithTimeout")
	if fd == nil {
		return
	}
	ast.Inspect(fd.Body, func(n ast.Node) bool {
		ce, ok := n.(*ast.CallExpr)
		if !ok {
			return true
		}
		if id, ok := ce.Fun.(*ast.Ident); ok && id.Name == "make" && len(ce.Args) >= 1 && strings.Contains(nodeText(fset, ce.Args[0]), "chan") {
			found = true
			if len(ce.Args) == 2 {
				if bl, ok := ce.Args[1].(*ast.BasicLit); ok && bl.Value != "0" {
					buffered = true
				}
			}
		}
		return true
	})
	return
}

// closeConnectionShape: in (*SessionManager).CloseConnection, is the map entry deleted before the stream is closed?
func closeConnectionShape() (found, removeFirst bool) {
	fset := token.NewFileSet()
	f, err := parser.ParseFile(fset, filepath.Join(repoRoot(), "internal/protocol/session/connection_lifecycle.go"), nil, 0)
	if err != nil {
		return
	}
	fd := findMethod(f, "SessionManager", "CloseConnection")
	if fd == nil {
		return
	}
	txt := nodeText(fset, fd.Body)
	id, ic := strings.Index(txt, "delete(s.connMap"), strings.Index(txt, "Stream.Close()")
	if id < 0 || ic < 0 {
		return
	}
	return true, id < ic
}

// disposeAllShape: does (*ResourceManager).DisposeAll iterate over a COPY of rm.order (repository) or over the manager's own
// backing array (order := rm.order ... rm.order = rm.order[:0])?
func disposeAllShape() (found, copies bool) {
	fset := token.NewFileSet()
	f, err := parser.ParseFile(fset, filepath.Join(repoRoot(), "internal/core/dispose/manager.go"), nil, 0)
	if err != nil {
		return
	}
	fd := findMethod(f, "ResourceManager", "DisposeAll")
	if fd == nil {
		return
	}
	txt := strings.ReplaceAll(nodeText(fset, fd.Body), " ", "")
	found = strings.Contains(txt, "rm.order")
	aliased := strings.Contains(txt, "rm.order[:0]") || strings.Contains(txt, "order:=rm.order\n")
	return found, strings.Contains(txt, "copy(order,rm.order)") && !aliased
}

// throttleWaitShape: does (*Bridge).waitForTokens wait with the bridge context (WaitN(b.Ctx(), …)) and never sleep?
func throttleWaitShape() (found, cancellable bool) {
	fset := token.NewFileSet()
	f, err := parser.ParseFile(fset, filepath.Join(repoRoot(), "internal/protocol/session/tunnel/bridge_forward.go"), nil, 0)
	if err != nil {
		return
	}
	fd := findMethod(f, "Bridge", "waitForTokens")
	if fd == nil {
		return
	}
	txt := strings.ReplaceAll(nodeText(fset, fd.Body), " ", "")
	return true, strings.Contains(txt, "WaitN(b.Ctx(),") && !strings.Contains(txt, "time.Sleep(") && !strings.Contains(txt, "ReserveN(")
}

// round 6: reportStats takes the counters with Swap(0); Bridge.cleanup runs its final report in a goroutine guarded by a timer
func mappingStatsShape() (found, swaps bool) {
	fset := token.NewFileSet()
	f, err := parser.ParseFile(fset, filepath.Join(repoRoot(), "internal/client/mapping/base_utils.go"), nil, 0)
	if err != nil {
		return
	}
	fd := findMethod(f, "BaseMappingHandler", "reportStats")
	if fd == nil {
		return
	}
	txt := strings.ReplaceAll(nodeText(fset, fd.Body), " ", "")
	return true, strings.Contains(txt, "BytesSent.Swap(0)") && strings.Contains(txt, "BytesReceived.Swap(0)")
}

func bridgeCleanupShape() (found, guarded bool) {
	fset := token.NewFileSet()
	f, err := parser.ParseFile(fset, filepath.Join(repoRoot(), "internal/protocol/session/tunnel/bridge.go"), nil, 0)
	if err != nil {
		return
	}
	fd := findMethod(f, "Bridge", "cleanup")
	if fd == nil {
		return
	}
	hasGo, hasTimer, syncCall := false, false, false
	for _, st := range fd.Body.List {
		txt := nodeText(fset, st)
		switch st.(type) {
		case *ast.GoStmt:
			if strings.Contains(txt, "reportTrafficStats()") {
				hasGo = true
			}
		case *ast.SelectStmt:
			if strings.Contains(txt, "time.After(") {
				hasTimer = true
			}
		case *ast.ExprStmt:
			if strings.Contains(txt, "reportTrafficStats()") {
				syncCall = true
			}
		}
	}
	return true, hasGo && hasTimer && !syncCall
}

// round 7: (*Dispose).Close tests `closed` inside the critical section it sets it in (no IsClosed() fast path before Lock)
func disposeLatchShape() (found, atomicLatch bool) {
	fset := token.NewFileSet()
	f, err := parser.ParseFile(fset, filepath.Join(repoRoot(), "internal/core/dispose/dispose.go"), nil, 0)
	if err != nil {
		return
	}
	fd := findMethod(f, "Dispose", "Close")
	if fd == nil {
		return
	}
	txt := strings.ReplaceAll(nodeText(fset, fd.Body), " ", "")
	il := strings.Index(txt, "currentLock.Lock()")
	it := strings.Index(txt, "ifc.closed{")
	ifast := strings.Index(txt, "IsClosed()")
	if il < 0 {
		return
	}
	return true, it > il && (ifast < 0 || ifast > il)
}

// round 8: RegisterTunnel refuses while any entry exists under the id (no CompareAndSwap replacement); the OnClosed closure
// that handleConnection gives its tunnels does not call IsClosed() / Close() of the handler
func registerTunnelShape() (found, refusesExisting bool) {
	fset := token.NewFileSet()
	f, err := parser.ParseFile(fset, filepath.Join(repoRoot(), "internal/client/tunnel/manager.go"), nil, 0)
	if err != nil {
		return
	}
	fd := findMethod(f, "DefaultTunnelManager", "RegisterTunnel")
	if fd == nil {
		return
	}
	txt := strings.ReplaceAll(nodeText(fset, fd.Body), " ", "")
	return strings.Contains(txt, "LoadOrStore("), !strings.Contains(txt, "CompareAndSwap(") && !strings.Contains(txt, ".Store(")
}

func mappingOnClosedShape() (found, takesDisposeLock bool) {
	fset := token.NewFileSet()
	f, err := parser.ParseFile(fset, filepath.Join(repoRoot(), "internal/client/mapping/base.go"), nil, 0)
	if err != nil {
		return
	}
	ast.Inspect(f, func(n ast.Node) bool {
		kv, ok := n.(*ast.KeyValueExpr)
		if !ok {
			return true
		}
		if id, ok := kv.Key.(*ast.Ident); !ok || id.Name != "OnClosed" {
			return true
		}
		if fl, ok := kv.Value.(*ast.FuncLit); ok {
			found = true
			txt := strings.ReplaceAll(nodeText(fset, fl.Body), " ", "")
			if strings.Contains(txt, "h.IsClosed()") || strings.Contains(txt, "h.Close()") || strings.Contains(txt, "h.Stop()") || strings.Contains(txt, "h.GetErrors()") {
				takesDisposeLock = true
			}
		}
		return true
	})
	return
}

// round 9: flush sites of CopyWithControl's batched counter; releaseSlot of handleConnection goes through a sync.Once
func copyFlushShape() (found, ctxFlush, tailFlush, deferFlush bool) {
	fset := token.NewFileSet()
	f, err := parser.ParseFile(fset, filepath.Join(repoRoot(), "internal/protocol/session/tunnel/bridge_forward.go"), nil, 0)
	if err != nil {
		return
	}
	fd := findMethod(f, "Bridge", "CopyWithControl")
	if fd == nil {
		return
	}
	found = true
	for _, st := range fd.Body.List {
		txt := strings.ReplaceAll(nodeText(fset, st), " ", "")
		switch x := st.(type) {
		case *ast.DeferStmt:
			if strings.Contains(txt, "counter.Add(batchCounter)") {
				deferFlush = true
			}
		case *ast.ForStmt:
			// the explicit add inside the `<-b.Ctx().Done()` branch
			ast.Inspect(x.Body, func(n ast.Node) bool {
				if cc, ok := n.(*ast.CommClause); ok && strings.Contains(strings.ReplaceAll(nodeText(fset, cc.Comm), " ", ""), "Ctx().Done()") {
					if strings.Contains(strings.ReplaceAll(nodeText(fset, cc), " ", ""), "counter.Add(batchCounter)") {
						ctxFlush = true
					}
				}
				return true
			})
		case *ast.IfStmt:
			if strings.Contains(txt, "counter.Add(batchCounter)") {
				tailFlush = true
			}
		}
	}
	return
}

func releaseSlotShape() (found, once bool) {
	fset := token.NewFileSet()
	f, err := parser.ParseFile(fset, filepath.Join(repoRoot(), "internal/client/mapping/base.go"), nil, 0)
	if err != nil {
		return
	}
	fd := findMethod(f, "BaseMappingHandler", "handleConnection")
	if fd == nil {
		return
	}
	for _, st := range fd.Body.List {
		txt := strings.ReplaceAll(nodeText(fset, st), " ", "")
		if strings.HasPrefix(txt, "releaseSlot:=") {
			found = true
			once = strings.Contains(txt, ".Do(func()")
		}
	}
	return
}

// round 10: ReadExact / ReadExactZeroCopy test the processor's context inside their read loop (every iteration)
func readLoopShape() (found, perIter bool) {
	fset := token.NewFileSet()
	f, err := parser.ParseFile(fset, filepath.Join(repoRoot(), "internal/stream/stream_processor_read.go"), nil, 0)
	if err != nil {
		return
	}
	n, inside := 0, 0
	for _, name := range []string{"ReadExact", "ReadExactZeroCopy"} {
		fd := findMethod(f, "StreamProcessor", name)
		if fd == nil {
			return false, false
		}
		n++
		ast.Inspect(fd.Body, func(m ast.Node) bool {
			fs, ok := m.(*ast.ForStmt)
			if !ok {
				return true
			}
			body := strings.ReplaceAll(nodeText(fset, fs.Body), " ", "")
			if strings.Contains(body, ".Read(") && strings.Contains(body, "Ctx().Done()") {
				inside++
			}
			return false
		})
	}
	return n == 2, inside == 2
}

func coqBool(b bool) string {
	if b {
		return "true"
	}
	return "false"
}

func gen() {
	fmt.Println("(* generated by verif_c16 gen from the repository's working tree — do not edit *)")
	fmt.Println("From Coq Require Import NArith List Bool. Import ListNotations.")
	sv := ctun.VerifStateValues()
	fmt.Printf("Definition StConnecting : nat := %d.\nDefinition StConnected : nat := %d.\nDefinition StClosing : nat := %d.\nDefinition StClosed : nat := %d.\n", sv[0], sv[1], sv[2], sv[3])
	tbl := []string{}
	for r := 0; r <= int(ctun.CloseReasonContextCanceled); r++ {
		tbl = append(tbl, coqBool(ctun.VerifShouldNotifyPeer(r)))
	}
	fmt.Printf("(* shouldNotifyPeer for CloseReason 0..%d (normal, local_closed, peer_closed, timeout, error, context_canceled) *)\n", int(ctun.CloseReasonContextCanceled))
	fmt.Printf("Definition NotifyTable : list bool := [%s].\n", strings.Join(tbl, "; "))
	fmt.Printf("Definition ReasonPeerClosed : nat := %d.\nDefinition ReasonContextCanceled : nat := %d.\n", int(ctun.CloseReasonPeerClosed), int(ctun.CloseReasonContextCanceled))
	loop, blind, ok := tunnelCloseShape()
	fmt.Println("(* shape of the latch in Tunnel.Close, read from the syntax tree of internal/client/tunnel/tunnel.go *)")
	fmt.Printf("Definition TunnelCloseLatchFound : bool := %s.\nDefinition TunnelCloseCasRetried : bool := %s.\nDefinition TunnelCloseBlindStore : bool := %s.\n", coqBool(ok), coqBool(loop), coqBool(blind))
	fmt.Printf("(* Bridge has a mutex dedicated to reportTrafficStats *)\nDefinition TrafficReportSerialised : bool := %s.\n", coqBool(stun.VerifTrafficReportSerialised()))
	fnd, nr, nw := streamOnCloseShape()
	br, bw := streamCloseNilsFields()
	fmt.Println("(* StreamProcessor.onClose: syntax tree (assigns nil to ps.reader / ps.writer) and behaviour (GetReader()/GetWriter() nil after Close) *)")
	fmt.Printf("Definition StreamOnCloseFound : bool := %s.\nDefinition StreamOnCloseAssignsNilReader : bool := %s.\nDefinition StreamOnCloseAssignsNilWriter : bool := %s.\n", coqBool(fnd), coqBool(nr), coqBool(nw))
	fmt.Printf("Definition StreamCloseNilsReader : bool := %s.\nDefinition StreamCloseNilsWriter : bool := %s.\n", coqBool(br), coqBool(bw))
	sf, sfirst, spawns := tunnelStartShape()
	fmt.Println("(* Tunnel.Start: SetCtx precedes the Connecting->Connected CompareAndSwap; number of go statements *)")
	fmt.Printf("Definition TunnelStartShapeFound : bool := %s.\nDefinition TunnelStartSetCtxBeforeCas : bool := %s.\nDefinition TunnelStartSpawns : nat := %d.\n", coqBool(sf), coqBool(sfirst), spawns)
	wf, whold := sourceWriterShape()
	fmt.Println("(* dynamicSourceWriter.Write: sourceConnMu.RLock still held while the forwarder's Write runs *)")
	fmt.Printf("Definition SourceWriterShapeFound : bool := %s.\nDefinition SourceWriterHoldsLockAcrossWrite : bool := %s.\n", coqBool(wf), coqBool(whold))
	af, alf := streamAcquireShape()
	fmt.Println("(* StreamProcessor.acquireReadLock / acquireWriteLock: the lock is taken before Dispose.IsClosed() is tested *)")
	fmt.Printf("Definition StreamAcquireShapeFound : bool := %s.\nDefinition StreamLockBeforeClosedCheck : bool := %s.\n", coqBool(af), coqBool(alf))
	mf, mer := mappingCleanupShape()
	fmt.Println("(* the clean handler of NewBaseMappingHandler has a return statement before its last statement *)")
	fmt.Printf("Definition MappingCleanupFound : bool := %s.\nDefinition MappingCleanupEarlyReturn : bool := %s.\n", coqBool(mf), coqBool(mer))
	bf, bfp := bridgeCloseShape()
	fmt.Println("(* Bridge.Close returns at once when the bridge is already closed *)")
	fmt.Printf("Definition BridgeCloseFound : bool := %s.\nDefinition BridgeCloseFastPath : bool := %s.\n", coqBool(bf), coqBool(bfp))
	df, dbuf := disposeTimeoutShape()
	fmt.Println("(* ResourceManager.DisposeWithTimeout: the result channel has capacity >= 1 *)")
	fmt.Printf("Definition DisposeTimeoutShapeFound : bool := %s.\nDefinition DisposeResultChanBuffered : bool := %s.\n", coqBool(df), coqBool(dbuf))
	cf, crf := closeConnectionShape()
	fmt.Println("(* SessionManager.CloseConnection deletes the map entry before it closes the stream *)")
	fmt.Printf("Definition CloseConnectionShapeFound : bool := %s.\nDefinition CloseConnectionRemovesFirst : bool := %s.\n", coqBool(cf), coqBool(crf))
	daf, dac := disposeAllShape()
	fmt.Println("(* ResourceManager.DisposeAll iterates over a copy of rm.order *)")
	fmt.Printf("Definition DisposeAllShapeFound : bool := %s.\nDefinition DisposeAllCopiesOrder : bool := %s.\n", coqBool(daf), coqBool(dac))
	twf, twc := throttleWaitShape()
	fmt.Println("(* Bridge.waitForTokens waits with the bridge context *)")
	fmt.Printf("Definition ThrottleWaitShapeFound : bool := %s.\nDefinition ThrottleWaitUsesContext : bool := %s.\n", coqBool(twf), coqBool(twc))
	msf, mss := mappingStatsShape()
	fmt.Println("(* BaseMappingHandler.reportStats takes both counters with Swap(0) *)")
	fmt.Printf("Definition MappingStatsShapeFound : bool := %s.\nDefinition MappingStatsSwaps : bool := %s.\n", coqBool(msf), coqBool(mss))
	bcf, bcg := bridgeCleanupShape()
	fmt.Println("(* Bridge.cleanup runs its final traffic report in a goroutine and waits for it or for a timer *)")
	fmt.Printf("Definition BridgeCleanupShapeFound : bool := %s.\nDefinition BridgeCleanupReportGuarded : bool := %s.\n", coqBool(bcf), coqBool(bcg))
	dlf, dla := disposeLatchShape()
	fmt.Println("(* Dispose.Close tests and sets `closed` inside one critical section *)")
	fmt.Printf("Definition DisposeLatchShapeFound : bool := %s.\nDefinition DisposeLatchAtomic : bool := %s.\n", coqBool(dlf), coqBool(dla))
	rtf, rtr := registerTunnelShape()
	fmt.Println("(* DefaultTunnelManager.RegisterTunnel refuses while any entry exists under the id *)")
	fmt.Printf("Definition RegisterTunnelShapeFound : bool := %s.\nDefinition RegisterTunnelRefusesExisting : bool := %s.\n", coqBool(rtf), coqBool(rtr))
	mof, mol := mappingOnClosedShape()
	fmt.Println("(* the OnClosed closure of handleConnection takes the handler's own Dispose lock *)")
	fmt.Printf("Definition MappingOnClosedFound : bool := %s.\nDefinition MappingOnClosedTakesDisposeLock : bool := %s.\n", coqBool(mof), coqBool(mol))
	cff, cfc, cft, cfd := copyFlushShape()
	fmt.Println("(* CopyWithControl flushes its batch in the context branch / after the loop / in a defer *)")
	fmt.Printf("Definition CopyFlushShapeFound : bool := %s.\nDefinition CopyFlushCtx : bool := %s.\nDefinition CopyFlushTail : bool := %s.\nDefinition CopyFlushDefer : bool := %s.\n", coqBool(cff), coqBool(cfc), coqBool(cft), coqBool(cfd))
	rsf, rso := releaseSlotShape()
	fmt.Println("(* handleConnection's releaseSlot goes through a sync.Once *)")
	fmt.Printf("Definition ReleaseSlotShapeFound : bool := %s.\nDefinition ReleaseSlotOnce : bool := %s.\n", coqBool(rsf), coqBool(rso))
	rlf, rlp := readLoopShape()
	fmt.Println("(* StreamProcessor.ReadExact / ReadExactZeroCopy test the context on every iteration of their read loop *)")
	fmt.Printf("Definition ReadLoopShapeFound : bool := %s.\nDefinition ReadLoopChecksContextPerIteration : bool := %s.\n", coqBool(rlf), coqBool(rlp))
	fmt.Printf("Definition BatchUpdateThreshold : N := %d%%N.\n", int64(constants.BatchUpdateThreshold))
}

// instrument prints a copy of tunnel.go in which every statement of (*Tunnel).Close and (*Tunnel).Start (at any block
// depth, function literals excluded) is preceded by verifC16Point("Close"|"Start", <label>),
// label = cas | load | store | setctx | go | stmt.
func instrument(path string) {
	fset := token.NewFileSet()
	f, err := parser.ParseFile(fset, path, nil, parser.ParseComments)
	must(err)
	fd := findTunnelClose(f)
	if fd == nil {
		panic("no (*Tunnel).Close in " + path)
	}
	fname := "Close"
	point := func(label string) ast.Stmt {
		return &ast.ExprStmt{X: &ast.CallExpr{Fun: ast.NewIdent("verifC16Point"),
			Args: []ast.Expr{&ast.BasicLit{Kind: token.STRING, Value: fmt.Sprintf("%q", fname)}, &ast.BasicLit{Kind: token.STRING, Value: fmt.Sprintf("%q", label)}}}}
	}
	var instr func(b *ast.BlockStmt)
	instr = func(b *ast.BlockStmt) {
		var outl []ast.Stmt
		for _, s := range b.List {
			outl = append(outl, point(stmtLabel(fset, s)), s)
			switch x := s.(type) {
			case *ast.IfStmt:
				instr(x.Body)
				if eb, ok := x.Else.(*ast.BlockStmt); ok {
					instr(eb)
				}
			case *ast.ForStmt:
				instr(x.Body)
			case *ast.BlockStmt:
				instr(x)
			}
		}
		b.List = outl
	}
	instr(fd.Body)
	if sd := findMethod(f, "Tunnel", "Start"); sd != nil {
		fname = "Start"
		instr(sd.Body)
		// a last point before the implicit end is not needed: Start ends with `return nil`, which gets its own point
	}
	f.Comments = nil
	must(printer.Fprint(os.Stdout, fset, f))
}

//go:build verif

package main

// Round-7 addition: racing closers released through a SPIN barrier (all closers leave the barrier within nanoseconds of
// each other, unlike a channel broadcast) on dispose.Dispose itself and on types built on it.  The clean-handler run
// counter must be exactly 1 in every iteration.

import (
	"context"
	"fmt"
	"runtime"
	"sync"
	"sync/atomic"

	"tunnox-core/internal/core/dispose"
	"tunnox-core/internal/core/storage/memory"
	stun "tunnox-core/internal/protocol/session/tunnel"
	"tunnox-core/internal/stream"
)

// spinRace runs `iters` rounds: mk builds a fresh object and returns its close function and a run counter; K persistent
// workers spin on a generation counter and call close at (nearly) the same instant.
func spinRace(k, iters int, mk func() (closeFn func(), runs func() int)) (firstBad, badRuns int) {
	var gen atomic.Int64
	var ready, done atomic.Int32
	var cur atomic.Value
	stop := make(chan struct{})
	var wg sync.WaitGroup
	for g := 0; g < k; g++ {
		wg.Add(1)
		go func() {
			defer wg.Done()
			seen := int64(0)
			for {
				ready.Add(1)
				for gen.Load() == seen {
					select {
					case <-stop:
						return
					default:
					}
					runtime.Gosched()
				}
				seen = gen.Load()
				if seen < 0 {
					return
				}
				cur.Load().(func())()
				done.Add(1)
			}
		}()
	}
	firstBad = -1
	for it := 0; it < iters; it++ {
		cl, runs := mk()
		cur.Store(cl)
		for ready.Load() != int32(k) {
			runtime.Gosched()
		}
		ready.Store(0)
		done.Store(0)
		gen.Add(1) // release
		for done.Load() != int32(k) {
			runtime.Gosched()
		}
		if n := runs(); n != 1 {
			if firstBad < 0 {
				firstBad, badRuns = it, n
			}
		}
	}
	close(stop)
	gen.Store(-1)
	wg.Wait()
	return
}

func runSpinClose(c caseIn) out {
	o := out{"prop_ok": true}
	before := repoGoroutines()
	k := c.K
	if k < 2 {
		k = 4
	}
	comp := []string{"dispose.Dispose", "session Bridge", "StreamProcessor", "memory.Storage"}[c.Side%4]
	var mk func() (func(), func() int)
	switch c.Side % 4 {
	case 0:
		mk = func() (func(), func() int) {
			var runs atomic.Int32
			d := dispose.NewDispose(context.Background(), func() error { runs.Add(1); return nil })
			return func() { d.Close() }, func() int { return int(runs.Load()) }
		}
	case 1:
		mk = func() (func(), func() int) {
			var runs atomic.Int32
			b := stun.NewBridge(context.Background(), &stun.BridgeConfig{TunnelID: "sp"})
			b.AddCleanHandler(func() error { runs.Add(1); return nil })
			return func() { b.Close() }, func() int { return int(runs.Load()) }
		}
	case 2:
		mk = func() (func(), func() int) {
			r := newCntRW()
			sp := stream.NewStreamProcessor(r, newCntRW(), context.Background())
			return func() { sp.Close() }, func() int { return int(r.closes.Load()) }
		}
	default:
		mk = func() (func(), func() int) {
			var runs atomic.Int32
			st := memory.New(context.Background())
			st.AddCleanHandler(func() error { runs.Add(1); return nil })
			return func() { st.Close() }, func() int { return int(runs.Load()) }
		}
	}
	bad, n := spinRace(k, c.Trials, mk)
	o["trials"], o["first_bad"] = c.Trials, bad
	if bad >= 0 {
		fail(o, "dispose-latch-not-atomic", fmt.Sprintf("%s: %d closers released through a spin barrier, iteration %d of %d: the clean handler ran %d times, want exactly 1", comp, k, bad, c.Trials, n))
	}
	if left := leakCheck(before); len(left) > 0 && o["prop_ok"].(bool) {
		o["leak"] = left
		fail(o, "spin-goroutine-leak", fmt.Sprintf("goroutines left after %s closes: %v", comp, left))
	}
	return o
}

//go:build verif

package main

// Round-3 additions: an operation queued behind the stream processor's lock while Close runs (stream_queue), fault
// injection on the sub-component Close calls of every composite shutdown path (fault_close), and attach-after-close
// histories of the bridge (bridge_attach).

import (
	"context"
	"errors"
	"fmt"
	"io"
	"net"
	"runtime"
	"sort"
	"strings"
	"sync"
	"sync/atomic"
	"time"

	"tunnox-core/internal/client/mapping"
	ctun "tunnox-core/internal/client/tunnel"
	"tunnox-core/internal/cloud/models"
	"tunnox-core/internal/config"
	"tunnox-core/internal/core/events"
	"tunnox-core/internal/core/storage/memory"
	"tunnox-core/internal/packet"
	"tunnox-core/internal/protocol/session"
	stun "tunnox-core/internal/protocol/session/tunnel"
	"tunnox-core/internal/stream"
)

// ---------------------------------------------------------------------------------------------------
// stream_queue: A holds the read (write) lock parked in the underlying call, B is queued on the lock, Close runs and
// returns, A is released.  B must return a closed error and must never reach the underlying reader / writer.
// ---------------------------------------------------------------------------------------------------

type queueRW struct {
	mu            sync.Mutex
	calls         int
	entered       chan struct{}
	release       chan struct{}
	closeReturned atomic.Bool
	closed        atomic.Bool
	closes        atomic.Int32
	bG            atomic.Value // goroutine id of B
	bCalls        atomic.Int32
	lateCalls     atomic.Int32
}

func newQueueRW() *queueRW {
	q := &queueRW{entered: make(chan struct{}), release: make(chan struct{})}
	q.bG.Store("")
	return q
}

func (g *queueRW) touch() error {
	if g.closeReturned.Load() {
		g.lateCalls.Add(1)
	}
	if g.bG.Load().(string) == goid() {
		g.bCalls.Add(1)
	}
	g.mu.Lock()
	g.calls++
	n := g.calls
	g.mu.Unlock()
	if n == 1 {
		close(g.entered)
		<-g.release
	}
	if g.closed.Load() {
		return io.ErrClosedPipe
	}
	return nil
}

func (g *queueRW) Write(p []byte) (int, error) {
	if err := g.touch(); err != nil {
		return 0, err
	}
	return len(p), nil
}

func (g *queueRW) Read(p []byte) (int, error) {
	if err := g.touch(); err != nil {
		return 0, err
	}
	if len(p) == 0 {
		return 0, nil
	}
	p[0] = byte(packet.Heartbeat)
	return 1, nil
}

// closableQueueRW has a Close method (StreamProcessor.onClose calls it; later calls fail); queueRW has none.
type closableQueueRW struct{ *queueRW }

func (c closableQueueRW) Close() error {
	c.closes.Add(1)
	c.closed.Store(true)
	return nil
}

//go:noinline
func c16QueuedOp(sp *stream.StreamProcessor, op int) error {
	switch op {
	case 0:
		_, err := sp.ReadAvailable(16)
		return err
	case 1:
		_, err := sp.ReadExact(1)
		return err
	case 2:
		_, _, err := sp.ReadPacket()
		return err
	case 3:
		_, err := sp.WritePacket(&packet.TransferPacket{PacketType: packet.Heartbeat}, false, 0)
		return err
	default:
		return sp.WriteExact([]byte("x"))
	}
}

func waitParkedOnLock(marker, acquireFn string) bool {
	deadline := time.Now().Add(waitLong)
	buf := make([]byte, 2<<20)
	for time.Now().Before(deadline) {
		n := runtime.Stack(buf, true)
		for _, g := range strings.Split(string(buf[:n]), "\n\n") {
			if strings.Contains(g, marker) && strings.Contains(g, acquireFn) && strings.Contains(g, "Mutex).Lock") {
				return true
			}
		}
		time.Sleep(200 * time.Microsecond)
	}
	return false
}

func runStreamQueue(c caseIn) out {
	o := out{"prop_ok": true}
	op := c.K // operation of B: 0 ReadAvailable, 1 ReadExact, 2 ReadPacket, 3 WritePacket, 4 WriteExact
	isWrite := op >= 3
	q := newQueueRW()
	other := newCntRW()
	var rd io.Reader = other
	var wr io.Writer = other
	var mine interface{} = q
	if c.Started { // closable underlying object
		mine = closableQueueRW{q}
	}
	if isWrite {
		wr = mine.(io.Writer)
	} else {
		rd = mine.(io.Reader)
	}
	sp := stream.NewStreamProcessor(rd, wr, context.Background())
	aDone := make(chan string, 1)
	go func() {
		if isWrite {
			aDone <- tryOp("A", func() error { return sp.WriteExact([]byte("a")) })
		} else {
			aDone <- tryOp("A", func() error { _, e := sp.ReadAvailable(16); return e })
		}
	}()
	select {
	case <-q.entered:
	case <-time.After(waitLong):
		close(q.release)
		return fail(o, "stream-queue-setup", "operation A never reached the underlying reader/writer")
	}
	bDone := make(chan string, 1)
	reg := make(chan struct{})
	go func() {
		q.bG.Store(goid())
		close(reg)
		bDone <- tryOp("B", func() error { return c16QueuedOp(sp, op) })
	}()
	<-reg
	acquire := "acquireReadLock"
	if isWrite {
		acquire = "acquireWriteLock"
	}
	parked := waitParkedOnLock("c16QueuedOp", acquire)
	o["b_parked_on_lock"] = parked
	early := ""
	if !parked {
		select {
		case early = <-bDone:
		default:
		}
	}
	closed := make(chan struct{})
	go func() { sp.Close(); close(closed) }()
	select {
	case <-closed:
	case <-time.After(waitLong):
		close(q.release)
		return fail(o, "stream-close-hang", "StreamProcessor.Close did not return while an operation was in flight")
	}
	q.closeReturned.Store(true)
	close(q.release)
	var a, b string
	select {
	case a = <-aDone:
	case <-time.After(waitLong):
		return fail(o, "stream-queue-setup", "operation A did not finish")
	}
	if early != "" {
		b = early
	} else {
		select {
		case b = <-bDone:
		case <-time.After(waitLong):
			return fail(o, "stream-queue-setup", "operation B did not finish")
		}
	}
	o["a_result"], o["b_result"], o["b_calls"], o["late_calls"], o["closes"] = a, b, int(q.bCalls.Load()), int(q.lateCalls.Load()), int(q.closes.Load())
	names := []string{"ReadAvailable", "ReadExact", "ReadPacket", "WritePacket", "WriteExact"}
	if !parked && early == "" {
		return fail(o, "stream-queue-setup", "operation B neither parked on the lock nor returned")
	}
	if b != "err" || q.bCalls.Load() != 0 {
		return fail(o, "stream-queued-op-after-close", fmt.Sprintf("%s queued on the %s lock behind an in-flight operation while Close() ran and returned: it then returned %q and made %d call(s) on the underlying %s of the closed processor (closable=%v); want a closed error and no call",
			names[op%5], map[bool]string{true: "write", false: "read"}[isWrite], b, q.bCalls.Load(), map[bool]string{true: "writer", false: "reader"}[isWrite], c.Started))
	}
	return o
}

// ---------------------------------------------------------------------------------------------------
// fault_close: every sub-component Close of a composite shutdown path may fail (bit i of `reads` = sub-closer i fails);
// each sub-component's shutdown body must still run exactly once.
// ---------------------------------------------------------------------------------------------------

type subLog struct {
	mu    sync.Mutex
	order []string
	count map[string]int
}

func newSubLog() *subLog { return &subLog{count: map[string]int{}} }
func (l *subLog) hit(name string) {
	l.mu.Lock()
	if l.count[name] == 0 {
		l.order = append(l.order, name)
	}
	l.count[name]++
	l.mu.Unlock()
}

type faultAdapter struct {
	log    *subLog
	failIt bool
	closed chan struct{}
	once   sync.Once
}

func (a *faultAdapter) StartListener(cfg config.MappingConfig) error { return nil }
func (a *faultAdapter) Accept() (io.ReadWriteCloser, error) {
	<-a.closed
	return nil, errors.New("use of closed network connection")
}
func (a *faultAdapter) PrepareConnection(conn io.ReadWriteCloser) error { return nil }
func (a *faultAdapter) GetProtocol() string                             { return "tcp" }
func (a *faultAdapter) Close() error {
	a.log.hit("adapter")
	a.once.Do(func() { close(a.closed) })
	if a.failIt {
		return errors.New("close tcp [::]:0: use of closed network connection")
	}
	return nil
}

type faultClient struct {
	ctx    context.Context
	log    *subLog
	failIt bool
}

func (c *faultClient) DialTunnel(tunnelID, mappingID, secretKey string) (net.Conn, stream.PackageStreamer, error) {
	return nil, nil, errors.New("no dial in this harness")
}
func (c *faultClient) DialTunnelPooled(mappingID, secretKey string) (mapping.PooledTunnelConnInterface, error) {
	return nil, nil
}
func (c *faultClient) ReturnTunnelToPool(conn mapping.PooledTunnelConnInterface)  {}
func (c *faultClient) CloseTunnelFromPool(conn mapping.PooledTunnelConnInterface) {}
func (c *faultClient) IsTunnelPoolEnabled() bool                                  { return false }
func (c *faultClient) GetContext() context.Context                                { return c.ctx }
func (c *faultClient) CheckMappingQuota(mappingID string) error                   { return nil }
func (c *faultClient) TrackTraffic(mappingID string, s, r int64) error {
	c.log.hit("stats")
	if c.failIt {
		return errors.New("control connection gone")
	}
	return nil
}
func (c *faultClient) GetUserQuota() (*models.UserQuota, error) { return nil, errors.New("n/a") }
func (c *faultClient) GetServerProtocol() string                { return "tcp" }
func (c *faultClient) SendTunnelCloseNotify(t int64, tid, mid, reason string) error {
	return nil
}

type errConn struct {
	*countConn
	log    *subLog
	name   string
	failIt bool
}

func (e *errConn) Close() error {
	e.log.hit(e.name)
	e.countConn.Close()
	if e.failIt {
		return errors.New("close " + e.name + ": broken pipe")
	}
	return nil
}

type errBus struct {
	log              *subLog
	failUnsub, failC bool
}

func (b *errBus) Publish(e events.Event) error                     { return nil }
func (b *errBus) Subscribe(t string, h events.EventHandler) error { return nil }
func (b *errBus) Unsubscribe(t string, h events.EventHandler) error {
	b.log.hit("unsubscribe")
	if b.failUnsub {
		return errors.New("not subscribed")
	}
	return nil
}
func (b *errBus) Close() error {
	b.log.hit("bus")
	if b.failC {
		return errors.New("bus close failed")
	}
	return nil
}

type errRW struct {
	*cntRW
	log    *subLog
	name   string
	failIt bool
}

func (e *errRW) Close() error {
	e.log.hit(e.name)
	e.cntRW.Close()
	if e.failIt {
		return errors.New(e.name + " close failed")
	}
	return nil
}

type errTC struct {
	*fakeTC
	log    *subLog
	name   string
	failIt bool
}

func (e *errTC) Close() error {
	e.log.hit(e.name)
	e.fakeTC.Close()
	if e.failIt {
		return errors.New(e.name + " close failed")
	}
	return nil
}

type errNetConn struct {
	net.Conn
	log    *subLog
	name   string
	failIt bool
}

func (e *errNetConn) Close() error {
	e.log.hit(e.name)
	e.Conn.Close()
	if e.failIt {
		return errors.New(e.name + " close failed")
	}
	return nil
}

func runFaultClose(c caseIn) out {
	o := out{"prop_ok": true}
	before := repoGoroutines()
	log := newSubLog()
	bit := func(i int) bool { return c.Reads&(1<<i) != 0 }
	var subs []string
	k := c.K
	if k < 1 {
		k = 1
	}
	comp := []string{"mapping", "stream", "session", "bridge", "tunnel"}[c.Side%5]
	switch comp {
	case "mapping":
		subs = []string{"stats", "tunnels", "adapter"}
		ctx, cancel := context.WithCancel(context.Background())
		defer cancel()
		cl := &faultClient{ctx: ctx, log: log, failIt: bit(0)}
		ad := &faultAdapter{log: log, failIt: bit(2), closed: make(chan struct{})}
		h := mapping.NewBaseMappingHandler(cl, config.MappingConfig{MappingID: "m1", Protocol: "tcp", TargetClientID: 7}, ad)
		if err := h.Start(); err != nil {
			return fail(o, "fault-setup", "mapping handler Start: "+err.Error())
		}
		local, rwc := newCountConn(), newCountConn()
		t := ctun.NewTunnel(&ctun.TunnelConfig{ID: "ft", MappingID: "m1", Role: ctun.TunnelRoleListen, Protocol: "tcp", LocalConn: local,
			TunnelRWC: rwc, Manager: h.GetTunnelManager(), OnClosed: func(r ctun.CloseReason, err error) { log.hit("tunnels") }})
		must(h.GetTunnelManager().RegisterTunnel(t))
		must(t.Start())
		h.VerifAddTraffic(10, 20) // something for the final stats report
		barrierRun(k, func(i int) { h.Stop() })
		h.Stop()
		o["tunnel_state"], o["registered"] = int(t.GetState()), h.GetTunnelManager().CountTunnels()
		if t.GetState() != 3 || h.GetTunnelManager().CountTunnels() != 0 {
			fail(o, "composite-close-skipped-subcomponent", fmt.Sprintf("mapping handler Stop() x%d with failing sub-closers (mask %d: stats report, -, adapter.Close): the live tunnel is in state %d (want Closed 3), %d tunnel(s) still registered, sub-component bodies run: %v", k+1, c.Reads, t.GetState(), h.GetTunnelManager().CountTunnels(), log.count))
		}
		cancel()
		local.Close() // release the tunnel's goroutines if the clean-up skipped it, so later cases are not disturbed
		rwc.Close()
	case "stream":
		subs = []string{"writer", "reader"}
		r := &errRW{cntRW: newCntRW(), log: log, name: "reader", failIt: bit(1)}
		w := &errRW{cntRW: newCntRW(), log: log, name: "writer", failIt: bit(0)}
		sp := stream.NewStreamProcessor(r, w, context.Background())
		barrierRun(k, func(i int) { sp.Close() })
		res := sp.CloseWithResult()
		o["close_errors"] = len(res.Errors)
	case "session":
		subs = []string{"unsubscribe", "conn0", "conn1", "bus"}
		ctx, cancel := context.WithCancel(context.Background())
		defer cancel()
		st := memory.New(ctx)
		defer st.Close()
		sm := session.NewSessionManagerWithConfig(nil, ctx, &session.SessionConfig{HeartbeatTimeout: time.Second, CleanupInterval: 5 * time.Millisecond, MaxConnections: 100, MaxControlConnections: 100})
		bus := &errBus{log: log, failUnsub: bit(0), failC: bit(3)}
		must(sm.SetEventBus(bus))
		for i := 0; i < 2; i++ {
			// reader and writer are separate objects (the stream processor closes both; one object would be closed twice)
			rw := &errConnRW{errRW: &errRW{cntRW: newCntRW(), log: log, name: fmt.Sprintf("conn%d", i), failIt: bit(1 + i)}, id: fmt.Sprintf("fc-%d", i)}
			if _, err := sm.CreateConnection(rw, newCntRW()); err != nil {
				return fail(o, "fault-setup", "CreateConnection: "+err.Error())
			}
		}
		barrierRun(k, func(i int) { sm.Close() })
		sm.Close()
	case "bridge":
		// the net.Conn of a stream-less tunnel connection is legitimately closed twice (it is also the data forwarder), so only
		// the tunnel connections are counted; bits 2,3 still make the net.Conn Close calls fail
		subs = []string{"source-tc", "target-tc"}
		cc := newGatedCC()
		cc.free = true
		ctx, cancel := context.WithCancel(context.Background())
		defer cancel()
		sa, sb := net.Pipe()
		ta, tb := net.Pipe()
		defer sb.Close()
		defer tb.Close()
		src := &errNetConn{Conn: sa, log: log, name: "source-conn", failIt: bit(2)}
		tgt := &errNetConn{Conn: ta, log: log, name: "target-conn", failIt: bit(3)}
		stc := &errTC{fakeTC: &fakeTC{id: "s", conn: src}, log: log, name: "source-tc", failIt: bit(0)}
		ttc := &errTC{fakeTC: &fakeTC{id: "t", conn: tgt}, log: log, name: "target-tc", failIt: bit(1)}
		b := stun.NewBridge(ctx, &stun.BridgeConfig{TunnelID: "fb", MappingID: "m1", CloudControl: cc, SourceTunnelConn: stc})
		b.SetTargetConnection(ttc)
		startDone := make(chan struct{})
		go func() { b.Start(); close(startDone) }()
		barrierRun(k, func(i int) { b.Close() })
		select {
		case <-startDone:
		case <-time.After(waitLong):
			fail(o, "bridge-start-hang", "Bridge.Start did not return after Close with failing sub-closers")
		}
		b.Close()
	case "tunnel":
		subs = []string{"local", "rwc", "unregister", "callback"}
		w := newTunWorld(1, false)
		local := &errConn{countConn: newCountConn(), log: log, name: "local", failIt: bit(0)}
		rwc := &errConn{countConn: newCountConn(), log: log, name: "rwc", failIt: bit(1)}
		mgr := &countMgr{DefaultTunnelManager: w.mgr.DefaultTunnelManager}
		t := ctun.NewTunnel(&ctun.TunnelConfig{ID: "ft2", MappingID: "m1", Role: ctun.TunnelRoleListen, Protocol: "tcp", LocalConn: local,
			TunnelRWC: rwc, Manager: mgr, OnClosed: func(r ctun.CloseReason, err error) { log.hit("callback") }})
		must(mgr.RegisterTunnel(t))
		t.VerifSetState(1)
		barrierRun(k, func(i int) { t.Close(ctun.CloseReasonError, errors.New("x")) })
		t.Close(ctun.CloseReasonNormal, nil)
		for i := int32(0); i < mgr.unreg.Load(); i++ {
			log.hit("unregister")
		}
		w.cancel()
		w.mgr.Close()
	}
	log.mu.Lock()
	order := append([]string{}, log.order...)
	counts := make([]int, len(subs))
	for i, s := range subs {
		counts[i] = log.count[s]
	}
	log.mu.Unlock()
	o["component"], o["subs"], o["counts"], o["order"] = comp, subs, counts, order
	if ok, _ := o["prop_ok"].(bool); ok {
		for i, s := range subs {
			if counts[i] != 1 {
				fail(o, "composite-close-skipped-subcomponent", fmt.Sprintf("%s shutdown by %d caller(s) with failing sub-closers (mask %d over %v): the shutdown body of %q ran %d time(s), want exactly 1 (all: %v, first-invocation order %v)", comp, k+1, c.Reads, subs, s, counts[i], counts, order))
				break
			}
		}
	}
	if left := leakCheck(before); len(left) > 0 {
		o["leak"] = left
		if ok, _ := o["prop_ok"].(bool); ok {
			fail(o, "composite-close-goroutine-leak", fmt.Sprintf("goroutines left after %s shutdown with failing sub-closers (mask %d): %s", comp, c.Reads, strings.Join(left, "; ")))
		}
	}
	return o
}

type errConnRW struct {
	*errRW
	id string
}

func (c *errConnRW) GetConnectionID() string { return c.id }

// ---------------------------------------------------------------------------------------------------
// bridge_attach: histories over {close, attach target, attach source}; the lifecycle's final Close ends every history.
// Every connection ever attached must have been closed exactly once when the last Close has returned.
// ---------------------------------------------------------------------------------------------------

type attached struct {
	name string
	tc   *fakeTC
	nc   *cntNetConn
	sp   *stream.StreamProcessor
	peer net.Conn
}

func runBridgeAttach(c caseIn) out {
	o := out{"prop_ok": true}
	before := repoGoroutines()
	cc := newGatedCC()
	cc.free = true
	ctx, cancel := context.WithCancel(context.Background())
	defer cancel()
	all := []*attached{}
	mk := func(name string) *attached {
		a, b := net.Pipe()
		nc := &cntNetConn{Conn: a}
		sp := stream.NewStreamProcessor(nc, nc, ctx)
		at := &attached{name: name, tc: &fakeTC{id: name, conn: nc, st: sp}, nc: nc, sp: sp, peer: b}
		all = append(all, at)
		return at
	}
	s0 := mk("source0")
	b := stun.NewBridge(ctx, &stun.BridgeConfig{TunnelID: "ba", MappingID: "m1", CloudControl: cc, SourceTunnelConn: s0.tc})
	events := []string{}
	nT, nS := 0, 0
	for _, e := range c.Events {
		switch e.Op {
		case "close":
			b.Close()
		case "attach_target":
			b.SetTargetConnection(mk(fmt.Sprintf("target%d", nT)).tc)
			nT++
		case "attach_source":
			nS++
			b.SetSourceConnection(mk(fmt.Sprintf("source%d", nS)).tc)
		case "lifecycle": // what runBridgeLifecycle does: Start(), then the deferred Close()
			done := make(chan struct{})
			go func() { b.Start(); close(done) }()
			select {
			case <-done:
			case <-time.After(300 * time.Millisecond): // still forwarding: an external Close ends it
				b.Close()
				select {
				case <-done:
				case <-time.After(waitLong):
					fail(o, "bridge-start-hang", "Bridge.Start did not return after Close")
				}
			}
			b.Close()
		}
		events = append(events, e.Op)
	}
	b.Close() // the lifecycle's deferred Close: the last thing that ever happens to a bridge
	// a peer blocked in Read must be released by the close of its connection
	names, tcCloses, ncCloses, spClosed, peerFreed := []string{}, []int{}, []int{}, []bool{}, []bool{}
	for _, at := range all {
		at.peer.SetReadDeadline(time.Now().Add(150 * time.Millisecond))
		_, err := at.peer.Read(make([]byte, 1))
		freed := err != nil && !strings.Contains(err.Error(), "timeout")
		names, tcCloses, ncCloses, spClosed, peerFreed = append(names, at.name), append(tcCloses, int(at.tc.closes.Load())), append(ncCloses, int(at.nc.closes.Load())), append(spClosed, at.sp.IsClosed()), append(peerFreed, freed)
	}
	o["names"], o["tc_closes"], o["conn_closes"], o["stream_closed"], o["peer_released"] = names, tcCloses, ncCloses, spClosed, peerFreed
	sort.Strings(events)
	for i, at := range all {
		if tcCloses[i] != 1 || ncCloses[i] < 1 || !spClosed[i] || !peerFreed[i] {
			fail(o, "bridge-attached-conn-not-closed", fmt.Sprintf("history %v then the lifecycle's final Close: connection %s attached to the bridge was closed %d time(s) (net.Conn %d, stream closed=%v, peer's blocked Read released=%v); want exactly once", c.Events, at.name, tcCloses[i], ncCloses[i], spClosed[i], peerFreed[i]))
			break
		}
	}
	for _, at := range all { // release everything for the following cases
		at.peer.Close()
		at.nc.Conn.Close()
		at.sp.Close()
	}
	cancel()
	if left := leakCheck(before); len(left) > 0 {
		o["leak"] = left
		if ok, _ := o["prop_ok"].(bool); ok {
			fail(o, "bridge-goroutine-leak", "goroutines left after the bridge's final Close: "+strings.Join(left, "; "))
		}
	}
	return o
}

//go:build verif

package tunnel

import "reflect"

// Export shim for the C16 verification harness (add-only; compiled only with -tags verif).

// VerifReportTrafficStats calls the unexported reportTrafficStats (the function the cleanup handler and the periodic
// reporter call).
func (b *Bridge) VerifReportTrafficStats() { b.reportTrafficStats() }

// VerifLastReported returns lastReportedSent / lastReportedReceived.
func (b *Bridge) VerifLastReported() (int64, int64) {
	return b.lastReportedSent.Load(), b.lastReportedReceived.Load()
}

// VerifTrafficReportSerialised reports whether Bridge has a mutex field dedicated to the traffic report
// (structural fact regenerated into Gen/C16.v; decides which model variant the harness run is compared with).
func VerifTrafficReportSerialised() bool {
	t := reflect.TypeOf(Bridge{})
	for i := 0; i < t.NumField(); i++ {
		f := t.Field(i)
		if f.Type.String() == "sync.Mutex" && (f.Name == "trafficReportMu" || f.Name == "reportMu" || f.Name == "trafficMu") {
			return true
		}
	}
	return false
}

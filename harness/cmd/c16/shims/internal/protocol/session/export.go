//go:build verif

package session

import (
	"net"
	"time"

	"tunnox-core/internal/core/types"
	"tunnox-core/internal/stream"
)

// Export shim for the C16 verification harness (add-only; compiled only with -tags verif).

// VerifInjectConnection registers a connection with the given stream / raw connection doubles in the session manager's
// connection map (what CreateConnection does, minus the stream factory).
func (s *SessionManager) VerifInjectConnection(id string, st stream.PackageStreamer, raw net.Conn) {
	s.connLock.Lock()
	s.connMap[id] = &types.Connection{ID: id, Stream: st, RawConn: raw, CreatedAt: time.Now()}
	s.connLock.Unlock()
}

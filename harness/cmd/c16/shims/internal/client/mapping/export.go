//go:build verif

package mapping

import (
	"io"

	"tunnox-core/internal/client/tunnel"
)

// Export shim for the C16 verification harness (add-only; compiled only with -tags verif).

// VerifAddTraffic adds to the handler's local traffic counters so that the final stats report of the clean-up has
// something to send.
func (h *BaseMappingHandler) VerifAddTraffic(sent, received int64) {
	h.trafficStats.BytesSent.Add(sent)
	h.trafficStats.BytesReceived.Add(received)
}

// VerifReportStats calls the unexported reportStats (what the 30 s tick of reportStatsLoop and the clean-up handler call).
func (h *BaseMappingHandler) VerifReportStats() { h.reportStats() }

// VerifLocalTraffic returns the handler's local (not yet reported) counters.
func (h *BaseMappingHandler) VerifLocalTraffic() (int64, int64) {
	return h.trafficStats.BytesSent.Load(), h.trafficStats.BytesReceived.Load()
}

// VerifHandleConnection runs the unexported handleConnection for one accepted local connection (what acceptLoop does).
func (h *BaseMappingHandler) VerifHandleConnection(conn io.ReadWriteCloser) { h.handleConnection(conn) }

// VerifActiveConns / VerifConnectionCount expose the connection-slot counter and the closed-tunnel counter that the
// OnClosed closure of handleConnection updates.
func (h *BaseMappingHandler) VerifActiveConns() int32    { return h.activeConnCount.Load() }
func (h *BaseMappingHandler) VerifConnectionCount() int64 { return h.trafficStats.ConnectionCount.Load() }

// VerifWrapTunnelManager replaces the handler's tunnel manager by wrap(current) (a double that embeds the real one).
func (h *BaseMappingHandler) VerifWrapTunnelManager(wrap func(tunnel.TunnelManager) tunnel.TunnelManager) {
	h.tunnelManager = wrap(h.tunnelManager)
}

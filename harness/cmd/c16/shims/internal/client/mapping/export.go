//go:build verif

package mapping

// Export shim for the C16 verification harness (add-only; compiled only with -tags verif).

// VerifAddTraffic adds to the handler's local traffic counters so that the final stats report of the clean-up has
// something to send.
func (h *BaseMappingHandler) VerifAddTraffic(sent, received int64) {
	h.trafficStats.BytesSent.Add(sent)
	h.trafficStats.BytesReceived.Add(received)
}

//go:build verif

package main

// Round-8 additions: stopping the mapping handler while tunnels created by handleConnection are alive (mapping_live) and a
// tunnel with the same id registered while the old one is inside its Close (tunnel_reregister).

import (
	"context"
	"fmt"
	"net"
	"strings"
	"sync"
	"sync/atomic"
	"time"

	"tunnox-core/internal/client/mapping"
	ctun "tunnox-core/internal/client/tunnel"
	"tunnox-core/internal/config"
	"tunnox-core/internal/stream"
)

type dialClient struct {
	faultClient
	mu    sync.Mutex
	peers []net.Conn
}

func (c *dialClient) DialTunnel(tunnelID, mappingID, secretKey string) (net.Conn, stream.PackageStreamer, error) {
	a, b := net.Pipe()
	c.mu.Lock()
	c.peers = append(c.peers, b)
	c.mu.Unlock()
	return a, stream.NewStreamProcessor(a, a, c.ctx), nil
}

// runMappingLive: `k` connections are driven through the real handleConnection (tunnels created, registered in the
// handler's tunnel manager and started by the handler itself); then Stop().  Stop must return within the bound, the
// adapter is closed exactly once, every tunnel's OnClosed closure ran exactly once (slots released, closed-tunnel counter
// = k), no tunnel is left registered, nothing of the handler keeps running.
func runMappingLive(c caseIn) out {
	o := out{"prop_ok": true}
	before := repoGoroutines()
	ctx, cancel := context.WithCancel(context.Background())
	defer cancel()
	log := newSubLog()
	cl := &dialClient{faultClient: faultClient{ctx: ctx, log: log}}
	ad := &faultAdapter{log: log, closed: make(chan struct{})}
	h := mapping.NewBaseMappingHandler(cl, config.MappingConfig{MappingID: "ml", Protocol: "tcp", TargetClientID: 9}, ad)
	locals := []*countConn{}
	for i := 0; i < c.K; i++ {
		lc := newCountConn()
		locals = append(locals, lc)
		h.VerifHandleConnection(lc)
		time.Sleep(time.Millisecond) // tunnel ids are derived from the clock
	}
	live := h.GetTunnelManager().CountTunnels()
	o["live_before_stop"] = live
	if live != c.K {
		h.Stop()
		return fail(o, "mapping-live-setup", fmt.Sprintf("handleConnection created %d live tunnels, want %d", live, c.K))
	}
	stopDone := make(chan struct{})
	go func() { h.Stop(); close(stopDone) }()
	returned := true
	select {
	case <-stopDone:
	case <-time.After(3 * time.Second):
		returned = false
	}
	adapterCloses := log.count["adapter"]
	o["stop_returned"], o["adapter_closes"] = returned, adapterCloses
	if !returned {
		// (a self-deadlock cannot be released from outside; the stuck goroutine stays for the rest of this process)
		cancel()
		return fail(o, "mapping-stop-hang", fmt.Sprintf("Stop() of a mapping handler with %d live tunnel(s) did not return within 3 s; adapter.Close ran %d time(s), %d tunnel(s) still registered", c.K, adapterCloses, h.GetTunnelManager().CountTunnels()))
	}
	h.Stop()
	localClosed := 0
	for _, lc := range locals {
		if lc.closes.Load() >= 1 {
			localClosed++
		}
	}
	o["adapter_closes"], o["registered"], o["active_conns"], o["closed_tunnels"], o["locals_closed"] = log.count["adapter"], h.GetTunnelManager().CountTunnels(), int(h.VerifActiveConns()), int(h.VerifConnectionCount()), localClosed
	cl.mu.Lock()
	for _, p := range cl.peers {
		p.Close()
	}
	cl.mu.Unlock()
	cancel()
	switch {
	case log.count["adapter"] != 1:
		fail(o, "composite-close-skipped-subcomponent", fmt.Sprintf("Stop() x2 with %d live tunnel(s): adapter.Close ran %d time(s), want exactly 1", c.K, log.count["adapter"]))
	case h.GetTunnelManager().CountTunnels() != 0 || localClosed != c.K:
		fail(o, "mapping-live-tunnel-not-closed", fmt.Sprintf("Stop() with %d live tunnel(s): %d still registered, %d local connection(s) closed", c.K, h.GetTunnelManager().CountTunnels(), localClosed))
	case int(h.VerifActiveConns()) != 0 || int(h.VerifConnectionCount()) != c.K:
		fail(o, "mapping-onclosed-count", fmt.Sprintf("Stop() with %d live tunnel(s): the tunnels' OnClosed closures left %d connection slot(s) taken and counted %d closed tunnel(s), want 0 and %d", c.K, h.VerifActiveConns(), h.VerifConnectionCount(), c.K))
	}
	if left := leakCheck(before); len(left) > 0 && o["prop_ok"].(bool) {
		o["leak"] = left
		fail(o, "mapping-goroutine-leak", "goroutines left after Stop: "+strings.Join(left, "; "))
	}
	return o
}

type gateCloseConn struct {
	*countConn
	entered chan struct{}
	release chan struct{}
	once    sync.Once
}

func (g *gateCloseConn) Close() error {
	g.once.Do(func() { close(g.entered); <-g.release })
	return g.countConn.Close()
}

// runTunnelReregister: tunnel A (id "t1", Connected, registered) is closed; its Close is parked inside the Close of its
// local connection (after the state CAS, before UnregisterTunnel); a second tunnel B with the SAME id is registered
// meanwhile (side 0) or after A's Close has finished (side 1); if the registration succeeds B is started; A's Close is
// released; then manager.Close().  Afterwards every tunnel whose registration succeeded must be Closed, and no tunnel
// goroutine may remain.
func runTunnelReregister(c caseIn) out {
	o := out{"prop_ok": true}
	before := repoGoroutines()
	base := len(tunnelGoroutines()) // left behind by an earlier case on a broken tree
	ctx, cancel := context.WithCancel(context.Background())
	defer cancel()
	mgr := ctun.NewTunnelManager(ctx, ctun.TunnelRoleListen)
	mk := func(local ctunLocal, closed *atomic.Int32) *ctun.Tunnel {
		return ctun.NewTunnel(&ctun.TunnelConfig{ID: "t1", MappingID: "m1", Role: ctun.TunnelRoleListen, Protocol: "tcp", LocalConn: local,
			TunnelRWC: newCountConn(), Manager: mgr, OnClosed: func(r ctun.CloseReason, err error) { closed.Add(1) }})
	}
	var aClosed, bClosed atomic.Int32
	ga := &gateCloseConn{countConn: newCountConn(), entered: make(chan struct{}), release: make(chan struct{})}
	a := mk(ga, &aClosed)
	must(mgr.RegisterTunnel(a))
	a.VerifSetState(1)
	aDone := make(chan struct{})
	go func() { a.Close(ctun.CloseReasonError, nil); close(aDone) }()
	select {
	case <-ga.entered:
	case <-time.After(waitLong):
		close(ga.release)
		return fail(o, "reregister-setup", "tunnel A's Close never reached its local connection")
	}
	if c.Side == 1 { // register only after A's Close has completely finished
		close(ga.release)
		<-aDone
	}
	b := mk(newCountConn(), &bClosed)
	regErr := mgr.RegisterTunnel(b)
	if regErr == nil {
		must(b.Start())
	}
	if c.Side != 1 {
		close(ga.release)
		select {
		case <-aDone:
		case <-time.After(waitLong):
			return fail(o, "tunnel-hang", "tunnel A's Close did not return")
		}
	}
	visible := mgr.GetTunnel("t1") == b
	mgr.Close()
	var left []string
	for dl := time.Now().Add(time.Second); ; {
		left = tunnelGoroutines()
		if len(left) <= base || time.Now().After(dl) {
			break
		}
		time.Sleep(time.Millisecond)
	}
	if len(left) <= base {
		left = nil
	}
	o["b_registered"], o["b_visible_before_manager_close"], o["b_state"], o["a_state"], o["a_on_closed"], o["b_on_closed"], o["left"] = regErr == nil, visible, int(b.GetState()), int(a.GetState()), int(aClosed.Load()), int(bClosed.Load()), left
	if regErr != nil {
		b.Close(ctun.CloseReasonNormal, nil) // what the creator does when the registration is refused
	}
	when := []string{"while tunnel A was between its state CAS and UnregisterTunnel", "after tunnel A's Close had returned"}[c.Side&1]
	switch {
	case regErr == nil && (b.GetState() != 3 || bClosed.Load() != 1):
		fail(o, "tunnel-reregistered-invisible", fmt.Sprintf("tunnel B registered under A's id %s (RegisterTunnel succeeded, visible to the manager before manager.Close: %v): after manager.Close() B is in state %d with onClosed=%d; goroutines left: %s", when, visible, b.GetState(), bClosed.Load(), strings.Join(left, ", ")))
	case a.GetState() != 3 || aClosed.Load() != 1:
		fail(o, "tunnel-close-not-run", fmt.Sprintf("tunnel A: state %d, onClosed=%d", a.GetState(), aClosed.Load()))
	case len(left) > 0:
		fail(o, "tunnel-goroutine-leak", "tunnel goroutines left after manager.Close(): "+strings.Join(left, ", "))
	}
	if regErr == nil && b.GetState() != 3 {
		b.Close(ctun.CloseReasonNormal, nil)
	}
	cancel()
	if l := leakCheck(before); len(l) > 0 && o["prop_ok"].(bool) {
		o["leak"] = l
		fail(o, "tunnel-goroutine-leak", "goroutines left: "+strings.Join(l, "; "))
	}
	return o
}

type ctunLocal interface {
	Read(p []byte) (int, error)
	Write(p []byte) (int, error)
	Close() error
}

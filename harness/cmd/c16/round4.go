//go:build verif

package main

// Round-4 additions: the dispose package's ResourceManager (res_mgr) and overlapping closers of one session connection
// (session_overlap).

import (
	"context"
	"errors"
	"fmt"
	"net"
	"runtime"
	"sort"
	"strings"
	"sync"
	"sync/atomic"
	"time"

	"tunnox-core/internal/core/dispose"
	"tunnox-core/internal/core/storage/memory"
	"tunnox-core/internal/protocol/session"
	"tunnox-core/internal/stream"
)

// ---------------------------------------------------------------------------------------------------
// res_mgr
// ---------------------------------------------------------------------------------------------------

type gatedRes struct {
	id     int
	failIt bool
	gate   chan struct{} // nil = never blocks
	count  atomic.Int32
	log    *[]int
	mu     *sync.Mutex
}

func (r *gatedRes) Dispose() error {
	r.count.Add(1)
	r.mu.Lock()
	*r.log = append(*r.log, r.id)
	r.mu.Unlock()
	if r.gate != nil {
		<-r.gate
	}
	if r.failIt {
		return errors.New("dispose failed")
	}
	return nil
}

// disposeGoroutines: goroutines with a frame of package core/dispose (other than through this harness's own calls).
func disposeGoroutines() []string {
	buf := make([]byte, 4<<20)
	buf = buf[:runtime.Stack(buf, true)]
	var res []string
	for _, g := range strings.Split(string(buf), "\n\n") {
		if strings.Contains(g, "main.runCase") || strings.Contains(g, "main.main") {
			continue
		}
		if i := strings.Index(g, "tunnox-core/internal/core/dispose."); i >= 0 {
			f := g[i+len("tunnox-core/internal/core/dispose."):]
			if j := strings.IndexAny(f, "\n"); j > 0 {
				f = f[:j]
			}
			if j := strings.LastIndex(f, "("); j > 0 {
				f = f[:j]
			}
			st := ""
			if a, b := strings.Index(g, "["), strings.Index(g, "]"); a >= 0 && b > a {
				st = g[a : b+1]
			}
			res = append(res, f+" "+st)
		}
	}
	sort.Strings(res)
	return res
}

// runResMgr.  events: register id fail | unregister id | dispose_all | timeout ms (DisposeWithTimeout; resource ids >= 100
// block in Dispose until the gate event) | gate (opens the gate) | race k (k concurrent DisposeAll).
// After the history the gate is opened; then: no goroutine of package dispose remains, no resource disposed twice, every
// resource that was registered when a DisposeAll started was disposed exactly once.
func runResMgr(c caseIn) out {
	o := out{"prop_ok": true}
	base := map[string]int{} // goroutines of package dispose that were already there (left behind by an earlier case)
	for _, g := range disposeGoroutines() {
		base[g]++
	}
	rm := dispose.NewResourceManager()
	var mu sync.Mutex
	dlog := []int{}
	gate := make(chan struct{})
	gateOpen := false
	openGate := func() {
		if !gateOpen {
			gateOpen = true
			close(gate)
		}
	}
	res := []*gatedRes{} // one entry per successful registration
	registered := []int{} // indices into res
	mustDispose := map[int]bool{}
	results := []interface{}{}
	timedOut := 0
	helpers := []chan struct{}{}
	// after the gate opened: wait until every parked DisposeAll (own goroutine, or DisposeWithTimeout's helper) has finished
	waitHelpers := func() {
		for _, h := range helpers {
			if h == nil {
				continue
			}
			select {
			case <-h:
			case <-time.After(waitLong):
				fail(o, "resmgr-hang", "DisposeAll did not return after the gate opened")
			}
		}
		// DisposeWithTimeout's helper: visible only in the goroutine dump; give it a moment to leave DisposeAll
		for dl := time.Now().Add(time.Second); time.Now().Before(dl); {
			busy := false
			for _, g := range disposeGoroutines() {
				if strings.Contains(g, "DisposeAll") || strings.Contains(g, "Dispose ") {
					busy = true
				}
			}
			if !busy {
				break
			}
			time.Sleep(200 * time.Microsecond)
		}
		helpers = nil
	}
	for _, e := range c.Events {
		switch e.Op {
		case "register":
			r := &gatedRes{id: e.A, failIt: e.B != 0, log: &dlog, mu: &mu}
			if e.A >= 100 {
				r.gate = gate
			}
			if err := rm.Register(fmt.Sprint("r", e.A), r); err == nil {
				res = append(res, r)
				registered = append(registered, len(res)-1)
				results = append(results, "ok")
			} else {
				results = append(results, "err")
			}
		case "unregister":
			if err := rm.Unregister(fmt.Sprint("r", e.A)); err == nil {
				results = append(results, "ok")
				for i, x := range registered {
					if res[x].id == e.A {
						registered = append(registered[:i], registered[i+1:]...)
						break
					}
				}
			} else {
				results = append(results, "err")
			}
		case "dispose_all":
			if len(helpers) > 0 && !gateOpen { // a DisposeAll is parked in a slow resource: the code returns an empty result at once
				r := rm.DisposeAll()
				results = append(results, len(r.Errors))
				continue
			}
			for _, x := range registered {
				mustDispose[x] = true
			}
			blocked := false
			for _, x := range registered {
				if res[x].id >= 100 && !gateOpen {
					blocked = true
				}
			}
			if blocked { // would park on the gate: run it aside, it finishes when the gate opens
				done := make(chan struct{})
				helpers = append(helpers, done)
				go func() { rm.DisposeAll(); close(done) }()
				time.Sleep(2 * time.Millisecond)
				results = append(results, "parked")
			} else {
				r := rm.DisposeAll()
				results = append(results, len(r.Errors))
			}
			registered = nil
		case "timeout":
			if len(helpers) > 0 && !gateOpen {
				r := rm.DisposeWithTimeout(time.Duration(e.A) * time.Millisecond)
				results = append(results, len(r.Errors))
				continue
			}
			for _, x := range registered {
				mustDispose[x] = true
			}
			r := rm.DisposeWithTimeout(time.Duration(e.A) * time.Millisecond)
			if len(r.Errors) == 1 && r.Errors[0].ResourceName == "timeout" {
				timedOut++
				results = append(results, "timeout")
				// the helper goroutine is still inside DisposeAll: treat it like a parked DisposeAll until the gate opens
				helpers = append(helpers, nil)
			} else {
				results = append(results, len(r.Errors))
			}
			registered = nil
		case "gate":
			openGate()
			waitHelpers()
			results = append(results, "ok")
		case "race":
			if len(helpers) > 0 && !gateOpen {
				barrierRun(e.A, func(i int) { rm.DisposeAll() })
				results = append(results, "ok")
				continue
			}
			for _, x := range registered {
				mustDispose[x] = true
			}
			pan := barrierRun(e.A, func(i int) { rm.DisposeAll() })
			if len(pan) > 0 {
				fail(o, "resmgr-panic", "concurrent DisposeAll: "+pan[0])
			}
			registered = nil
			results = append(results, "ok")
		}
	}
	openGate()
	waitHelpers()
	// everything has returned and the gate is open: nothing of package dispose may be left running
	var left []string
	for dl := time.Now().Add(3 * time.Second); ; {
		left = nil
		seen := map[string]int{}
		for _, g := range disposeGoroutines() {
			seen[g]++
			if seen[g] > base[g] {
				left = append(left, g)
			}
		}
		if len(left) == 0 || time.Now().After(dl) {
			break
		}
		time.Sleep(time.Millisecond)
	}
	mu.Lock()
	dl := append([]int{}, dlog...)
	mu.Unlock()
	counts := [][]int{}
	for _, r := range res {
		counts = append(counts, []int{r.id, int(r.count.Load())})
	}
	o["dispose_log"], o["counts"], o["results"], o["timed_out"], o["left"], o["remaining"] = dl, counts, results, timedOut, left, rm.GetResourceCount()
	if ok, _ := o["prop_ok"].(bool); !ok {
		return o
	}
	if len(left) > 0 {
		return fail(o, "resmgr-goroutine-left", fmt.Sprintf("history %v: every call has returned and the slow resource has finished, but %d goroutine(s) of package dispose remain: %s", c.Events, len(left), strings.Join(left, "; ")))
	}
	for i, r := range res {
		n := int(r.count.Load())
		if n > 1 || (mustDispose[i] && n != 1) {
			return fail(o, "resmgr-dispose-count", fmt.Sprintf("history %v: resource %d (registration #%d) was disposed %d time(s), want exactly 1", c.Events, r.id, i, n))
		}
	}
	return o
}

// ---------------------------------------------------------------------------------------------------
// session_overlap
// ---------------------------------------------------------------------------------------------------

type gatedStream struct {
	stream.PackageStreamer
	calls   atomic.Int32
	entered chan struct{}
	release chan struct{}
}

func (s *gatedStream) Close() {
	if s.calls.Add(1) == 1 {
		close(s.entered)
		<-s.release
	}
}

type cntRaw struct {
	net.Conn
	closes atomic.Int32
}

func (c *cntRaw) Close() error { c.closes.Add(1); return nil }

// runSessionOverlap: closer A (side 0: CloseConnection, side 1: SessionManager.Close) is parked inside the connection's
// stream Close; K further closers (reads bit i = 1: SessionManager.Close, 0: CloseConnection for the same id) run
// meanwhile; then A is released.  The connection's release body (stream Close, raw conn Close) must have run exactly once
// and the connection must be gone from the map.
func runSessionOverlap(c caseIn) out {
	o := out{"prop_ok": true}
	before := repoGoroutines()
	ctx, cancel := context.WithCancel(context.Background())
	defer cancel()
	st0 := memory.New(ctx)
	defer st0.Close()
	sm := session.NewSessionManagerWithConfig(nil, ctx, &session.SessionConfig{HeartbeatTimeout: time.Minute, CleanupInterval: time.Minute, MaxConnections: 100, MaxControlConnections: 100})
	gs := &gatedStream{entered: make(chan struct{}), release: make(chan struct{})}
	raw := &cntRaw{}
	sm.VerifInjectConnection("oc-1", gs, raw)
	other := &gatedStream{entered: make(chan struct{}), release: make(chan struct{})}
	close(other.release)
	sm.VerifInjectConnection("oc-2", other, &cntRaw{})
	closer := func(kind int) {
		if kind == 1 {
			sm.Close()
		} else {
			sm.CloseConnection("oc-1")
		}
	}
	aDone := make(chan struct{})
	go func() { closer(c.Side); close(aDone) }()
	select {
	case <-gs.entered:
	case <-time.After(waitLong):
		close(gs.release)
		return fail(o, "session-overlap-setup", "the first closer never reached the stream's Close")
	}
	k := c.K
	if k < 1 {
		k = 1
	}
	var wg sync.WaitGroup
	for i := 0; i < k; i++ {
		wg.Add(1)
		kind := (c.Reads >> i) & 1
		go func() { defer wg.Done(); closer(kind) }()
	}
	bDone := make(chan struct{})
	go func() { wg.Wait(); close(bDone) }()
	returnedWhileParked := true
	select {
	case <-bDone:
	case <-time.After(150 * time.Millisecond): // they wait for a lock the parked closer holds: fine, as long as nothing is released twice
		returnedWhileParked = false
	}
	during := int(gs.calls.Load())
	close(gs.release)
	for _, ch := range []chan struct{}{aDone, bDone} {
		select {
		case <-ch:
		case <-time.After(waitLong):
			return fail(o, "session-overlap-hang", "a closer did not return after the stream's Close was released")
		}
	}
	_, still := sm.GetConnection("oc-1")
	o["stream_closes"], o["raw_closes"], o["during"], o["registered"], o["overlapped"] = int(gs.calls.Load()), int(raw.closes.Load()), during, still, returnedWhileParked
	sm.Close()
	cancel()
	kinds := []string{"CloseConnection", "SessionManager.Close"}
	if gs.calls.Load() != 1 || raw.closes.Load() != 1 || still {
		fail(o, "session-conn-released-twice", fmt.Sprintf("%s parked inside the connection's stream Close while %d more closer(s) (mask %d: 0 = CloseConnection, 1 = SessionManager.Close) ran: stream Close ran %d time(s), raw connection Close %d time(s), still registered=%v; want exactly once each and removed",
			kinds[c.Side&1], k, c.Reads, gs.calls.Load(), raw.closes.Load(), still))
	}
	if left := leakCheck(before); len(left) > 0 {
		o["leak"] = left
		if ok, _ := o["prop_ok"].(bool); ok {
			fail(o, "session-goroutine-leak", "goroutines left after SessionManager.Close: "+strings.Join(left, "; "))
		}
	}
	return o
}

//go:build verif

package main

// Round-4 additions: the dispose package's ResourceManager (res_mgr) and overlapping closers of one session connection
// (session_overlap).

import (
	"context"
	"errors"
	"fmt"
	"io"
	"net"
	"runtime"
	"sort"
	"strings"
	"sync"
	"sync/atomic"
	"time"

	"tunnox-core/internal/core/dispose"
	"tunnox-core/internal/core/storage/memory"
	"tunnox-core/internal/protocol/session"
	stun "tunnox-core/internal/protocol/session/tunnel"
	"tunnox-core/internal/stream"
)

// ---------------------------------------------------------------------------------------------------
// res_mgr
// ---------------------------------------------------------------------------------------------------

type gatedRes struct {
	id     int
	failIt bool
	gate   chan struct{} // nil = never blocks
	count  atomic.Int32
	log    *[]int
	mu     *sync.Mutex
	ev     *[][]int
	inside func(r *gatedRes) // runs inside Dispose (ids 200..299 register resource id+100 on the same manager)
}

func (r *gatedRes) Dispose() error {
	r.count.Add(1)
	r.mu.Lock()
	*r.log = append(*r.log, r.id)
	if r.ev != nil {
		*r.ev = append(*r.ev, []int{0, r.id})
	}
	r.mu.Unlock()
	if r.inside != nil {
		r.inside(r)
	}
	if r.gate != nil {
		<-r.gate
	}
	if r.failIt {
		return errors.New("dispose failed")
	}
	return nil
}

// disposeGoroutines: goroutines with a frame of package core/dispose (other than through this harness's own calls).
func disposeGoroutines() []string {
	buf := make([]byte, 4<<20)
	buf = buf[:runtime.Stack(buf, true)]
	var res []string
	for _, g := range strings.Split(string(buf), "\n\n") {
		if strings.Contains(g, "main.runCase") || strings.Contains(g, "main.main") {
			continue
		}
		if i := strings.Index(g, "tunnox-core/internal/core/dispose."); i >= 0 {
			f := g[i+len("tunnox-core/internal/core/dispose."):]
			if j := strings.IndexAny(f, "\n"); j > 0 {
				f = f[:j]
			}
			if j := strings.LastIndex(f, "("); j > 0 {
				f = f[:j]
			}
			st := ""
			if a, b := strings.Index(g, "["), strings.Index(g, "]"); a >= 0 && b > a {
				st = g[a : b+1]
			}
			res = append(res, f+" "+st)
		}
	}
	sort.Strings(res)
	return res
}

// runResMgr.  events: register id fail | unregister id | dispose_all | timeout ms (DisposeWithTimeout; resource ids >= 100
// block in Dispose until the gate event) | gate (opens the gate) | race k (k concurrent DisposeAll).
// After the history the gate is opened; then: no goroutine of package dispose remains, no resource disposed twice, every
// resource that was registered when a DisposeAll started was disposed exactly once.
func runResMgr(c caseIn) out {
	o := out{"prop_ok": true}
	base := map[string]int{} // goroutines of package dispose that were already there (left behind by an earlier case)
	for _, g := range disposeGoroutines() {
		base[g]++
	}
	rm := dispose.NewResourceManager()
	var mu sync.Mutex
	dlog := []int{}
	gate := make(chan struct{})
	gateOpen := false
	openGate := func() {
		if !gateOpen {
			gateOpen = true
			close(gate)
		}
	}
	evlog := [][]int{} // unified order of events since the start: [0, id] = Dispose(id) entered, [1, id] = Register(id) succeeded
	during := map[int]bool{} // registrations (index into res) made while a DisposeAll was running
	var resMu sync.Mutex
	res := []*gatedRes{} // one entry per successful registration
	registered := []int{} // indices into res
	mustDispose := map[int]bool{}
	results := []interface{}{}
	timedOut := 0
	helpers := []chan struct{}{}
	// after the gate opened: wait until every parked DisposeAll (own goroutine, or DisposeWithTimeout's helper) has finished
	waitHelpers := func() {
		for _, h := range helpers {
			if h == nil {
				continue
			}
			select {
			case <-h:
			case <-time.After(waitLong):
				fail(o, "resmgr-hang", "DisposeAll did not return after the gate opened")
			}
		}
		// DisposeWithTimeout's helper: visible only in the goroutine dump; give it a moment to leave DisposeAll
		for dl := time.Now().Add(time.Second); time.Now().Before(dl); {
			busy := false
			for _, g := range disposeGoroutines() {
				if strings.Contains(g, "DisposeAll") || strings.Contains(g, "Dispose ") {
					busy = true
				}
			}
			if !busy {
				break
			}
			time.Sleep(200 * time.Microsecond)
		}
		helpers = nil
	}
	for _, e := range c.Events {
		switch e.Op {
		case "register":
			r := &gatedRes{id: e.A, failIt: e.B != 0, log: &dlog, mu: &mu, ev: &evlog}
			if e.A >= 100 && e.A < 200 {
				r.gate = gate
			}
			if e.A >= 200 && e.A < 300 { // its Dispose registers another resource on the same manager
				r.inside = func(self *gatedRes) {
					nr := &gatedRes{id: self.id + 100, log: &dlog, mu: &mu, ev: &evlog}
					if err := rm.Register(fmt.Sprint("r", nr.id), nr); err == nil {
						resMu.Lock()
						res = append(res, nr)
						during[len(res)-1] = true
						resMu.Unlock()
						mu.Lock()
						evlog = append(evlog, []int{1, nr.id})
						mu.Unlock()
					}
				}
			}
			if err := rm.Register(fmt.Sprint("r", e.A), r); err == nil {
				resMu.Lock()
				res = append(res, r)
				if len(helpers) > 0 && !gateOpen {
					during[len(res)-1] = true
				}
				resMu.Unlock()
				mu.Lock()
				evlog = append(evlog, []int{1, e.A})
				mu.Unlock()
				registered = append(registered, len(res)-1)
				results = append(results, "ok")
			} else {
				results = append(results, "err")
			}
		case "unregister":
			if err := rm.Unregister(fmt.Sprint("r", e.A)); err == nil {
				results = append(results, "ok")
				for i, x := range registered {
					if res[x].id == e.A {
						registered = append(registered[:i], registered[i+1:]...)
						break
					}
				}
			} else {
				results = append(results, "err")
			}
		case "dispose_all":
			if len(helpers) > 0 && !gateOpen { // a DisposeAll is parked in a slow resource: the code returns an empty result at once
				r := rm.DisposeAll()
				results = append(results, len(r.Errors))
				continue
			}
			for _, x := range registered {
				mustDispose[x] = true
			}
			mu.Lock()
			evlog = append(evlog, []int{2, 0}) // a DisposeAll starts
			mu.Unlock()
			blocked := false
			for _, x := range registered {
				if res[x].id >= 100 && !gateOpen {
					blocked = true
				}
			}
			if blocked { // would park on the gate: run it aside, it finishes when the gate opens
				done := make(chan struct{})
				helpers = append(helpers, done)
				go func() { rm.DisposeAll(); close(done) }()
				time.Sleep(2 * time.Millisecond)
				results = append(results, "parked")
			} else {
				r := rm.DisposeAll()
				results = append(results, len(r.Errors))
			}
			registered = nil
		case "timeout":
			if len(helpers) > 0 && !gateOpen {
				r := rm.DisposeWithTimeout(time.Duration(e.A) * time.Millisecond)
				results = append(results, len(r.Errors))
				continue
			}
			for _, x := range registered {
				mustDispose[x] = true
			}
			mu.Lock()
			evlog = append(evlog, []int{2, 0}) // a DisposeAll starts (inside DisposeWithTimeout's helper)
			mu.Unlock()
			r := rm.DisposeWithTimeout(time.Duration(e.A) * time.Millisecond)
			if len(r.Errors) == 1 && r.Errors[0].ResourceName == "timeout" {
				timedOut++
				results = append(results, "timeout")
				// the helper goroutine is still inside DisposeAll: treat it like a parked DisposeAll until the gate opens
				helpers = append(helpers, nil)
			} else {
				results = append(results, len(r.Errors))
			}
			registered = nil
		case "gate":
			openGate()
			waitHelpers()
			results = append(results, "ok")
		case "race":
			if len(helpers) > 0 && !gateOpen {
				barrierRun(e.A, func(i int) { rm.DisposeAll() })
				results = append(results, "ok")
				continue
			}
			for _, x := range registered {
				mustDispose[x] = true
			}
			pan := barrierRun(e.A, func(i int) { rm.DisposeAll() })
			if len(pan) > 0 {
				fail(o, "resmgr-panic", "concurrent DisposeAll: "+pan[0])
			}
			registered = nil
			results = append(results, "ok")
		}
	}
	openGate()
	waitHelpers()
	// everything has returned and the gate is open: nothing of package dispose may be left running
	var left []string
	for dl := time.Now().Add(3 * time.Second); ; {
		left = nil
		seen := map[string]int{}
		for _, g := range disposeGoroutines() {
			seen[g]++
			if seen[g] > base[g] {
				left = append(left, g)
			}
		}
		if len(left) == 0 || time.Now().After(dl) {
			break
		}
		time.Sleep(time.Millisecond)
	}
	mu.Lock()
	dl := append([]int{}, dlog...)
	mu.Unlock()
	counts := [][]int{}
	for _, r := range res {
		counts = append(counts, []int{r.id, int(r.count.Load())})
	}
	still := map[string]bool{}
	for _, n := range rm.ListResources() {
		still[n] = true
	}
	o["still_registered"] = rm.ListResources()
	mu.Lock()
	o["events"] = append([][]int{}, evlog...)
	mu.Unlock()
	o["dispose_log"], o["counts"], o["results"], o["timed_out"], o["left"], o["remaining"] = dl, counts, results, timedOut, left, rm.GetResourceCount()
	if ok, _ := o["prop_ok"].(bool); !ok {
		return o
	}
	if len(left) > 0 {
		return fail(o, "resmgr-goroutine-left", fmt.Sprintf("history %v: every call has returned and the slow resource has finished, but %d goroutine(s) of package dispose remain: %s", c.Events, len(left), strings.Join(left, "; ")))
	}
	for i, r := range res {
		n := int(r.count.Load())
		if during[i] && n == 0 && !still[fmt.Sprint("r", r.id)] {
			return fail(o, "resmgr-resource-lost", fmt.Sprintf("history %v: resource %d, registered while a DisposeAll was running, was neither disposed nor is it registered afterwards", c.Events, r.id))
		}
		if n > 1 || (mustDispose[i] && n != 1) {
			return fail(o, "resmgr-dispose-count", fmt.Sprintf("history %v: resource %d (registration #%d) was disposed %d time(s), want exactly 1", c.Events, r.id, i, n))
		}
	}
	return o
}

// ---------------------------------------------------------------------------------------------------
// session_overlap
// ---------------------------------------------------------------------------------------------------

type gatedStream struct {
	stream.PackageStreamer
	calls   atomic.Int32
	entered chan struct{}
	release chan struct{}
}

func (s *gatedStream) Close() {
	if s.calls.Add(1) == 1 {
		close(s.entered)
		<-s.release
	}
}

type cntRaw struct {
	net.Conn
	closes atomic.Int32
}

func (c *cntRaw) Close() error { c.closes.Add(1); return nil }

// runSessionOverlap: closer A (side 0: CloseConnection, side 1: SessionManager.Close) is parked inside the connection's
// stream Close; K further closers (reads bit i = 1: SessionManager.Close, 0: CloseConnection for the same id) run
// meanwhile; then A is released.  The connection's release body (stream Close, raw conn Close) must have run exactly once
// and the connection must be gone from the map.
func runSessionOverlap(c caseIn) out {
	o := out{"prop_ok": true}
	before := repoGoroutines()
	ctx, cancel := context.WithCancel(context.Background())
	defer cancel()
	st0 := memory.New(ctx)
	defer st0.Close()
	sm := session.NewSessionManagerWithConfig(nil, ctx, &session.SessionConfig{HeartbeatTimeout: time.Minute, CleanupInterval: time.Minute, MaxConnections: 100, MaxControlConnections: 100})
	gs := &gatedStream{entered: make(chan struct{}), release: make(chan struct{})}
	raw := &cntRaw{}
	sm.VerifInjectConnection("oc-1", gs, raw)
	other := &gatedStream{entered: make(chan struct{}), release: make(chan struct{})}
	close(other.release)
	sm.VerifInjectConnection("oc-2", other, &cntRaw{})
	closer := func(kind int) {
		if kind == 1 {
			sm.Close()
		} else {
			sm.CloseConnection("oc-1")
		}
	}
	aDone := make(chan struct{})
	go func() { closer(c.Side); close(aDone) }()
	select {
	case <-gs.entered:
	case <-time.After(waitLong):
		close(gs.release)
		return fail(o, "session-overlap-setup", "the first closer never reached the stream's Close")
	}
	k := c.K
	if k < 1 {
		k = 1
	}
	var wg sync.WaitGroup
	for i := 0; i < k; i++ {
		wg.Add(1)
		kind := (c.Reads >> i) & 1
		go func() { defer wg.Done(); closer(kind) }()
	}
	bDone := make(chan struct{})
	go func() { wg.Wait(); close(bDone) }()
	returnedWhileParked := true
	select {
	case <-bDone:
	case <-time.After(150 * time.Millisecond): // they wait for a lock the parked closer holds: fine, as long as nothing is released twice
		returnedWhileParked = false
	}
	during := int(gs.calls.Load())
	close(gs.release)
	for _, ch := range []chan struct{}{aDone, bDone} {
		select {
		case <-ch:
		case <-time.After(waitLong):
			return fail(o, "session-overlap-hang", "a closer did not return after the stream's Close was released")
		}
	}
	_, still := sm.GetConnection("oc-1")
	o["stream_closes"], o["raw_closes"], o["during"], o["registered"], o["overlapped"] = int(gs.calls.Load()), int(raw.closes.Load()), during, still, returnedWhileParked
	sm.Close()
	cancel()
	kinds := []string{"CloseConnection", "SessionManager.Close"}
	if gs.calls.Load() != 1 || raw.closes.Load() != 1 || still {
		fail(o, "session-conn-released-twice", fmt.Sprintf("%s parked inside the connection's stream Close while %d more closer(s) (mask %d: 0 = CloseConnection, 1 = SessionManager.Close) ran: stream Close ran %d time(s), raw connection Close %d time(s), still registered=%v; want exactly once each and removed",
			kinds[c.Side&1], k, c.Reads, gs.calls.Load(), raw.closes.Load(), still))
	}
	if left := leakCheck(before); len(left) > 0 {
		o["leak"] = left
		if ok, _ := o["prop_ok"].(bool); ok {
			fail(o, "session-goroutine-leak", "goroutines left after SessionManager.Close: "+strings.Join(left, "; "))
		}
	}
	return o
}

// ---------------------------------------------------------------------------------------------------
// bridge_throttle: a bandwidth-limited bridge is closed while a copy direction waits for tokens
// ---------------------------------------------------------------------------------------------------

// chunkConn hands over ONE chunk on its first Read and then blocks until closed; writes are swallowed.
type chunkConn struct {
	chunk  int
	given  atomic.Bool
	closed chan struct{}
	conce  sync.Once
	closes atomic.Int32
}

func newChunkConn(n int) *chunkConn { return &chunkConn{chunk: n, closed: make(chan struct{})} }
func (c *chunkConn) Read(p []byte) (int, error) {
	if c.chunk > 0 && c.given.CompareAndSwap(false, true) {
		n := c.chunk
		if n > len(p) {
			n = len(p)
		}
		return n, nil
	}
	<-c.closed
	return 0, io.EOF
}
func (c *chunkConn) Write(p []byte) (int, error) {
	select {
	case <-c.closed:
		return 0, io.ErrClosedPipe
	default:
		return len(p), nil
	}
}
func (c *chunkConn) Close() error {
	c.closes.Add(1)
	c.conce.Do(func() { close(c.closed) })
	return nil
}
func (c *chunkConn) LocalAddr() net.Addr                { return stallAddr{} }
func (c *chunkConn) RemoteAddr() net.Addr               { return stallAddr{} }
func (c *chunkConn) SetDeadline(t time.Time) error      { return nil }
func (c *chunkConn) SetReadDeadline(t time.Time) error  { return nil }
func (c *chunkConn) SetWriteDeadline(t time.Time) error { return nil }

func bridgeWaitingForTokens() bool {
	buf := make([]byte, 4<<20)
	buf = buf[:runtime.Stack(buf, true)]
	for _, g := range strings.Split(string(buf), "\n\n") {
		if strings.Contains(g, "(*Bridge).waitForTokens") || (strings.Contains(g, "(*Bridge).CopyWithControl") && (strings.Contains(g, "rate.(*Limiter)") || strings.Contains(g, "time.Sleep"))) {
			return true
		}
	}
	return false
}

// runBridgeThrottle: bandwidth limit `reads` bytes/s (burst 2x); the source (side 0) or the target (side 1) hands over one
// chunk of `point` bytes, far more than the bucket holds, so the copy direction parks waiting for tokens; then K Close calls.
// Required: every Close returns within the watchdog, Start returns, no (*Bridge). goroutine remains.
func runBridgeThrottle(c caseIn) out {
	o := out{"prop_ok": true}
	cc := newGatedCC()
	cc.free = true
	ctx, cancel := context.WithCancel(context.Background())
	defer cancel()
	src, tgt := newChunkConn(0), newChunkConn(0)
	if c.Side == 0 {
		src.chunk = c.Point
	} else {
		tgt.chunk = c.Point
	}
	stc, ttc := &fakeTC{id: "s", conn: src}, &fakeTC{id: "t", conn: tgt}
	b := stun.NewBridge(ctx, &stun.BridgeConfig{TunnelID: "bt", MappingID: "m1", CloudControl: cc, SourceTunnelConn: stc, BandwidthLimit: int64(c.Reads)})
	b.SetTargetConnection(ttc)
	startDone := make(chan struct{})
	go func() { b.Start(); close(startDone) }()
	parked := false
	for dl := time.Now().Add(waitLong); time.Now().Before(dl); {
		if bridgeWaitingForTokens() {
			parked = true
			break
		}
		time.Sleep(500 * time.Microsecond)
	}
	o["parked_in_throttle"] = parked
	if !parked {
		b.Close()
		src.Close()
		tgt.Close()
		return fail(o, "bridge-throttle-setup", "the copy direction never waited for bandwidth tokens")
	}
	k := c.K
	if k < 1 {
		k = 1
	}
	var wg sync.WaitGroup
	for i := 0; i < k; i++ {
		wg.Add(1)
		go func() { defer wg.Done(); b.Close() }()
	}
	closeDone := make(chan struct{})
	go func() { wg.Wait(); close(closeDone) }()
	closeReturned, startReturned := true, true
	select {
	case <-closeDone:
	case <-time.After(3 * time.Second):
		closeReturned = false
	}
	select {
	case <-startDone:
	case <-time.After(3 * time.Second):
		startReturned = false
	}
	var left []string
	for dl := time.Now().Add(time.Second); ; {
		left = bridgeGoroutines()
		if len(left) == 0 || time.Now().After(dl) || !startReturned {
			break
		}
		time.Sleep(2 * time.Millisecond)
	}
	o["close_returned"], o["start_returned"], o["left"], o["disposed"] = closeReturned, startReturned, left, b.IsClosed()
	side := []string{"source->target", "target->source"}[c.Side&1]
	what := fmt.Sprintf("bridge limited to %d B/s, %s copy holding a %d-byte chunk and waiting for tokens, %d Close call(s)", c.Reads, side, c.Point, k)
	switch {
	case !closeReturned:
		return fail(o, "bridge-close-blocked-by-stalled-write", what+": Close did not return within 3 s; bridge goroutines: "+strings.Join(left, ", "))
	case !startReturned:
		return fail(o, "bridge-throttle-wait-not-cancelled", what+": Close returned but Start did not return within 3 s (the token wait is not tied to the bridge context); bridge goroutines: "+strings.Join(left, ", "))
	case len(left) > 0:
		return fail(o, "bridge-goroutine-leak", what+": goroutines left after Close: "+strings.Join(left, ", "))
	case stc.closes.Load() != 1 || ttc.closes.Load() != 1 || !b.IsClosed():
		return fail(o, "bridge-close-count", fmt.Sprintf("%s: tunnel connections closed %d/%d times, disposed=%v", what, stc.closes.Load(), ttc.closes.Load(), b.IsClosed()))
	}
	return o
}

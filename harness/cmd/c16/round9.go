//go:build verif

package main

// Round-9 additions: a close notification landing between RegisterTunnel and Start inside handleConnection (mapping_window)
// and the copy loop leaving through its context check while the source keeps streaming (copy_ctx_exit).

import (
	"context"
	"fmt"
	"io"
	"strings"
	"sync/atomic"
	"time"

	"tunnox-core/internal/client/mapping"
	ctun "tunnox-core/internal/client/tunnel"
	"tunnox-core/internal/config"
	stun "tunnox-core/internal/protocol/session/tunnel"
)

// runMappingWindow: the handler's tunnel manager is wrapped by the Ctx()-hook double; `k` connections go through the real
// handleConnection; for the connections selected by mask `reads` a peer-closed notification (side 0) or CloseAll (side 1)
// for the tunnel just registered is delivered inside Start's call of manager.Ctx(), i.e. between RegisterTunnel and the
// state CAS of Start.  Oracle: the connection slot of every connection is released exactly once: the active-connection
// counter equals the number of tunnels still open at every observation point, never negative; after Stop() it is 0.
func runMappingWindow(c caseIn) out {
	o := out{"prop_ok": true}
	before := repoGoroutines()
	ctx, cancel := context.WithCancel(context.Background())
	defer cancel()
	log := newSubLog()
	cl := &dialClient{faultClient: faultClient{ctx: ctx, log: log}}
	ad := &faultAdapter{log: log, closed: make(chan struct{})}
	h := mapping.NewBaseMappingHandler(cl, config.MappingConfig{MappingID: "mw", Protocol: "tcp", TargetClientID: 9}, ad)
	var wrapped *countMgr
	h.VerifWrapTunnelManager(func(m ctun.TunnelManager) ctun.TunnelManager {
		wrapped = &countMgr{DefaultTunnelManager: m.(*ctun.DefaultTunnelManager)}
		return wrapped
	})
	seen := map[string]bool{}
	trace := []int{}
	minActive := int32(0)
	for i := 0; i < c.K; i++ {
		if c.Reads>>i&1 == 1 {
			f := func() { // runs inside Start's manager.Ctx(): the tunnel is registered, still Connecting
				done := make(chan struct{})
				go func() {
					defer close(done)
					for _, t := range wrapped.ListTunnels() {
						if !seen[t.GetID()] {
							if c.Side == 1 {
								wrapped.CloseTunnel(t.GetID(), ctun.CloseReasonContextCanceled)
							} else {
								wrapped.OnTunnelClosed(t.GetID(), "mw", "peer_closed", 0, 0, 0)
							}
						}
					}
				}()
				<-done
			}
			wrapped.hook.Store(&f)
		}
		h.VerifHandleConnection(newCountConn())
		for _, t := range wrapped.ListTunnels() {
			seen[t.GetID()] = true
		}
		a := h.VerifActiveConns()
		if a < minActive {
			minActive = a
		}
		trace = append(trace, int(a), wrapped.CountTunnels())
		time.Sleep(time.Millisecond)
	}
	open := wrapped.CountTunnels()
	active := int(h.VerifActiveConns())
	stopDone := make(chan struct{})
	go func() { h.Stop(); close(stopDone) }()
	select {
	case <-stopDone:
	case <-time.After(3 * time.Second):
		cancel()
		return fail(o, "mapping-stop-hang", "Stop() did not return within 3 s")
	}
	after := int(h.VerifActiveConns())
	o["trace_active_open"], o["open_before_stop"], o["active_before_stop"], o["active_after_stop"], o["min_active"] = trace, open, active, after, int(minActive)
	cl.mu.Lock()
	for _, p := range cl.peers {
		p.Close()
	}
	cl.mu.Unlock()
	cancel()
	what := fmt.Sprintf("%d connection(s) through handleConnection, close notification (kind %d) between RegisterTunnel and Start for mask %d", c.K, c.Side, c.Reads)
	switch {
	case minActive < 0 || active != open:
		fail(o, "mapping-slot-released-twice", fmt.Sprintf("%s: active-connection counter %d with %d tunnel(s) open (minimum seen %d; [active, open] after each connection: %v): a connection slot was released more than once", what, active, open, minActive, trace))
	case after != 0:
		fail(o, "mapping-slot-released-twice", fmt.Sprintf("%s: active-connection counter is %d after Stop(), want 0", what, after))
	}
	if left := leakCheck(before); len(left) > 0 && o["prop_ok"].(bool) {
		o["leak"] = left
		fail(o, "mapping-goroutine-leak", "goroutines left after Stop: "+strings.Join(left, "; "))
	}
	return o
}

// streamSrc keeps delivering `chunk` bytes per Read; after `cancelAt` reads it cancels the bridge's PARENT context (the
// connection itself stays healthy); after `limit` reads it ends with EOF (safety net).
type streamSrc struct {
	chunk, cancelAt, limit int
	reads                  int
	cancel                 context.CancelFunc
}

func (s *streamSrc) Read(p []byte) (int, error) {
	s.reads++
	if s.reads == s.cancelAt && s.cancel != nil {
		s.cancel()
	}
	if s.reads > s.limit {
		return 0, io.EOF
	}
	n := s.chunk
	if n > len(p) {
		n = len(p)
	}
	return n, nil
}

type sinkW struct{ n atomic.Int64 }

func (w *sinkW) Write(p []byte) (int, error) { w.n.Add(int64(len(p))); return len(p), nil }

// runCopyCtxExit: the real CopyWithControl of a bridge whose parent context is cancelled while the source keeps streaming
// (side 0: the loop leaves through its periodic context check; side 1: no cancellation, the source ends with EOF).
// Oracle: the shared counter == bytes delivered to the destination == the returned total.
func runCopyCtxExit(c caseIn) out {
	o := out{"prop_ok": true}
	ctx, cancel := context.WithCancel(context.Background())
	defer cancel()
	b := stun.NewBridge(ctx, &stun.BridgeConfig{TunnelID: "cx"})
	src := &streamSrc{chunk: c.Point, cancelAt: c.Reads, limit: 35000}
	if c.Side == 0 {
		src.cancel = cancel
	} else {
		src.limit = c.Reads
	}
	dst := &sinkW{}
	var counter atomic.Int64
	done := make(chan int64, 1)
	go func() { done <- b.CopyWithControl(dst, src, "source->target", &counter) }()
	var total int64
	select {
	case total = <-done:
	case <-time.After(waitLong):
		cancel()
		return fail(o, "copy-loop-hang", "CopyWithControl did not return")
	}
	b.Close()
	o["total"], o["delivered"], o["counter"], o["reads"] = total, dst.n.Load(), counter.Load(), src.reads
	if counter.Load() != dst.n.Load() || total != dst.n.Load() {
		exit := []string{"through the context check (parent context cancelled while the source keeps streaming)", "at EOF"}[c.Side&1]
		fail(o, "copy-counter-mismatch", fmt.Sprintf("CopyWithControl with %d-byte reads leaving %s: delivered %d bytes, returned %d, but added %d to the traffic counter (the final report would publish %+d bytes)", c.Point, exit, dst.n.Load(), total, counter.Load(), counter.Load()-dst.n.Load()))
	}
	return o
}

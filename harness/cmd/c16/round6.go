//go:build verif

package main

// Round-6 additions: the mapping handler's statistics report overlapping with the close-time final report (mapping_stats)
// and a bridge closed while the statistics backend does not answer (bridge_hung_backend).

import (
	"context"
	"errors"
	"fmt"
	"strings"
	"sync"
	"time"

	"tunnox-core/internal/client/mapping"
	"tunnox-core/internal/config"
	stun "tunnox-core/internal/protocol/session/tunnel"
)

// gatedStatsClient: a mapping ClientInterface whose TrackTraffic parks the FIRST call until released and may fail it.
type gatedStatsClient struct {
	faultClient
	mu        sync.Mutex
	uploads   [][2]int64 // successful uploads
	calls     int
	entered   chan struct{}
	release   chan struct{}
	failFirst bool
}

func (c *gatedStatsClient) TrackTraffic(mappingID string, s, r int64) error {
	c.mu.Lock()
	c.calls++
	n := c.calls
	c.mu.Unlock()
	if n == 1 {
		close(c.entered)
		<-c.release
		if c.failFirst {
			return errors.New("control connection gone")
		}
	}
	c.mu.Lock()
	c.uploads = append(c.uploads, [2]int64{s, r})
	c.mu.Unlock()
	return nil
}

// runMappingStats: a periodic report (the function the 30 s tick calls) is parked inside its upload; more bytes are counted
// (reads); the handler is stopped (its clean-up handler makes the final report) and Stop returns; the parked upload is
// released (failing if side = 1); one more report flushes what is left.
// Conservation oracle at quiescence: sum of successful uploads + local counters == bytes counted, per direction; every
// byte uploaded at most once; local counters never negative.
func runMappingStats(c caseIn) out {
	o := out{"prop_ok": true}
	before := repoGoroutines()
	ctx, cancel := context.WithCancel(context.Background())
	defer cancel()
	log := newSubLog()
	cl := &gatedStatsClient{faultClient: faultClient{ctx: ctx, log: log}, entered: make(chan struct{}), release: make(chan struct{}), failFirst: c.Side == 1}
	ad := &faultAdapter{log: log, closed: make(chan struct{})}
	h := mapping.NewBaseMappingHandler(cl, config.MappingConfig{MappingID: "ms", Protocol: "tcp"}, ad)
	a, b := int64(c.Point), int64(c.Reads)
	h.VerifAddTraffic(a, a/2)
	tickDone := make(chan struct{})
	go func() { h.VerifReportStats(); close(tickDone) }()
	select {
	case <-cl.entered:
	case <-time.After(waitLong):
		close(cl.release)
		return fail(o, "mapping-stats-setup", "the periodic report never reached TrackTraffic")
	}
	h.VerifAddTraffic(b, b/2) // counted while the upload is in flight
	stopDone := make(chan struct{})
	go func() { h.Stop(); close(stopDone) }()
	stopReturned := true
	select {
	case <-stopDone:
	case <-time.After(3 * time.Second):
		stopReturned = false
	}
	close(cl.release)
	for _, ch := range []chan struct{}{tickDone, stopDone} {
		select {
		case <-ch:
		case <-time.After(waitLong):
			return fail(o, "mapping-stats-hang", "a report / Stop did not return after the upload was released")
		}
	}
	midS, midR := h.VerifLocalTraffic()
	h.VerifReportStats() // flush what is left (a failed upload was rolled back)
	ls, lr := h.VerifLocalTraffic()
	cl.mu.Lock()
	var upS, upR int64
	ups := append([][2]int64{}, cl.uploads...)
	for _, u := range ups {
		upS += u[0]
		upR += u[1]
	}
	cl.mu.Unlock()
	totS, totR := a+b, a/2+b/2
	o["uploads"], o["up_sent"], o["up_recv"], o["local_sent"], o["local_recv"], o["mid_sent"], o["total_sent"], o["total_recv"], o["stop_returned"] = ups, upS, upR, ls, lr, midS, totS, totR, stopReturned
	cancel()
	what := fmt.Sprintf("periodic report parked in its upload (%d/%d bytes), %d/%d more counted, Stop() ran its final report, upload released (failed=%v), flush", a, a/2, b, b/2, c.Side == 1)
	switch {
	case upS > totS || upR > totR:
		fail(o, "mapping-stats-double-report", fmt.Sprintf("%s: uploaded sent=%d received=%d but only %d/%d bytes were counted (uploads %v): traffic totals reported more than once", what, upS, upR, totS, totR, ups))
	case ls < 0 || lr < 0 || midS < 0 || midR < 0:
		fail(o, "mapping-stats-double-report", fmt.Sprintf("%s: local counters went negative (%d/%d, before the flush %d/%d)", what, ls, lr, midS, midR))
	case upS+ls != totS || upR+lr != totR:
		fail(o, "mapping-stats-lost", fmt.Sprintf("%s: uploaded %d/%d + still local %d/%d != counted %d/%d", what, upS, upR, ls, lr, totS, totR))
	case !stopReturned:
		fail(o, "mapping-stop-hang", what+": Stop() did not return within 3 s while another report's upload was in flight")
	}
	if left := leakCheck(before); len(left) > 0 {
		o["leak"] = left
		if ok, _ := o["prop_ok"].(bool); ok {
			fail(o, "mapping-goroutine-leak", "goroutines left after Stop: "+strings.Join(left, "; "))
		}
	}
	return o
}

// runBridgeHungBackend: the statistics backend does not answer (every cloud-control call parks) when a bridge with
// unreported traffic is closed (side 0: external Close; side 1: the lifecycle shape `defer Close(); Start()` ended by the
// source peer hanging up).  Close / the lifecycle must still finish within the bound (the production guard is 5 s); after
// the backend answers again the bytes are reported exactly once and no bridge goroutine remains.
func runBridgeHungBackend(c caseIn) out {
	o := out{"prop_ok": true}
	cc := newGatedCC()
	cc.gateAll = true
	ctx, cancel := context.WithCancel(context.Background())
	defer cancel()
	src, tgt := newChunkConn(0), newChunkConn(0)
	stc, ttc := &fakeTC{id: "s", conn: src}, &fakeTC{id: "t", conn: tgt}
	b := stun.NewBridge(ctx, &stun.BridgeConfig{TunnelID: "hb", MappingID: "m1", CloudControl: cc, SourceTunnelConn: stc})
	b.SetTargetConnection(ttc)
	b.AddBytesSent(100)
	done := make(chan struct{})
	t0 := time.Now()
	if c.Side == 1 {
		go func() { defer close(done); defer b.Close(); b.Start() }()
		time.Sleep(5 * time.Millisecond)
		src.Close() // the source peer hangs up: the copy loop ends and closes the bridge
	} else {
		go func() { defer close(done); b.Close() }()
	}
	returned := true
	select {
	case <-done:
	case <-time.After(9 * time.Second):
		returned = false
	}
	o["returned"], o["elapsed_ms"] = returned, time.Since(t0).Milliseconds() // (IsClosed would block behind a hung Close)
	cc.mu.Lock()
	o["updates_while_hung"] = cc.updates
	cc.mu.Unlock()
	// the backend answers again
	cc.setFree()
	if !returned {
		select {
		case <-done:
		case <-time.After(waitLong):
		}
	}
	var sent int64
	for dl := time.Now().Add(2 * time.Second); time.Now().Before(dl); {
		cc.setFree()
		cc.mu.Lock()
		sent = cc.sent
		cc.mu.Unlock()
		if sent >= 100 && len(bridgeGoroutines()) == 0 {
			break
		}
		time.Sleep(2 * time.Millisecond)
	}
	left := bridgeGoroutines()
	src.Close()
	tgt.Close()
	o["stats_sent"], o["left"] = sent, left
	if returned {
		o["disposed"] = b.IsClosed()
	}
	what := []string{"external Close", "lifecycle (defer Close; Start) ended by the source hanging up"}[c.Side&1] + " of a bridge with 100 unreported bytes while every cloud-control call parks"
	switch {
	case !returned:
		return fail(o, "bridge-close-blocked-by-hung-backend", what+": did not finish within 9 s (the final traffic report of the clean-up handler is not guarded); bridge goroutines: "+strings.Join(left, ", "))
	case sent > 100:
		return fail(o, "traffic-double-report", fmt.Sprintf("%s: after the backend answered again cloud control has sent=%d for 100 counted bytes", what, sent))
	case sent != 100:
		return fail(o, "traffic-under-report", fmt.Sprintf("%s: after the backend answered again cloud control has sent=%d, want 100", what, sent))
	case len(left) > 0:
		return fail(o, "bridge-goroutine-leak", what+": goroutines left after the backend answered again: "+strings.Join(left, ", "))
	}
	return o
}

//go:build verif

package main

// Round-10 addition: a read pending on a POLLING reader (returns (0, nil) when idle, has no Close method, is not unblocked by
// closing the processor) when Close() arrives (stream_poll).

import (
	"context"
	"errors"
	"fmt"
	"strings"
	"sync/atomic"
	"time"

	"tunnox-core/internal/stream"
)

type pollReader struct {
	entered chan struct{}
	first   atomic.Bool
	stop    atomic.Bool
	calls   atomic.Int64
}

func (p *pollReader) Read(b []byte) (int, error) {
	if p.first.CompareAndSwap(false, true) {
		close(p.entered)
	}
	p.calls.Add(1)
	if p.stop.Load() {
		return 0, errors.New("polling transport torn down by the harness")
	}
	time.Sleep(20 * time.Microsecond) // idle poll
	return 0, nil
}

// runStreamPoll: ReadExact (k = 0) / ReadExactZeroCopy (k = 1) is pending on the polling reader; Close() runs; the read must
// return (with an error) within 2 s of Close having returned and nothing of the stream package may keep running.
func runStreamPoll(c caseIn) out {
	o := out{"prop_ok": true}
	before := repoGoroutines()
	pr := &pollReader{entered: make(chan struct{})}
	sp := stream.NewStreamProcessor(pr, newCntRW(), context.Background())
	res := make(chan string, 1)
	go func() {
		if c.K == 1 {
			res <- tryOp("ReadExactZeroCopy", func() error { _, e := sp.ReadExactZeroCopy(8); return e })
		} else {
			res <- tryOp("ReadExact", func() error { _, e := sp.ReadExact(8); return e })
		}
	}()
	select {
	case <-pr.entered:
	case <-time.After(waitLong):
		pr.stop.Store(true)
		return fail(o, "stream-poll-setup", "the read never reached the underlying reader")
	}
	time.Sleep(time.Millisecond) // a few idle polls
	closed := make(chan struct{})
	go func() { sp.Close(); close(closed) }()
	select {
	case <-closed:
	case <-time.After(waitLong):
		pr.stop.Store(true)
		return fail(o, "stream-close-hang", "StreamProcessor.Close did not return while a read was polling")
	}
	callsAtClose := pr.calls.Load()
	var r string
	returned := true
	select {
	case r = <-res:
	case <-time.After(2 * time.Second):
		returned = false
	}
	callsLater := pr.calls.Load()
	pr.stop.Store(true) // tear the transport down so a spinning read ends and later cases are not disturbed
	if !returned {
		select {
		case r = <-res:
		case <-time.After(waitLong):
		}
	}
	name := []string{"ReadExact", "ReadExactZeroCopy"}[c.K&1]
	o["returned"], o["result"], o["reader_calls_at_close"], o["reader_calls_after_2s"] = returned, r, callsAtClose, callsLater
	switch {
	case !returned:
		fail(o, "stream-read-spins-after-close", fmt.Sprintf("%s pending on a polling reader ((0, nil) when idle, no Close method): 2 s after Close() returned the read is still polling (%d reader calls since Close): the loop never re-checks the processor's context", name, callsLater-callsAtClose))
	case r != "err":
		fail(o, "stream-op-after-close", fmt.Sprintf("%s pending on a polling reader returned %q after Close, want an error", name, r))
	}
	if left := leakCheck(before); len(left) > 0 && o["prop_ok"].(bool) {
		o["leak"] = left
		fail(o, "stream-goroutine-leak", "goroutines left after Close: "+strings.Join(left, "; "))
	}
	return o
}

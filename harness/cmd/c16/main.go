//go:build verif

// verif_c16: shutdown paths of the REAL components (dispose.Dispose, client tunnel.Tunnel, session tunnel.Bridge,
// stream.StreamProcessor, memory.Storage, session.SessionManager) under (a) deterministic histories replayed through
// gated doubles (handlers that park, a cloud-control double that parks every call), and (b) contention loops
// (K goroutines released by a barrier).  The property predicate (exactly-once counters) is evaluated here on the
// real code's behaviour; the observables of the deterministic modes are also handed to the Coq model.
package main

import (
	"context"
	"encoding/json"
	"errors"
	"fmt"
	"io"
	"net"
	"os"
	"regexp"
	"runtime"
	"runtime/debug"
	"sort"
	"strings"
	"sync"
	"sync/atomic"
	"time"

	ctun "tunnox-core/internal/client/tunnel"
	"tunnox-core/internal/cloud/models"
	"tunnox-core/internal/cloud/stats"
	"tunnox-core/internal/core/dispose"
	"tunnox-core/internal/core/events"
	corelog "tunnox-core/internal/core/log"
	"tunnox-core/internal/core/storage/memory"
	"tunnox-core/internal/protocol/session"
	stun "tunnox-core/internal/protocol/session/tunnel"
	"tunnox-core/internal/stream"
)

type ev struct {
	Op string `json:"op"`
	A  int    `json:"a"`
	B  int    `json:"b"`
}

type caseIn struct {
	Mode     string  `json:"mode"`
	Handlers [][]int `json:"handlers"` // dispose: [id, fail]
	Events   []ev    `json:"events"`
	K        int     `json:"k"`
	Trials   int     `json:"trials"`
	Started  bool    `json:"started"`
	State    int     `json:"state"`   // tunnel_seq: initial state (0 Connecting, 1 Connected)
	Reasons  []int   `json:"reasons"` // tunnel: close reason per closer
	Own      bool    `json:"own"`     // also trigger the component's own completion path
	Parks    []int   `json:"parks"`   // tunnel_sched: per closer 1 = park before the CAS
	Order    []int   `json:"order"`   // tunnel_sched: release order
	Reads    int     `json:"reads"`
	Point    int     `json:"point"`  // tunnel_start: -1 = Close lands in the manager double's Ctx(); p >= 0 = Start parked at its p-th statement
	Side     int     `json:"side"`   // bridge_stall: 0 = the source peer is stalled, 1 = the target peer
	Reason   int     `json:"reason"` // tunnel_start: close reason (2 = through the peer-notification path of the manager)
}

type out map[string]interface{}

const waitLong = 5 * time.Second

func fail(o out, key, msg string) out {
	if ok, _ := o["prop_ok"].(bool); ok || o["prop_ok"] == nil {
		o["prop_ok"] = false
		o["key"] = key
		o["prop_msg"] = msg
	}
	return o
}

// ---------------------------------------------------------------------------------------------------
// goroutine bookkeeping
// ---------------------------------------------------------------------------------------------------

var goidRe = regexp.MustCompile(`^goroutine (\d+) `)

func goid() string {
	var buf [64]byte
	n := runtime.Stack(buf[:], false)
	m := goidRe.FindSubmatch(buf[:n])
	if m == nil {
		return "?"
	}
	return string(m[1])
}

// repoGoroutines returns the multiset of "top repo frame" strings of all goroutines that have a frame in the repository
// (other than this harness).
func repoGoroutines() map[string]int {
	buf := make([]byte, 4<<20)
	n := runtime.Stack(buf, true)
	res := map[string]int{}
	for _, g := range strings.Split(string(buf[:n]), "\n\n") {
		if !strings.Contains(g, "tunnox-core/internal/") {
			continue
		}
		top := ""
		for _, line := range strings.Split(g, "\n") {
			if strings.HasPrefix(line, "tunnox-core/internal/") {
				top = line
				if i := strings.LastIndex(top, "("); i > 0 {
					top = top[:i]
				}
				break
			}
		}
		if top == "" || strings.Contains(g, "cmd/verif_c16") && !strings.Contains(g, "created by tunnox-core/internal/") && strings.Contains(g, "main.main") {
			continue
		}
		res[top]++
	}
	return res
}

// leakCheck waits (up to 8 s, only while something is left) for every repo goroutine not present in `before` to end;
// returns the survivors.
func leakCheck(before map[string]int) []string {
	deadline := time.Now().Add(8 * time.Second)
	for {
		after := repoGoroutines()
		var left []string
		for k, v := range after {
			if v > before[k] {
				left = append(left, fmt.Sprintf("%s x%d", k, v-before[k]))
			}
		}
		if len(left) == 0 || time.Now().After(deadline) {
			sort.Strings(left)
			return left
		}
		time.Sleep(5 * time.Millisecond)
	}
}

func barrierRun(k int, f func(i int)) (panics []string) {
	var wg sync.WaitGroup
	var mu sync.Mutex
	start := make(chan struct{})
	for i := 0; i < k; i++ {
		wg.Add(1)
		go func(i int) {
			defer wg.Done()
			defer func() {
				if r := recover(); r != nil {
					// message + the repository frames of the panicking goroutine
					frames := []string{}
					for _, l := range strings.Split(string(debug.Stack()), "\n") {
						if strings.HasPrefix(l, "tunnox-core/internal/") || strings.HasPrefix(l, "main.(") {
							if j := strings.LastIndex(l, "("); j > 0 {
								l = l[:j]
							}
							frames = append(frames, l)
						}
					}
					if len(frames) > 6 {
						frames = frames[:6]
					}
					mu.Lock()
					panics = append(panics, fmt.Sprint(r)+" @ "+strings.Join(frames, " <- "))
					mu.Unlock()
				}
			}()
			<-start
			f(i)
		}(i)
	}
	close(start)
	done := make(chan struct{})
	go func() { wg.Wait(); close(done) }()
	select {
	case <-done:
	case <-time.After(10 * time.Second):
		mu.Lock()
		panics = append(panics, "HANG: closers did not return within 10s")
		mu.Unlock()
	}
	return panics
}

// ---------------------------------------------------------------------------------------------------
// A. dispose.Dispose
// ---------------------------------------------------------------------------------------------------

func errIdx(es []*dispose.DisposeError) []int {
	r := []int{}
	for _, e := range es {
		r = append(r, e.HandlerIndex)
	}
	return r
}

func eqInts(a, b []int) bool {
	if len(a) != len(b) {
		return false
	}
	for i := range a {
		if a[i] != b[i] {
			return false
		}
	}
	return true
}

// runDisposeHist replays a history on a real Dispose whose handlers park until released.
// events: close c | release | add id fail.  Emits the model schedule it realised.
func runDisposeHist(c caseIn) out {
	o := out{"prop_ok": true}
	d := &dispose.Dispose{}
	d.SetCtx(context.Background(), nil)
	var mu sync.Mutex
	runlog := []int{}
	tokens := make(chan struct{})
	free := make(chan struct{})
	entered := make(chan int, 256)
	mk := func(id int, failing bool) func() error {
		return func() error {
			mu.Lock()
			runlog = append(runlog, id)
			mu.Unlock()
			entered <- id
			select {
			case <-tokens:
			case <-free:
			}
			if failing {
				return errors.New("handler failed")
			}
			return nil
		}
	}
	for _, h := range c.Handlers {
		d.AddCleanHandler(mk(h[0], h[1] != 0))
	}
	nClosers := 0
	for _, e := range c.Events {
		if e.Op == "close" && e.A+1 > nClosers {
			nClosers = e.A + 1
		}
	}
	results := make([][]int, nClosers)
	started := make([]bool, nClosers)
	done := make([]chan struct{}, nClosers)
	for i := range done {
		done[i] = make(chan struct{})
	}
	sched := []int{}
	adds := [][]int{}
	holder, latched, unlocked := -1, false, false
	blocked := []int{}
	hang := false
	flushBlocked := func() {
		for _, b := range blocked {
			select {
			case <-done[b]:
				sched = append(sched, b)
			case <-time.After(waitLong):
				hang = true
			}
		}
		blocked = nil
	}
	for _, e := range c.Events {
		switch e.Op {
		case "close":
			ci := e.A
			if started[ci] {
				continue
			}
			started[ci] = true
			go func() {
				res := d.Close()
				results[ci] = errIdx(res.Errors)
				close(done[ci])
			}()
			switch {
			case !latched:
				latched = true
				select {
				case <-entered:
					holder = ci
					sched = append(sched, ci, ci)
				case <-done[ci]:
					unlocked = true
					sched = append(sched, ci, ci, ci)
				case <-time.After(waitLong):
					hang = true
				}
			case !unlocked:
				blocked = append(blocked, ci)
			default:
				select {
				case <-done[ci]:
					sched = append(sched, ci)
				case <-time.After(waitLong):
					hang = true
				}
			}
		case "release":
			if holder >= 0 && !unlocked {
				tokens <- struct{}{}
				select {
				case <-entered:
					sched = append(sched, holder)
				case <-done[holder]:
					sched = append(sched, holder, holder)
					unlocked = true
					flushBlocked()
				case <-time.After(waitLong):
					hang = true
				}
			}
		case "add":
			d.AddCleanHandler(mk(e.A, e.B != 0))
			sched = append(sched, nClosers+len(adds))
			adds = append(adds, []int{e.A, e.B})
		}
	}
	close(free)
	if holder >= 0 && !unlocked {
		select {
		case <-done[holder]:
			for i := 0; i < len(c.Handlers)+len(adds)+3; i++ {
				sched = append(sched, holder)
			}
			unlocked = true
		case <-time.After(waitLong):
			hang = true
		}
		flushBlocked()
	}
	final := errIdx(d.GetErrors())
	mu.Lock()
	rl := append([]int{}, runlog...)
	mu.Unlock()
	resOut := make([]interface{}, nClosers)
	anyClosed := false
	for i := range results {
		if started[i] {
			resOut[i] = results[i]
			anyClosed = true
		} else {
			resOut[i] = nil
		}
	}
	again := final
	if anyClosed && !hang {
		again = errIdx(d.Close().Errors) // a later Close: must report the recorded errors and run nothing
		mu.Lock()
		if len(runlog) != len(rl) {
			rl = append([]int{}, runlog...)
		}
		mu.Unlock()
	}
	o["runlog"], o["results"], o["errors"], o["again"], o["sched"], o["adds"], o["closers"] = rl, resOut, final, again, sched, adds, nClosers
	o["closed"] = d.IsClosed()
	if hang {
		return fail(o, "dispose-hang", "a Close call did not return after its handlers were released")
	}
	// predicate: no handler twice; the handlers registered before the first Close run exactly once, in order, first
	seen := map[int]int{}
	for _, id := range rl {
		seen[id]++
		if seen[id] > 1 {
			return fail(o, "dispose-handler-twice", fmt.Sprintf("clean handler %d ran %d times; run log %v", id, seen[id], rl))
		}
	}
	if anyClosed {
		if len(rl) < len(c.Handlers) {
			return fail(o, "dispose-handler-skipped", fmt.Sprintf("only %d of %d registered handlers ran: %v", len(rl), len(c.Handlers), rl))
		}
		for i, h := range c.Handlers {
			if rl[i] != h[0] {
				return fail(o, "dispose-handler-order", fmt.Sprintf("handlers ran out of registration order: %v", rl))
			}
		}
		for i := range results {
			if started[i] && !eqInts(results[i], final) {
				return fail(o, "dispose-errors-differ", fmt.Sprintf("Close #%d returned error indices %v, recorded %v", i, results[i], final))
			}
		}
		if !eqInts(again, final) {
			return fail(o, "dispose-errors-differ", fmt.Sprintf("a later Close returned %v, recorded %v", again, final))
		}
		if !d.IsClosed() {
			return fail(o, "dispose-not-closed", "IsClosed() = false after Close returned")
		}
	}
	return o
}

func runDisposeRace(c caseIn) out {
	o := out{"prop_ok": true}
	nh := len(c.Handlers)
	bad := 0
	for trial := 0; trial < c.Trials; trial++ {
		d := dispose.NewDispose(context.Background(), nil)
		counts := make([]atomic.Int32, nh+c.K)
		var omu sync.Mutex
		order := []int{}
		for i, h := range c.Handlers {
			i, failing := i, h[1] != 0
			d.AddCleanHandler(func() error {
				counts[i].Add(1)
				omu.Lock()
				order = append(order, i)
				omu.Unlock()
				if failing {
					return errors.New("x")
				}
				return nil
			})
		}
		res := make([][]int, c.K)
		pan := barrierRun(2*c.K, func(i int) {
			if i < c.K {
				res[i] = errIdx(d.Close().Errors)
			} else {
				j := nh + i - c.K
				d.AddCleanHandler(func() error { counts[j].Add(1); return nil })
			}
		})
		if len(pan) > 0 {
			return fail(o, "dispose-panic", "concurrent Close/AddCleanHandler: "+pan[0])
		}
		final := errIdx(d.GetErrors())
		for i := 0; i < nh; i++ {
			if counts[i].Load() != 1 {
				bad++
				fail(o, "dispose-handler-count", fmt.Sprintf("trial %d: handler %d ran %d times with %d concurrent closers", trial, i, counts[i].Load(), c.K))
			}
		}
		for i := nh; i < nh+c.K; i++ {
			if counts[i].Load() > 1 {
				bad++
				fail(o, "dispose-handler-count", fmt.Sprintf("trial %d: late handler ran %d times", trial, counts[i].Load()))
			}
		}
		for i := 0; i < nh; i++ {
			if i < len(order) && order[i] != i {
				bad++
				fail(o, "dispose-handler-order", fmt.Sprintf("trial %d: order %v", trial, order))
				break
			}
		}
		for i := 0; i < c.K; i++ {
			if !eqInts(res[i], final) {
				bad++
				fail(o, "dispose-errors-differ", fmt.Sprintf("trial %d: closer %d got %v, recorded %v", trial, i, res[i], final))
			}
		}
	}
	o["trials"], o["bad"] = c.Trials, bad
	return o
}

// ---------------------------------------------------------------------------------------------------
// B. client tunnel.Tunnel
// ---------------------------------------------------------------------------------------------------

type countConn struct {
	closes atomic.Int32
	ch     chan struct{}
	once   sync.Once
}

func newCountConn() *countConn { return &countConn{ch: make(chan struct{})} }
func (c *countConn) Read(p []byte) (int, error) {
	<-c.ch
	return 0, io.EOF
}
func (c *countConn) Write(p []byte) (int, error) { return len(p), nil }
func (c *countConn) Close() error {
	c.closes.Add(1)
	c.once.Do(func() { close(c.ch) })
	return nil
}

type countMgr struct {
	*ctun.DefaultTunnelManager
	unreg atomic.Int32
	hook  atomic.Pointer[func()] // one-shot: runs inside the next Ctx() call (Tunnel.Start reads the manager context once)
}

func (m *countMgr) Ctx() context.Context {
	if f := m.hook.Swap(nil); f != nil {
		(*f)()
	}
	return m.DefaultTunnelManager.Ctx()
}

func (m *countMgr) UnregisterTunnel(id string) bool {
	m.unreg.Add(1)
	return m.DefaultTunnelManager.UnregisterTunnel(id)
}

type countClient struct{ notes atomic.Int32 }

func (c *countClient) SendTunnelCloseNotify(target int64, tid, mid, reason string) error {
	c.notes.Add(1)
	return nil
}

type tunWorld struct {
	t          *ctun.Tunnel
	mgr        *countMgr
	cl         *countClient
	local, rwc *countConn
	onClosed   atomic.Int32
	cancel     context.CancelFunc
}

func newTunWorld(state int, started bool) *tunWorld {
	ctx, cancel := context.WithCancel(context.Background())
	w := &tunWorld{cancel: cancel, cl: &countClient{}, local: newCountConn(), rwc: newCountConn()}
	w.mgr = &countMgr{DefaultTunnelManager: ctun.NewTunnelManager(ctx, ctun.TunnelRoleListen)}
	w.t = ctun.NewTunnel(&ctun.TunnelConfig{ID: "t1", MappingID: "m1", Role: ctun.TunnelRoleListen, Protocol: "tcp",
		LocalConn: w.local, TunnelRWC: w.rwc, TargetClient: 77, Manager: w.mgr, Client: w.cl,
		OnClosed: func(r ctun.CloseReason, err error) { w.onClosed.Add(1) }})
	must(w.mgr.RegisterTunnel(w.t))
	if started {
		must(w.t.Start())
	} else if state == 1 {
		w.t.VerifSetState(1)
	}
	return w
}

// settleNotes waits until no asynchronous close-notification goroutine (spawned by sendCloseNotification with a `go`
// statement BEFORE Close returns) is still pending, then reads the counter: exact, no timing assumption.
func (w *tunWorld) settleNotes(expectAtLeast int32) int {
	buf := make([]byte, 1<<20)
	deadline := time.Now().Add(10 * time.Second)
	for time.Now().Before(deadline) {
		n := runtime.Stack(buf, true)
		if !strings.Contains(string(buf[:n]), "sendCloseNotification") {
			break
		}
		runtime.Gosched()
	}
	return int(w.cl.notes.Load())
}

func (w *tunWorld) observe(o out, expectNote int32) {
	o["on_closed"], o["unreg"], o["notes"] = int(w.onClosed.Load()), int(w.mgr.unreg.Load()), w.settleNotes(expectNote)
	o["local_closes"], o["rwc_closes"] = int(w.local.closes.Load()), int(w.rwc.closes.Load())
	o["state"], o["disposed"], o["registered"] = int(w.t.GetState()), w.t.IsClosed(), w.mgr.GetTunnel("t1") != nil
}

// tunnelPredicate: exactly-once counters after at least one Close returned.
func tunnelPredicate(o out, started bool, what string) out {
	on, un, no := o["on_closed"].(int), o["unreg"].(int), o["notes"].(int)
	if on > 1 || un > 1 || no > 1 {
		return fail(o, "tunnel-close-double-body", fmt.Sprintf("%s: the close body ran more than once: onClosed=%d unregister=%d peer-notifications=%d", what, on, un, no))
	}
	if !started && (o["local_closes"].(int) > 1 || o["rwc_closes"].(int) > 1) {
		return fail(o, "tunnel-close-double-body", fmt.Sprintf("%s: connections closed %d/%d times by Close", what, o["local_closes"], o["rwc_closes"]))
	}
	if on != 1 || un != 1 {
		return fail(o, "tunnel-close-not-run", fmt.Sprintf("%s: onClosed=%d unregister=%d after Close returned", what, on, un))
	}
	if o["state"].(int) != 3 {
		return fail(o, "tunnel-not-closed", fmt.Sprintf("%s: final state %d, want Closed(3)", what, o["state"]))
	}
	if !o["disposed"].(bool) || o["registered"].(bool) {
		return fail(o, "tunnel-not-closed", fmt.Sprintf("%s: disposed=%v still registered=%v", what, o["disposed"], o["registered"]))
	}
	return o
}

func runTunnelSeq(c caseIn) out {
	o := out{"prop_ok": true}
	before := repoGoroutines()
	w := newTunWorld(c.State, c.Started)
	expect := int32(0)
	first := true
	for _, e := range c.Events {
		switch e.Op {
		case "close":
			if first && ctun.VerifShouldNotifyPeer(e.A) {
				expect = 1
			}
			first = false
			w.t.Close(ctun.CloseReason(e.A), nil)
		case "start":
			w.t.Start()
		case "peer":
			if first {
				first = false
			}
			w.mgr.OnTunnelClosed("t1", "m1", "peer", 0, 0, 0)
		}
	}
	live := c.Started
	for _, e := range c.Events {
		if e.Op == "start" {
			live = true
		}
	}
	if live && !first { // let the tunnel's own goroutines finish
		deadline := time.Now().Add(2 * time.Second)
		for w.t.GetState() != 3 && time.Now().Before(deadline) {
			time.Sleep(100 * time.Microsecond)
		}
	}
	w.observe(o, expect)
	w.cancel()
	w.mgr.Close()
	if !first {
		tunnelPredicate(o, live, "sequential closes")
	}
	if left := leakCheck(before); len(left) > 0 {
		o["leak"] = left
		fail(o, "tunnel-goroutine-leak", "goroutines left after Close: "+strings.Join(left, "; "))
	}
	return o
}

func runTunnelRace(c caseIn) out {
	o := out{"prop_ok": true}
	before := repoGoroutines()
	doubles, bad := 0, 0
	for trial := 0; trial < c.Trials; trial++ {
		w := newTunWorld(1, c.Started)
		expect := int32(1)
		allNotify, noneNotify := true, true
		for _, r := range c.Reasons {
			if ctun.VerifShouldNotifyPeer(r) {
				noneNotify = false
			} else {
				allNotify = false
			}
		}
		if c.Own && !c.Started { // the peer-notification path closes with reason peer_closed (no notification)
			allNotify = false
		}
		if c.Own && c.Started { // the copy loop closes with normal / local_closed / error (all notify)
			noneNotify = false
		}
		if !allNotify {
			expect = 0
		}
		k := len(c.Reasons)
		n := k
		if c.Own {
			n = k + 1
		}
		pan := barrierRun(n, func(i int) {
			if i < k {
				w.t.Close(ctun.CloseReason(c.Reasons[i]), nil)
			} else if c.Started {
				w.local.Close() // the copy loop ends: runDataCopy calls Close itself
			} else {
				w.mgr.OnTunnelClosed("t1", "m1", "peer", 0, 0, 0) // peer notification path
			}
		})
		if len(pan) > 0 {
			return fail(o, "tunnel-panic", "concurrent Tunnel.Close: "+pan[0])
		}
		if c.Started { // let the tunnel's own goroutines finish their Close
			deadline := time.Now().Add(2 * time.Second)
			for w.t.GetState() != 3 && time.Now().Before(deadline) {
				time.Sleep(100 * time.Microsecond)
			}
		}
		t := out{}
		w.observe(t, expect)
		w.cancel()
		w.mgr.Close()
		if c.Started {
			t["local_closes"], t["rwc_closes"] = 0, 0
		}
		tunnelPredicate(t, c.Started, fmt.Sprintf("trial %d, %d concurrent closers (reasons %v, own path %v)", trial, k, c.Reasons, c.Own))
		if ok, _ := t["prop_ok"].(bool); t["prop_ok"] != nil && !ok {
			if t["key"] == "tunnel-close-double-body" {
				doubles++
			} else {
				bad++
			}
			if o["prop_ok"].(bool) || (o["key"] == "tunnel-close-double-body" && t["key"] != "tunnel-close-double-body") {
				o["prop_ok"], o["key"], o["prop_msg"] = false, t["key"], t["prop_msg"]
			}
		} else if allNotify && t["notes"].(int) != 1 || noneNotify && t["notes"].(int) != 0 {
			bad++
			fail(o, "tunnel-notify-count", fmt.Sprintf("trial %d: %d peer notifications for reasons %v", trial, t["notes"], c.Reasons))
		}
	}
	o["trials"], o["doubles"], o["bad"] = c.Trials, doubles, bad
	if left := leakCheck(before); len(left) > 0 {
		o["leak"] = left
		if o["prop_ok"].(bool) {
			fail(o, "tunnel-goroutine-leak", "goroutines left after Close: "+strings.Join(left, "; "))
		}
	}
	return o
}

// runTunnelSched (INSTRUMENTED binary only): every closer parks at the statement that performs the CAS when asked to
// (i.e. after its Load and its "already closing?" test), then closers are released one at a time in the given order,
// each running to completion before the next is released.
func runTunnelSched(c caseIn) out {
	o := out{"prop_ok": true}
	w := newTunWorld(c.State, false)
	k := len(c.Reasons)
	type parkT struct {
		arrived chan struct{}
		resume  chan struct{}
	}
	var mu sync.Mutex
	ids := map[string]int{}
	parks := make([]*parkT, k)
	for i := range parks {
		parks[i] = &parkT{arrived: make(chan struct{}, 1), resume: make(chan struct{})}
	}
	seenCas := make([]bool, k)
	ctun.VerifC16Hook = func(fn, label string) {
		if fn != "Close" || !strings.Contains(label, "cas") {
			return
		}
		mu.Lock()
		i, ok := ids[goid()]
		mu.Unlock()
		if !ok || i >= len(c.Parks) || c.Parks[i] == 0 || seenCas[i] {
			return
		}
		seenCas[i] = true
		parks[i].arrived <- struct{}{}
		<-parks[i].resume
	}
	defer func() { ctun.VerifC16Hook = nil }()
	done := make([]chan struct{}, k)
	parked := make([]bool, k)
	hang := false
	for i := 0; i < k; i++ {
		done[i] = make(chan struct{})
		i := i
		reg := make(chan struct{})
		go func() {
			mu.Lock()
			ids[goid()] = i
			mu.Unlock()
			close(reg)
			w.t.Close(ctun.CloseReason(c.Reasons[i]), nil)
			close(done[i])
		}()
		<-reg
		select {
		case <-parks[i].arrived:
			parked[i] = true
		case <-done[i]:
		case <-time.After(waitLong):
			hang = true
		}
	}
	for _, i := range c.Order {
		if i < k && parked[i] {
			parked[i] = false
			close(parks[i].resume)
			select {
			case <-done[i]:
			case <-time.After(waitLong):
				hang = true
			}
		}
	}
	for i := 0; i < k; i++ {
		if parked[i] {
			close(parks[i].resume)
			<-done[i]
		}
	}
	expect := int32(0)
	for _, r := range c.Reasons {
		if ctun.VerifShouldNotifyPeer(r) {
			expect = 1
		}
	}
	w.observe(o, expect)
	w.cancel()
	w.mgr.Close()
	pk := make([]bool, k)
	for i := range pk {
		pk[i] = seenCas[i]
	}
	o["parked"] = pk
	if hang {
		return fail(o, "tunnel-hang", "a Close call did not return")
	}
	return tunnelPredicate(o, false, fmt.Sprintf("closers parked before the CAS %v, released in order %v", c.Parks, c.Order))
}

// tunnelGoroutines counts the live goroutines started by (*Tunnel).Start for any tunnel (monitors, copy loop).
func tunnelGoroutines() []string {
	buf := make([]byte, 4<<20)
	buf = buf[:runtime.Stack(buf, true)]
	var res []string
	for _, g := range strings.Split(string(buf), "\n\n") {
		for _, f := range []string{"monitorPeerNotification", "monitorTimeout", "runDataCopy"} {
			if strings.Contains(g, "tunnel.(*Tunnel)."+f) {
				res = append(res, f)
				break
			}
		}
	}
	sort.Strings(res)
	return res
}

// runTunnelStart: ONE complete Close lands at a chosen point inside Start (Connecting tunnel, registered in its manager):
// point -1: inside the manager double's Ctx() accessor, which Start calls exactly once (plain binary);
// point p >= 0 (instrumented binary): Start is parked at its p-th statement boundary, Close runs to completion, Start resumes
// (if Start has fewer statements it simply finishes first and Close runs afterwards).
// Checked after both returned: state Closed, onClosed exactly once, no goroutine of the tunnel remains.
func runTunnelStart(c caseIn) out {
	o := out{"prop_ok": true}
	w := newTunWorld(0, false)
	doClose := func() {
		done := make(chan struct{})
		go func() {
			if c.Reason == 2 {
				w.mgr.OnTunnelClosed("t1", "m1", "peer", 0, 0, 0)
			} else {
				w.t.Close(ctun.CloseReason(c.Reason), nil)
			}
			close(done)
		}()
		select {
		case <-done:
		case <-time.After(waitLong):
			fail(o, "tunnel-hang", "Close did not return")
		}
	}
	passed := []string{}
	closedInside := false
	arrived, resume := make(chan struct{}, 1), make(chan struct{})
	startG := ""
	if c.Point < 0 {
		f := func() { closedInside = true; doClose() }
		w.mgr.hook.Store(&f)
	} else {
		n := 0
		ctun.VerifC16Hook = func(fn, label string) {
			if fn != "Start" || goid() != startG {
				return
			}
			if n == c.Point {
				n++
				arrived <- struct{}{}
				<-resume
				return
			}
			n++
			if label != "stmt" {
				passed = append(passed, label)
			}
		}
		defer func() { ctun.VerifC16Hook = nil }()
	}
	var startErr error
	startDone := make(chan struct{})
	reg := make(chan struct{})
	go func() {
		startG = goid()
		close(reg)
		startErr = w.t.Start()
		close(startDone)
	}()
	<-reg
	if c.Point >= 0 {
		select {
		case <-arrived:
			// the labels passed so far are exactly those recorded before the park
			o["steps_done"] = len(passed)
			closedInside = true
			doClose()
			close(resume)
		case <-startDone:
			o["steps_done"] = -2 // Start finished before reaching the point
		case <-time.After(waitLong):
			fail(o, "tunnel-hang", "Start did not reach the point nor return")
		}
	}
	select {
	case <-startDone:
	case <-time.After(waitLong):
		fail(o, "tunnel-hang", "Start did not return")
	}
	if c.Point < 0 {
		o["steps_done"] = -1
	}
	if !closedInside {
		doClose()
	}
	// nothing started by the tunnel may survive: poll up to 2 s (on a correct tree they are gone within milliseconds)
	var left []string
	for dl := time.Now().Add(2 * time.Second); ; {
		left = tunnelGoroutines()
		if len(left) == 0 || time.Now().After(dl) {
			break
		}
		time.Sleep(2 * time.Millisecond)
	}
	w.observe(o, 0)
	o["start_ok"], o["closed_inside"], o["left"], o["labels"] = startErr == nil, closedInside, left, passed
	w.cancel()
	w.mgr.Close()
	if ok, _ := o["prop_ok"].(bool); !ok {
		return o
	}
	what := fmt.Sprintf("a complete Close (reason %d) at point %d of Start (steps done %v, Start returned ok=%v)", c.Reason, c.Point, o["steps_done"], startErr == nil)
	switch {
	case len(left) > 0:
		return fail(o, "tunnel-start-close-leak", fmt.Sprintf("%s: tunnel is in state %d but its goroutines are still running: %s", what, o["state"], strings.Join(left, ", ")))
	case o["on_closed"].(int) != 1:
		return fail(o, "tunnel-close-not-run", fmt.Sprintf("%s: onClosed ran %d times", what, o["on_closed"]))
	case o["state"].(int) != 3:
		return fail(o, "tunnel-not-closed", fmt.Sprintf("%s: final state %d, want Closed(3)", what, o["state"]))
	case o["registered"].(bool):
		return fail(o, "tunnel-not-closed", what+": still registered in its manager")
	}
	return o
}

// ---------------------------------------------------------------------------------------------------
// C. Bridge: traffic report + close
// ---------------------------------------------------------------------------------------------------

// gatedCC is the cloud-control double: one mapping; GetPortMapping / UpdatePortMappingStats park the calling goroutine
// (when it is a registered reporter, or any caller when gateAll) until the scheduler releases it.
type gatedCC struct {
	mu       sync.Mutex
	sent     int64
	recv     int64
	deltas   [][2]int64
	gets     int
	updates  int
	ids      map[string]int
	gateAll  bool
	free     bool
	arrive   chan ccArrival
	nextAnon int
	lastGet  map[string][2]int64
}

type ccArrival struct {
	who    int
	point  string
	resume chan struct{}
}

func newGatedCC() *gatedCC {
	return &gatedCC{ids: map[string]int{}, arrive: make(chan ccArrival, 64), nextAnon: 100}
}

func (g *gatedCC) park(point string) {
	g.mu.Lock()
	who, ok := g.ids[goid()]
	if !ok && g.gateAll {
		who, ok = g.nextAnon, true
		g.ids[goid()] = who
		g.nextAnon++
	}
	free := g.free
	g.mu.Unlock()
	if !ok || free {
		return
	}
	a := ccArrival{who: who, point: point, resume: make(chan struct{})}
	g.arrive <- a
	<-a.resume
}

func (g *gatedCC) GetPortMapping(id string) (*models.PortMapping, error) {
	g.park("get")
	g.mu.Lock()
	defer g.mu.Unlock()
	g.gets++
	if g.lastGet == nil {
		g.lastGet = map[string][2]int64{}
	}
	g.lastGet[goid()] = [2]int64{g.sent, g.recv}
	m := &models.PortMapping{ID: id}
	m.TrafficStats.BytesSent, m.TrafficStats.BytesReceived = g.sent, g.recv
	return m, nil
}

func (g *gatedCC) UpdatePortMappingStats(id string, ts *stats.TrafficStats) error {
	g.park("update")
	g.mu.Lock()
	defer g.mu.Unlock()
	g.updates++
	// the delta the caller computed = what it writes minus what its own GetPortMapping returned
	base, ok := g.lastGet[goid()]
	if !ok {
		base = [2]int64{g.sent, g.recv}
	}
	g.deltas = append(g.deltas, [2]int64{ts.BytesSent - base[0], ts.BytesReceived - base[1]})
	g.sent, g.recv = ts.BytesSent, ts.BytesReceived
	return nil
}

func (g *gatedCC) GetClientPortMappings(clientID int64) ([]*models.PortMapping, error) { return nil, nil }

func (g *gatedCC) setFree() {
	g.mu.Lock()
	g.free = true
	g.mu.Unlock()
	for {
		select {
		case a := <-g.arrive:
			close(a.resume)
		default:
			return
		}
	}
}

// runTrafficGate: reporters call the real reportTrafficStats; each parks at GetPortMapping and at UpdatePortMappingStats.
// events: add n (bytesSent.Add) | addr n (bytesReceived.Add) | start r | step r.  Emits the realised model schedule
// (thread 0 = the copier performing the adds, thread 1+r = reporter r).
func runTrafficGate(c caseIn) out {
	o := out{"prop_ok": true}
	before := repoGoroutines()
	cc := newGatedCC()
	ctx, cancel := context.WithCancel(context.Background())
	b := stun.NewBridge(ctx, &stun.BridgeConfig{TunnelID: "tg", MappingID: "m1", CloudControl: cc})
	serial := stun.VerifTrafficReportSerialised()
	nR := 0
	for _, e := range c.Events {
		if (e.Op == "start" || e.Op == "step") && e.A+1 > nR {
			nR = e.A + 1
		}
	}
	const (
		idle = iota
		blockedOnMu
		atGet
		atUpdate
		finished
	)
	st := make([]int, nR)
	cur := make([]*ccArrival, nR)
	done := make([]chan struct{}, nR)
	for i := range done {
		done[i] = make(chan struct{})
	}
	sched := []int{}
	adds := []int64{}
	hang := false
	var totalSent, totalRecv int64
	inside := func() int {
		for i, s := range st {
			if s == atGet || s == atUpdate {
				return i
			}
		}
		return -1
	}
	pending := []int{}
	flushPending := func() {
		sched = append(sched, pending...)
		pending = pending[:0]
	}
	// waitFor blocks until reporter r parks or finishes
	waitFor := func(r int) {
		for {
			select {
			case a := <-cc.arrive:
				_ = 0
				if a.who-1 != r {
					// a reporter that was blocked on the mutex got through because r just released it (r's own
					// completion has not been observed yet): its lock + two loads are scheduled AFTER r's steps
					pending = append(pending, a.who, a.who, a.who)
					cur[a.who-1] = &a
					if a.point == "get" {
						st[a.who-1] = atGet
					} else {
						st[a.who-1] = atUpdate
					}
					continue
				}
				cur[r] = &a
				if a.point == "get" {
					st[r] = atGet
				} else {
					st[r] = atUpdate
				}
				return
			case <-done[r]:
				st[r] = finished
				cur[r] = nil
				return
			case <-time.After(waitLong):
				hang = true
				return
			}
		}
	}
	var wake func()
	wake = func() {
		// after the mutex holder finished: exactly one blocked reporter (if any) proceeds
		if !serial || inside() >= 0 {
			return
		}
		anyBlocked := false
		for _, s := range st {
			if s == blockedOnMu {
				anyBlocked = true
			}
		}
		if !anyBlocked {
			return
		}
		// wait for whichever blocked reporter gets the mutex: it parks at get or finishes (delta 0)
		cases := 0
		giveUp := time.Now().Add(waitLong)
		for cases < 1 {
			if time.Now().After(giveUp) {
				hang = true
				return
			}
			progressed := false
			select {
			case a := <-cc.arrive:
				_ = 0
				r := a.who - 1
				cur[r] = &a
				st[r] = atGet
				sched = append(sched, 1+r, 1+r, 1+r)
				progressed = true
			case <-time.After(20 * time.Millisecond):
				for r, s := range st {
					if s == blockedOnMu {
						select {
						case <-done[r]:
							st[r] = finished
							sched = append(sched, 1+r, 1+r, 1+r, 1+r)
							progressed = true
						default:
						}
					}
				}
			}
			if progressed {
				cases++
			} else if hang {
				return
			}
		}
		if inside() < 0 {
			wake()
		}
	}
	for _, e := range c.Events {
		switch e.Op {
		case "add":
			b.AddBytesSent(int64(e.A))
			totalSent += int64(e.A)
			adds = append(adds, int64(e.A))
			sched = append(sched, 0)
		case "addr":
			b.AddBytesReceived(int64(e.A))
			totalRecv += int64(e.A)
		case "start":
			r := e.A
			if st[r] != idle {
				continue
			}
			reg := make(chan struct{})
			go func() {
				cc.mu.Lock()
				cc.ids[goid()] = 1 + r
				cc.mu.Unlock()
				close(reg)
				b.VerifReportTrafficStats()
				close(done[r])
			}()
			<-reg
			if serial && inside() >= 0 {
				st[r] = blockedOnMu
				continue
			}
			waitFor(r)
			if st[r] == atGet {
				sched = append(sched, 1+r, 1+r, 1+r)
			} else if st[r] == finished {
				sched = append(sched, 1+r, 1+r, 1+r, 1+r)
			}
			flushPending()
		case "step":
			r := e.A
			if r >= nR || (st[r] != atGet && st[r] != atUpdate) {
				continue
			}
			was := st[r]
			close(cur[r].resume)
			st[r] = idle
			waitFor(r)
			if was == atGet {
				sched = append(sched, 1+r)
			} else {
				sched = append(sched, 1+r, 1+r, 1+r)
				flushPending()
				wake()
			}
			flushPending()
		}
	}
	// drain: release everybody, in index order, one complete report at a time
	for guard := 0; guard < 4*nR+4; guard++ {
		r := inside()
		if r < 0 {
			progress := false
			for i, s := range st {
				if s == atGet || s == atUpdate {
					r = i
					progress = true
				}
			}
			if !progress {
				break
			}
		}
		was := st[r]
		close(cur[r].resume)
		st[r] = idle
		waitFor(r)
		if was == atGet {
			sched = append(sched, 1+r)
		} else {
			sched = append(sched, 1+r, 1+r, 1+r)
			flushPending()
			wake()
		}
		flushPending()
	}
	for r := range st {
		if st[r] == blockedOnMu || st[r] == atGet || st[r] == atUpdate {
			hang = true
		}
	}
	// a last report with nobody else moving, then close the bridge (its cleanup handler and final report run ungated)
	cc.setFree()
	b.VerifReportTrafficStats()
	for i := 0; i < 9; i++ {
		sched = append(sched, 1+nR)
	}
	ls, lr := b.VerifLastReported()
	cc.mu.Lock()
	o["stats_sent"], o["stats_recv"], o["updates"], o["gets"] = cc.sent, cc.recv, cc.updates, cc.gets
	ds := []int64{}
	neg := false
	for _, d := range cc.deltas {
		if d[0] != 0 {
			ds = append(ds, d[0])
		}
		if d[0] < 0 || d[1] < 0 {
			neg = true
		}
	}
	cc.mu.Unlock()
	o["deltas_sent"], o["last_sent"], o["last_recv"], o["cnt_sent"], o["cnt_recv"] = ds, ls, lr, totalSent, totalRecv
	o["sched"], o["adds"], o["reporters"], o["serial"] = sched, adds, nR, serial
	b.Close()
	cancel()
	if hang {
		fail(o, "traffic-hang", "a reportTrafficStats call did not return")
	} else if cc.sent > totalSent || cc.recv > totalRecv || neg {
		fail(o, "traffic-double-report", fmt.Sprintf("cloud control was told sent=%d received=%d but the bridge counted sent=%d received=%d (deltas %v)", cc.sent, cc.recv, totalSent, totalRecv, cc.deltas))
	} else if cc.sent != totalSent || cc.recv != totalRecv {
		fail(o, "traffic-under-report", fmt.Sprintf("after a final quiescent report cloud control has sent=%d received=%d, counters sent=%d received=%d", cc.sent, cc.recv, totalSent, totalRecv))
	}
	if left := leakCheck(before); len(left) > 0 {
		o["leak"] = left
		if o["prop_ok"].(bool) {
			fail(o, "bridge-goroutine-leak", "goroutines left after Bridge.Close: "+strings.Join(left, "; "))
		}
	}
	return o
}

// runBridgeCloseGate: the natural double report: Bridge.Close runs cleanup -> reportTrafficStats while the periodic
// reporter's final report runs on ctx.Done; both are parked at GetPortMapping if both get there.
func runBridgeCloseGate(c caseIn) out {
	o := out{"prop_ok": true}
	before := repoGoroutines()
	cc := newGatedCC()
	cc.gateAll = true
	ctx, cancel := context.WithCancel(context.Background())
	b := stun.NewBridge(ctx, &stun.BridgeConfig{TunnelID: "bg", MappingID: "m1", CloudControl: cc})
	b.AddBytesSent(int64(c.K))
	b.AddBytesReceived(int64(c.K) * 2)
	closed := make(chan struct{})
	go func() { b.Close(); close(closed) }()
	var arr []ccArrival
	timeout := time.After(400 * time.Millisecond)
collect:
	for len(arr) < 2 {
		select {
		case a := <-cc.arrive:
			arr = append(arr, a)
		case <-timeout:
			break collect
		}
	}
	o["parked_at_get"] = len(arr)
	// release the first completely (get, update), then the rest
	for _, a := range arr {
		cc.mu.Lock()
		u0 := cc.updates
		cc.mu.Unlock()
		close(a.resume)
		select {
		case a2 := <-cc.arrive:
			close(a2.resume)
			// let this report's update land before the next parked report performs its get
			for dl := time.Now().Add(300 * time.Millisecond); time.Now().Before(dl); {
				cc.mu.Lock()
				u := cc.updates
				cc.mu.Unlock()
				if u > u0 {
					break
				}
				time.Sleep(100 * time.Microsecond)
			}
		case <-time.After(300 * time.Millisecond):
		}
	}
	cc.setFree()
	deadline := time.After(waitLong)
	select {
	case <-closed:
	case <-deadline:
		fail(o, "bridge-close-hang", "Bridge.Close did not return")
	}
	time.Sleep(20 * time.Millisecond)
	cc.setFree()
	left := leakCheck(before)
	cc.mu.Lock()
	o["stats_sent"], o["stats_recv"], o["updates"] = cc.sent, cc.recv, cc.updates
	if cc.sent > int64(c.K) || cc.recv > 2*int64(c.K) {
		fail(o, "traffic-double-report", fmt.Sprintf("Bridge.Close with %d/%d bytes counted: cleanup handler and final periodic report both reported: cloud control has sent=%d received=%d after %d updates", c.K, 2*c.K, cc.sent, cc.recv, cc.updates))
	} else if cc.sent != int64(c.K) || cc.recv != 2*int64(c.K) {
		fail(o, "traffic-under-report", fmt.Sprintf("Bridge.Close with %d/%d bytes counted reported sent=%d received=%d", c.K, 2*c.K, cc.sent, cc.recv))
	}
	cc.mu.Unlock()
	cancel()
	if len(left) > 0 {
		o["leak"] = left
		if o["prop_ok"].(bool) {
			fail(o, "bridge-goroutine-leak", "goroutines left after Bridge.Close: "+strings.Join(left, "; "))
		}
	}
	return o
}

type fakeTC struct {
	id     string
	conn   net.Conn
	st     stream.PackageStreamer
	closes atomic.Int32
}

func (f *fakeTC) GetConnectionID() string           { return f.id }
func (f *fakeTC) GetClientID() int64                { return 1 }
func (f *fakeTC) GetMappingID() string              { return "m1" }
func (f *fakeTC) GetTunnelID() string               { return "br" }
func (f *fakeTC) GetStream() stream.PackageStreamer { return f.st }
func (f *fakeTC) GetNetConn() net.Conn              { return f.conn }
func (f *fakeTC) Close() error                      { f.closes.Add(1); return nil }
func (f *fakeTC) IsClosed() bool                    { return f.closes.Load() > 0 }

type cntNetConn struct {
	net.Conn
	closes atomic.Int32
}

func (c *cntNetConn) Close() error { c.closes.Add(1); return c.Conn.Close() }

// runBridgeRace: K closers + the bridge's own completion path (Start's copy loops end when the peer closes) on a real
// Bridge over net.Pipe connections and real StreamProcessors, with a counting (ungated) cloud control.
func runBridgeRace(c caseIn) out {
	o := out{"prop_ok": true}
	before := repoGoroutines()
	bad := 0
	for trial := 0; trial < c.Trials; trial++ {
		cc := newGatedCC()
		cc.free = true
		ctx, cancel := context.WithCancel(context.Background())
		sa, sb := net.Pipe()
		ta, tb := net.Pipe()
		src, tgt := &cntNetConn{Conn: sa}, &cntNetConn{Conn: ta}
		sst := stream.NewStreamProcessor(src, src, ctx)
		tst := stream.NewStreamProcessor(tgt, tgt, ctx)
		stc := &fakeTC{id: "s", conn: src, st: sst}
		ttc := &fakeTC{id: "t", conn: tgt, st: tst}
		b := stun.NewBridge(ctx, &stun.BridgeConfig{TunnelID: "br", MappingID: "m1", CloudControl: cc, SourceTunnelConn: stc})
		b.SetTargetConnection(ttc)
		startDone := make(chan struct{})
		if c.Started {
			go func() { b.Start(); close(startDone) }()
			// push some bytes through so the counters move
			go func() { sb.Write([]byte("hello")); }()
			buf := make([]byte, 5)
			tb.SetReadDeadline(time.Now().Add(2 * time.Second))
			io.ReadFull(tb, buf)
		} else {
			close(startDone)
			b.AddBytesSent(5)
		}
		n := c.K
		if c.Own {
			n++
		}
		pan := barrierRun(n, func(i int) {
			if i < c.K {
				b.Close()
			} else {
				sb.Close() // the source peer goes away: the copy loop ends and closeBridge() fires
			}
		})
		if len(pan) > 0 {
			return fail(o, "bridge-panic", "concurrent Bridge.Close: "+pan[0])
		}
		select {
		case <-startDone:
		case <-time.After(waitLong):
			return fail(o, "bridge-start-hang", "Bridge.Start did not return after Close")
		}
		// the final periodic report runs asynchronously
		deadline := time.Now().Add(300 * time.Millisecond)
		for time.Now().Before(deadline) {
			cc.mu.Lock()
			s := cc.sent
			cc.mu.Unlock()
			if s >= 5 {
				break
			}
			time.Sleep(200 * time.Microsecond)
		}
		time.Sleep(300 * time.Microsecond)
		sb.Close()
		tb.Close()
		cancel()
		cc.mu.Lock()
		sent := cc.sent
		cc.mu.Unlock()
		msg := ""
		key := "bridge-close-count"
		switch {
		case stc.closes.Load() != 1 || ttc.closes.Load() != 1:
			msg = fmt.Sprintf("tunnel connections closed %d/%d times", stc.closes.Load(), ttc.closes.Load())
		case !b.IsClosed():
			msg = "bridge not disposed after Close"
		case sent > b.GetBytesSent():
			key = "traffic-double-report"
			msg = fmt.Sprintf("cloud control has sent=%d, bridge counted %d", sent, b.GetBytesSent())
		case !sst.IsClosed() || !tst.IsClosed():
			msg = "stream processors not closed"
		}
		if msg != "" {
			bad++
			if o["prop_ok"].(bool) || key == "bridge-close-count" {
				o["prop_ok"], o["key"], o["prop_msg"] = false, key, fmt.Sprintf("trial %d, %d concurrent Bridge.Close (started=%v own=%v): %s", trial, c.K, c.Started, c.Own, msg)
			}
		}
	}
	o["trials"], o["bad"] = c.Trials, bad
	if left := leakCheck(before); len(left) > 0 {
		o["leak"] = left
		if o["prop_ok"].(bool) {
			fail(o, "bridge-goroutine-leak", "goroutines left after Bridge.Close: "+strings.Join(left, "; "))
		}
	}
	return o
}

// stallConn: a peer that has stopped reading: Write signals entry and blocks until the connection is closed locally
// (what a TCP write to a stalled peer does); Read blocks until Close as well.
type stallConn struct {
	entered chan struct{}
	eonce   sync.Once
	closed  chan struct{}
	conce   sync.Once
	closes  atomic.Int32
}

type stallAddr struct{}

func (stallAddr) Network() string { return "verif" }
func (stallAddr) String() string  { return "stalled-peer" }

func newStallConn() *stallConn { return &stallConn{entered: make(chan struct{}), closed: make(chan struct{})} }
func (c *stallConn) Read(p []byte) (int, error) {
	<-c.closed
	return 0, io.EOF
}
func (c *stallConn) Write(p []byte) (int, error) {
	c.eonce.Do(func() { close(c.entered) })
	<-c.closed
	return 0, io.ErrClosedPipe
}
func (c *stallConn) Close() error {
	c.closes.Add(1)
	c.conce.Do(func() { close(c.closed) })
	return nil
}
func (c *stallConn) LocalAddr() net.Addr                { return stallAddr{} }
func (c *stallConn) RemoteAddr() net.Addr               { return stallAddr{} }
func (c *stallConn) SetDeadline(t time.Time) error      { return nil }
func (c *stallConn) SetReadDeadline(t time.Time) error  { return nil }
func (c *stallConn) SetWriteDeadline(t time.Time) error { return nil }

func bridgeGoroutines() []string {
	buf := make([]byte, 4<<20)
	buf = buf[:runtime.Stack(buf, true)]
	var res []string
	for _, g := range strings.Split(string(buf), "\n\n") {
		if i := strings.Index(g, "session/tunnel.(*Bridge)."); i >= 0 {
			f := g[i+len("session/tunnel."):]
			if j := strings.IndexAny(f, "(\n"); j > 0 && strings.HasPrefix(f, "(*Bridge).") {
				if k := strings.Index(f[10:], "("); k > 0 {
					f = f[:10+k]
				}
			}
			res = append(res, strings.TrimSpace(strings.SplitN(f, "\n", 2)[0]))
		}
	}
	sort.Strings(res)
	return res
}

// runBridgeStall: K concurrent Bridge.Close calls arrive while one forwarding direction is blocked in a Write to a stalled
// peer (side 0: the source client stopped reading, the target->source copy is blocked; side 1: symmetric).
// Required: every Close returns within the watchdog, Start returns, no (*Bridge). goroutine remains, each tunnel
// connection was closed once, the cleanup handler's traffic report ran once.
func runBridgeStall(c caseIn) out {
	o := out{"prop_ok": true}
	cc := newGatedCC()
	cc.free = true
	ctx, cancel := context.WithCancel(context.Background())
	defer cancel()
	stall := newStallConn()
	pa, pb := net.Pipe() // pa: bridge side of the healthy peer, pb: the peer itself
	healthy := &cntNetConn{Conn: pa}
	var stc, ttc *fakeTC
	if c.Side == 0 {
		stc, ttc = &fakeTC{id: "s", conn: stall}, &fakeTC{id: "t", conn: healthy}
	} else {
		stc, ttc = &fakeTC{id: "s", conn: healthy}, &fakeTC{id: "t", conn: stall}
	}
	b := stun.NewBridge(ctx, &stun.BridgeConfig{TunnelID: "bs", MappingID: "m1", CloudControl: cc, SourceTunnelConn: stc})
	b.SetTargetConnection(ttc)
	startDone := make(chan struct{})
	go func() { b.Start(); close(startDone) }()
	go func() { pb.Write([]byte("bytes for a peer that stopped reading")) }()
	select {
	case <-stall.entered:
	case <-time.After(waitLong):
		stall.Close()
		pb.Close()
		b.Close()
		return fail(o, "bridge-stall-setup", "the bridge never wrote to the stalled peer")
	}
	b.AddBytesSent(7) // something for the cleanup handler's report
	k := c.K
	if k < 1 {
		k = 1
	}
	var wg sync.WaitGroup
	for i := 0; i < k; i++ {
		wg.Add(1)
		go func() { defer wg.Done(); b.Close() }()
	}
	closeDone := make(chan struct{})
	go func() { wg.Wait(); close(closeDone) }()
	closeReturned := true
	select {
	case <-closeDone:
	case <-time.After(3 * time.Second):
		closeReturned = false
	}
	o["close_returned"] = closeReturned
	hung := bridgeGoroutines()
	if !closeReturned {
		// release the world so the following cases are not disturbed: closing the stalled connection by hand lets the
		// blocked Write return
		stall.Close()
		select {
		case <-closeDone:
		case <-time.After(waitLong):
		}
	}
	startReturned := true
	select {
	case <-startDone:
	case <-time.After(3 * time.Second):
		startReturned = false
	}
	pb.Close()
	var left []string
	for dl := time.Now().Add(2 * time.Second); ; {
		left = bridgeGoroutines()
		if len(left) == 0 || time.Now().After(dl) {
			break
		}
		time.Sleep(2 * time.Millisecond)
	}
	// the final periodic report may still be on its way; the cleanup handler's report is synchronous with Close
	cc.mu.Lock()
	sent, updates := cc.sent, cc.updates
	cc.mu.Unlock()
	o["start_returned"], o["left"], o["stall_closes"], o["healthy_closes"], o["tc_closes"] = startReturned, left, int(stall.closes.Load()), int(healthy.closes.Load()), []int{int(stc.closes.Load()), int(ttc.closes.Load())}
	o["stats_sent"], o["updates"], o["disposed"] = sent, updates, b.IsClosed()
	side := []string{"source", "target"}[c.Side&1]
	switch {
	case !closeReturned:
		return fail(o, "bridge-close-blocked-by-stalled-write", fmt.Sprintf("%d Bridge.Close call(s) while the write to the stalled %s peer was blocked did not return within 3 s; bridge goroutines: %s", k, side, strings.Join(hung, ", ")))
	case !startReturned:
		return fail(o, "bridge-start-hang", fmt.Sprintf("Bridge.Start did not return after Close (stalled %s peer); bridge goroutines: %s", side, strings.Join(left, ", ")))
	case len(left) > 0:
		return fail(o, "bridge-goroutine-leak", fmt.Sprintf("goroutines left after Bridge.Close (stalled %s peer): %s", side, strings.Join(left, ", ")))
	case stc.closes.Load() != 1 || ttc.closes.Load() != 1:
		return fail(o, "bridge-close-count", fmt.Sprintf("tunnel connections closed %d/%d times (stalled %s peer)", stc.closes.Load(), ttc.closes.Load(), side))
	case !b.IsClosed():
		return fail(o, "bridge-close-count", "bridge not disposed after Close")
	case sent != 7:
		key := "traffic-under-report"
		if sent > 7 {
			key = "traffic-double-report"
		}
		return fail(o, key, fmt.Sprintf("the cleanup handler should have reported the 7 counted bytes once; cloud control has sent=%d after %d updates", sent, updates))
	}
	return o
}

// runBridgeStartRace: Start, SetTargetConnection and K Close calls are released by one barrier (Close racing with the
// wake-up of Start): nothing may panic, Start must return, no (*Bridge). goroutine may remain.
func runBridgeStartRace(c caseIn) out {
	o := out{"prop_ok": true}
	bad := 0
	for trial := 0; trial < c.Trials; trial++ {
		cc := newGatedCC()
		cc.free = true
		ctx, cancel := context.WithCancel(context.Background())
		sa, sb := net.Pipe()
		ta, tb := net.Pipe()
		src, tgt := &cntNetConn{Conn: sa}, &cntNetConn{Conn: ta}
		var sst, tst stream.PackageStreamer
		if trial%2 == 0 {
			sst, tst = stream.NewStreamProcessor(src, src, ctx), stream.NewStreamProcessor(tgt, tgt, ctx)
		}
		stc := &fakeTC{id: "s", conn: src, st: sst}
		ttc := &fakeTC{id: "t", conn: tgt, st: tst}
		b := stun.NewBridge(ctx, &stun.BridgeConfig{TunnelID: "sr", MappingID: "m1", CloudControl: cc, SourceTunnelConn: stc})
		if c.Started { // the target is attached before: Start wakes immediately
			b.SetTargetConnection(ttc)
		}
		startDone := make(chan struct{})
		pan := barrierRun(c.K+2, func(i int) {
			switch {
			case i == 0:
				defer close(startDone)
				b.Start()
			case i == 1:
				if !c.Started {
					b.SetTargetConnection(ttc)
				}
			default:
				b.Close()
			}
		})
		sb.Close()
		tb.Close()
		if len(pan) > 0 {
			cancel()
			// a crash here is the visible end of the unsynchronised field access between Start and Close (torn interface read)
			return fail(o, "bridge-start-close-data-race", fmt.Sprintf("trial %d: PANIC with Bridge.Close racing with the wake-up of Start (target attached before=%v): %s", trial, c.Started, pan[0]))
		}
		select {
		case <-startDone:
		case <-time.After(waitLong):
			cancel()
			return fail(o, "bridge-start-hang", "Bridge.Start did not return after Close")
		}
		if !b.IsClosed() || stc.closes.Load() != 1 {
			bad++
			fail(o, "bridge-close-count", fmt.Sprintf("trial %d: disposed=%v, source tunnel connection closed %d times", trial, b.IsClosed(), stc.closes.Load()))
		}
		cancel()
	}
	o["trials"], o["bad"] = c.Trials, bad
	var left []string
	for dl := time.Now().Add(3 * time.Second); ; {
		left = bridgeGoroutines()
		if len(left) == 0 || time.Now().After(dl) {
			break
		}
		time.Sleep(2 * time.Millisecond)
	}
	if len(left) > 0 && o["prop_ok"].(bool) {
		o["leak"] = left
		fail(o, "bridge-goroutine-leak", "goroutines left after Bridge.Close racing with Start: "+strings.Join(left, "; "))
	}
	return o
}

// ---------------------------------------------------------------------------------------------------
// D. StreamProcessor, memory.Storage, SessionManager
// ---------------------------------------------------------------------------------------------------

type cntRW struct {
	closes atomic.Int32
	ch     chan struct{}
	once   sync.Once
	data   chan []byte
}

func newCntRW() *cntRW { return &cntRW{ch: make(chan struct{}), data: make(chan []byte, 16)} }
func (c *cntRW) Read(p []byte) (int, error) {
	select {
	case d := <-c.data:
		return copy(p, d), nil
	case <-c.ch:
		return 0, io.ErrClosedPipe
	}
}
func (c *cntRW) Write(p []byte) (int, error) {
	select {
	case <-c.ch:
		return 0, io.ErrClosedPipe
	default:
		return len(p), nil
	}
}
func (c *cntRW) Close() error {
	c.closes.Add(1)
	c.once.Do(func() { close(c.ch) })
	return nil
}

func tryOp(name string, f func() error) (res string) {
	defer func() {
		if r := recover(); r != nil {
			res = "panic: " + fmt.Sprint(r)
		}
	}()
	if err := f(); err != nil {
		return "err"
	}
	return "ok"
}

func runStreamRace(c caseIn) out {
	o := out{"prop_ok": true}
	before := repoGoroutines()
	bad := 0
	for trial := 0; trial < c.Trials; trial++ {
		r, w := newCntRW(), newCntRW()
		sp := stream.NewStreamProcessor(r, w, context.Background())
		var opPanics atomic.Int32
		var firstPanic atomic.Value
		pan := barrierRun(2*c.K, func(i int) {
			if i < c.K {
				sp.Close()
				return
			}
			var res string
			if i%2 == 0 {
				res = tryOp("ReadExact", func() error { _, e := sp.ReadExact(4); return e })
			} else {
				res = tryOp("WriteExact", func() error { return sp.WriteExact([]byte("abcd")) })
			}
			if strings.HasPrefix(res, "panic") {
				opPanics.Add(1)
				firstPanic.Store(res)
			}
		})
		if len(pan) > 0 {
			return fail(o, "stream-close-panic", "concurrent StreamProcessor.Close: "+pan[0])
		}
		after := map[string]string{
			"ReadExact":     tryOp("ReadExact", func() error { _, e := sp.ReadExact(4); return e }),
			"ReadAvailable": tryOp("ReadAvailable", func() error { _, e := sp.ReadAvailable(4); return e }),
			"WriteExact":    tryOp("WriteExact", func() error { return sp.WriteExact([]byte("x")) }),
			"ReadPacket":    tryOp("ReadPacket", func() error { _, _, e := sp.ReadPacket(); return e }),
		}
		msg, key := "", "stream-close-count"
		switch {
		case r.closes.Load() != 1 || w.closes.Load() != 1:
			msg = fmt.Sprintf("reader/writer closed %d/%d times", r.closes.Load(), w.closes.Load())
		case opPanics.Load() > 0:
			key = "stream-op-during-close-panic"
			msg = fmt.Sprintf("an operation racing with Close panicked: %v", firstPanic.Load())
		}
		for name, res := range after {
			if res != "err" {
				key = "stream-op-after-close"
				msg = fmt.Sprintf("%s after Close: %s (want a clean error)", name, res)
			}
		}
		if msg != "" {
			bad++
			fail(o, key, fmt.Sprintf("trial %d, %d closers: %s", trial, c.K, msg))
		}
	}
	o["trials"], o["bad"] = c.Trials, bad
	if left := leakCheck(before); len(left) > 0 {
		o["leak"] = left
		if o["prop_ok"].(bool) {
			fail(o, "stream-goroutine-leak", "goroutines left after StreamProcessor.Close: "+strings.Join(left, "; "))
		}
	}
	return o
}

// runStreamGate: deterministic: a ReadPacket is inside its body loop (it has received part of the body) when Close runs
// to completion; then the parked Read returns more data.
func runStreamGate(c caseIn) out {
	o := out{"prop_ok": true}
	r, w := newCntRW(), newCntRW()
	sp := stream.NewStreamProcessor(r, w, context.Background())
	res := make(chan string, 1)
	gate := &gateReader{inner: r, arrive: make(chan struct{}, 16), resume: make(chan []byte)}
	sp2 := stream.NewStreamProcessor(gate, w, context.Background())
	_ = sp
	go func() {
		res <- tryOp("ReadPacket", func() error { _, _, e := sp2.ReadPacket(); return e })
	}()
	// type byte (JsonCommand 0x10? use plain TunnelOpen-like 0x20 with a 4-byte length 8), then half the body
	feed := [][]byte{{0x20}, {0, 0, 0, 8}, {1, 2, 3}}
	for _, f := range feed[:c.Reads] {
		select {
		case <-gate.arrive:
			gate.resume <- f
		case <-time.After(waitLong):
			return fail(o, "stream-gate-hang", "ReadPacket did not call Read")
		}
	}
	select {
	case <-gate.arrive: // parked in the next Read
	case s := <-res:
		o["result"] = s
		return o
	case <-time.After(waitLong):
		return fail(o, "stream-gate-hang", "ReadPacket did not call Read")
	}
	closed := make(chan struct{})
	go func() { sp2.Close(); close(closed) }()
	select {
	case <-closed:
		o["close_returned_while_read_parked"] = true
	case <-time.After(150 * time.Millisecond):
		o["close_returned_while_read_parked"] = false
	}
	gate.resume <- []byte{4, 5}
	var s string
	select {
	case s = <-res:
	case <-gate.arrive:
		gate.resume <- nil
		s = <-res
	case <-time.After(waitLong):
		return fail(o, "stream-gate-hang", "ReadPacket did not return")
	}
	<-closed
	o["result"] = s
	o["after"] = tryOp("ReadExact", func() error { _, e := sp2.ReadExact(4); return e })
	o["reader_closes"] = int(r.closes.Load())
	if strings.HasPrefix(s, "panic") {
		return fail(o, "stream-op-during-close-panic", fmt.Sprintf("ReadPacket had read %d chunk(s) when Close ran to completion; its next Read returned data and the following use of the reader panicked: %s", c.Reads, s))
	}
	if o["after"] != "err" {
		return fail(o, "stream-op-after-close", fmt.Sprintf("ReadExact after Close: %v (want a clean error)", o["after"]))
	}
	if r.closes.Load() != 1 {
		return fail(o, "stream-close-count", fmt.Sprintf("underlying reader closed %d times", r.closes.Load()))
	}
	return o
}

type gateReader struct {
	inner  *cntRW
	arrive chan struct{}
	resume chan []byte
}

func (g *gateReader) Read(p []byte) (int, error) {
	g.arrive <- struct{}{}
	d := <-g.resume
	if d == nil {
		return 0, io.ErrClosedPipe
	}
	return copy(p, d), nil
}
func (g *gateReader) Close() error { return g.inner.Close() }

func runStorageRace(c caseIn) out {
	o := out{"prop_ok": true}
	before := repoGoroutines()
	bad := 0
	panicking := []string{}
	for trial := 0; trial < c.Trials; trial++ {
		st := memory.New(context.Background())
		st.StartCleanup(time.Millisecond)
		st.Set("k", "v", 0)
		pan := barrierRun(2*c.K, func(i int) {
			if i < c.K {
				st.Close()
			} else {
				st.Set(fmt.Sprint("k", i), "v", 0)
				st.Get("k")
			}
		})
		if len(pan) > 0 {
			return fail(o, "storage-close-panic", "concurrent memory.Storage.Close: "+pan[0])
		}
		// every operation on its own freshly closed store (Set re-creates the map, so it must not run first)
		closedStore := func() *memory.Storage { s := memory.New(context.Background()); s.Set("k", "v", 0); s.Close(); return s }
		after := map[string]string{}
		ops := []struct {
			name string
			f    func(st *memory.Storage) error
		}{
			{"Get", func(st *memory.Storage) error { st.Get("k"); return nil }},
			{"Set", func(st *memory.Storage) error { return st.Set("a", "b", 0) }},
			{"SetNX", func(st *memory.Storage) error { _, e := st.SetNX("nx", "b", 0); return e }},
			{"Delete", func(st *memory.Storage) error { return st.Delete("a") }},
			{"Exists", func(st *memory.Storage) error { _, e := st.Exists("a"); return e }},
			{"Incr", func(st *memory.Storage) error { _, e := st.Incr("ctr"); return e }},
			{"IncrBy", func(st *memory.Storage) error { _, e := st.IncrBy("ctr", 2); return e }},
			{"SetHash", func(st *memory.Storage) error { return st.SetHash("h", "f", "v") }},
			{"AppendToList", func(st *memory.Storage) error { return st.AppendToList("l", "v") }},
			{"SetList", func(st *memory.Storage) error { return st.SetList("l", []interface{}{"v"}, 0) }},
			{"CompareAndSwap", func(st *memory.Storage) error { _, e := st.CompareAndSwap("cas", nil, "v", 0); return e }},
			{"SetExpiration", func(st *memory.Storage) error { st.SetExpiration("k", time.Second); return nil }},
			{"CleanupExpired", func(st *memory.Storage) error { return st.CleanupExpired() }},
			{"Close", func(st *memory.Storage) error { return st.Close() }},
			{"StartStopCleanup", func(st *memory.Storage) error { st.StartCleanup(time.Millisecond); st.StopCleanup(); return nil }},
		}
		if trial == 0 {
			for _, op := range ops {
				cs := closedStore()
				after[op.name] = tryOp(op.name, func() error { return op.f(cs) })
			}
		}
		for name, res := range after {
			if strings.HasPrefix(res, "panic") {
				bad++
				panicking = append(panicking, name)
			}
		}
		sort.Strings(panicking)
		if len(panicking) > 0 {
			fail(o, "storage-op-after-close-panic", fmt.Sprintf("memory.Storage after Close: %s panic (%s)", strings.Join(panicking, ", "), after[panicking[0]]))
		}
	}
	o["trials"], o["bad"] = c.Trials, bad
	o["panicking_ops"] = panicking
	if left := leakCheck(before); len(left) > 0 {
		o["leak"] = left
		if o["prop_ok"].(bool) {
			fail(o, "storage-goroutine-leak", "goroutines left after memory.Storage.Close: "+strings.Join(left, "; "))
		}
	}
	return o
}

type cntBus struct {
	subs, unsubs, closes atomic.Int32
}

func (b *cntBus) Publish(e events.Event) error                       { return nil }
func (b *cntBus) Subscribe(t string, h events.EventHandler) error   { b.subs.Add(1); return nil }
func (b *cntBus) Unsubscribe(t string, h events.EventHandler) error { b.unsubs.Add(1); return nil }
func (b *cntBus) Close() error                                       { b.closes.Add(1); return nil }

func runSessionRace(c caseIn) out {
	o := out{"prop_ok": true}
	before := repoGoroutines()
	bad := 0
	for trial := 0; trial < c.Trials; trial++ {
		ctx, cancel := context.WithCancel(context.Background())
		st := memory.New(ctx)
		sm := session.NewSessionManagerWithConfig(nil, ctx, &session.SessionConfig{HeartbeatTimeout: time.Second, CleanupInterval: 5 * time.Millisecond, MaxConnections: 100, MaxControlConnections: 100})
		bus := &cntBus{}
		must(sm.SetEventBus(bus))
		conns := []*connRW{}
		for i := 0; i < 3; i++ {
			rw := &connRW{cntRW: newCntRW(), id: fmt.Sprintf("conn-%d-%d", trial, i)}
			if _, err := sm.CreateConnection(rw, rw); err != nil {
				return fail(o, "session-setup", "CreateConnection: "+err.Error())
			}
			conns = append(conns, rw)
		}
		pan := barrierRun(c.K, func(i int) { sm.Close() })
		if len(pan) > 0 {
			return fail(o, "session-close-panic", "concurrent SessionManager.Close: "+pan[0])
		}
		rw := &connRW{cntRW: newCntRW(), id: "late"}
		late := tryOp("CreateConnection", func() error { _, e := sm.CreateConnection(rw, rw); return e })
		msg := ""
		if bus.unsubs.Load() != 1 || bus.closes.Load() != 1 {
			msg = fmt.Sprintf("event bus unsubscribed %d times, closed %d times", bus.unsubs.Load(), bus.closes.Load())
		}
		for _, cn := range conns {
			if cn.closes.Load() < 1 {
				msg = fmt.Sprintf("connection %s not closed", cn.id)
			}
		}
		if strings.HasPrefix(late, "panic") {
			msg = "CreateConnection after Close: " + late
		}
		if msg != "" {
			bad++
			fail(o, "session-close-count", fmt.Sprintf("trial %d, %d closers: %s", trial, c.K, msg))
		}
		st.Close()
		cancel()
	}
	o["trials"], o["bad"] = c.Trials, bad
	if left := leakCheck(before); len(left) > 0 {
		o["leak"] = left
		if o["prop_ok"].(bool) {
			fail(o, "session-goroutine-leak", "goroutines left after SessionManager.Close: "+strings.Join(left, "; "))
		}
	}
	return o
}

type connRW struct {
	*cntRW
	id string
}

func (c *connRW) GetConnectionID() string { return c.id }

// ---------------------------------------------------------------------------------------------------

func runCase(raw json.RawMessage) interface{} {
	var c caseIn
	must(json.Unmarshal(raw, &c))
	if c.Trials == 0 {
		c.Trials = 1
	}
	var o out
	func() {
		defer func() {
			if r := recover(); r != nil {
				o = fail(out{"prop_ok": true}, c.Mode+"-panic", fmt.Sprintf("panic in mode %s: %v", c.Mode, r))
			}
		}()
		switch c.Mode {
		case "dispose_hist":
			o = runDisposeHist(c)
		case "dispose_race":
			o = runDisposeRace(c)
		case "tunnel_seq":
			o = runTunnelSeq(c)
		case "tunnel_race":
			o = runTunnelRace(c)
		case "tunnel_sched":
			o = runTunnelSched(c)
		case "tunnel_start":
			o = runTunnelStart(c)
		case "bridge_stall":
			o = runBridgeStall(c)
		case "bridge_startrace":
			o = runBridgeStartRace(c)
		case "stream_poll":
			o = runStreamPoll(c)
		case "mapping_window":
			o = runMappingWindow(c)
		case "copy_ctx_exit":
			o = runCopyCtxExit(c)
		case "mapping_live":
			o = runMappingLive(c)
		case "tunnel_reregister":
			o = runTunnelReregister(c)
		case "spin_close":
			o = runSpinClose(c)
		case "mapping_stats":
			o = runMappingStats(c)
		case "bridge_hung_backend":
			o = runBridgeHungBackend(c)
		case "bridge_throttle":
			o = runBridgeThrottle(c)
		case "res_mgr":
			o = runResMgr(c)
		case "session_overlap":
			o = runSessionOverlap(c)
		case "stream_queue":
			o = runStreamQueue(c)
		case "fault_close":
			o = runFaultClose(c)
		case "bridge_attach":
			o = runBridgeAttach(c)
		case "traffic_gate":
			o = runTrafficGate(c)
		case "bridge_close_gate":
			o = runBridgeCloseGate(c)
		case "bridge_race":
			o = runBridgeRace(c)
		case "stream_race":
			o = runStreamRace(c)
		case "stream_gate":
			o = runStreamGate(c)
		case "storage_race":
			o = runStorageRace(c)
		case "session_race":
			o = runSessionRace(c)
		default:
			panic("unknown mode " + c.Mode)
		}
	}()
	if o["prop_msg"] == nil {
		o["prop_msg"] = ""
	}
	if o["key"] == nil {
		o["key"] = ""
	}
	return o
}

func main() {
	corelog.SetDefault(corelog.NewNopLogger())
	if len(os.Args) > 1 && os.Args[1] == "gen" {
		gen()
		return
	}
	if len(os.Args) > 2 && os.Args[1] == "instrument" {
		instrument(os.Args[2])
		return
	}
	forEachCase(runCase)
}

//go:build verif

// The production create path: HTTPDomainCreateHandler (command) -> HTTPDomainRepositoryAdapter.CreateHTTPDomainMapping ->
// CreateMapping + UpdateMapping(expiry), with a SHORT REAL ttl (the repository reads time.Now() directly), then the
// clock passes the ttl and the history goes on: request, expiry sweep, re-claim by another client, request.
package main

import (
	"context"
	"encoding/json"
	"fmt"
	"time"

	"tunnox-core/internal/app/server"
	"tunnox-core/internal/cloud/repos"
	"tunnox-core/internal/command"
	coreerrors "tunnox-core/internal/core/errors"
	"tunnox-core/internal/core/storage/memory"
	"tunnox-core/internal/httpservice/modules/domainproxy"
	"tunnox-core/internal/packet"
)

func runAdapter(raw json.RawMessage) *caseOut {
	var c struct {
		TTL     int  `json:"ttl"`     // seconds (1)
		Handler bool `json:"handler"` // create through the command handler (else the adapter directly)
	}
	must(json.Unmarshal(raw, &c))
	out := &caseOut{Results: [][][]int{}, Sched: []int{}, Idx: [][2]string{}, Recs: []recOut{}, Lists: [][]int{}, Guards: []int{}, GList: []int{}, Finals: [][]int{}, Viol: []viol{}}
	fail := func(key, msg string) {
		for _, v := range out.Viol {
			if v.Key == key {
				return
			}
		}
		out.Viol = append(out.Viol, viol{key, msg})
	}
	ctx, cancel := context.WithCancel(context.Background())
	defer cancel()
	bases := []string{"tunnox.net"}
	under := memory.New(ctx)
	repo := repos.NewHTTPDomainMappingRepository(repos.NewRepository(under), bases)
	adapter := server.NewHTTPDomainRepositoryAdapter(repo)
	mod := newModule(ctx, repo, nil, nil, bases)
	handler := command.NewHTTPDomainCreateHandler(adapter, adapter)
	via := "HTTPDomainRepositoryAdapter.CreateHTTPDomainMapping"
	if c.Handler {
		via = "HTTPDomainCreateHandler (command path)"
	}
	create := func(client int64, sub string, port, ttl int) (id, expires string, err error) {
		if !c.Handler {
			id, _, expires, err = adapter.CreateHTTPDomainMapping(client, fmt.Sprintf("h%d", port), port, sub, "tunnox.net", "verif", ttl)
			return
		}
		body, _ := json.Marshal(packet.HTTPDomainCreateRequest{TargetURL: fmt.Sprintf("http://h%d:%d", port, port), Subdomain: sub, BaseDomain: "tunnox.net", MappingTTL: ttl, Description: "verif"})
		resp, herr := handler.Handle(&command.CommandContext{ConnectionID: "c", ClientID: client, RequestBody: string(body), Context: ctx, IsAuthenticated: true})
		if herr != nil {
			return "", "", herr
		}
		var r packet.HTTPDomainCreateResponse
		_ = json.Unmarshal([]byte(resp.Data), &r)
		if !r.Success {
			return "", "", fmt.Errorf("%s", r.Error)
		}
		return r.MappingID, r.ExpiresAt, nil
	}
	stored := func(id string) *repos.HTTPDomainMapping {
		m, err := repo.GetMapping(ctx, id)
		if err != nil {
			return nil
		}
		return m
	}
	told := func(what, id, expires string, ttl int) {
		// what the client is told must be what is stored
		m := stored(id)
		if m == nil {
			fail("created-mapping-missing", fmt.Sprintf("%s: %s reported success for %s but no record is stored", via, what, id))
			return
		}
		if expires == "" {
			return
		}
		t, perr := time.Parse(time.RFC3339, expires)
		if perr != nil || m.ExpiresAt != t.Unix() {
			fail("expiry-not-persisted", fmt.Sprintf("%s: %s (ttl %d s) told the client expires_at=%s but the stored record %s has expires_at=%d", via, what, ttl, expires, id, m.ExpiresAt))
		}
	}
	// ---- boundary ttls through the same create path: whatever instant ends up stored, a mapping whose ExpiresAt is in the past
	// (a NEGATIVE instant included: now + ttl wraps for an over-large ttl) never routes and its name is reclaimable after the sweep;
	// every other mapping routes
	const maxInt64 = int(^uint(0) >> 1)
	type bcase struct {
		sub string
		ttl int
	}
	now0 := int(time.Now().Unix())
	var past, live []string
	for k, b := range []bcase{{"t-zero", 0}, {"t-neg", -5}, {"t-max", maxInt64}, {"t-max1", maxInt64 - 1}, {"t-nearmax", maxInt64 - now0 - 10}, {"t-wrap1", maxInt64 - now0 + 10}, {"t-big", 1 << 40}} {
		id, _, err := create(int64(10+k), b.sub, 100+k, b.ttl)
		if err != nil {
			fail("create-fails", fmt.Sprintf("%s: create %s.tunnox.net with mapping_ttl=%d fails: %v", via, b.sub, b.ttl, err))
			continue
		}
		m := stored(id)
		if m == nil {
			fail("created-mapping-missing", fmt.Sprintf("%s: create %s.tunnox.net (mapping_ttl=%d) reported %s but no record is stored", via, b.sub, b.ttl, id))
			continue
		}
		isPast := m.ExpiresAt != 0 && m.ExpiresAt < int64(now0)-1000
		pm, lerr := domainproxy.VerifLookup(mod, b.sub+".tunnox.net:80")
		if isPast {
			past = append(past, b.sub)
			if lerr == nil {
				fail("expired-mapping-routes", fmt.Sprintf("%s: %s.tunnox.net was created by client %d with mapping_ttl=%d; the stored expires_at=%d is in the past (now %d) yet Host %s.tunnox.net:80 is routed to client %d (%s)",
					via, b.sub, 10+k, b.ttl, m.ExpiresAt, now0, b.sub, pm.TargetClientID, pm.ID))
			}
		} else {
			live = append(live, b.sub)
			if lerr != nil || pm.TargetClientID != int64(10+k) {
				fail("live-create-not-routed", fmt.Sprintf("%s: %s.tunnox.net (client %d, mapping_ttl=%d, stored expires_at=%d, now %d) does not route: %v", via, b.sub, 10+k, b.ttl, m.ExpiresAt, now0, lerr))
			}
		}
	}
	if nb, berr := repo.CleanupExpiredMappings(ctx); berr != nil || nb != len(past) {
		fail("expired-not-swept", fmt.Sprintf("%s: %d mapping(s) %v carry an expires_at in the past, CleanupExpiredMappings cleaned %d (err=%v)", via, len(past), past, nb, berr))
	}
	for _, sub := range past {
		if idn, _, err := create(77, sub, 177, 3600); err != nil {
			fail("expired-name-not-reclaimable", fmt.Sprintf("%s: %s.tunnox.net carried an expires_at in the past and the sweep ran, yet client 77 cannot claim it: %v", via, sub, err))
		} else if pm, lerr := domainproxy.VerifLookup(mod, sub+".tunnox.net"); lerr != nil || pm.ID != idn {
			fail("reclaimed-name-not-routed", fmt.Sprintf("%s: %s.tunnox.net was re-claimed by client 77 (%s) but does not route to it (%v)", via, sub, idn, lerr))
		}
	}
	for _, sub := range live {
		if _, _, err := create(78, sub, 178, 3600); err == nil {
			fail("claimed-name-claimable", fmt.Sprintf("%s: %s.tunnox.net is owned and unexpired, yet client 78 could claim it", via, sub))
		}
	}

	id1, exp1, err1 := create(1, "alpha", 11, c.TTL)
	id2, exp2, err2 := create(2, "beta", 22, 3600)
	if err1 != nil || err2 != nil {
		out.Abandoned = fmt.Sprintf("creates failed: %v %v", err1, err2)
		return out
	}
	told("create alpha by client 1", id1, exp1, c.TTL)
	told("create beta by client 2", id2, exp2, 3600)
	if pm, err := domainproxy.VerifLookup(mod, "alpha.tunnox.net"); err != nil || pm.TargetClientID != 1 {
		fail("fresh-mapping-not-routed", fmt.Sprintf("%s: alpha.tunnox.net (client 1, ttl %d s) does not route right after its creation: %v", via, c.TTL, err))
	}
	// the clock passes the ttl (IsExpired compares whole seconds: now > expires_at)
	time.Sleep(time.Duration(c.TTL)*time.Second + 1100*time.Millisecond)
	if pm, err := domainproxy.VerifLookup(mod, "alpha.tunnox.net:80"); err == nil {
		fail("expired-mapping-routes", fmt.Sprintf("%s: alpha.tunnox.net was created by client 1 with ttl %d s (client told expires_at=%s); %.1f s later Host alpha.tunnox.net:80 is still routed to client %d (%s)",
			via, c.TTL, exp1, float64(c.TTL)+1.1, pm.TargetClientID, pm.ID))
	} else if !coreerrors.IsCode(err, coreerrors.CodeForbidden) {
		fail("expired-mapping-wrong-rejection", fmt.Sprintf("%s: expired alpha.tunnox.net is rejected with %v instead of FORBIDDEN", via, err))
	}
	if pm, err := domainproxy.VerifLookup(mod, "beta.tunnox.net"); err != nil || pm.TargetClientID != 2 {
		fail("live-create-not-routed", fmt.Sprintf("%s: beta.tunnox.net (client 2, ttl 3600 s) does not route: %v", via, err))
	}
	n, cerr := repo.CleanupExpiredMappings(ctx)
	if cerr != nil || n != 1 {
		fail("expired-not-swept", fmt.Sprintf("%s: alpha.tunnox.net (ttl %d s) has expired but CleanupExpiredMappings cleaned %d mapping(s) (err=%v); stored expires_at=%v",
			via, c.TTL, n, cerr, func() any {
				if m := stored(id1); m != nil {
					return m.ExpiresAt
				}
				return "no record"
			}()))
	}
	if stored(id2) == nil {
		fail("cleanup-removed-unexpired", via+": the sweep removed beta.tunnox.net (ttl 3600 s)")
	}
	id3, exp3, err3 := create(3, "alpha", 33, 3600)
	if err3 != nil {
		fail("expired-name-not-reclaimable", fmt.Sprintf("%s: alpha.tunnox.net expired (ttl %d s) and the sweep ran, yet client 3 cannot claim it: %v", via, c.TTL, err3))
	} else {
		told("re-claim of alpha by client 3", id3, exp3, 3600)
		if pm, err := domainproxy.VerifLookup(mod, "alpha.tunnox.net:443"); err != nil || pm.TargetClientID != 3 || pm.ID != id3 {
			fail("reclaimed-name-not-routed", fmt.Sprintf("%s: alpha.tunnox.net was re-claimed by client 3 (%s) but does not route to it (err=%v)", via, id3, err))
		}
	}
	if n2, _ := repo.CleanupExpiredMappings(ctx); n2 != 0 {
		fail("cleanup-removed-unexpired", fmt.Sprintf("%s: a second sweep cleaned %d unexpired mapping(s)", via, n2))
	}
	return out
}

//go:build verif

// Legacy in-memory DomainRegistry: concurrent claims of one new name by different mappings.
// The registry has no storage calls to gate; its atomic claim is one write-locked section of a sync.RWMutex.
// Steering: the harness holds a READ lock on the registry, so every claimant passes whatever it does under read
// locks and parks at its write section; the harness polls the mutex (reflection shim) until all claimants are parked,
// then lets go.  If the existence check is not in the same write-locked section as the insert, every claimant that
// passed the check before the first writer queued is told it owns the name.  Bounded rounds, plus plain barrier rounds.
package main

import (
	"bytes"
	"context"
	"encoding/json"
	"fmt"
	"net/http"
	"net/http/httptest"
	"runtime"
	"sort"
	"sync"
	"sync/atomic"
	"time"

	"tunnox-core/internal/cloud/managers"
	"tunnox-core/internal/cloud/models"
	"tunnox-core/internal/httpservice"
	"tunnox-core/internal/httpservice/modules/management"
)

type regIn struct {
	K      int `json:"k"`      // claimants per round
	Rounds int `json:"rounds"` // steered rounds (read lock held until the claimants are parked)
	Loose  int `json:"loose"`  // plain spin-barrier rounds
	Mgmt   int `json:"mgmt"`   // rounds through the management API's create handler
}

func regMapping(i int, sub string) *models.PortMapping {
	return &models.PortMapping{ID: fmt.Sprintf("pm_%d", i), TargetClientID: int64(1000 + i), TargetHost: fmt.Sprintf("h%d", i), TargetPort: 1000 + i,
		Protocol: models.ProtocolHTTP, HTTPSubdomain: sub, HTTPBaseDomain: "tunnox.net", Status: models.MappingStatusActive}
}

// one round of k concurrent Register calls on a fresh registry; returns the winners and who the name routes to
func registerRound(k int, steer bool, pre *models.PortMapping, sameID bool) (winners []int, routed string, routedClient int64, parkedAll bool) {
	reg := httpservice.NewDomainRegistry([]string{"tunnox.net"})
	if pre != nil {
		_ = reg.Register(pre)
	}
	var start, arrived int32
	errs := make([]error, k)
	var wg sync.WaitGroup
	if steer {
		httpservice.VerifRegistryRLock(reg)
	}
	for i := 0; i < k; i++ {
		wg.Add(1)
		go func(i int) {
			defer wg.Done()
			m := regMapping(i, "shop")
			if sameID {
				m.ID = "pm_same"
			}
			atomic.AddInt32(&arrived, 1)
			for atomic.LoadInt32(&start) == 0 { // spin barrier: all claimants leave together
			}
			errs[i] = reg.Register(m)
		}(i)
	}
	for atomic.LoadInt32(&arrived) < int32(k) {
		runtime.Gosched()
	}
	atomic.StoreInt32(&start, 1)
	if steer {
		parkedAll = waitParked(reg, k)
		httpservice.VerifRegistryRUnlock(reg)
	}
	wg.Wait()
	for i, e := range errs {
		if e == nil {
			winners = append(winners, i)
		}
	}
	if pm, ok := reg.LookupByHost("shop.tunnox.net:443"); ok {
		routed, routedClient = pm.ID, pm.TargetClientID
	}
	return
}

// waitParked polls the registry's mutex until k goroutines are parked on it (one pending writer + the others queued
// behind it, or blocked as readers behind the pending writer) for three consecutive polls; at most 20 ms
func waitParked(reg *httpservice.DomainRegistry, k int) bool {
	deadline := time.Now().Add(20 * time.Millisecond)
	stable := 0
	for time.Now().Before(deadline) {
		pending, queued, readers, ok := httpservice.VerifRegistryParked(reg)
		if !ok {
			time.Sleep(300 * time.Microsecond)
			return false
		}
		n := queued + (readers - 1)
		if pending {
			n++
		}
		if n >= k {
			stable++
			if stable >= 3 {
				return true
			}
		} else {
			stable = 0
		}
		runtime.Gosched()
	}
	return false
}

// fake cloud control for the management path: CreatePortMapping assigns ids and waits until all k requests have
// passed the handler's availability pre-check; DeletePortMapping records the rollbacks
type mgmtCloud struct {
	managers.CloudControlAPI
	mu      sync.Mutex
	next    int
	k       int
	arrived chan struct{}
	release int32 // spin barrier: all handlers leave CreatePortMapping together
	deleted map[string]bool
	created map[string]int64
}

func (c *mgmtCloud) CreatePortMapping(m *models.PortMapping) (*models.PortMapping, error) {
	c.mu.Lock()
	c.next++
	cp := *m
	cp.ID = fmt.Sprintf("pm_%d", c.next)
	c.created[cp.ID] = cp.TargetClientID
	c.mu.Unlock()
	c.arrived <- struct{}{}
	for atomic.LoadInt32(&c.release) == 0 {
	}
	return &cp, nil
}
func (c *mgmtCloud) DeletePortMapping(id string) error {
	c.mu.Lock()
	c.deleted[id] = true
	c.mu.Unlock()
	return nil
}

func mgmtRound(k int) (msgs []string) {
	ctx, cancel := context.WithCancel(context.Background())
	defer cancel()
	reg := httpservice.NewDomainRegistry([]string{"tunnox.net"})
	cloud := &mgmtCloud{k: k, arrived: make(chan struct{}, k), deleted: map[string]bool{}, created: map[string]int64{}}
	mod := management.NewManagementModule(ctx, &httpservice.ManagementAPIModuleConfig{Enabled: true}, cloud, nil, nil)
	mod.SetDependencies(&httpservice.ModuleDependencies{DomainRegistry: reg, CloudControl: cloud})
	codes := make([]int, k)
	ids := make([]string, k)
	var wg sync.WaitGroup
	for i := 0; i < k; i++ {
		wg.Add(1)
		go func(i int) {
			defer wg.Done()
			body, _ := json.Marshal(map[string]any{"listen_client_id": 0, "target_client_id": 1000 + i, "protocol": "http", "target_host": fmt.Sprintf("h%d", i),
				"target_port": 1000 + i, "http_subdomain": "shop", "http_base_domain": "tunnox.net"})
			rec := httptest.NewRecorder()
			management.VerifCreateMapping(mod, rec, httptest.NewRequest(http.MethodPost, "/mappings", bytes.NewReader(body)))
			codes[i] = rec.Code
			var pm models.PortMapping
			if rec.Code/100 == 2 && json.Unmarshal(rec.Body.Bytes(), &pm) == nil {
				ids[i] = pm.ID
			}
		}(i)
	}
	for i := 0; i < k; i++ { // every request has passed the availability pre-check and created its mapping
		select {
		case <-cloud.arrived:
		case <-time.After(5 * time.Second):
			atomic.StoreInt32(&cloud.release, 1)
			return []string{"management create did not reach CloudControl.CreatePortMapping within 5 s"}
		}
	}
	// steer as in registerRound: hold a read lock so that every handler parks at Register's write section
	httpservice.VerifRegistryRLock(reg)
	atomic.StoreInt32(&cloud.release, 1)
	waitParked(reg, k)
	httpservice.VerifRegistryRUnlock(reg)
	wg.Wait()
	var won []int
	for i, c := range codes {
		if c/100 == 2 {
			won = append(won, i)
		}
	}
	pm, ok := reg.LookupByHost("shop.tunnox.net")
	if len(won) != 1 {
		msgs = append(msgs, fmt.Sprintf("management API: %d concurrent creates of shop.tunnox.net (target clients 1000+i), %d were answered 2xx (requests %v); the name routes to %v",
			k, len(won), won, func() any {
				if ok {
					return pm.TargetClientID
				}
				return "nobody"
			}()))
	}
	if len(won) >= 1 && (!ok || pm.TargetClientID != int64(1000+won[0]) && len(won) == 1) {
		msgs = append(msgs, fmt.Sprintf("management API: request %d was answered 2xx but shop.tunnox.net does not route to its client", won[0]))
	}
	// rollback: every created mapping except the routed winner's must have been deleted again
	cloud.mu.Lock()
	var left []string
	for id := range cloud.created {
		if !cloud.deleted[id] {
			left = append(left, id)
		}
	}
	cloud.mu.Unlock()
	sort.Strings(left)
	if len(left) != 1 || (ok && left[0] != pm.ID) {
		msgs = append(msgs, fmt.Sprintf("management API: after %d concurrent creates of one name the mappings %v exist in cloud control (exactly the routed one, %v, should); refused creates must be rolled back",
			k, left, func() any {
				if ok {
					return pm.ID
				}
				return "-"
			}()))
	}
	if ok && cloud.deleted[pm.ID] {
		msgs = append(msgs, fmt.Sprintf("management API: the mapping the name routes to (%s) was rolled back", pm.ID))
	}
	return
}

func runRegistry(raw json.RawMessage) *caseOut {
	var c struct {
		Reg regIn `json:"registry"`
	}
	must(json.Unmarshal(raw, &c))
	out := &caseOut{Results: [][][]int{}, Sched: []int{}, Idx: [][2]string{}, Recs: []recOut{}, Lists: [][]int{}, Guards: []int{}, GList: []int{}, Finals: [][]int{}, Viol: []viol{}}
	k := c.Reg.K
	fail := func(key, msg string) {
		for _, v := range out.Viol {
			if v.Key == key {
				return
			}
		}
		out.Viol = append(out.Viol, viol{key, msg})
	}
	parked := 0
	check := func(kind string, round int, steer bool) {
		winners, routed, rc, all := registerRound(k, steer, nil, false)
		if all {
			parked++
		}
		if len(winners) != 1 {
			fail("registry-claim-not-exclusive", fmt.Sprintf("%s round %d: %d concurrent DomainRegistry.Register(shop.tunnox.net) from mappings pm_0..pm_%d; claimants %v were ALL told they own the name; it routes to %s (client %d)",
				kind, round, k, k-1, winners, routed, rc))
		} else if routed != fmt.Sprintf("pm_%d", winners[0]) || rc != int64(1000+winners[0]) {
			fail("registry-routes-to-loser", fmt.Sprintf("%s round %d: claimant %d alone was told it owns shop.tunnox.net but the name routes to %s (client %d)", kind, round, winners[0], routed, rc))
		}
	}
	for r := 0; r < c.Reg.Rounds; r++ {
		check("steered", r, true)
	}
	for r := 0; r < c.Reg.Loose; r++ {
		check("barrier", r, false)
	}
	// the name already belongs to another mapping: nobody may win; same mapping id (an update): everybody may
	for r := 0; r < c.Reg.Rounds/4+1; r++ {
		pre := regMapping(99, "shop")
		if winners, routed, _, _ := registerRound(k, true, pre, false); len(winners) != 0 || routed != "pm_99" {
			fail("registry-claim-over-owner", fmt.Sprintf("shop.tunnox.net registered by pm_99; of %d concurrent Register calls from other mappings %v succeeded; the name routes to %s", k, winners, routed))
		}
		if winners, routed, _, _ := registerRound(k, true, nil, true); len(winners) != k || routed != "pm_same" {
			fail("registry-update-refused", fmt.Sprintf("%d concurrent Register calls of ONE mapping id: %d succeeded, the name routes to %q", k, len(winners), routed))
		}
	}
	for r := 0; r < c.Reg.Mgmt; r++ {
		for _, m := range mgmtRound(k) {
			fail("management-create-claim", m)
		}
	}
	out.Next = parked // rounds in which every claimant was seen parked before the release (coverage)
	return out
}

//go:build verif

// verif_c19: the real HTTPDomainMappingRepository (CreateMapping / DeleteMapping / UpdateMapping) and the real
// DomainProxyModule.lookupMapping (three stages: repository, DomainRegistry, CloudControl) driven by several
// callers over ONE shared store seen through a gated double: every storage call of a caller blocks until the
// scheduler releases that caller, so a model schedule (list of caller indices, one storage call per entry) is
// replayed exactly.  While the schedule runs, monitors placed in the double evaluate the property itself on the
// real code's storage traffic and results (claims, releases, record writes, routing answers); after the schedule
// the quiescent state is examined with sequential lookups and a re-claim probe.
package main

import (
	"context"
	"encoding/json"
	"errors"
	"fmt"
	"os"
	"sort"
	"strconv"
	"strings"
	"sync"
	"time"

	"github.com/alicebob/miniredis/v2"

	"tunnox-core/internal/cloud/constants"
	"tunnox-core/internal/cloud/managers"
	"tunnox-core/internal/cloud/models"
	"tunnox-core/internal/cloud/repos"
	coreerrors "tunnox-core/internal/core/errors"
	"tunnox-core/internal/core/storage"
	"tunnox-core/internal/core/storage/hybrid"
	"tunnox-core/internal/core/storage/memory"
	rstore "tunnox-core/internal/core/storage/redis"
	"tunnox-core/internal/httpservice"
	"tunnox-core/internal/httpservice/modules/domainproxy"
)

const (
	t0            = 1000000 // model time of every lookup; expiries are t0±5000 or 0
	removalPrefix = "tunnox:http_domain:removing:"
)

// ---------------------------------------------------------------------------------------------------------
// case format
// ---------------------------------------------------------------------------------------------------------

type opIn struct {
	K    string `json:"k"` // C create, D delete, U update, L lookup, X clock passes the counter deadline, K CleanupExpiredMappings
	Sub  string `json:"sub"`
	Base string `json:"base"`
	Tgt  int    `json:"tgt"`
	Mine int    `json:"mine"` // D/U: index into the caller's own successful creates (newest first); -1: use Abs
	Abs  int    `json:"abs"`
	St   string `json:"st"`
	Exp  int    `json:"exp"`
	Host string `json:"host"` // hex
	Var  string `json:"var"`  // F (forged update): which immutable field of the payload is replaced: client | sub | base | full | none
	C2   int    `json:"c2"`   // F: the client id put into the payload (var = client)
}
type thrIn struct {
	Client int    `json:"client"`
	Ops    []opIn `json:"ops"`
	Faults []bool `json:"faults"`
}
type pmIn struct {
	Sub     string `json:"sub"`
	Base    string `json:"base"`
	ID      int    `json:"id"`
	Client  int    `json:"client"`
	Tgt     int    `json:"tgt"`
	Active  bool   `json:"active"`
	Revoked bool   `json:"revoked"`
	Exp     int    `json:"exp"`
}
type caseIn struct {
	Mode    string   `json:"mode"`  // sched | nodes | base
	Store   string   `json:"store"` // memory | hybrid
	Bases   []string `json:"bases"`
	Threads []thrIn  `json:"threads"`
	Sched   []int    `json:"sched"`
	Reg     []pmIn   `json:"reg"`
	Cloud   []pmIn   `json:"cloud"`
	Probe   bool     `json:"probe"` // run the re-claim probe at the end
}
type viol struct {
	Key string `json:"key"`
	Msg string `json:"msg"`
}
type recOut struct {
	ID     int    `json:"id"`
	Name   string `json:"name"` // hex
	Client int    `json:"client"`
	Tgt    int    `json:"tgt"`
	St     int    `json:"st"` // 0 active 1 inactive 2 expired
	Exp    int    `json:"exp"`
}
type caseOut struct {
	Results   [][][]int  `json:"results"` // per caller, per op: [kind, a, b, c, d]
	Sched     []int      `json:"sched"`   // schedule actually executed (given + completion suffix)
	Idx       [][2]string `json:"idx"`    // [hex name, id]
	Recs      []recOut   `json:"recs"`
	Lists     [][]int    `json:"lists"` // [client, ids...]
	Guards    []int      `json:"guards"`
	GList     []int      `json:"glist"`
	Next      int        `json:"next"`
	NextTTL   bool       `json:"next_ttl"` // the counter key exists and carries a deadline
	Viol      []viol     `json:"viol"`
	Abandoned string     `json:"abandoned"` // non-empty: the schedule could not be replayed (reason); nothing is compared
	SplitIncr bool       `json:"split_incr"`
	Finals    [][]int    `json:"finals"` // quiescent lookups of every name: [kind, ...]
}

// ---------------------------------------------------------------------------------------------------------
// gated double
// ---------------------------------------------------------------------------------------------------------

type claimEv struct {
	name   string
	id     string
	client int64
	thr    int
}
type createdEv struct {
	id     string
	name   string
	client int64
}

type runState struct {
	mu      sync.Mutex
	arrive  chan int
	resume  []chan struct{}
	free    bool
	cur     int // caller released last (only one runs at a time)
	under   *memory.Storage
	viol    []viol
	claims  []claimEv
	byID    map[string][]claimEv
	writes  map[string][][2]int64 // id -> (client, tgt)
	created []createdEv
	delStarted map[string]bool // owner's DeleteMapping(id) found the record
	delOK      map[string]bool // ... and returned nil
	updated    map[string]bool
	delSucc    map[string]string // mapping -> description of the owner's DeleteMapping that reported success
	staleRemoval bool
	ctxs    []*tctx
	start   int64
}

type tctx struct {
	client   int64
	actAs    int64           // cleanup: the client id the internal delete acts with (the record's own)
	seenExp  map[string]bool // cleanup: mappings this run has read as expired
	faulted  int             // storage failures injected into the current op
	calls    int             // storage calls made by this caller so far
	faultLog []int           // which of them were made to fail (1-based)
	kind     string
	rmID     string // mapping the current op removes (D: argument; C: the id it claimed)
	lastRec  string
	lastRecOK bool
	faults   []bool
}

func (r *runState) fail(key, msg string) {
	for _, v := range r.viol {
		if v.Key == key {
			return
		}
	}
	r.viol = append(r.viol, viol{key, msg})
}

type gstore struct {
	r     *runState
	idx   int
	api   storage.Storage // the real store API (memory.Storage or hybrid.Storage)
	split bool            // Incr is gated inside the hybrid store's cache (two calls)
}

var errInjected = errors.New("verif: injected storage failure")

func (s *gstore) gate() bool { // returns true if this call must fail
	s.r.mu.Lock()
	free := s.r.free
	s.r.mu.Unlock()
	if free {
		return false
	}
	s.r.arrive <- s.idx
	<-s.r.resume[s.idx]
	c := s.r.ctxs[s.idx]
	c.calls++
	if len(c.faults) > 0 {
		f := c.faults[0]
		c.faults = c.faults[1:]
		if f {
			c.faulted++
			c.faultLog = append(c.faultLog, c.calls)
		}
		return f
	}
	return false
}

func isGlobalList(key string) bool { return key == repos.KeyHTTPDomainMappingList }

func (s *gstore) Set(key string, value any, ttl time.Duration) error {
	if s.gate() {
		return errInjected
	}
	if strings.HasPrefix(key, repos.KeyPrefixHTTPDomainMapping) {
		s.r.onRecordWrite(s.idx, strings.TrimPrefix(key, repos.KeyPrefixHTTPDomainMapping), value)
	}
	return s.api.Set(key, value, ttl)
}
func (s *gstore) Get(key string) (any, error) {
	if s.gate() {
		return nil, errInjected
	}
	v, err := s.api.Get(key)
	if strings.HasPrefix(key, repos.KeyPrefixHTTPDomainMapping) {
		c := s.r.ctxs[s.idx]
		c.lastRecOK = err == nil
		c.lastRec, _ = v.(string)
		if c.kind == "D" && err == nil {
			var m repos.HTTPDomainMapping
			if json.Unmarshal([]byte(c.lastRec), &m) == nil && m.ClientID == c.client {
				s.r.delStarted[m.ID] = true
			}
		}
		if c.kind == "K" && err == nil {
			var m repos.HTTPDomainMapping
			if json.Unmarshal([]byte(c.lastRec), &m) == nil {
				c.rmID, c.actAs = m.ID, m.ClientID
				if m.ExpiresAt != 0 && m.ExpiresAt < s.r.start-1000 {
					c.seenExp[m.ID] = true
					s.r.delStarted[m.ID] = true // the cleanup will try to delete it on the owner's behalf
				}
			}
		}
	}
	return v, err
}
func (s *gstore) Delete(key string) error {
	if s.gate() {
		return errInjected
	}
	if strings.HasPrefix(key, repos.KeyPrefixHTTPDomainIndex) {
		s.r.onIndexDelete(s.idx, strings.TrimPrefix(key, repos.KeyPrefixHTTPDomainIndex))
	}
	if strings.HasPrefix(key, repos.KeyPrefixHTTPDomainMapping) {
		s.r.onRecordDelete(s.idx, strings.TrimPrefix(key, repos.KeyPrefixHTTPDomainMapping))
	}
	return s.api.Delete(key)
}
func (s *gstore) Exists(key string) (bool, error) {
	if s.gate() {
		return false, errInjected
	}
	return s.api.Exists(key)
}
func (s *gstore) SetExpiration(key string, ttl time.Duration) error { return s.api.SetExpiration(key, ttl) }
func (s *gstore) GetExpiration(key string) (time.Duration, error)   { return s.api.GetExpiration(key) }
func (s *gstore) CleanupExpired() error                             { return s.api.CleanupExpired() }
func (s *gstore) Close() error                                      { return nil }

func (s *gstore) SetNX(key string, value any, ttl time.Duration) (bool, error) {
	if s.gate() {
		return false, errInjected
	}
	ok, err := s.api.(storage.CASStore).SetNX(key, value, ttl)
	if err == nil && ok && strings.HasPrefix(key, repos.KeyPrefixHTTPDomainIndex) {
		id, _ := value.(string)
		s.r.onClaim(s.idx, strings.TrimPrefix(key, repos.KeyPrefixHTTPDomainIndex), id)
	}
	return ok, err
}
func (s *gstore) CompareAndSwap(key string, o, n any, ttl time.Duration) (bool, error) {
	if s.gate() {
		return false, errInjected
	}
	return s.api.(storage.CASStore).CompareAndSwap(key, o, n, ttl)
}
func (s *gstore) Incr(key string) (int64, error) {
	if s.split {
		return s.api.(storage.CounterStore).Incr(key) // gated inside: cache.Get, cache.Set
	}
	if s.gate() {
		return 0, errInjected
	}
	return s.api.(storage.CounterStore).Incr(key)
}
func (s *gstore) IncrBy(key string, d int64) (int64, error) {
	if s.gate() {
		return 0, errInjected
	}
	return s.api.(storage.CounterStore).IncrBy(key, d)
}
func (s *gstore) SetList(key string, values []any, ttl time.Duration) error {
	return s.api.(storage.ListStore).SetList(key, values, ttl)
}
func (s *gstore) GetList(key string) ([]any, error) {
	if s.gate() { // the global list is READ only by ListAllMappings (expiry cleanup): a step of its own
		return nil, errInjected
	}
	return s.api.(storage.ListStore).GetList(key)
}
func (s *gstore) AppendToList(key string, value any) error {
	if !isGlobalList(key) && s.gate() {
		return errInjected
	}
	return s.api.(storage.ListStore).AppendToList(key, value)
}
func (s *gstore) RemoveFromList(key string, value any) error {
	if !isGlobalList(key) && s.gate() {
		return errInjected
	}
	return s.api.(storage.ListStore).RemoveFromList(key, value)
}

// cacheGate is the hybrid store's local cache: the real memory store, gated only on the two calls hybrid.Incr
// makes on the counter key (so that the non-atomic get-then-set can be interleaved).
type cacheGate struct {
	*memory.Storage
	r *runState
}

func (c *cacheGate) gateCur() bool {
	c.r.mu.Lock()
	free, cur := c.r.free, c.r.cur
	c.r.mu.Unlock()
	if free {
		return false
	}
	c.r.arrive <- cur
	<-c.r.resume[cur]
	t := c.r.ctxs[cur]
	if len(t.faults) > 0 {
		f := t.faults[0]
		t.faults = t.faults[1:]
		return f
	}
	return false
}
func (c *cacheGate) Get(key string) (any, error) {
	if key == repos.KeyHTTPDomainNextID && c.gateCur() {
		return nil, errInjected
	}
	return c.Storage.Get(key)
}
func (c *cacheGate) Set(key string, value any, ttl time.Duration) error {
	if key == repos.KeyHTTPDomainNextID && c.gateCur() {
		return errInjected
	}
	return c.Storage.Set(key, value, ttl)
}
func (c *cacheGate) Close() error { return nil }

// ---------------------------------------------------------------------------------------------------------
// monitors: the property evaluated on the real code's own storage traffic
// ---------------------------------------------------------------------------------------------------------

func (r *runState) onClaim(thr int, name, id string) {
	c := r.ctxs[thr]
	ev := claimEv{name, id, c.client, thr}
	for _, o := range r.byID[id] { // one create = one id = at most one claim: any second claim under an id is a duplicate draw
		r.fail("duplicate-mapping-id", fmt.Sprintf("mapping id %s was drawn twice: it claimed %q for client %d and now claims %q for client %d",
			id, o.name, o.client, name, c.client))
	}
	r.claims = append(r.claims, ev)
	r.byID[id] = append(r.byID[id], ev)
	c.rmID = id
}

func (c *tctx) actor() int64 {
	if c.kind == "K" || c.kind == "F" { // cleanup acts as the record's owner; a repository-level update acts as its payload's client
		return c.actAs
	}
	return c.client
}

// the expiry cleanup is an internal deleter: it may only remove mappings it has read as expired
func (r *runState) checkCleanupTarget(c *tctx, what string) {
	if c.kind == "K" && !c.seenExp[c.rmID] {
		r.fail("cleanup-removed-unexpired", fmt.Sprintf("CleanupExpiredMappings deleted the %s of %s, which it never read as expired", what, c.rmID))
	}
}

func (r *runState) onIndexDelete(thr int, name string) {
	c := r.ctxs[thr]
	r.checkCleanupTarget(c, "index entry")
	cur, err := r.under.Get(repos.KeyPrefixHTTPDomainIndex + name)
	if err != nil {
		return // nothing there: harmless
	}
	id, _ := cur.(string)
	if id != c.rmID {
		r.staleRemoval = true
		r.fail("index-released-by-stale-removal", fmt.Sprintf("caller %d (client %d), removing mapping %s, deleted the index entry of %q which points at %s (claimed by client %d)",
			thr, c.actor(), c.rmID, name, id, r.claimant(id, name)))
		return
	}
	if who := r.claimant(id, name); who != c.actor() {
		r.fail("non-owner-removed-index", fmt.Sprintf("a caller acting with client id %d deleted the index entry of %q owned by client %d (mapping %s)", c.actor(), name, who, id))
	}
}

func (r *runState) onRecordDelete(thr int, id string) {
	c := r.ctxs[thr]
	r.checkCleanupTarget(c, "record")
	if id != c.rmID {
		r.fail("foreign-record-deleted", fmt.Sprintf("caller %d removing %s deleted the record of %s", thr, c.rmID, id))
	}
	for _, ev := range r.byID[id] {
		if ev.client != c.actor() {
			r.fail("non-owner-removed-record", fmt.Sprintf("a caller acting with client id %d deleted record %s of client %d", c.actor(), id, ev.client))
		}
	}
}

func (r *runState) onRecordWrite(thr int, id string, value any) {
	c := r.ctxs[thr]
	s, _ := value.(string)
	var m repos.HTTPDomainMapping
	if json.Unmarshal([]byte(s), &m) != nil {
		r.fail("record-not-json", "record "+id+" written with a non-JSON value")
		return
	}
	if m.ClientID <= 0 {
		r.fail("record-with-unbound-client", fmt.Sprintf("record %s stored with client id %d", id, m.ClientID))
	}
	ok := false
	for _, ev := range r.byID[id] {
		if ev.client == m.ClientID && ev.name == m.FullDomain && ev.client == c.actor() {
			ok = true
		}
	}
	if !ok {
		r.fail("record-written-without-claim", fmt.Sprintf("caller %d (acting as client %d) wrote record %s {client %d, domain %q} without having claimed that domain under that id",
			thr, c.actor(), id, m.ClientID, m.FullDomain))
	}
	for _, ev := range r.byID[id] {
		if ev.client != m.ClientID || ev.name != m.FullDomain {
			r.fail("record-overwritten-by-other-claim", fmt.Sprintf("record %s of client %d (%q) overwritten with {client %d, %q}", id, ev.client, ev.name, m.ClientID, m.FullDomain))
		}
	}
	r.writes[id] = append(r.writes[id], [2]int64{m.ClientID, int64(m.TargetPort)})
	if c.kind == "U" || c.kind == "F" {
		r.updated[id] = true
	}
}

func (r *runState) claimant(id, name string) int64 {
	for _, ev := range r.byID[id] {
		if ev.name == name {
			return ev.client
		}
	}
	return -1
}

// expireIfDeadline plays "more than the key's remaining lifetime passes" on the real memory store
func expireIfDeadline(st *memory.Storage, key string) {
	if d, err := st.GetExpiration(key); err == nil && d > 0 {
		_ = st.SetExpiration(key, time.Nanosecond)
		time.Sleep(2 * time.Millisecond)
	}
}

func refExtract(host string) string { // independent statement of "strip one :port suffix"
	if i := strings.LastIndexByte(host, ':'); i >= 0 {
		return host[:i]
	}
	return host
}

// checkRouted: a repository-sourced routing answer must name the client that claimed exactly that domain under
// exactly that mapping id, with a target that client wrote, from a record that was active and unexpired.
func (r *runState) checkRouted(thr int, host string, pm *models.PortMapping, viaRec string, haveRec bool) {
	name := refExtract(host)
	who := r.claimant(pm.ID, name)
	if who < 0 {
		r.fail("routed-to-non-claimant", fmt.Sprintf("Host %q routed to mapping %s (client %d) which never claimed %q", host, pm.ID, pm.TargetClientID, name))
		return
	}
	if who != pm.TargetClientID {
		r.fail("routed-to-non-claimant", fmt.Sprintf("Host %q routed to client %d via mapping %s, but %q was claimed under that id by client %d", host, pm.TargetClientID, pm.ID, name, who))
		return
	}
	okT := false
	for _, w := range r.writes[pm.ID] {
		if w[0] == who && w[1] == int64(pm.TargetPort) {
			okT = true
		}
	}
	if !okT || pm.TargetHost != fmt.Sprintf("h%d", pm.TargetPort) {
		r.fail("routed-to-foreign-target", fmt.Sprintf("Host %q routed to %s:%d which client %d never configured for %s", host, pm.TargetHost, pm.TargetPort, who, pm.ID))
	}
	if haveRec {
		var m repos.HTTPDomainMapping
		if json.Unmarshal([]byte(viaRec), &m) == nil {
			if m.Status != repos.HTTPDomainMappingStatusActive || (m.ExpiresAt != 0 && m.ExpiresAt < r.start-1000) {
				r.fail("inactive-or-expired-routed", fmt.Sprintf("Host %q routed although the record read was status=%s expires_at=%d (now %d)", host, m.Status, m.ExpiresAt, r.start))
			}
		}
	}
}

// ---------------------------------------------------------------------------------------------------------
// helpers
// ---------------------------------------------------------------------------------------------------------

type fakeCloud struct {
	managers.CloudControlAPI // nil: only the one method the lookup uses is implemented
	m                        map[string]*models.PortMapping
}

func (f *fakeCloud) GetPortMappingByDomain(d string) (*models.PortMapping, error) {
	if p, ok := f.m[d]; ok {
		cp := *p
		return &cp, nil
	}
	return nil, errors.New("not found")
}

func mkPM(p pmIn, start int64) *models.PortMapping {
	pm := &models.PortMapping{ID: fmt.Sprintf("pm_%d", p.ID), TargetClientID: int64(p.Client), TargetHost: fmt.Sprintf("h%d", p.Tgt), TargetPort: p.Tgt,
		Protocol: models.ProtocolHTTP, HTTPSubdomain: p.Sub, HTTPBaseDomain: p.Base, Status: models.MappingStatusInactive, IsRevoked: p.Revoked}
	if p.Active {
		pm.Status = models.MappingStatusActive
	}
	if p.Exp != 0 {
		t := time.Unix(start+int64(p.Exp-t0), 0)
		pm.ExpiresAt = &t
	}
	return pm
}

func errCode(err error) int {
	switch coreerrors.GetCode(err) {
	case coreerrors.CodeInvalidParam:
		return 1
	case coreerrors.CodeValidationError:
		return 2
	case coreerrors.CodeStorageError:
		return 3
	case coreerrors.CodeAlreadyExists:
		return 4
	case coreerrors.CodeForbidden:
		return 5
	case coreerrors.CodeConflict:
		return 6
	case coreerrors.CodeMappingNotFound, coreerrors.CodeNotFound:
		return 7
	case coreerrors.CodeInvalidRequest:
		return 8
	case coreerrors.CodeUnavailable:
		return 10
	}
	return 99
}

func idNum(id string) int {
	n, err := strconv.Atoi(strings.TrimPrefix(id, "hdm_"))
	if err != nil || !strings.HasPrefix(id, "hdm_") {
		return -1
	}
	return n
}

func routedRes(pm *models.PortMapping, err error) []int {
	if err != nil {
		return []int{5, errCode(err)}
	}
	if strings.HasPrefix(pm.ID, "hdm_") {
		return []int{3, 1, idNum(pm.ID), int(pm.TargetClientID), pm.TargetPort}
	}
	n, _ := strconv.Atoi(strings.TrimPrefix(pm.ID, "pm_"))
	return []int{3, 0, n, int(pm.TargetClientID), pm.TargetPort} // source (2 or 3) is not observable from outside: 0
}

func stNum(s repos.HTTPDomainMappingStatus) int {
	switch s {
	case repos.HTTPDomainMappingStatusActive:
		return 0
	case repos.HTTPDomainMappingStatusInactive:
		return 1
	}
	return 2
}

func newModule(ctx context.Context, repo repos.IHTTPDomainMappingRepository, reg *httpservice.DomainRegistry, cloud managers.CloudControlAPI, bases []string) *domainproxy.DomainProxyModule {
	m := domainproxy.NewDomainProxyModule(ctx, &httpservice.DomainProxyModuleConfig{Enabled: true, BaseDomains: bases, RequestTimeout: time.Second})
	m.SetDependencies(&httpservice.ModuleDependencies{HTTPDomainMappingRepo: repo, DomainRegistry: reg, CloudControl: cloud})
	return m
}

// hybridIncrIsGetThenSet probes whether hybrid.Storage.Incr performs cache.Get followed by cache.Set on the key.
type countingCache struct {
	*memory.Storage
	calls []string
}

func (c *countingCache) Get(key string) (any, error) {
	c.calls = append(c.calls, "Get")
	return c.Storage.Get(key)
}
func (c *countingCache) Set(key string, v any, ttl time.Duration) error {
	c.calls = append(c.calls, "Set")
	return c.Storage.Set(key, v, ttl)
}
func (c *countingCache) Close() error { return nil }

func hybridIncrIsGetThenSet() bool {
	ctx, cancel := context.WithCancel(context.Background())
	defer cancel()
	cc := &countingCache{Storage: memory.New(ctx)}
	h := hybrid.New(ctx, cc, nil, nil)
	if _, err := h.Incr(repos.KeyHTTPDomainNextID); err != nil {
		return false
	}
	return len(cc.calls) == 2 && cc.calls[0] == "Get" && cc.calls[1] == "Set"
}

// ---------------------------------------------------------------------------------------------------------
// schedule replay
// ---------------------------------------------------------------------------------------------------------

func runSched(c caseIn) *caseOut {
	out := &caseOut{}
	ctx, cancel := context.WithCancel(context.Background())
	defer cancel()
	under := memory.New(ctx)
	n := len(c.Threads)
	r := &runState{arrive: make(chan int), resume: make([]chan struct{}, n), under: under, byID: map[string][]claimEv{}, writes: map[string][][2]int64{},
		delStarted: map[string]bool{}, delOK: map[string]bool{}, updated: map[string]bool{}, delSucc: map[string]string{}, start: time.Now().Unix()}
	var api storage.Storage = under
	split := false
	if c.Store == "hybrid" {
		api = hybrid.New(ctx, &cacheGate{Storage: under, r: r}, nil, nil)
		split = hybridIncrIsGetThenSet()
	}
	out.SplitIncr = split
	reg := httpservice.NewDomainRegistry(c.Bases)
	var regPMs []*models.PortMapping
	for _, p := range c.Reg {
		regPMs = append(regPMs, mkPM(p, r.start))
	}
	reg.Rebuild(regPMs)
	cloud := &fakeCloud{m: map[string]*models.PortMapping{}}
	for _, p := range c.Cloud {
		cloud.m[p.Sub+"."+p.Base] = mkPM(p, r.start)
	}
	done := make([]chan struct{}, n)
	results := make([][][]int, n)
	for i, t := range c.Threads {
		r.resume[i] = make(chan struct{})
		done[i] = make(chan struct{})
		r.ctxs = append(r.ctxs, &tctx{client: int64(t.Client), seenExp: map[string]bool{}, faults: append([]bool(nil), t.Faults...)})
		results[i] = [][]int{}
	}
	launch := make([]func(), n)
	for i, t := range c.Threads {
		st := &gstore{r: r, idx: i, api: api, split: split}
		repo := repos.NewHTTPDomainMappingRepository(repos.NewRepository(st), c.Bases)
		mod := newModule(ctx, repo, reg, cloud, c.Bases)
		i, t := i, t
		launch[i] = func() {
			defer close(done[i])
			tc := r.ctxs[i]
			var held []*repos.HTTPDomainMapping
			for _, op := range t.Ops {
				tc.kind, tc.rmID, tc.lastRecOK, tc.lastRec = op.K, "", false, ""
				tc.seenExp = map[string]bool{}
				tc.faulted = 0
				switch op.K {
				case "C":
					m, err := repo.CreateMapping(ctx, tc.client, op.Sub, op.Base, fmt.Sprintf("h%d", op.Tgt), op.Tgt)
					if err != nil && coreerrors.IsCode(err, coreerrors.CodeAlreadyExists) {
						// refused because the name is taken: the holder must not be a mapping whose owner's delete reported success
						if cur, gerr := under.Get(repos.KeyPrefixHTTPDomainIndex + op.Sub + "." + op.Base); gerr == nil {
							if curID, _ := cur.(string); r.delSucc[curID] != "" {
								r.fail("deleted-name-not-reclaimable", fmt.Sprintf("%s returned success, yet CreateMapping(%q) by client %d is refused: the index still points at %s",
									r.delSucc[curID], op.Sub+"."+op.Base, tc.client, curID))
							}
						}
					}
					if err != nil {
						results[i] = append(results[i], []int{5, errCode(err)})
					} else {
						held = append([]*repos.HTTPDomainMapping{m}, held...)
						results[i] = append(results[i], []int{0, idNum(m.ID)})
						for _, o := range r.created {
							// (a create may complete after its own mapping was already deleted by another session of its client: not live)
							if o.name == m.FullDomain && !r.delStarted[o.id] && !r.delStarted[m.ID] {
								r.fail("two-live-owners", fmt.Sprintf("create of %q succeeded for client %d (%s) while %s of client %d was never deleted", m.FullDomain, tc.client, m.ID, o.id, o.client))
							}
						}
						r.created = append(r.created, createdEv{m.ID, m.FullDomain, tc.client})
					}
				case "D":
					id := fmt.Sprintf("hdm_%d", op.Abs)
					if op.Mine >= 0 {
						id = "hdm_0"
						if op.Mine < len(held) {
							id = held[op.Mine].ID
						}
					}
					tc.rmID = id
					existed := false // the mapping's create had completed, or a delete of it had begun, before this call
					for _, cr := range r.created {
						existed = existed || cr.id == id
					}
					existed = existed || r.delStarted[id]
					nm, owner := "", int64(-1)
					if evs := r.byID[id]; len(evs) > 0 {
						nm, owner = evs[0].name, evs[0].client
					}
					err := repo.DeleteMapping(ctx, id, tc.client)
					if existed && owner == tc.client {
						what := fmt.Sprintf("DeleteMapping(%s) by its owner (client %d; caller %d, op #%d; storage calls of this caller made to fail so far: %v, %d of them in this call)", id, owner, i, len(results[i])+1, tc.faultLog, tc.faulted)
						if err == nil {
							// the property: once the owner's delete reports success the name is free
							if cur, gerr := under.Get(repos.KeyPrefixHTTPDomainIndex + nm); gerr == nil {
								if curID, _ := cur.(string); curID == id {
									r.fail("deleted-still-indexed", fmt.Sprintf("%s returned success but the index of %q still points at %s", what, nm, id))
								}
							}
							r.delSucc[id] = what
						} else if tc.faulted == 0 && !coreerrors.IsCode(err, coreerrors.CodeConflict) {
							r.fail("owner-delete-fails", fmt.Sprintf("%s fails although no storage call failed: %v", what, err))
						}
					}
					if err != nil {
						results[i] = append(results[i], []int{5, errCode(err)})
					} else {
						results[i] = append(results[i], []int{1})
						if tc.lastRecOK && r.delStarted[id] {
							r.delOK[id] = true
						}
						if tc.lastRecOK && !r.delStarted[id] {
							r.fail("non-owner-delete", fmt.Sprintf("DeleteMapping(%s) by client %d returned success although the record read belongs to another client", id, tc.client))
						}
					}
				case "U":
					cp := repos.HTTPDomainMapping{ID: "hdm_0", Subdomain: "x", BaseDomain: "x", FullDomain: "x.x", ClientID: tc.client}
					if op.Mine >= 0 && op.Mine < len(held) {
						cp = *held[op.Mine]
					}
					cp.Status = repos.HTTPDomainMappingStatus(op.St)
					cp.ExpiresAt = 0
					if op.Exp > 0 {
						cp.ExpiresAt = r.start + int64(op.Exp-t0)
					} else if op.Exp < 0 {
						cp.ExpiresAt = int64(op.Exp) // a negative instant as such (what the adapter's now+ttl wraps to)
					}
					cp.TargetHost, cp.TargetPort = fmt.Sprintf("h%d", op.Tgt), op.Tgt
					if err := repo.UpdateMapping(ctx, &cp); err != nil {
						results[i] = append(results[i], []int{5, errCode(err)})
					} else {
						results[i] = append(results[i], []int{2})
					}
				case "L":
					host := string(unhx(op.Host))
					pm, err := domainproxy.VerifLookup(mod, host)
					if err == nil && tc.faulted > 0 {
						// a repository read of this very lookup failed: the request must be rejected, no source may answer
						r.fail("lookup-routed-despite-storage-fault", fmt.Sprintf("lookup of Host %q: storage call(s) %v of caller %d were made to fail (%d in this lookup), yet the request is routed to client %d (%s)",
							host, tc.faultLog, i, tc.faulted, pm.TargetClientID, pm.ID))
					}
					if err == nil && strings.HasPrefix(pm.ID, "hdm_") {
						r.checkRouted(i, host, pm, tc.lastRec, tc.lastRecOK)
					}
					results[i] = append(results[i], routedRes(pm, err))
				case "F":
					// repository-level update with a forged payload: read the mapping, replace ONE immutable field, send it back
					cur, gerr := repo.GetMapping(ctx, fmt.Sprintf("hdm_%d", op.Abs))
					if gerr != nil {
						results[i] = append(results[i], []int{5, errCode(gerr)})
						break
					}
					cp := *cur
					switch op.Var {
					case "client":
						cp.ClientID = int64(op.C2)
					case "sub":
						cp.Subdomain = "zz"
					case "base":
						cp.BaseDomain = "zz.example"
					case "full":
						cp.FullDomain = "zz.tunnox.net"
					}
					cp.Status = repos.HTTPDomainMappingStatus(op.St)
					cp.ExpiresAt = 0
					if op.Exp > 0 {
						cp.ExpiresAt = r.start + int64(op.Exp-t0)
					} else if op.Exp < 0 {
						cp.ExpiresAt = int64(op.Exp)
					}
					cp.TargetHost, cp.TargetPort = fmt.Sprintf("h%d", op.Tgt), op.Tgt
					tc.actAs = cp.ClientID // the repository API carries no caller identity: the payload's client id is the acting identity
					if err := repo.UpdateMapping(ctx, &cp); err != nil {
						results[i] = append(results[i], []int{5, errCode(err)})
					} else {
						results[i] = append(results[i], []int{2})
						if cp.ClientID != cur.ClientID || cp.FullDomain != cur.FullDomain {
							r.fail("update-changed-owner", fmt.Sprintf("UpdateMapping(%s) with a payload naming client %d / domain %q was accepted although the stored mapping belongs to client %d / %q",
								cp.ID, cp.ClientID, cp.FullDomain, cur.ClientID, cur.FullDomain))
						}
					}
				case "K":
					n, err := repo.CleanupExpiredMappings(ctx)
					if err != nil {
						results[i] = append(results[i], []int{5, errCode(err)})
					} else {
						results[i] = append(results[i], []int{6, n})
					}
				case "X":
					// the clock passes every deadline of the counter key (one gated step): the key vanishes iff it carries one
					// (the store gives a counter created by IncrBy the 24 h default data TTL and never refreshes it)
					st.gate()
					expireIfDeadline(under, repos.KeyHTTPDomainNextID)
					results[i] = append(results[i], []int{4})
				}
			}
		}
	}
	// scheduler (as in verif_c15)
	parked := make([]bool, n)
	finished := make([]bool, n)
	blocked := ""
	settle := func(i int) {
		for !parked[i] && !finished[i] {
			select {
			case j := <-r.arrive:
				parked[j] = true
			case <-done[i]:
				finished[i] = true
			case <-time.After(3 * time.Second):
				blocked = fmt.Sprintf("caller %d neither reached a storage call nor finished within 3s (blocked on a lock held by a parked caller?)", i)
				finished[i] = true
			}
		}
	}
	for i := 0; i < n && blocked == ""; i++ { // start the callers one at a time: each runs up to its first storage call
		r.mu.Lock()
		r.cur = i
		r.mu.Unlock()
		go launch[i]()
		settle(i)
	}
	stepOne := func(i int) {
		if i < 0 || i >= n || finished[i] || blocked != "" {
			return
		}
		parked[i] = false
		r.mu.Lock()
		r.cur = i
		r.mu.Unlock()
		r.resume[i] <- struct{}{}
		settle(i)
	}
	for _, i := range c.Sched {
		if i >= 0 && i < n && !finished[i] {
			out.Sched = append(out.Sched, i)
		}
		stepOne(i)
	}
	for i := 0; i < n; i++ {
		for !finished[i] && blocked == "" {
			out.Sched = append(out.Sched, i)
			stepOne(i)
		}
	}
	if out.Sched == nil {
		out.Sched = []int{}
	}
	if blocked != "" {
		out.Abandoned = blocked
		out.Results = results
		// callers may still be parked: let them run free so the goroutines end
		r.mu.Lock()
		r.free = true
		r.mu.Unlock()
		for i := 0; i < n; i++ {
			select {
			case r.resume[i] <- struct{}{}:
			default:
			}
		}
		return out
	}
	r.mu.Lock()
	r.free = true
	r.mu.Unlock()
	out.Results = results

	// ---- final state of the store ----
	all, _ := under.QueryByPrefix("tunnox:http_domain:", 0)
	keys := make([]string, 0, len(all))
	for k := range all {
		keys = append(keys, k)
	}
	sort.Strings(keys)
	out.Idx, out.Recs, out.Lists, out.Guards, out.GList = [][2]string{}, []recOut{}, [][]int{}, []int{}, []int{}
	for _, k := range keys {
		v := all[k]
		switch {
		case strings.HasPrefix(k, repos.KeyPrefixHTTPDomainIndex):
			out.Idx = append(out.Idx, [2]string{hx([]byte(strings.TrimPrefix(k, repos.KeyPrefixHTTPDomainIndex))), strconv.Itoa(idNum(v))})
		case k == repos.KeyHTTPDomainMappingList:
			var ids []string
			_ = json.Unmarshal([]byte(v), &ids)
			for _, s := range ids {
				out.GList = append(out.GList, idNum(s))
			}
		case strings.HasPrefix(k, repos.KeyPrefixHTTPDomainMapping):
			var m repos.HTTPDomainMapping
			if json.Unmarshal([]byte(v), &m) != nil || m.ID != strings.TrimPrefix(k, repos.KeyPrefixHTTPDomainMapping) {
				r.fail("record-key-mismatch", "record under "+k+" is "+v)
				continue
			}
			exp := 0
			if m.ExpiresAt > 0 {
				exp = t0 + int(m.ExpiresAt-r.start)
			} else if m.ExpiresAt < 0 {
				exp = int(m.ExpiresAt)
			}
			if m.ClientID <= 0 {
				r.fail("record-with-unbound-client", fmt.Sprintf("record %s is stored with client id %d", m.ID, m.ClientID))
			}
			out.Recs = append(out.Recs, recOut{idNum(m.ID), hx([]byte(m.FullDomain)), int(m.ClientID), m.TargetPort, stNum(m.Status), exp})
		case strings.HasPrefix(k, repos.KeyPrefixHTTPDomainClient):
			cid, _ := strconv.Atoi(strings.TrimPrefix(k, repos.KeyPrefixHTTPDomainClient))
			var ids []string
			_ = json.Unmarshal([]byte(v), &ids)
			row := []int{cid}
			for _, s := range ids {
				row = append(row, idNum(s))
			}
			if len(row) > 1 {
				out.Lists = append(out.Lists, row)
			}
		case strings.HasPrefix(k, removalPrefix):
			out.Guards = append(out.Guards, idNum(strings.TrimPrefix(k, removalPrefix)))
		case k == repos.KeyHTTPDomainNextID:
			out.Next, _ = strconv.Atoi(v)
		}
	}
	if d, err := under.GetExpiration(repos.KeyHTTPDomainNextID); err == nil && d > 0 {
		out.NextTTL = true
	}
	sort.Slice(out.Recs, func(a, b int) bool { return out.Recs[a].ID < out.Recs[b].ID })
	sort.Slice(out.Lists, func(a, b int) bool { return out.Lists[a][0] < out.Lists[b][0] })
	sort.Ints(out.Guards)

	// ---- quiescent predicates (sequential, ungated) ----
	freeRepo := repos.NewHTTPDomainMappingRepository(repos.NewRepository(api), c.Bases)
	freeMod := newModule(ctx, freeRepo, reg, cloud, c.Bases)
	idxNow := map[string]string{}
	for _, e := range out.Idx {
		idxNow[string(unhx(e[0]))] = "hdm_" + e[1]
	}
	// (E1) a successful create whose mapping the owner never started to delete still owns its name
	for _, cr := range r.created {
		if r.delStarted[cr.id] {
			continue
		}
		pm, err := domainproxy.VerifLookup(freeMod, cr.name+":80") // name:port always resolves to name (a bare name containing ':' does not)
		switch {
		case err == nil && (pm.ID != cr.id || pm.TargetClientID != cr.client):
			r.fail("live-create-routes-elsewhere", fmt.Sprintf("%q was created by client %d as %s and never deleted, but now routes to client %d (%s)", cr.name, cr.client, cr.id, pm.TargetClientID, pm.ID))
		case err != nil && (coreerrors.IsCode(err, coreerrors.CodeNotFound) || coreerrors.IsCode(err, coreerrors.CodeMappingNotFound)):
			r.fail("live-create-not-routed", fmt.Sprintf("%q was created by client %d as %s and never deleted, but the name no longer resolves (index entry: %q)", cr.name, cr.client, cr.id, idxNow[cr.name]))
		}
	}
	// (E2) a completed delete by the owner: the name no longer routes to that mapping
	for id := range r.delOK {
		for _, cr := range r.created {
			if cr.id != id {
				continue
			}
			if idxNow[cr.name] == id {
				r.fail("deleted-still-indexed", fmt.Sprintf("DeleteMapping(%s) returned success but the index of %q still points at it", id, cr.name))
			}
			if pm, err := domainproxy.VerifLookup(freeMod, cr.name+":80"); err == nil && pm.ID == id {
				r.fail("deleted-still-routes", fmt.Sprintf("DeleteMapping(%s) returned success but %q still routes to it", id, cr.name))
			}
		}
	}
	// quiescent lookups of every name of the case (compared with the model's lookup_now)
	names := map[string]bool{}
	for _, t := range c.Threads {
		for _, op := range t.Ops {
			if op.K == "C" {
				names[op.Sub+"."+op.Base] = true
			}
			if op.K == "L" {
				names[refExtract(string(unhx(op.Host)))] = true
			}
		}
	}
	nl := make([]string, 0, len(names))
	for k := range names {
		nl = append(nl, k)
	}
	sort.Strings(nl)
	out.Finals = [][]int{}
	for _, nm := range nl {
		pm, err := domainproxy.VerifLookup(freeMod, nm)
		out.Finals = append(out.Finals, routedRes(pm, err))
		if err == nil && strings.HasPrefix(pm.ID, "hdm_") { // the routing predicate on the quiescent answers as well
			v, gerr := under.Get(repos.KeyPrefixHTTPDomainMapping + pm.ID)
			js, _ := v.(string)
			r.checkRouted(-1, nm, pm, js, gerr == nil)
		}
	}
	// (E4) re-claim probe: a name without index entry is claimable by anybody, routes to the new owner, and is
	// released again by the new owner's delete; a name with an index entry is not claimable
	if c.Probe {
		for _, nm := range nl {
			dot := strings.LastIndex(nm, ".")
			okBase := false
			for _, b := range c.Bases {
				if strings.HasSuffix(nm, "."+b) {
					dot, okBase = len(nm)-len(b)-1, true
				}
			}
			if !okBase || dot <= 0 {
				continue
			}
			sub, base := nm[:dot], nm[dot+1:]
			_, indexed := idxNow[nm]
			m, err := freeRepo.CreateMapping(ctx, 999, sub, base, "h999", 999)
			if indexed {
				if err == nil {
					r.fail("claimed-name-claimable", fmt.Sprintf("%q has an index entry (%s) but a second CreateMapping succeeded (%s)", nm, idxNow[nm], m.ID))
				}
				continue
			}
			if err != nil {
				r.fail("free-name-not-claimable", fmt.Sprintf("%q has no index entry but CreateMapping fails: %v", nm, err))
				continue
			}
			if pm, err := domainproxy.VerifLookup(freeMod, nm+":8080"); err != nil || pm.TargetClientID != 999 || pm.ID != m.ID {
				r.fail("reclaimed-name-not-routed", fmt.Sprintf("%q was re-claimed as %s by client 999 but %q does not route to it (err=%v)", nm, m.ID, nm+":8080", err))
			}
			for _, foreign := range []int64{1000, 0, -1, 1 << 62} { // real foreign client, unbound connection, negative, huge
				if err := freeRepo.DeleteMapping(ctx, m.ID, foreign); err == nil || !coreerrors.IsCode(err, coreerrors.CodeForbidden) {
					r.fail("non-owner-delete", fmt.Sprintf("DeleteMapping(%s) with client id %d (owner is 999) returned %v", m.ID, foreign, err))
				}
			}
			if pm, err := domainproxy.VerifLookup(freeMod, nm+":80"); err != nil || pm.ID != m.ID {
				r.fail("non-owner-delete", fmt.Sprintf("after a refused foreign delete %q no longer routes to %s", nm, m.ID))
			}
			if err := freeRepo.DeleteMapping(ctx, m.ID, 999); err != nil {
				r.fail("owner-delete-fails", fmt.Sprintf("DeleteMapping(%s) by its owner fails: %v", m.ID, err))
			}
			if pm, err := domainproxy.VerifLookup(freeMod, nm+":443"); err == nil && pm.ID == m.ID {
				r.fail("deleted-still-routes", fmt.Sprintf("%q still routes to %s after its owner deleted it", nm, m.ID))
			}
		}
	}
	out.Viol = r.viol
	if out.Viol == nil {
		out.Viol = []viol{}
	}
	return out
}

// two nodes, each with its own local cache, one shared cache: every node counts ids on its own
func runNodes(c caseIn) *caseOut {
	out := &caseOut{Results: [][][]int{}, Sched: []int{}, Idx: [][2]string{}, Recs: []recOut{}, Lists: [][]int{}, Guards: []int{}, Finals: [][]int{}, Viol: []viol{}}
	ctx, cancel := context.WithCancel(context.Background())
	defer cancel()
	shared := memory.New(ctx)
	bases := []string{"tunnox.net"}
	mk := func() (*repos.HTTPDomainMappingRepository, *domainproxy.DomainProxyModule) {
		h := hybrid.NewWithSharedCache(ctx, memory.New(ctx), shared, nil, nil)
		repo := repos.NewHTTPDomainMappingRepository(repos.NewRepository(h), bases)
		return repo, newModule(ctx, repo, nil, nil, bases)
	}
	ra, ma := mk()
	rb, _ := mk()
	a, errA := ra.CreateMapping(ctx, 1, "alpha", "tunnox.net", "h11", 11)
	b, errB := rb.CreateMapping(ctx, 2, "beta", "tunnox.net", "h22", 22)
	if errA != nil || errB != nil {
		out.Abandoned = fmt.Sprintf("creates failed: %v %v", errA, errB)
		return out
	}
	pm, err := domainproxy.VerifLookup(ma, "alpha.tunnox.net")
	if a.ID == b.ID {
		out.Viol = append(out.Viol, viol{"duplicate-mapping-id", fmt.Sprintf("node A drew %s for alpha.tunnox.net (client 1), node B drew %s for beta.tunnox.net (client 2): the counter lives in each node's local cache", a.ID, b.ID)})
	}
	if err == nil && pm.TargetClientID != 1 {
		out.Viol = append(out.Viol, viol{"routed-to-non-claimant", fmt.Sprintf("alpha.tunnox.net (client 1, %s) now routes to client %d target port %d", a.ID, pm.TargetClientID, pm.TargetPort)})
	}
	return out
}

// the id counter across a day on every backend: create a (client 1); more than the default data TTL passes; create b
// (client 2); a must still route to client 1.  memory / hybrid: the key is expired iff it carries a deadline;
// redis.Storage over miniredis: the virtual clock is advanced by 25 h.
func runBackends(c caseIn) *caseOut {
	out := &caseOut{Results: [][][]int{}, Sched: []int{}, Idx: [][2]string{}, Recs: []recOut{}, Lists: [][]int{}, Guards: []int{}, Finals: [][]int{}, Viol: []viol{}}
	bases := []string{"tunnox.net"}
	type backend struct {
		name string
		st   storage.Storage
		day  func()
	}
	ctx, cancel := context.WithCancel(context.Background())
	defer cancel()
	var bs []backend
	m1 := memory.New(ctx)
	bs = append(bs, backend{"memory.Storage", m1, func() { expireIfDeadline(m1, repos.KeyHTTPDomainNextID) }})
	local, shared := memory.New(ctx), memory.New(ctx)
	bs = append(bs, backend{"hybrid.Storage (local + shared memory tiers)", hybrid.NewWithSharedCache(ctx, local, shared, nil, nil), func() {
		expireIfDeadline(local, repos.KeyHTTPDomainNextID)
		expireIfDeadline(shared, repos.KeyHTTPDomainNextID)
	}})
	if mr, err := miniredis.Run(); err == nil {
		defer mr.Close()
		if rs, err := rstore.New(ctx, &rstore.Config{Addr: mr.Addr(), PoolSize: 2}); err == nil {
			bs = append(bs, backend{"redis.Storage (miniredis)", rs, func() { mr.FastForward(25 * time.Hour) }})
			mr2, _ := miniredis.Run()
			if mr2 != nil {
				defer mr2.Close()
				if rs2, err := rstore.New(ctx, &rstore.Config{Addr: mr2.Addr(), PoolSize: 2}); err == nil {
					bs = append(bs, backend{"hybrid.Storage (shared tier = redis.Storage on miniredis)", hybrid.NewWithSharedCache(ctx, memory.New(ctx), rs2, nil, nil), func() {
						// only the counter: the hybrid store caches records for an hour by design
						if ttl := mr2.TTL(repos.KeyHTTPDomainNextID); ttl > 0 {
							mr2.Del(repos.KeyHTTPDomainNextID)
						}
					}})
				}
			}
		} else {
			out.Abandoned = "redis storage: " + err.Error()
		}
	} else {
		out.Abandoned = "miniredis: " + err.Error()
	}
	for _, b := range bs {
		repo := repos.NewHTTPDomainMappingRepository(repos.NewRepository(b.st), bases)
		mod := newModule(ctx, repo, nil, nil, bases)
		a, errA := repo.CreateMapping(ctx, 1, "alpha", "tunnox.net", "h11", 11)
		if errA != nil {
			out.Viol = append(out.Viol, viol{"create-fails", fmt.Sprintf("%s: CreateMapping fails: %v", b.name, errA)})
			continue
		}
		b.day()
		bb, errB := repo.CreateMapping(ctx, 2, "beta", "tunnox.net", "h22", 22)
		if errB != nil {
			out.Viol = append(out.Viol, viol{"create-fails", fmt.Sprintf("%s: second CreateMapping fails: %v", b.name, errB)})
			continue
		}
		if a.ID == bb.ID {
			out.Viol = append(out.Viol, viol{"duplicate-mapping-id", fmt.Sprintf("%s: alpha.tunnox.net (client 1) was created as %s; a day later beta.tunnox.net (client 2) is created as %s again", b.name, a.ID, bb.ID)})
		}
		pm, err := domainproxy.VerifLookup(mod, "alpha.tunnox.net")
		if err == nil && pm.TargetClientID != 1 {
			out.Viol = append(out.Viol, viol{"routed-to-non-claimant", fmt.Sprintf("%s: alpha.tunnox.net (client 1, %s) now routes to client %d target port %d", b.name, a.ID, pm.TargetClientID, pm.TargetPort)})
		}
		if err != nil {
			out.Viol = append(out.Viol, viol{"live-create-not-routed", fmt.Sprintf("%s: alpha.tunnox.net (client 1, %s) no longer resolves: %v", b.name, a.ID, err)})
		}
		c3, errC := repo.CreateMapping(ctx, 3, "gamma", "tunnox.net", "h33", 33)
		if errC == nil && (c3.ID == a.ID || c3.ID == bb.ID) {
			out.Viol = append(out.Viol, viol{"duplicate-mapping-id", fmt.Sprintf("%s: third create drew %s again", b.name, c3.ID)})
		}
	}
	return out
}

// an unsupported base domain is refused before any storage call
func runBase(c caseIn) *caseOut {
	out := &caseOut{Results: [][][]int{}, Sched: []int{}, Idx: [][2]string{}, Recs: []recOut{}, Lists: [][]int{}, Guards: []int{}, Finals: [][]int{}, Viol: []viol{}}
	ctx, cancel := context.WithCancel(context.Background())
	defer cancel()
	under := memory.New(ctx)
	repo := repos.NewHTTPDomainMappingRepository(repos.NewRepository(under), c.Bases)
	for _, t := range c.Threads {
		for _, op := range t.Ops {
			_, err := repo.CreateMapping(ctx, int64(t.Client), op.Sub, op.Base, "h1", 1)
			all, _ := under.QueryByPrefix("", 0)
			if err == nil || !coreerrors.IsCode(err, coreerrors.CodeInvalidParam) || len(all) != 0 {
				out.Viol = append(out.Viol, viol{"unsupported-base-accepted", fmt.Sprintf("CreateMapping(%q,%q) with bases %v: err=%v, keys written=%d", op.Sub, op.Base, c.Bases, err, len(all))})
			}
		}
	}
	return out
}

func runCase(raw json.RawMessage) interface{} {
	var c caseIn
	must(json.Unmarshal(raw, &c))
	switch c.Mode {
	case "nodes":
		return runNodes(c)
	case "base":
		return runBase(c)
	case "backends":
		return runBackends(c)
	case "registry":
		return runRegistry(raw)
	case "adapter":
		return runAdapter(raw)
	}
	return runSched(c)
}

// ---------------------------------------------------------------------------------------------------------
// gen: constants and tables evaluated from the real code
// ---------------------------------------------------------------------------------------------------------

func coqBytes(s string) string {
	p := make([]string, len(s))
	for i := 0; i < len(s); i++ {
		p[i] = strconv.Itoa(int(s[i]))
	}
	return "[" + strings.Join(p, ";") + "]%N"
}

type callCounter struct {
	*memory.Storage
	calls []string
}

func (c *callCounter) SetNX(key string, v any, ttl time.Duration) (bool, error) {
	c.calls = append(c.calls, "SetNX "+key)
	return c.Storage.SetNX(key, v, ttl)
}
func (c *callCounter) Get(key string) (any, error) {
	c.calls = append(c.calls, "Get "+key)
	return c.Storage.Get(key)
}
func (c *callCounter) Delete(key string) error {
	c.calls = append(c.calls, "Delete "+key)
	return c.Storage.Delete(key)
}

// deleteShape records the storage calls of one fault-free DeleteMapping and reports
//   guarded:    a removal guard is claimed (SetNX) BEFORE the index is read, and the index is read before it is deleted;
//   indexFirst: the index entry is deleted before the mapping record.
func deleteShape() (guarded, indexFirst bool) {
	ctx, cancel := context.WithCancel(context.Background())
	defer cancel()
	cc := &callCounter{Storage: memory.New(ctx)}
	repo := repos.NewHTTPDomainMappingRepository(repos.NewRepository(cc), nil)
	m, err := repo.CreateMapping(ctx, 1, "probe", "tunnox.net", "h1", 1)
	must(err)
	cc.calls = nil
	must(repo.DeleteMapping(ctx, m.ID, 1))
	pos := func(call string) int {
		for i, c := range cc.calls {
			if c == call {
				return i
			}
		}
		return -1
	}
	guard := pos("SetNX " + removalPrefix + m.ID)
	getIdx := pos("Get " + repos.KeyPrefixHTTPDomainIndex + "probe.tunnox.net")
	delIdx := pos("Delete " + repos.KeyPrefixHTTPDomainIndex + "probe.tunnox.net")
	delRec := pos("Delete " + repos.KeyPrefixHTTPDomainMapping + m.ID)
	release := pos("Delete " + removalPrefix + m.ID)
	guarded = len(cc.calls) == 6 && guard >= 0 && guard < getIdx && getIdx < delIdx && release == 5 && delRec >= 0 && guard < delRec
	indexFirst = delIdx >= 0 && delRec >= 0 && delIdx < delRec
	return
}

// updateChecksClient: is an UpdateMapping whose payload names another client refused?
func updateChecksClient() bool {
	ctx, cancel := context.WithCancel(context.Background())
	defer cancel()
	repo := repos.NewHTTPDomainMappingRepository(repos.NewRepository(memory.New(ctx)), nil)
	m, err := repo.CreateMapping(ctx, 1, "probe", "tunnox.net", "h1", 1)
	must(err)
	cp := *m
	cp.ClientID = 2
	return repo.UpdateMapping(ctx, &cp) != nil
}

// lookupErrorStops: with the repository's reads failing and a legacy registry entry for the Host, is the request rejected?
type failingReads struct{ *memory.Storage }

func (f *failingReads) Get(key string) (any, error) { return nil, errInjected }

func lookupErrorStops() bool {
	ctx, cancel := context.WithCancel(context.Background())
	defer cancel()
	bases := []string{"tunnox.net"}
	repo := repos.NewHTTPDomainMappingRepository(repos.NewRepository(&failingReads{memory.New(ctx)}), bases)
	reg := httpservice.NewDomainRegistry(bases)
	reg.Rebuild([]*models.PortMapping{mkPM(pmIn{Sub: "probe", Base: "tunnox.net", ID: 1, Client: 7, Tgt: 7, Active: true}, time.Now().Unix())})
	_, err := domainproxy.VerifLookup(newModule(ctx, repo, reg, nil, bases), "probe.tunnox.net")
	return err != nil
}

// counterNeverExpires: after a CreateMapping on the default store, does the id counter key carry no deadline,
// and is it created by a SetNX that precedes Incr?
func counterNeverExpires() bool {
	ctx, cancel := context.WithCancel(context.Background())
	defer cancel()
	cc := &callCounter{Storage: memory.New(ctx)}
	repo := repos.NewHTTPDomainMappingRepository(repos.NewRepository(cc), nil)
	_, err := repo.CreateMapping(ctx, 1, "probe", "tunnox.net", "h1", 1)
	must(err)
	d, err := cc.Storage.GetExpiration(repos.KeyHTTPDomainNextID)
	return err == nil && d == 0 && len(cc.calls) > 0 && cc.calls[0] == "SetNX "+repos.KeyHTTPDomainNextID
}

var hostTable = []string{"a.tunnox.net", "a.tunnox.net:80", "A.TUNNOX.NET", "[::1]", "[::1]:80", "a.tunnox.net:", "a.tunnox.net.", "a.tunnox.net.:80", ":", "",
	"::", "a:b:c", "a.tunnox.net:80:90", ":80", "[fe80::1%eth0]:8080", "a.tunnox.net\x00:1", "\xff:\xfe"}

func gen() {
	fmt.Println("(* generated by verif_c19 gen from /repo's working tree — do not edit *)")
	fmt.Println("From Coq Require Import NArith List. Import ListNotations.")
	fmt.Printf("Definition KeyIndexPrefix : list N := %s.\n", coqBytes(repos.KeyPrefixHTTPDomainIndex))
	fmt.Printf("Definition KeyMappingPrefix : list N := %s.\n", coqBytes(repos.KeyPrefixHTTPDomainMapping))
	fmt.Printf("Definition KeyClientPrefix : list N := %s.\n", coqBytes(repos.KeyPrefixHTTPDomainClient))
	fmt.Printf("Definition KeyRemovalPrefix : list N := %s.\n", coqBytes(removalPrefix))
	fmt.Printf("Definition KeyNextID : list N := %s.\n", coqBytes(repos.KeyHTTPDomainNextID))
	fmt.Printf("Definition KeyMappingList : list N := %s.\n", coqBytes(repos.KeyHTTPDomainMappingList))
	// default base domain when the repository is built without any
	fmt.Printf("Definition DefaultBaseDomains : list (list N) := [%s].\n", func() string {
		var p []string
		for _, b := range repos.NewHTTPDomainMappingRepository(repos.NewRepository(memory.New(context.Background())), nil).GetBaseDomains() {
			p = append(p, coqBytes(b))
		}
		return strings.Join(p, "; ")
	}())
	fmt.Printf("Definition StatusStrings : list (list N) := [%s; %s; %s].\n", coqBytes(string(repos.HTTPDomainMappingStatusActive)),
		coqBytes(string(repos.HTTPDomainMappingStatusInactive)), coqBytes(string(repos.HTTPDomainMappingStatusExpired)))
	// the real extractDomain on a table of Host spellings
	var rows []string
	for _, h := range hostTable {
		rows = append(rows, fmt.Sprintf("(%s, %s)", coqBytes(h), coqBytes(domainproxy.VerifExtractDomain(h))))
	}
	fmt.Printf("Definition ExtractTable : list (list N * list N) := [\n  %s].\n", strings.Join(rows, ";\n  "))
	// atomicity of the id counter and of the index claim on the stores the repository is given
	var mem storage.Storage = memory.New(context.Background())
	_, memCounter := mem.(storage.CounterStore)
	_, memCAS := mem.(storage.CASStore)
	fmt.Printf("Definition memory_store_has_Incr_and_SetNX : bool := %v.\n", memCounter && memCAS)
	fmt.Printf("Definition hybrid_incr_is_get_then_set : bool := %v.\n", hybridIncrIsGetThenSet())
	guarded, indexFirst := deleteShape()
	fmt.Printf("Definition delete_is_guarded : bool := %v.\n", guarded)
	fmt.Printf("Definition delete_index_before_record : bool := %v.\n", indexFirst)
	fmt.Printf("Definition update_checks_client : bool := %v.\n", updateChecksClient())
	fmt.Printf("Definition lookup_error_stops : bool := %v.\n", lookupErrorStops())
	fmt.Printf("Definition counter_never_expires : bool := %v.\n", counterNeverExpires())
	fmt.Printf("Definition counter_ttl_seconds : N := %d%%N.\n", int64(constants.DefaultDataTTL/time.Second))
	cfg := hybrid.DefaultConfig()
	has := func(l []string, p string) bool {
		for _, x := range l {
			if x == p {
				return true
			}
		}
		return false
	}
	fmt.Printf("Definition hybrid_index_is_shared : bool := %v.\n", has(cfg.SharedPrefixes, repos.KeyPrefixHTTPDomainIndex))
	fmt.Printf("Definition hybrid_removal_guard_is_shared : bool := %v.\n", has(cfg.SharedPrefixes, removalPrefix))
	fmt.Printf("Definition hybrid_mapping_is_shared_persistent : bool := %v.\n", has(cfg.SharedPersistentPrefixes, repos.KeyPrefixHTTPDomainMapping))
}

func main() {
	if len(os.Args) > 1 && os.Args[1] == "gen" {
		gen()
		return
	}
	forEachCase(runCase)
}

//go:build verif

package httpservice

import "reflect"

// Probes on the DomainRegistry's RWMutex for the C19 harness: the harness holds a read lock so that every claimant's
// write section parks, and polls how many goroutines are parked on the mutex before letting them go.

// VerifRegistryRLock / VerifRegistryRUnlock take and release a read lock on the registry.
func VerifRegistryRLock(r *DomainRegistry)   { r.mu.RLock() }
func VerifRegistryRUnlock(r *DomainRegistry) { r.mu.RUnlock() }

// VerifRegistryParked reports (writer pending?, goroutines queued behind the pending writer on the writer mutex,
// readers holding or waiting for the read lock).  It reads the sync.RWMutex fields by reflection (no data is
// written); ok=false when the runtime's layout is not the expected one (the harness then falls back to timing).
func VerifRegistryParked(r *DomainRegistry) (writerPending bool, queuedWriters int, readers int, ok bool) {
	defer func() {
		if recover() != nil {
			ok = false
		}
	}()
	v := reflect.ValueOf(&r.mu).Elem()
	rc := v.FieldByName("readerCount")
	if !rc.IsValid() {
		return false, 0, 0, false
	}
	cnt := rc.FieldByName("v").Int()
	const maxReaders = 1 << 30
	if cnt < 0 {
		writerPending = true
		cnt += maxReaders
	}
	readers = int(cnt)
	w := v.FieldByName("w")
	st := w.FieldByName("mu").FieldByName("state")
	if !st.IsValid() {
		st = w.FieldByName("state")
	}
	if !st.IsValid() {
		return writerPending, 0, readers, false
	}
	queuedWriters = int(st.Int() >> 3)
	return writerPending, queuedWriters, readers, true
}

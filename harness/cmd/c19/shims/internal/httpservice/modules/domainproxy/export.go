//go:build verif

package domainproxy

import "tunnox-core/internal/cloud/models"

// VerifLookup exposes DomainProxyModule.lookupMapping (the three-stage host lookup) to the C19 harness.
func VerifLookup(m *DomainProxyModule, host string) (*models.PortMapping, error) {
	return m.lookupMapping(host)
}

// VerifExtractDomain exposes extractDomain.
func VerifExtractDomain(host string) string { return extractDomain(host) }

//go:build verif

package management

import "net/http"

// VerifCreateMapping exposes the management API's create-mapping handler (pre-check, CloudControl create,
// DomainRegistry.Register, rollback on refusal) to the C19 harness.
func VerifCreateMapping(m *ManagementModule, w http.ResponseWriter, r *http.Request) {
	m.handleCreateMapping(w, r)
}

//go:build verif

package session

// Verification access to the unexported bridge-lifecycle entry points (C02). Add-only wrappers.

import (
	"net"

	"tunnox-core/internal/core/types"

	"tunnox-core/internal/packet"
	"tunnox-core/internal/stream"
)

// VerifStartSourceBridge calls the real startSourceBridge (registers the bridge, spawns runBridgeLifecycle).
func VerifStartSourceBridge(s *SessionManager, req *packet.TunnelOpenRequest, c net.Conn, st stream.PackageStreamer) error {
	return s.startSourceBridge(req, c, st)
}

// VerifBridgeCount returns len(tunnelBridges) under the bridge lock.
func VerifBridgeCount(s *SessionManager) int {
	s.bridgeLock.RLock()
	defer s.bridgeLock.RUnlock()
	return len(s.tunnelBridges)
}

// VerifBridge returns tunnelBridges[id] (nil if absent).
func VerifBridge(s *SessionManager, id string) *TunnelBridge {
	s.bridgeLock.RLock()
	defer s.bridgeLock.RUnlock()
	return s.tunnelBridges[id]
}

// VerifHandleExistingBridge calls the real handleExistingBridge (a connection joins a tunnel whose bridge already exists on this
// node: target attach / source re-attach), including its TunnelOpenAck.
func VerifHandleExistingBridge(s *SessionManager, connPacket *types.StreamPacket, conn *types.Connection, req *packet.TunnelOpenRequest, bridge *TunnelBridge) error {
	return s.handleExistingBridge(connPacket, conn, req, bridge)
}

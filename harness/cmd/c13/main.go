//go:build verif

// verif_c13: drives the REAL memory.Storage and redis.Storage (over miniredis) with operation histories and
// evaluates property C13's predicate on their answers: "every answer equals the answer of a simple
// sequential map with expiry" (reference map below, independent of the Coq model), and "every concurrent
// execution has a linearization" (search over the recorded invocation/response order).
//
//	verif_c13 gen      print coq/Gen/C13.v (constants + behaviour probes of the real code)
//	verif_c13 race     GetHash/GetAllHash against SetHash/DeleteHash on one key (crashes on an unlocked map read)
//	verif_c13          JSON case per line on stdin -> JSON result per line (cases run concurrently, output in order)
package main

import (
	"bufio"
	"bytes"
	"context"
	"encoding/json"
	"errors"
	"fmt"
	"go/ast"
	"go/parser"
	"go/token"
	"os"
	"os/exec"
	"path/filepath"
	"sort"
	"strconv"
	"sync"
	"sync/atomic"
	"time"

	"github.com/alicebob/miniredis/v2"

	cconst "tunnox-core/internal/cloud/constants"
	"tunnox-core/internal/core/storage/hybrid"
	"tunnox-core/internal/core/storage/memory"
	rstore "tunnox-core/internal/core/storage/redis"
	"tunnox-core/internal/core/storage/types"
)

// the operations of types.Storage + ListStore + HashStore + CounterStore + CASStore that C13 names
type kv interface {
	Set(key string, value any, ttl time.Duration) error
	Get(key string) (any, error)
	Delete(key string) error
	Exists(key string) (bool, error)
	SetList(key string, values []any, ttl time.Duration) error
	GetList(key string) ([]any, error)
	AppendToList(key string, value any) error
	RemoveFromList(key string, value any) error
	SetHash(key string, field string, value any) error
	GetHash(key string, field string) (any, error)
	GetAllHash(key string) (map[string]any, error)
	DeleteHash(key string, field string) error
	IncrBy(key string, value int64) (int64, error)
	SetExpiration(key string, ttl time.Duration) error
	GetExpiration(key string) (time.Duration, error)
	CleanupExpired() error
	SetNX(key string, value any, ttl time.Duration) (bool, error)
	CompareAndSwap(key string, oldValue, newValue any, ttl time.Duration) (bool, error)
}

var _ kv = (*memory.Storage)(nil)
var _ kv = (*rstore.Storage)(nil)
var _ types.Storage = (*memory.Storage)(nil)

// ---------------------------------------------------------------------------------------------
// cases
// ---------------------------------------------------------------------------------------------

type opIn struct {
	Op  string      `json:"op"`
	K   string      `json:"k,omitempty"`
	F   string      `json:"f,omitempty"`
	V   interface{} `json:"v,omitempty"`   // scalar (string | integer | null) or list of scalars
	Cap int         `json:"cap,omitempty"` // iso: spare capacity of the []any handed in (a caller's scratch buffer, e.g. buf[:0])
	Old interface{} `json:"old,omitempty"` // CAS expected value
	TTL int64       `json:"ttl,omitempty"` // model milliseconds
	N   int64       `json:"n,omitempty"`   // IncrBy amount
	D   int64       `json:"d,omitempty"`   // tick, model milliseconds
}

type caseIn struct {
	Mode    string   `json:"mode"`    // "mem" | "redis" | "conc"
	Ops     []opIn   `json:"ops"`     // mem, redis
	Threads [][]opIn `json:"threads"` // conc
	Scale   int64    `json:"scale"`   // real duration of one model millisecond, in units of 1ms (mem: 1; redis: any, virtual clock)
	Tol     int64    `json:"tol"`     // tolerance (model ms) for durations returned by GetExpiration
	Fill    int      `json:"fill"`    // sweep: number of expired entries that make the sweep long
	Ticker  bool     `json:"ticker"`  // sweep: the StartCleanup goroutine sweeps instead of an explicit CleanupExpired call
	Setup   []opIn   `json:"setup"`   // upgrade: calls that plant the key (lifetime 2 ms), after which the harness waits until it has expired
	Backend string   `json:"backend"` // iso: "mem" | "redis" | "hybrid"
	Name    string   `json:"name"`    // iso: scenario name (part of the failure key)
	MutIn   bool     `json:"mutin"`   // iso: overwrite every []any handed in, after the call returned
	MutRet  bool     `json:"mutret"`  // iso: overwrite every composite value returned
	Kind    string   `json:"kind"`    // torn: "hash" | "list"
	Reader  string   `json:"reader"`  // torn: "get" | "getallhash" | "getlist"
	Reads   int      `json:"reads"`   // torn: number of snapshots taken
}

type obs []interface{}

type caseOut struct {
	Obs      []obs    `json:"obs,omitempty"`
	Ref      []obs    `json:"ref,omitempty"`      // what the reference map answers (after the same projection as Obs in redis mode)
	RefRaw   []obs    `json:"ref_raw,omitempty"`  // redis: the reference map's answers before projection
	RRefRaw  []obs    `json:"rref_raw,omitempty"` // redis/both: the Redis-flavoured reference's answers before projection
	RObs     []obs    `json:"robs,omitempty"`     // both: redis.Storage's answers (projected)
	RRef     []obs    `json:"rref,omitempty"`     // both: Redis-flavoured reference (projected)
	Cross    int      `json:"cross,omitempty"`    // both: calls at which the two real backends were compared with each other
	TObs     [][]obs  `json:"tobs,omitempty"`     // conc: per thread
	Lin      [][2]int `json:"lin,omitempty"`      // conc: a linearization found (thread, index)
	LateMs   float64  `json:"late_ms"`            // mem: worst lag of an operation behind its nominal time
	Overlap  int      `json:"overlap,omitempty"`  // conc: number of pairs of operations of different threads that overlapped in time
	PropOK   bool     `json:"prop_ok"`
	PropMsg  string   `json:"prop_msg,omitempty"`
	PropKey  string   `json:"prop_key,omitempty"`
	FailAt   int      `json:"fail_at"`
	ShapeEnd int      `json:"shape_end"`         // redis: index of the operation after which the history left the compared shape (-1: never)
	Order    string   `json:"order,omitempty"`   // upgrade: the sequential order that explains the answers: "rw" (reader first) or "wr"
	ObsEnd   []obs    `json:"obs_end,omitempty"` // iso / mem: the answers re-read from the retained values at the end of the history
}

// JSON value -> Go value handed to the storage: string, int64, nil, []any of those
func goVal(x interface{}) any {
	switch v := x.(type) {
	case nil:
		return nil
	case string:
		return v
	case json.Number:
		n, err := strconv.ParseInt(string(v), 10, 64)
		must(err)
		return n
	case []interface{}:
		out := make([]any, 0, len(v))
		for _, e := range v {
			out = append(out, goVal(e))
		}
		return out
	}
	panic(fmt.Sprintf("bad value %T", x))
}

// canonical projection of whatever a storage returned
func proj(x any) interface{} {
	switch v := x.(type) {
	case nil:
		return nil
	case string:
		return v
	case int64:
		return v
	case int:
		return int64(v)
	case float64:
		if v == float64(int64(v)) {
			return int64(v)
		}
		return map[string]interface{}{"other": fmt.Sprintf("float %v", v)}
	case []any:
		out := make([]interface{}, 0, len(v))
		for _, e := range v {
			out = append(out, proj(e))
		}
		return out
	case map[string]any:
		keys := make([]string, 0, len(v))
		for k := range v {
			keys = append(keys, k)
		}
		sort.Strings(keys)
		rows := make([]interface{}, 0, len(keys))
		for _, k := range keys {
			rows = append(rows, []interface{}{k, proj(v[k])})
		}
		return map[string]interface{}{"h": rows}
	}
	return map[string]interface{}{"other": fmt.Sprintf("%T", x)}
}

func errObs(err error) obs {
	switch {
	case err == nil:
		return obs{"ok"}
	case errors.Is(err, types.ErrKeyNotFound):
		return obs{"nf"}
	case errors.Is(err, types.ErrInvalidType):
		return obs{"it"}
	}
	return obs{"err", err.Error()}
}

func ms(d int64, scale int64) time.Duration { return time.Duration(d*scale) * time.Millisecond }

// one call on the real storage
// what a call handed in and got out, for the value-isolation checks (mode iso, and retained answers in mem)
type ioRec struct {
	ret    any // the value a read returned, as returned (not projected)
	hasRet bool
	in     []any // the []any the harness handed to Set / SetList / SetNX / CompareAndSwap
}

func apply(st kv, o opIn, scale int64) obs { return applyEx(st, o, scale, nil) }

func applyEx(st kv, o opIn, scale int64, io *ioRec) (r obs) {
	keepIn := func(v any) any {
		if l, ok := v.([]any); ok {
			if o.Cap > 0 { // the caller hands in a slice of its own buffer, with room behind it
				nl := make([]any, len(l), len(l)+o.Cap)
				copy(nl, l)
				l, v = nl, nl
			}
			if io != nil {
				io.in = l
			}
		}
		return v
	}
	keepRet := func(v any) {
		if io != nil {
			io.ret, io.hasRet = v, true
		}
	}
	defer func() {
		if p := recover(); p != nil {
			r = obs{"panic", fmt.Sprint(p)}
		}
	}()
	switch o.Op {
	case "set":
		return errObs(st.Set(o.K, keepIn(goVal(o.V)), ms(o.TTL, scale)))
	case "get":
		v, err := st.Get(o.K)
		if err != nil {
			return errObs(err)
		}
		keepRet(v)
		return obs{"v", proj(v)}
	case "del":
		return errObs(st.Delete(o.K))
	case "exists":
		b, err := st.Exists(o.K)
		if err != nil {
			return errObs(err)
		}
		return obs{"b", b}
	case "setlist":
		return errObs(st.SetList(o.K, keepIn(goVal(o.V)).([]any), ms(o.TTL, scale)))
	case "getlist":
		v, err := st.GetList(o.K)
		if err != nil {
			return errObs(err)
		}
		if v == nil {
			v = []any{}
		}
		keepRet(v)
		return obs{"v", proj(v)}
	case "append":
		return errObs(st.AppendToList(o.K, goVal(o.V)))
	case "remove":
		return errObs(st.RemoveFromList(o.K, goVal(o.V)))
	case "sethash":
		return errObs(st.SetHash(o.K, o.F, goVal(o.V)))
	case "gethash":
		v, err := st.GetHash(o.K, o.F)
		if err != nil {
			return errObs(err)
		}
		keepRet(v)
		return obs{"v", proj(v)}
	case "getallhash":
		v, err := st.GetAllHash(o.K)
		if err != nil {
			return errObs(err)
		}
		if v == nil {
			v = map[string]any{}
		}
		keepRet(v)
		return obs{"v", proj(v)}
	case "delhash":
		return errObs(st.DeleteHash(o.K, o.F))
	case "incrby":
		n, err := st.IncrBy(o.K, o.N)
		if err != nil {
			return errObs(err)
		}
		return obs{"i", n}
	case "setexp":
		return errObs(st.SetExpiration(o.K, ms(o.TTL, scale)))
	case "getexp":
		d, err := st.GetExpiration(o.K)
		if err != nil {
			return errObs(err)
		}
		if d < 0 {
			return obs{"dneg"}
		}
		return obs{"d", int64(d/time.Millisecond) / scale}
	case "setnx":
		b, err := st.SetNX(o.K, keepIn(goVal(o.V)), ms(o.TTL, scale))
		if err != nil {
			return errObs(err)
		}
		return obs{"b", b}
	case "cas":
		b, err := st.CompareAndSwap(o.K, goVal(o.Old), keepIn(goVal(o.V)), ms(o.TTL, scale))
		if err != nil {
			return errObs(err)
		}
		return obs{"b", b}
	case "cleanup":
		return errObs(st.CleanupExpired())
	}
	panic("unknown op " + o.Op)
}

// ---------------------------------------------------------------------------------------------
// the reference: a sequential map with expiry, eager purge on every clock advance (independent of
// the Coq model; this is the property's own predicate)
// ---------------------------------------------------------------------------------------------

type rent struct {
	v   any   // string | int64 | nil | []any | map[string]any
	exp int64 // 0 = never
}
type ref struct {
	m   map[string]*rent
	now int64
	d   int64 // default lifetime of implicitly created lists / hashes / counters (model ms)
	// known deviations of redis.Storage, switched on only to ATTRIBUTE a failure already found against the plain reference
	quirk map[string]bool
	scale int64
	// Redis-flavoured reference: a list / hash that becomes empty ceases to exist
	emptyAbsent bool
}

var redisQuirks = []string{"sethash-on-single-field-resets-deadline", "incrby-result-equals-delta-resets-deadline", "cas-ttl-truncated-to-seconds"}

func newRef(d int64) *ref { return &ref{m: map[string]*rent{}, now: 1000, d: d} }

func (r *ref) clone() *ref {
	c := &ref{m: make(map[string]*rent, len(r.m)), now: r.now, d: r.d, quirk: r.quirk, scale: r.scale, emptyAbsent: r.emptyAbsent}
	for k, e := range r.m {
		ne := &rent{exp: e.exp}
		switch v := e.v.(type) {
		case []any:
			ne.v = append([]any(nil), v...)
		case map[string]any:
			h := make(map[string]any, len(v))
			for f, x := range v {
				h[f] = x
			}
			ne.v = h
		default:
			ne.v = v
		}
		c.m[k] = ne
	}
	return c
}

func (r *ref) key() string {
	b, _ := json.Marshal(r.snapshot())
	return string(b)
}
func (r *ref) snapshot() interface{} {
	keys := make([]string, 0, len(r.m))
	for k := range r.m {
		keys = append(keys, k)
	}
	sort.Strings(keys)
	rows := []interface{}{}
	for _, k := range keys {
		rows = append(rows, []interface{}{k, proj(r.m[k].v), r.m[k].exp})
	}
	return rows
}

func (r *ref) deadline(ttl int64) int64 {
	if ttl <= 0 {
		return 0
	}
	return r.now + ttl
}

func (r *ref) step(o opIn) obs {
	res := r.step0(o)
	if r.emptyAbsent && o.K != "" && emptyCollection(r.m[o.K]) {
		delete(r.m, o.K)
	}
	return res
}

func (r *ref) step0(o opIn) obs {
	e := r.m[o.K]
	switch o.Op {
	case "tick":
		r.now += o.D
		for k, x := range r.m {
			if x.exp != 0 && x.exp < r.now {
				delete(r.m, k)
			}
		}
		return obs{"ok"}
	case "cleanup":
		return obs{"ok"}
	case "set":
		r.m[o.K] = &rent{v: goVal(o.V), exp: r.deadline(o.TTL)}
		return obs{"ok"}
	case "setlist":
		r.m[o.K] = &rent{v: goVal(o.V), exp: r.deadline(o.TTL)}
		return obs{"ok"}
	case "copylist": // SetList(k, GetList(src), ttl): the destination gets a COPY of the source's members
		src := r.m[o.F]
		var got obs
		var members []any
		switch {
		case src == nil && !r.emptyAbsent:
			return obs{"copy", obs{"nf"}}
		case src == nil:
			got = obs{"v", []interface{}{}}
		default:
			l, ok := src.v.([]any)
			if !ok {
				return obs{"copy", obs{"it"}}
			}
			members = append([]any(nil), l...)
			got = obs{"v", proj(l)}
		}
		if members == nil {
			members = []any{}
		}
		r.m[o.K] = &rent{v: members, exp: r.deadline(o.TTL)}
		if r.emptyAbsent && len(members) == 0 {
			delete(r.m, o.K)
		}
		return obs{"copy", got, obs{"ok"}}
	case "drain": // for _, x := range GetList(k) { RemoveFromList(k, x) }
		if e == nil && !r.emptyAbsent {
			return obs{"drain", obs{"nf"}}
		}
		if e == nil {
			return obs{"drain", obs{"v", []interface{}{}}}
		}
		l, ok := e.v.([]any)
		if !ok {
			return obs{"drain", obs{"it"}}
		}
		res := obs{"drain", obs{"v", proj(l)}}
		for range l {
			res = append(res, obs{"ok"})
		}
		e.v = []any{}
		return res
	case "get":
		if e == nil {
			return obs{"nf"}
		}
		return obs{"v", proj(e.v)}
	case "del":
		delete(r.m, o.K)
		return obs{"ok"}
	case "exists":
		return obs{"b", e != nil}
	case "getlist":
		if e == nil {
			return obs{"nf"}
		}
		if l, ok := e.v.([]any); ok {
			return obs{"v", proj(l)}
		}
		return obs{"it"}
	case "append":
		if e == nil {
			r.m[o.K] = &rent{v: []any{goVal(o.V)}, exp: r.now + r.d}
			return obs{"ok"}
		}
		if l, ok := e.v.([]any); ok {
			e.v = append(append([]any(nil), l...), goVal(o.V))
			return obs{"ok"}
		}
		return obs{"it"}
	case "remove":
		if e == nil {
			return obs{"ok"}
		}
		if l, ok := e.v.([]any); ok {
			nl := []any{}
			x := goVal(o.V)
			for _, y := range l {
				if y != x {
					nl = append(nl, y)
				}
			}
			e.v = nl
			return obs{"ok"}
		}
		return obs{"it"}
	case "sethash":
		if e == nil {
			r.m[o.K] = &rent{v: map[string]any{o.F: goVal(o.V)}, exp: r.now + r.d}
			return obs{"ok"}
		}
		if h, ok := e.v.(map[string]any); ok {
			h[o.F] = goVal(o.V)
			if r.quirk["sethash-on-single-field-resets-deadline"] && len(h) == 1 {
				e.exp = r.now + r.d
			}
		} else {
			e.v = map[string]any{o.F: goVal(o.V)}
		}
		return obs{"ok"}
	case "gethash":
		if e == nil {
			return obs{"nf"}
		}
		if h, ok := e.v.(map[string]any); ok {
			if x, ok := h[o.F]; ok {
				return obs{"v", proj(x)}
			}
			return obs{"nf"}
		}
		return obs{"it"}
	case "getallhash":
		if e == nil {
			return obs{"nf"}
		}
		if h, ok := e.v.(map[string]any); ok {
			return obs{"v", proj(h)}
		}
		return obs{"it"}
	case "delhash":
		if e == nil {
			return obs{"ok"}
		}
		if h, ok := e.v.(map[string]any); ok {
			delete(h, o.F)
			return obs{"ok"}
		}
		return obs{"it"}
	case "incrby":
		if e == nil {
			r.m[o.K] = &rent{v: int64(0) + o.N, exp: r.now + r.d}
			return obs{"i", o.N}
		}
		if c, ok := e.v.(int64); ok {
			e.v = c + o.N
			if r.quirk["incrby-result-equals-delta-resets-deadline"] && c+o.N == o.N {
				e.exp = r.now + r.d
			}
			return obs{"i", c + o.N}
		}
		return obs{"it"}
	case "setexp":
		if e == nil {
			return obs{"nf"}
		}
		e.exp = r.deadline(o.TTL)
		return obs{"ok"}
	case "getexp":
		if e == nil {
			return obs{"nf"}
		}
		if e.exp == 0 {
			return obs{"d", int64(0)}
		}
		return obs{"d", e.exp - r.now}
	case "setnx":
		if e != nil {
			return obs{"b", false}
		}
		r.m[o.K] = &rent{v: goVal(o.V), exp: r.deadline(o.TTL)}
		return obs{"b", true}
	case "cas":
		old := goVal(o.Old)
		if r.quirk["cas-ttl-truncated-to-seconds"] && r.scale > 0 {
			o.TTL = (o.TTL * r.scale / 1000) * 1000 / r.scale
		}
		if e == nil {
			if old == nil {
				r.m[o.K] = &rent{v: goVal(o.V), exp: r.deadline(o.TTL)}
				return obs{"b", true}
			}
			return obs{"b", false}
		}
		match := false
		switch e.v.(type) {
		case []any, map[string]any:
		default:
			match = e.v == old
		}
		if match {
			e.v = goVal(o.V)
			e.exp = r.deadline(o.TTL)
			return obs{"b", true}
		}
		return obs{"b", false}
	}
	panic("ref: unknown op " + o.Op)
}

func canon(o obs) string {
	b, err := json.Marshal(o)
	must(err)
	return string(b)
}

func sameObs(a, b obs, tol int64) bool {
	if len(a) == 2 && len(b) == 2 && a[0] == "d" && b[0] == "d" {
		x, ok1 := a[1].(int64)
		y, ok2 := b[1].(int64)
		if ok1 && ok2 {
			d := x - y
			if d < 0 {
				d = -d
			}
			return d <= tol
		}
	}
	return canon(a) == canon(b)
}

// which region of the operation space a divergence from the reference falls in (matched against
// known_findings.d/C13.txt by the driver): operation, the lifetime class of its argument, and the
// state of the key in the REFERENCE just before the call
func classify(backend string, o opIn, before *ref) string {
	e := before.m[o.K]
	st := "absent"
	if e != nil {
		if e.exp == 0 {
			st = "never-expiring"
		} else {
			st = "with-deadline"
		}
	}
	ttl := ""
	switch o.Op {
	case "set", "setlist", "setnx", "cas", "setexp":
		if o.TTL == 0 {
			ttl = ":ttl0"
		} else {
			ttl = ":ttl+"
		}
	}
	return backend + ":" + o.Op + ttl + ":" + st
}

// ---------------------------------------------------------------------------------------------
// mem: the real memory.Storage against the wall clock
// ---------------------------------------------------------------------------------------------

func defaultTTLms() int64 { return int64(cconst.DefaultDataTTL / time.Millisecond) }

func runMem(c caseIn) *caseOut {
	out := &caseOut{PropOK: true, FailAt: -1, ShapeEnd: -1}
	st := memory.New(context.Background())
	defer st.Close()
	r := newRef(defaultTTLms())
	scale := c.Scale
	if scale <= 0 {
		scale = 1
	}
	start := time.Now()
	var nominal int64 // model ms since start
	tainted := false
	var kept []retained
	for i, o := range c.Ops {
		if o.Op == "tick" {
			nominal += o.D
			target := start.Add(ms(nominal, scale))
			if d := time.Until(target); d > 0 {
				time.Sleep(d)
			}
			r.step(o)
			out.Obs = append(out.Obs, obs{"ok"})
			out.Ref = append(out.Ref, obs{"ok"})
			continue
		}
		before := r
		if !tainted {
			before = r.clone()
		}
		io := &ioRec{}
		got := applyEx(st, o, scale, io)
		if io.hasRet {
			kept = append(kept, retained{i, o.Op, kindOf(io.ret), io.ret, canon(obs{"v", proj(io.ret)})})
		}
		late := float64(time.Since(start)-ms(nominal, scale)) / float64(time.Millisecond) / float64(scale)
		if late > out.LateMs {
			out.LateMs = late
		}
		want := r.step(o)
		out.Obs = append(out.Obs, got)
		out.Ref = append(out.Ref, want)
		// value isolation: no later call changes an answer already returned (C13_answers_never_change_later)
		for _, k := range kept {
			if now := canon(obs{"v", proj(k.val)}); !tainted && now != k.snap {
				tainted = true
				out.PropOK = false
				out.FailAt = i
				out.PropKey = "mem:returned-answer-changed:" + k.op + "-" + k.kind + ":after:" + o.Op
				out.PropMsg = fmt.Sprintf("memory.Storage: the answer %s returned by call #%d %s(%s) turned into %s after call #%d %s(%s)", k.snap, k.at, k.op, c.Ops[k.at].K, now, i, o.Op, o.K)
			}
		}
		if !tainted && !sameObs(got, want, c.Tol) {
			// later answers are not judged: the two states may have drifted apart
			tainted = true
			out.PropOK = false
			out.FailAt = i
			out.PropKey = classify("mem", o, before)
			out.PropMsg = fmt.Sprintf("memory.Storage op #%d %s(%s) answered %s, a sequential TTL map answers %s", i, o.Op, o.K, canon(got), canon(want))
		}
	}
	out.ObsEnd = append([]obs(nil), out.Obs...)
	for _, k := range kept {
		out.ObsEnd[k.at] = obs{"v", proj(k.val)}
	}
	return out
}

// ---------------------------------------------------------------------------------------------
// redis: the real redis.Storage over miniredis (virtual clock: FastForward)
// ---------------------------------------------------------------------------------------------

func str(x interface{}) interface{} {
	switch v := x.(type) {
	case int64:
		return strconv.FormatInt(v, 10)
	case []interface{}:
		out := make([]interface{}, 0, len(v))
		for _, e := range v {
			out = append(out, str(e))
		}
		return out
	case map[string]interface{}:
		if rows, ok := v["h"].([]interface{}); ok {
			nr := make([]interface{}, 0, len(rows))
			for _, row := range rows {
				p := row.([]interface{})
				nr = append(nr, []interface{}{p[0], str(p[1])})
			}
			return map[string]interface{}{"h": nr}
		}
	}
	return x
}

// the projection under which the two backends are compared: values in their Redis string form,
// list / hash "not found" = empty, SetExpiration on a missing key not distinguished, every error alike.
// GetExpiration on Redis has whole-second precision; at the harness' Redis scale (1 model ms = 100 real ms) one second is
// 10 model ms.  The lifetime an operation leaves on a key is compared numerically within this tolerance.
const redisTol = 30

func projRedis(op string, o obs) obs {
	switch o[0] {
	case "v":
		return obs{"v", str(o[1])}
	case "nf":
		switch op {
		case "getlist":
			return obs{"v", []interface{}{}}
		case "getallhash":
			return obs{"v", map[string]interface{}{"h": []interface{}{}}}
		case "setexp":
			return obs{"ok"}
		}
	case "dneg":
		return obs{"dneg"}
	case "it", "err":
		return obs{"err"}
	}
	return o
}

func emptyCollection(e *rent) bool {
	if e == nil {
		return false
	}
	switch v := e.v.(type) {
	case []any:
		return len(v) == 0
	case map[string]any:
		return len(v) == 0
	}
	return false
}

func newRedisRef(scale int64) *ref {
	q := newRef(defaultTTLms() / scale)
	q.scale = scale
	q.emptyAbsent = true
	return q
}

// explain a failing Redis history by ONE known deviation of redis.Storage (or all of them): key of the deviation, or ""
func redisAttribution(c caseIn, scale int64, robs []obs) string {
	try := [][]string{{redisQuirks[0]}, {redisQuirks[1]}, {redisQuirks[2]}, redisQuirks}
	for _, qs := range try {
		q := newRedisRef(scale)
		q.quirk = map[string]bool{}
		for _, n := range qs {
			q.quirk[n] = true
		}
		ok := true
		for i, o := range c.Ops {
			want := q.step(o)
			if o.Op != "tick" && !sameObs(projRedis(o.Op, want), robs[i], redisTol) {
				ok = false
				break
			}
		}
		if ok {
			if len(qs) > 1 {
				return "redis:several-known-deviations"
			}
			return "redis:" + qs[0]
		}
	}
	return ""
}

type redisSide struct {
	mr    *miniredis.Miniredis
	st    *rstore.Storage
	scale int64
	rr    *ref // Redis-flavoured reference (empty collection = absent): the predicate for redis.Storage
}

func newRedisSide(scale int64) *redisSide {
	mr, err := miniredis.Run()
	must(err)
	st, err := rstore.New(context.Background(), &rstore.Config{Addr: mr.Addr(), PoolSize: 2})
	must(err)
	return &redisSide{mr: mr, st: st, scale: scale, rr: newRedisRef(scale)}
}
func (s *redisSide) close() { s.st.Close(); s.mr.Close() }

// redis: redis.Storage@miniredis judged against the Redis-flavoured reference over the WHOLE history (Redis has no empty
// lists / hashes: one that becomes empty ceases to exist — Exists false, deadline forgotten — and only that differs from
// the plain reference; ref_raw keeps the plain reference's answers, rref_raw the Redis-flavoured ones, for the Coq model)
func runRedis(c caseIn) *caseOut {
	out := &caseOut{PropOK: true, FailAt: -1, ShapeEnd: -1}
	scale := c.Scale
	if scale <= 0 {
		scale = 1000
	}
	side := newRedisSide(scale)
	defer side.close()
	r := newRef(defaultTTLms() / scale)
	tainted := false
	for i, o := range c.Ops {
		if o.Op == "tick" {
			side.mr.FastForward(ms(o.D, scale))
			r.step(o)
			side.rr.step(o)
			out.Obs = append(out.Obs, obs{"ok"})
			out.Ref = append(out.Ref, obs{"ok"})
			out.RefRaw = append(out.RefRaw, obs{"ok"})
			out.RRefRaw = append(out.RRefRaw, obs{"ok"})
			continue
		}
		before := side.rr
		if !tainted {
			before = side.rr.clone()
		}
		got := projRedis(o.Op, apply(side.st, o, scale))
		out.RefRaw = append(out.RefRaw, r.step(o))
		raw := side.rr.step(o)
		out.RRefRaw = append(out.RRefRaw, raw)
		want := projRedis(o.Op, raw)
		out.Obs = append(out.Obs, got)
		out.Ref = append(out.Ref, want)
		if out.ShapeEnd < 0 && emptyCollection(r.m[o.K]) {
			out.ShapeEnd = i // from here on the plain and the Redis-flavoured reference may differ
		}
		if !tainted && !sameObs(got, want, redisTol) {
			tainted = true
			out.PropOK = false
			out.FailAt = i
			out.PropKey = classify("redis", o, before)
			out.PropMsg = fmt.Sprintf("redis.Storage op #%d %s(%s) answered %s, a sequential TTL map (empty list/hash = absent) answers %s", i, o.Op, o.K, canon(got), canon(want))
		}
	}
	if !out.PropOK {
		if k := redisAttribution(c, scale, out.Obs); k != "" {
			out.PropKey = k
		}
	}
	return out
}

// both: ONE history on the real memory.Storage (wall clock) and the real redis.Storage (virtual clock) side by side.
// Three predicates: memory == reference; redis == Redis-flavoured reference; and memory == redis under the projection at
// every call where the two references themselves agree (i.e. everywhere except the documented "empty collection" gap).
func runBoth(c caseIn) *caseOut {
	out := &caseOut{PropOK: true, FailAt: -1, ShapeEnd: -1}
	rscale := int64(100)
	side := newRedisSide(rscale)
	defer side.close()
	st := memory.New(context.Background())
	defer st.Close()
	r := newRef(defaultTTLms())
	start := time.Now()
	var nominal int64
	fail := func(i int, key, msg string) {
		if out.PropOK {
			out.PropOK = false
			out.FailAt = i
			out.PropKey = key
			out.PropMsg = msg
		}
	}
	memTainted, redisTainted := false, false
	for i, o := range c.Ops {
		if o.Op == "tick" {
			nominal += o.D
			if d := time.Until(start.Add(ms(nominal, 1))); d > 0 {
				time.Sleep(d)
			}
			side.mr.FastForward(ms(o.D, rscale))
			r.step(o)
			side.rr.step(o)
			for _, l := range []*[]obs{&out.Obs, &out.Ref, &out.RObs, &out.RRef, &out.RRefRaw} {
				*l = append(*l, obs{"ok"})
			}
			continue
		}
		before := r.clone()
		rbefore := side.rr.clone()
		got := apply(st, o, 1)
		late := float64(time.Since(start)-ms(nominal, 1)) / float64(time.Millisecond)
		if late > out.LateMs {
			out.LateMs = late
		}
		want := r.step(o)
		rgot := projRedis(o.Op, apply(side.st, o, rscale))
		rraw := side.rr.step(o)
		rwant := projRedis(o.Op, rraw)
		out.Obs = append(out.Obs, got)
		out.Ref = append(out.Ref, want)
		out.RObs = append(out.RObs, rgot)
		out.RRef = append(out.RRef, rwant)
		out.RRefRaw = append(out.RRefRaw, rraw)
		if out.ShapeEnd < 0 && emptyCollection(r.m[o.K]) {
			out.ShapeEnd = i
		}
		if !memTainted && !sameObs(got, want, c.Tol) {
			memTainted = true
			fail(i, classify("mem", o, before), fmt.Sprintf("memory.Storage op #%d %s(%s) answered %s, a sequential TTL map answers %s", i, o.Op, o.K, canon(got), canon(want)))
		}
		if !redisTainted && !sameObs(rgot, rwant, redisTol) {
			redisTainted = true
			fail(i, classify("redis", o, rbefore), fmt.Sprintf("redis.Storage op #%d %s(%s) answered %s, a sequential TTL map (empty list/hash = absent) answers %s", i, o.Op, o.K, canon(rgot), canon(rwant)))
		}
		// cross-backend: only where the two references agree under the projection
		if !memTainted && !redisTainted && sameObs(projRedis(o.Op, want), rwant, 0) {
			out.Cross++
			if !sameObs(projRedis(o.Op, got), rgot, c.Tol+redisTol) {
				fail(i, classify("cross", o, before), fmt.Sprintf("backends disagree at op #%d %s(%s): memory %s, redis %s", i, o.Op, o.K, canon(projRedis(o.Op, got)), canon(rgot)))
			}
		}
	}
	if !out.PropOK && redisTainted {
		if k := redisAttribution(c, rscale, out.RObs); k != "" && len(out.PropKey) > 5 && out.PropKey[:6] == "redis:" {
			out.PropKey = k
		}
	}
	return out
}

// sweep: a write issued WHILE a CleanupExpired sweep holds Storage.mu.  N expired entries make the sweep long; the
// harness polls TryLock until the sweep is inside its critical section and then issues the write on an expired key, which
// queues on the mutex.  Whatever the order the two take effect in, the written value must be there afterwards (both
// linearizations of {CleanupExpired || write} ; reads give the same answers): a completed write is never lost.
// ticker=true: the sweep is the StartCleanup goroutine's instead of an explicit CleanupExpired call.
func runSweep(c caseIn) *caseOut {
	out := &caseOut{PropOK: true, FailAt: -1, ShapeEnd: -1}
	n := c.Fill
	if n <= 0 {
		n = 100000
	}
	w := c.Ops[0]
	for attempt := 0; attempt < 4 && out.Overlap == 0; attempt++ {
		st := memory.New(context.Background())
		for i := 0; i < n; i++ {
			must(st.Set("fill:"+strconv.Itoa(i), "x", time.Millisecond))
		}
		must(st.Set(w.K, "old", time.Millisecond))
		time.Sleep(8 * time.Millisecond)
		done := make(chan struct{})
		if c.Ticker {
			st.StartCleanup(2 * time.Millisecond)
			close(done)
		} else {
			go func() { _ = st.CleanupExpired(); close(done) }()
		}
		held := false
		deadline := time.Now().Add(2 * time.Second)
		for time.Now().Before(deadline) {
			if st.VerifMuTryLock() {
				st.VerifMuUnlock()
				if st.VerifLen() < n/2 {
					break // the sweep is over: too late for this attempt
				}
				continue
			}
			held = true
			break
		}
		got := apply(st, w, 1) // queues behind the sweep's critical section
		<-done
		if c.Ticker {
			for i := 0; i < 400 && st.VerifLen() > 8; i++ {
				time.Sleep(time.Millisecond)
			}
			st.StopCleanup()
		}
		r := newRef(defaultTTLms())
		r.step(opIn{Op: "cleanup"})
		want := r.step(w)
		out.Obs = []obs{got}
		out.Ref = []obs{want}
		if held {
			out.Overlap = 1
		}
		bad := ""
		if !sameObs(got, want, 0) {
			bad = fmt.Sprintf("%s(%s) during a sweep answered %s, expected %s", w.Op, w.K, canon(got), canon(want))
		}
		for _, rd := range c.Ops[1:] {
			g := apply(st, rd, 1)
			x := r.step(rd)
			out.Obs = append(out.Obs, g)
			out.Ref = append(out.Ref, x)
			if bad == "" && !sameObs(g, x, 1000) {
				bad = fmt.Sprintf("after {CleanupExpired || %s(%s)} both returned, %s(%s) answered %s; every linearization answers %s: the completed write was lost", w.Op, w.K, rd.Op, rd.K, canon(g), canon(x))
			}
		}
		left := st.VerifLen()
		st.Close()
		if bad != "" {
			out.PropOK = false
			out.PropKey = "mem:write-lost-during-cleanup-sweep"
			out.PropMsg = bad
			return out
		}
		if left > 8 && bad == "" && !c.Ticker {
			out.PropOK = false
			out.PropKey = "mem:cleanup-leaves-expired-entries"
			out.PropMsg = fmt.Sprintf("CleanupExpired returned with %d physical entries left of %d expired ones", left, n)
			return out
		}
	}
	return out
}

// ---------------------------------------------------------------------------------------------
// conc: concurrent callers of one memory.Storage; linearizability against the reference
// ---------------------------------------------------------------------------------------------

type ev struct {
	inv, resp int64
	got       obs
}

func runConc(c caseIn) *caseOut {
	out := &caseOut{PropOK: true, FailAt: -1, ShapeEnd: -1}
	st := memory.New(context.Background())
	defer st.Close()
	var clock int64
	nT := len(c.Threads)
	evs := make([][]ev, nT)
	maxLen := 0
	for t := range c.Threads {
		evs[t] = make([]ev, len(c.Threads[t]))
		if len(c.Threads[t]) > maxLen {
			maxLen = len(c.Threads[t])
		}
	}
	// a spinning barrier before every round makes the calls of one round overlap
	var arrived int64
	var wg sync.WaitGroup
	for t := 0; t < nT; t++ {
		wg.Add(1)
		go func(t int) {
			defer wg.Done()
			for i := 0; i < maxLen; i++ {
				atomic.AddInt64(&arrived, 1)
				for atomic.LoadInt64(&arrived) < int64(nT*(i+1)) {
				}
				if i >= len(c.Threads[t]) {
					continue
				}
				inv := atomic.AddInt64(&clock, 1)
				got := apply(st, c.Threads[t][i], 1)
				resp := atomic.AddInt64(&clock, 1)
				evs[t][i] = ev{inv, resp, got}
			}
		}(t)
	}
	wg.Wait()
	for t := range evs {
		row := []obs{}
		for _, e := range evs[t] {
			row = append(row, e.got)
		}
		out.TObs = append(out.TObs, row)
	}
	for a := 0; a < nT; a++ {
		for b := a + 1; b < nT; b++ {
			for _, x := range evs[a] {
				for _, y := range evs[b] {
					if x.inv < y.resp && y.inv < x.resp {
						out.Overlap++
					}
				}
			}
		}
	}
	// depth-first search for a linearization (Wing & Gong), memoised on (positions, reference state)
	pos := make([]int, nT)
	dead := map[string]bool{}
	var lin [][2]int
	var search func(r *ref) bool
	search = func(r *ref) bool {
		done := true
		for t := 0; t < nT; t++ {
			if pos[t] < len(evs[t]) {
				done = false
			}
		}
		if done {
			return true
		}
		memo := fmt.Sprint(pos) + r.key()
		if dead[memo] {
			return false
		}
		// an operation may come next only if no other pending operation responded before it was invoked
		minResp := int64(1 << 62)
		for t := 0; t < nT; t++ {
			if pos[t] < len(evs[t]) && evs[t][pos[t]].resp < minResp {
				minResp = evs[t][pos[t]].resp
			}
		}
		for t := 0; t < nT; t++ {
			if pos[t] >= len(evs[t]) {
				continue
			}
			e := evs[t][pos[t]]
			if e.inv > minResp {
				continue
			}
			r2 := r.clone()
			want := r2.step(c.Threads[t][pos[t]])
			if !sameObs(e.got, want, 0) {
				continue
			}
			lin = append(lin, [2]int{t, pos[t]})
			pos[t]++
			if search(r2) {
				return true
			}
			pos[t]--
			lin = lin[:len(lin)-1]
		}
		dead[memo] = true
		return false
	}
	if search(newRef(defaultTTLms())) {
		out.Lin = lin
	} else {
		out.PropOK = false
		out.PropKey = "mem:not-linearizable"
		out.PropMsg = "no sequential order of the recorded calls, consistent with their invocation/response order, explains the answers of memory.Storage"
	}
	return out
}

// ---------------------------------------------------------------------------------------------
// race probe: map reads of GetHash/GetAllHash outside the lock vs in-place writes of SetHash/DeleteHash
// ---------------------------------------------------------------------------------------------

func raceProbe() {
	st := memory.New(context.Background())
	must(st.SetHash("h", "f0", "x"))
	stop := time.Now().Add(1200 * time.Millisecond)
	var wg sync.WaitGroup
	for w := 0; w < 3; w++ {
		wg.Add(2)
		go func(w int) {
			defer wg.Done()
			for i := 0; time.Now().Before(stop); i++ {
				f := "f" + strconv.Itoa((i+w)%64)
				_ = st.SetHash("h", f, "x")
				if i%3 == 0 {
					_ = st.DeleteHash("h", f)
				}
			}
		}(w)
		go func(w int) {
			defer wg.Done()
			for i := 0; time.Now().Before(stop); i++ {
				_, _ = st.GetHash("h", "f"+strconv.Itoa(i%64))
				_, _ = st.GetAllHash("h")
			}
		}(w)
	}
	wg.Wait()
	fmt.Println("race-probe: survived")
}

// ---------------------------------------------------------------------------------------------
// gen: constants and behaviour probes of the real code -> coq/Gen/C13.v
// ---------------------------------------------------------------------------------------------

// does memory.(*Storage).SetNX still decide liveness with time.Now().Before(...)?  (not observable through
// the wall clock: the two tests differ only at the deadline instant itself) — read from the syntax tree
func setnxUsesBefore() (bool, error) {
	repo := os.Getenv("VERIF_REPO")
	if repo == "" {
		repo = "/repo"
	}
	fset := token.NewFileSet()
	f, err := parser.ParseFile(fset, filepath.Join(repo, "internal/core/storage/memory/memory_ops.go"), nil, 0)
	if err != nil {
		return false, err
	}
	found, before := false, false
	for _, d := range f.Decls {
		fd, ok := d.(*ast.FuncDecl)
		if !ok || fd.Name.Name != "SetNX" || fd.Recv == nil {
			continue
		}
		found = true
		ast.Inspect(fd.Body, func(n ast.Node) bool {
			if se, ok := n.(*ast.SelectorExpr); ok && se.Sel.Name == "Before" {
				before = true
			}
			return true
		})
	}
	if !found {
		return false, fmt.Errorf("memory.(*Storage).SetNX not found")
	}
	return before, nil
}

func gen() {
	ctx := context.Background()
	fresh := func() *memory.Storage { return memory.New(ctx) }
	hour := time.Hour

	// CompareAndSwap on a never-expiring key
	s := fresh()
	must(s.Set("k", "a", 0))
	casZeroGuard, err := s.CompareAndSwap("k", "a", "b", hour)
	must(err)
	// CompareAndSwap with ttl 0
	s = fresh()
	must(s.Set("k", "a", hour))
	_, err = s.CompareAndSwap("k", "a", "b", 0)
	must(err)
	time.Sleep(3 * time.Millisecond)
	casTTL0Never, err := s.Exists("k")
	must(err)
	// SetExpiration with ttl 0
	s = fresh()
	must(s.Set("k", "a", hour))
	must(s.SetExpiration("k", 0))
	time.Sleep(3 * time.Millisecond)
	setexpTTL0Never, err := s.Exists("k")
	must(err)
	// SetExpiration on expired garbage
	s = fresh()
	must(s.Set("k", "a", 5*time.Millisecond))
	time.Sleep(30 * time.Millisecond)
	setexpChecks := errors.Is(s.SetExpiration("k", hour), types.ErrKeyNotFound)
	// GetExpiration of a never-expiring key
	s = fresh()
	must(s.Set("k", "a", 0))
	d, err := s.GetExpiration("k")
	must(err)
	getexpNever0 := d == 0
	before, err := setnxUsesBefore()
	must(err)

	b := func(x bool) string {
		if x {
			return "true"
		}
		return "false"
	}
	fmt.Println("(* generated by verif_c13 gen from the repository's working tree — do not edit *)")
	fmt.Println("From TX Require Import Model.KV.")
	fmt.Println("Open Scope N_scope.")
	fmt.Printf("Definition DefaultDataTTL_ms : N := %d.   (* internal/cloud/constants.DefaultDataTTL *)\n", defaultTTLms())
	fmt.Println("(* behaviour of the real memory.Storage, probed (SetNX: read from the syntax tree) *)")
	fmt.Printf("Definition probed : kvariant := {| v_cas_zero_guard := %s; v_cas_ttl0_never := %s;\n", b(casZeroGuard), b(casTTL0Never))
	fmt.Printf("  v_setexp_checks_expiry := %s; v_setexp_ttl0_never := %s; v_setnx_after := %s; v_getexp_never0 := %s |}.\n",
		b(setexpChecks), b(setexpTTL0Never), b(!before), b(getexpNever0))
	fmt.Printf("Definition err_sentinels_distinct : bool := %s.   (* types.ErrKeyNotFound != types.ErrInvalidType *)\n",
		b(!errors.Is(types.ErrKeyNotFound, types.ErrInvalidType) && !errors.Is(types.ErrInvalidType, types.ErrKeyNotFound)))
}

// ---------------------------------------------------------------------------------------------

// upgrade: an expired-entry reader racing a writer.  The key is planted and left to expire (no cleanup runs).  The harness
// takes Storage.mu for writing, lets the reader park in its RLock and the writer in its Lock (confirmed through the mutex's
// own counters), and releases: sync.RWMutex then admits the parked reader first, the writer waits for it to drain, and a
// second (write-locked) section of the reader — GetHash / GetAllHash / GetExpiration evict what they found expired — queues
// behind the writer.  So the writer's whole call lands exactly between the reader's two sections.
// Predicate: the two answers and every later read are those of ONE of the two sequential orders of the two calls.
func runUpgrade(c caseIn) *caseOut {
	out := &caseOut{PropOK: true, FailAt: -1, ShapeEnd: -1}
	reader, writer, reads := c.Ops[0], c.Ops[1], c.Ops[2:]
	for attempt := 0; attempt < 3 && out.Overlap == 0; attempt++ {
		st := memory.New(context.Background())
		r := newRef(defaultTTLms())
		for _, o := range c.Setup {
			if g := apply(st, o, 1); g[0] == "panic" || g[0] == "err" {
				panic(fmt.Sprintf("upgrade setup %s: %v", o.Op, g))
			}
			r.step(o)
		}
		time.Sleep(12 * time.Millisecond)
		r.step(opIn{Op: "tick", D: 1000})
		st.VerifMuLock()
		var wg sync.WaitGroup
		var robs, wobs obs
		wg.Add(1)
		go func() { defer wg.Done(); robs = apply(st, reader, 1) }()
		parkedR, parkedW := false, false
		_, _, layout := st.VerifMuParked()
		for t0 := time.Now(); layout && time.Since(t0) < 50*time.Millisecond; time.Sleep(20 * time.Microsecond) {
			if n, _, _ := st.VerifMuParked(); n >= 1 {
				parkedR = true
				break
			}
		}
		if !layout {
			time.Sleep(2 * time.Millisecond)
		}
		wg.Add(1)
		go func() { defer wg.Done(); wobs = apply(st, writer, 1) }()
		for t0 := time.Now(); layout && time.Since(t0) < 50*time.Millisecond; time.Sleep(20 * time.Microsecond) {
			if _, w, _ := st.VerifMuParked(); w >= 1 {
				parkedW = true
				break
			}
		}
		if !layout {
			time.Sleep(2 * time.Millisecond)
		}
		st.VerifMuUnlock()
		wg.Wait()
		if parkedR && parkedW {
			out.Overlap = 1
		}
		out.Obs = []obs{robs, wobs}
		for _, rd := range reads {
			out.Obs = append(out.Obs, apply(st, rd, 1))
		}
		st.Close()
		// the two sequential orders
		explain := func(first, second opIn, swap bool) ([]obs, bool) {
			q := r.clone()
			a := q.step(first)
			b := q.step(second)
			want := []obs{a, b}
			if swap {
				want = []obs{b, a}
			}
			for _, rd := range reads {
				want = append(want, q.step(rd))
			}
			for i := range want {
				if !sameObs(out.Obs[i], want[i], 5000) {
					return want, false
				}
			}
			return want, true
		}
		wantRW, okRW := explain(reader, writer, false)
		wantWR, okWR := explain(writer, reader, true)
		switch {
		case okRW:
			out.Order, out.Ref = "rw", wantRW
		case okWR:
			out.Order, out.Ref = "wr", wantWR
		default:
			out.Ref = wantRW
			out.PropOK = false
			out.PropKey = "mem:reader-upgrade-vs-writer-not-linearizable"
			a, _ := json.Marshal(out.Obs)
			b1, _ := json.Marshal(wantRW)
			b2, _ := json.Marshal(wantWR)
			out.PropMsg = fmt.Sprintf("%s(%s) on an expired key raced by %s(%s): answers [reader, writer, later reads...] = %s; order reader;writer gives %s, order writer;reader gives %s — no sequential order of the two completed calls explains them", reader.Op, reader.K, writer.Op, writer.K, a, b1, b2)
			return out
		}
	}
	return out
}

// ---------------------------------------------------------------------------------------------
// iso: value isolation.  The Spec's values are immutable (Properties/C13.v C13_answers_never_change_later,
// C13_other_keys_untouched): an answer is a function of the store at the time of the call, and what a caller does with a
// slice or map it handed in or got out afterwards is none of the store's business.  On every backend:
//   (a) every value a call RETURNED is kept as returned and re-compared with its snapshot after every later call;
//   (b) every []any the harness HANDED IN is overwritten by the harness once the call has returned (mutin);
//   (b') optionally every composite RETURNED is overwritten by the harness instead of being kept (mutret);
//   (c) copylist: SetList(k2, GetList(k1)) with the very slice GetList returned, then writes to either key;
//   (d) drain: for _, x := range GetList(k) { RemoveFromList(k, x) };
// all judged by the ordinary predicate (every answer equals the reference map's) plus (a).
// ---------------------------------------------------------------------------------------------

type retained struct {
	at   int
	op   string
	kind string
	val  any
	snap string
}

func kindOf(v any) string {
	switch v.(type) {
	case []any:
		return "list"
	case map[string]any:
		return "hash"
	}
	return "scalar"
}

func scribble(v any, mark string) {
	switch x := v.(type) {
	case []any:
		x = x[:cap(x)] // the whole buffer the caller owns, spare capacity included (what its own append would write)
		for i := range x {
			x[i] = mark
		}
	case map[string]any:
		for k := range x {
			x[k] = mark
		}
		x["zz-"+mark] = mark
	}
}

func newHybrid() (kv, func()) {
	ctx := context.Background()
	cache := memory.New(ctx)
	h := hybrid.New(ctx, cache, nil, nil)
	return h, func() { h.Close(); cache.Close() }
}

func runIso(c caseIn) *caseOut {
	out := &caseOut{PropOK: true, FailAt: -1, ShapeEnd: -1}
	var st kv
	r := newRef(defaultTTLms())
	isRedis := false
	switch c.Backend {
	case "redis":
		side := newRedisSide(100)
		defer side.close()
		st, r, isRedis = side.st, side.rr, true
	case "hybrid":
		h, done := newHybrid()
		defer done()
		st = h
	default:
		m := memory.New(context.Background())
		defer m.Close()
		st = m
	}
	scale := int64(1)
	if isRedis {
		scale = 100
	}
	pj := func(op string, o obs) obs {
		if !isRedis {
			return o
		}
		if len(o) > 0 && (o[0] == "copy" || o[0] == "drain") {
			res := obs{o[0]}
			sub := "getlist"
			for _, x := range o[1:] {
				res = append(res, projRedis(sub, x.(obs)))
				sub = "setlist"
			}
			return res
		}
		return projRedis(op, o)
	}
	fail := func(i int, key, msg string) {
		if out.PropOK {
			out.PropOK, out.FailAt, out.PropKey, out.PropMsg = false, i, key, msg
		}
	}
	var kept []retained
	type reuse struct {
		v    any
		mark string
	}
	var reused []reuse
	keep := func(i int, op string, io *ioRec) {
		if !io.hasRet {
			return
		}
		if c.MutRet && kindOf(io.ret) != "scalar" {
			scribble(io.ret, "MUTR") // the caller overwrites what it got: the store must not notice
			reused = append(reused, reuse{io.ret, "MUTR"})
			return
		}
		kept = append(kept, retained{i, op, kindOf(io.ret), io.ret, canon(pj(op, obs{"v", proj(io.ret)}))})
	}
	for i, o := range c.Ops {
		io := &ioRec{}
		var got obs
		switch o.Op {
		case "copylist":
			g := applyEx(st, opIn{Op: "getlist", K: o.F}, scale, io)
			got = obs{"copy", g}
			if io.hasRet {
				l := io.ret.([]any)
				keep(i, "getlist", io)
				got = append(got, errObs(st.SetList(o.K, l, ms(o.TTL, scale)))) // the very slice GetList returned
			}
		case "drain":
			g := applyEx(st, opIn{Op: "getlist", K: o.K}, scale, io)
			got = obs{"drain", g}
			if io.hasRet {
				l := io.ret.([]any)
				for _, x := range l { // ranges over the slice GetList returned while removing
					got = append(got, errObs(st.RemoveFromList(o.K, x)))
				}
			}
		default:
			got = applyEx(st, o, scale, io)
			keep(i, o.Op, io)
			if c.MutIn && io.in != nil {
				scribble(io.in, "MUTA") // the caller reuses the slice it handed in: the store must not notice
				reused = append(reused, reuse{io.in, "MUTA"})
			}
		}
		// the caller goes on using its buffers (arguments it handed in, answers it overwrote) after every later call too:
		// an in-place append of the store into a shared backing array is then overwritten
		for _, u := range reused {
			scribble(u.v, u.mark)
		}
		got = pj(o.Op, got)
		want := pj(o.Op, r.step(o))
		out.Obs = append(out.Obs, got)
		out.Ref = append(out.Ref, want)
		if !sameObs(got, want, 5000) {
			fail(i, "iso:"+c.Backend+":"+c.Name+":answer", fmt.Sprintf("%s scenario %q: call #%d %s(%s) answered %s, the reference map (immutable values) answers %s", c.Backend, c.Name, i, o.Op, o.K, canon(got), canon(want)))
		}
		for _, k := range kept {
			if now := canon(pj(k.op, obs{"v", proj(k.val)})); now != k.snap {
				fail(i, "iso:"+c.Backend+":"+c.Name+":retained", fmt.Sprintf("%s scenario %q: the answer %s returned by call #%d %s turned into %s after call #%d %s(%s): an answer already returned changed", c.Backend, c.Name, k.snap, k.at, k.op, now, i, o.Op, o.K))
				break
			}
		}
	}
	// the answers as they look at the END of the history (what the correspondence compares as well)
	out.ObsEnd = append([]obs(nil), out.Obs...)
	for _, k := range kept {
		now := pj(k.op, obs{"v", proj(k.val)})
		if c.Ops[k.at].Op == "copylist" {
			cp := append(obs(nil), out.ObsEnd[k.at]...)
			cp[1] = now
			out.ObsEnd[k.at] = cp
		} else {
			out.ObsEnd[k.at] = now
		}
	}
	return out
}

// ---------------------------------------------------------------------------------------------
// torn: a reader of a LARGE composite value racing writers that mutate it in place.  memory.Storage keeps one
// map[string]any per hash and SetHash / DeleteHash write into it; AppendToList writes into the stored slice's spare capacity.
// Every read (Get, GetAllHash, GetList) must therefore take its copy inside its critical section: a snapshot is the value
// the key had at ONE instant between call and return (C13_snapshot_is_store_value, C13_linearizable_all_schedules).
// The writer maintains an invariant over the value (hash: a == b or a == b+1, and the field count; list: base members, at
// most one trailing "z") that every snapshot must satisfy.  A copy taken outside the lock either breaks it or dies with
// the runtime's unrecoverable "fatal error: concurrent map iteration and map write" — so the scenario runs in a CHILD
// process of the harness and a crashed child is a predicate failure.
// ---------------------------------------------------------------------------------------------

type tornResult struct {
	OK     bool   `json:"ok"`
	Msg    string `json:"msg"`
	Reads  int    `json:"reads"`
	Writes int64  `json:"writes"`
	Free   int    `json:"free"` // times the mutex was free (TryLock succeeded) while the reader was inside a call
}

func tornChild(c caseIn) tornResult {
	st := memory.New(context.Background())
	k := "big"
	n := c.Fill
	if n <= 0 {
		n = 20000
	}
	reads := c.Reads
	if reads <= 0 {
		reads = 300
	}
	if c.Kind == "hash" {
		for i := 0; i < n; i++ {
			must(st.SetHash(k, "f"+strconv.Itoa(i), "x"))
		}
		must(st.SetHash(k, "a", int64(0)))
		must(st.SetHash(k, "b", int64(0)))
	} else {
		l := make([]any, n)
		for i := range l {
			l[i] = "x"
		}
		must(st.SetList(k, l, 0))
		must(st.AppendToList(k, "z")) // grows the backing array: later appends are in place
		must(st.RemoveFromList(k, "z"))
	}
	var stop, inCall int32
	var writes int64
	var wg sync.WaitGroup
	wg.Add(2)
	go func() { // the in-place writer
		defer wg.Done()
		for i := int64(1); atomic.LoadInt32(&stop) == 0; i++ {
			if c.Kind == "hash" {
				_ = st.SetHash(k, "a", i)
				_ = st.SetHash(k, "b", i)
				switch i % 4 {
				case 0:
					_ = st.SetHash(k, "t", "y")
				case 2:
					_ = st.DeleteHash(k, "t")
				}
			} else {
				_ = st.AppendToList(k, "z")
				_ = st.RemoveFromList(k, "z")
			}
			atomic.AddInt64(&writes, 1)
		}
	}()
	free := 0
	go func() { // observes whether the mutex is ever free while the reader is inside a call
		defer wg.Done()
		for atomic.LoadInt32(&stop) == 0 {
			if atomic.LoadInt32(&inCall) == 1 && st.VerifMuTryLock() {
				if atomic.LoadInt32(&inCall) == 1 {
					free++
				}
				st.VerifMuUnlock()
			}
			time.Sleep(50 * time.Microsecond)
		}
	}()
	res := tornResult{OK: true}
	checkHash := func(h map[string]any) string {
		a, ok1 := h["a"].(int64)
		b, ok2 := h["b"].(int64)
		_, hasT := h["t"]
		want := n + 2
		if hasT {
			want++
		}
		switch {
		case !ok1 || !ok2:
			return "fields a / b missing from the snapshot"
		case !(a == b || a == b+1):
			return fmt.Sprintf("snapshot has a=%d b=%d: the writer only ever leaves a==b or a==b+1", a, b)
		case len(h) != want:
			return fmt.Sprintf("snapshot has %d fields, the hash had %d at every instant", len(h), want)
		}
		return ""
	}
	checkList := func(l []any) string {
		if len(l) != n && len(l) != n+1 {
			return fmt.Sprintf("snapshot has %d members, the list had %d or %d at every instant", len(l), n, n+1)
		}
		for i, x := range l {
			if i < n && x != "x" || i == n && x != "z" {
				return fmt.Sprintf("snapshot member #%d is %v", i, x)
			}
		}
		return ""
	}
	for i := 0; i < reads && res.OK; i++ {
		atomic.StoreInt32(&inCall, 1)
		var v any
		var err error
		switch c.Reader {
		case "get":
			v, err = st.Get(k)
		case "getallhash":
			v, err = st.GetAllHash(k)
		case "getlist":
			v, err = st.GetList(k)
		}
		atomic.StoreInt32(&inCall, 0)
		res.Reads++
		bad := ""
		if err != nil {
			v = nil
		}
		switch x := v.(type) {
		case map[string]any:
			bad = checkHash(x)
		case []any:
			bad = checkList(x)
		default:
			if !(c.Kind == "hash" && c.Reader == "getlist" && errors.Is(err, types.ErrInvalidType)) {
				bad = fmt.Sprintf("answered (%T, %v)", v, err)
			}
		}
		if bad != "" {
			res.OK = false
			res.Msg = fmt.Sprintf("%s #%d of a %d-member %s while the writer runs: %s", c.Reader, i, n, c.Kind, bad)
		}
	}
	atomic.StoreInt32(&stop, 1)
	wg.Wait()
	res.Writes = atomic.LoadInt64(&writes)
	res.Free = free
	return res
}

// incr: G goroutines x M IncrBy(k, 1) on ONE counter that already exists, on any backend.  Each increment is one atomic
// operation (C13_linearizable_all_schedules; IncrBy is one critical section of memory.Storage, INCRBY one Redis command):
// the returned values are pairwise distinct, they are exactly start+1 .. start+G*M, and that is the final value.
// Runs in the child process like torn (an unlocked read-modify-write is also a Go data race).
func incrChild(c caseIn) tornResult {
	var st kv
	switch c.Backend {
	case "redis":
		side := newRedisSide(100)
		defer side.close()
		st = side.st
	case "hybrid":
		h, done := newHybrid()
		defer done()
		st = h
	default:
		m := memory.New(context.Background())
		defer m.Close()
		st = m
	}
	g, m := c.Fill, c.Reads
	k := "ctr"
	start, err := st.IncrBy(k, 5) // the counter exists before the race
	must(err)
	rets := make([][]int64, g)
	var wg sync.WaitGroup
	var ready int32
	for t := 0; t < g; t++ {
		wg.Add(1)
		go func(t int) {
			defer wg.Done()
			rets[t] = make([]int64, 0, m)
			atomic.AddInt32(&ready, 1)
			for atomic.LoadInt32(&ready) < int32(g) {
			}
			for i := 0; i < m; i++ {
				v, err := st.IncrBy(k, 1)
				if err != nil {
					v = -1
				}
				rets[t] = append(rets[t], v)
			}
		}(t)
	}
	wg.Wait()
	res := tornResult{OK: true, Reads: g * m, Writes: int64(g * m)}
	seen := make(map[int64]bool, g*m)
	dups, outOfRange := 0, 0
	for _, r := range rets {
		for _, v := range r {
			if seen[v] {
				dups++
			}
			seen[v] = true
			if v <= start || v > start+int64(g*m) {
				outOfRange++
			}
		}
	}
	final, err := st.IncrBy(k, 0)
	must(err)
	if dups > 0 || outOfRange > 0 || final != start+int64(g*m) {
		res.OK = false
		res.Msg = fmt.Sprintf("%d goroutines x %d IncrBy(ctr,1) on an existing counter (%s): %d returned values repeated, %d outside %d..%d, final value %d instead of %d — increments were lost", g, m, c.Backend, dups, outOfRange, start+1, start+int64(g*m), final, start+int64(g*m))
	}
	return res
}

// listrace: RemoveFromList racing AppendToList on ONE large list (child process, like incr).  One goroutine appends and removes
// a marker member M times, another appends unique members.  Every call is one atomic operation, so afterwards the list is
// exactly: the base members, every unique member once (in append order), no marker.
func listraceChild(c caseIn) tornResult {
	var st kv
	switch c.Backend {
	case "redis":
		side := newRedisSide(100)
		defer side.close()
		st = side.st
	case "hybrid":
		h, done := newHybrid()
		defer done()
		st = h
	default:
		m := memory.New(context.Background())
		defer m.Close()
		st = m
	}
	n, rounds := c.Fill, c.Reads
	k := "biglist"
	base := make([]any, n)
	for i := range base {
		base[i] = "b" + strconv.Itoa(i)
	}
	must(st.SetList(k, base, 0))
	var wg sync.WaitGroup
	var ready int32
	gate := func() {
		atomic.AddInt32(&ready, 1)
		for atomic.LoadInt32(&ready) < 2 {
		}
	}
	wg.Add(2)
	go func() {
		defer wg.Done()
		gate()
		for i := 0; i < rounds; i++ {
			_ = st.AppendToList(k, "MARK")
			_ = st.RemoveFromList(k, "MARK")
		}
	}()
	go func() {
		defer wg.Done()
		gate()
		for i := 0; i < rounds; i++ {
			_ = st.AppendToList(k, "u"+strconv.Itoa(i))
		}
	}()
	wg.Wait()
	got, err := st.GetList(k)
	must(err)
	res := tornResult{OK: true, Reads: rounds, Writes: int64(3 * rounds)}
	lost, marks, next := 0, 0, 0
	seen := map[string]int{}
	for _, x := range got {
		s, _ := x.(string)
		seen[s]++
		if s == "MARK" {
			marks++
		}
	}
	for i := 0; i < n; i++ {
		if seen["b"+strconv.Itoa(i)] != 1 {
			lost++
		}
	}
	for i := 0; i < rounds; i++ {
		if seen["u"+strconv.Itoa(i)] != 1 {
			lost++
			if next == 0 {
				next = i + 1
			}
		}
	}
	if lost > 0 || marks > 0 || len(got) != n+rounds {
		res.OK = false
		res.Msg = fmt.Sprintf("%s: {AppendToList(MARK); RemoveFromList(MARK)} x %d racing %d AppendToList(u_i) on a %d-member list: %d members missing or duplicated (first u%d), %d markers left, %d members instead of %d — completed appends were lost", c.Backend, rounds, rounds, n, lost, next-1, marks, len(got), n+rounds)
	}
	return res
}

func runTorn(raw []byte, c caseIn) *caseOut {
	out := &caseOut{PropOK: true, FailAt: -1, ShapeEnd: -1}
	exe, err := os.Executable()
	must(err)
	ctx, cancel := context.WithTimeout(context.Background(), 60*time.Second)
	defer cancel()
	cmd := exec.CommandContext(ctx, exe, "tornchild")
	cmd.Stdin = bytes.NewReader(raw)
	var so, se bytes.Buffer
	cmd.Stdout, cmd.Stderr = &so, &se
	runErr := cmd.Run()
	name := c.Reader + "-of-" + c.Kind
	what := fmt.Sprintf("%s on a large %s racing in-place writers", c.Reader, c.Kind)
	keyBase := "mem:reader-vs-in-place-writer:" + name
	if c.Mode == "incr" {
		what = fmt.Sprintf("%d goroutines x %d IncrBy on one existing counter (%s)", c.Fill, c.Reads, c.Backend)
		keyBase = "incr:" + c.Backend + ":concurrent-increments"
	}
	if c.Mode == "listrace" {
		what = fmt.Sprintf("RemoveFromList racing AppendToList on one %d-member list (%s)", c.Fill, c.Backend)
		keyBase = "listrace:" + c.Backend + ":remove-vs-append"
	}
	if runErr != nil {
		head := ""
		for _, l := range bytes.Split(se.Bytes(), []byte("\n")) {
			t := string(bytes.TrimSpace(l))
			if len(t) > 6 && (t[:5] == "fatal" || t[:5] == "panic") {
				head = t
				break
			}
		}
		frames := ""
		for _, l := range bytes.Split(se.Bytes(), []byte("\n")) {
			if bytes.Contains(l, []byte("storage/memory.")) && len(frames) < 300 {
				frames += " <- " + string(bytes.TrimSpace(l))
			}
		}
		out.PropOK = false
		out.PropKey = keyBase + ":crash"
		out.PropMsg = fmt.Sprintf("%s killed the process (%v): %s%s", what, runErr, head, frames)
		return out
	}
	var res tornResult
	must(json.Unmarshal(so.Bytes(), &res))
	out.Obs = []obs{{"torn", res.Reads, res.Writes, res.Free}}
	if res.Reads > 0 && res.Writes > 0 {
		out.Overlap = 1
	}
	if !res.OK {
		out.PropOK = false
		if c.Mode == "incr" || c.Mode == "listrace" {
			out.PropKey = keyBase + ":lost-update"
			out.PropMsg = res.Msg
		} else {
			out.PropKey = keyBase + ":torn-snapshot"
			out.PropMsg = res.Msg + " — not the value of the key at any instant"
		}
	}
	return out
}

func runCase(raw []byte) *caseOut {
	var c caseIn
	dec := json.NewDecoder(bytes.NewReader(raw))
	dec.UseNumber()
	must(dec.Decode(&c))
	switch c.Mode {
	case "mem":
		return runMem(c)
	case "redis":
		return runRedis(c)
	case "conc":
		return runConc(c)
	case "both":
		return runBoth(c)
	case "sweep":
		return runSweep(c)
	case "upgrade":
		return runUpgrade(c)
	case "iso":
		return runIso(c)
	case "torn", "incr", "listrace":
		return runTorn(raw, c)
	}
	panic("unknown mode " + c.Mode)
}

func main() {
	if len(os.Args) > 1 && os.Args[1] == "gen" {
		gen()
		return
	}
	if len(os.Args) > 1 && os.Args[1] == "tornchild" {
		var c caseIn
		must(json.NewDecoder(os.Stdin).Decode(&c))
		if c.Mode == "incr" {
			must(json.NewEncoder(os.Stdout).Encode(incrChild(c)))
			return
		}
		if c.Mode == "listrace" {
			must(json.NewEncoder(os.Stdout).Encode(listraceChild(c)))
			return
		}
		must(json.NewEncoder(os.Stdout).Encode(tornChild(c)))
		return
	}
	if len(os.Args) > 1 && os.Args[1] == "race" {
		raceProbe()
		return
	}
	// all cases are read first; mem cases sleep on the wall clock, so they run concurrently
	in := bufio.NewReaderSize(os.Stdin, 1<<20)
	var lines [][]byte
	for {
		line, err := in.ReadBytes('\n')
		if len(line) > 1 {
			lines = append(lines, line)
		}
		if err != nil {
			break
		}
	}
	par := 24
	if v, err := strconv.Atoi(os.Getenv("VERIF_C13_PAR")); err == nil && v > 0 {
		par = v
	}
	results := make([]*caseOut, len(lines))
	sem := make(chan struct{}, par)
	concMu := sync.Mutex{} // conc cases spin: one at a time
	var wg sync.WaitGroup
	for i := range lines {
		wg.Add(1)
		sem <- struct{}{}
		go func(i int) {
			defer wg.Done()
			defer func() { <-sem }()
			var probe struct {
				Mode string `json:"mode"`
			}
			_ = json.Unmarshal(lines[i], &probe)
			if probe.Mode == "conc" || probe.Mode == "sweep" || probe.Mode == "torn" || probe.Mode == "incr" || probe.Mode == "listrace" {
				concMu.Lock()
				defer concMu.Unlock()
			}
			results[i] = runCase(lines[i])
		}(i)
	}
	wg.Wait()
	w := bufio.NewWriterSize(os.Stdout, 1<<20)
	defer w.Flush()
	enc := json.NewEncoder(w)
	for _, r := range results {
		must(enc.Encode(r))
	}
}

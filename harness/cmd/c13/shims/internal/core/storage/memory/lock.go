//go:build verif

package memory

import (
	"reflect"
	"sync/atomic"
	"unsafe"
)

// VerifMuTryLock / VerifMuUnlock let the C13 harness observe whether some method currently holds Storage.mu
// (read or write): TryLock fails while a CleanupExpired sweep is inside its critical section.
func (m *Storage) VerifMuTryLock() bool { return m.mu.TryLock() }
func (m *Storage) VerifMuUnlock()       { m.mu.Unlock() }

// VerifLen is the number of physical entries (live + expired garbage).
func (m *Storage) VerifLen() int {
	m.mu.RLock()
	defer m.mu.RUnlock()
	return len(m.data)
}

// VerifMuLock takes Storage.mu for writing: callers arriving now park on it (readers in RLock, writers in Lock).
func (m *Storage) VerifMuLock() { m.mu.Lock() }

// VerifMuParked reports, while the harness itself holds the write lock, how many readers are parked in RLock and how
// many writers in Lock.  It reads sync.RWMutex's counters (readerCount, w.state) by reflection; ok=false when the
// layout is not the expected one (the harness then falls back to waiting a fixed time).
func (m *Storage) VerifMuParked() (readers int, writers int, ok bool) {
	defer func() {
		if recover() != nil {
			ok = false
		}
	}()
	v := reflect.ValueOf(&m.mu).Elem()
	rc := v.FieldByName("readerCount")
	if !rc.IsValid() {
		return 0, 0, false
	}
	f := rc.FieldByName("v")
	if !f.IsValid() || f.Kind() != reflect.Int32 {
		return 0, 0, false
	}
	n := int(atomic.LoadInt32((*int32)(unsafe.Pointer(f.UnsafeAddr()))))
	if n < 0 {
		n += 1 << 30
	}
	st, found := findState(v.FieldByName("w"))
	if !found {
		return 0, 0, false
	}
	s := atomic.LoadInt32((*int32)(unsafe.Pointer(st.UnsafeAddr())))
	return n, int(s >> 3), true // mutexWaiterShift = 3
}

func findState(v reflect.Value) (reflect.Value, bool) {
	if !v.IsValid() || v.Kind() != reflect.Struct {
		return reflect.Value{}, false
	}
	if f := v.FieldByName("state"); f.IsValid() && f.Kind() == reflect.Int32 {
		return f, true
	}
	for i := 0; i < v.NumField(); i++ {
		if f, ok := findState(v.Field(i)); ok {
			return f, true
		}
	}
	return reflect.Value{}, false
}

//go:build verif

package memory

// VerifMuTryLock / VerifMuUnlock let the C13 harness observe whether some method currently holds Storage.mu
// (read or write): TryLock fails while a CleanupExpired sweep is inside its critical section.
func (m *Storage) VerifMuTryLock() bool { return m.mu.TryLock() }
func (m *Storage) VerifMuUnlock()       { m.mu.Unlock() }

// VerifLen is the number of physical entries (live + expired garbage).
func (m *Storage) VerifLen() int {
	m.mu.RLock()
	defer m.mu.RUnlock()
	return len(m.data)
}

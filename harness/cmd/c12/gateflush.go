//go:build verif

package main

// mode "udpgate": the UDP -> tunnel direction of the real iocopy.UDP against a tunnel whose k-th Write STALLS:
// it signals entry, blocks on a gate and only then consumes p (copy after release) — a slow, back-pressured
// tunnel.  Script: the local side delivers k-1 datagrams each of which is left to the 20 ms timed flush, then
// datagram A; once the timed flush of A is inside the stalled Write it delivers B, C, ...; then the gate opens.
// The records consumed by the tunnel must be exactly the datagrams in arrival order, and UDP() must not return
// while a tunnel Write is still in flight.

import (
	"io"
	"sync"
	"sync/atomic"
	"time"

	"tunnox-core/internal/utils/iocopy"
)

type gatedTunnel struct {
	mu       sync.Mutex
	gateAt   int // 1-based index of the Write that stalls
	nwrites  int
	entered  chan struct{}
	gate     chan struct{}
	inflight int32
	finished int32 // writes that have returned
	consumed []byte
	writeLen []int
	closed   int32
	cw       int32
	afterCW  int32
}

func (t *gatedTunnel) Read(p []byte) (int, error) { return 0, io.EOF } // nothing comes back from the tunnel
func (t *gatedTunnel) Write(p []byte) (int, error) {
	atomic.AddInt32(&t.inflight, 1)
	defer atomic.AddInt32(&t.inflight, -1)
	if atomic.LoadInt32(&t.cw) > 0 {
		atomic.AddInt32(&t.afterCW, 1)
		return 0, io.ErrClosedPipe // this tunnel honours its half-close
	}
	t.mu.Lock()
	t.nwrites++
	k := t.nwrites
	t.mu.Unlock()
	if k == t.gateAt {
		close(t.entered)
		<-t.gate
	}
	t.mu.Lock()
	t.consumed = append(t.consumed, p...) // only NOW are the bytes taken off the caller's slice
	t.writeLen = append(t.writeLen, len(p))
	t.mu.Unlock()
	atomic.AddInt32(&t.finished, 1)
	return len(p), nil
}
func (t *gatedTunnel) CloseWrite() error { atomic.AddInt32(&t.cw, 1); return nil }
func (t *gatedTunnel) Close() error      { atomic.AddInt32(&t.closed, 1); return nil }

// seqDgram: the local UDP side.  Datagram i < pre is handed out only after i tunnel writes have RETURNED (each
// "pre" datagram leaves alone through a timed flush); datagram pre (= A) likewise; the following ones are
// handed out once the stalled Write has been entered.
type seqDgram struct {
	t       *gatedTunnel
	ds      [][]byte
	pre     int
	next    int32
	handed  int32 // datagrams handed to the relay
	calls   int32 // Read calls started
	closed  int32
}

func (u *seqDgram) Read(p []byte) (int, error) {
	atomic.AddInt32(&u.calls, 1)
	i := int(atomic.AddInt32(&u.next, 1)) - 1
	if i >= len(u.ds) {
		return 0, io.EOF
	}
	if i <= u.pre {
		for int(atomic.LoadInt32(&u.t.finished)) < i { // the previous datagram has left through its own flush
			time.Sleep(200 * time.Microsecond)
		}
	} else if i == u.pre+1 {
		<-u.t.entered // the timed flush of A is inside the stalled tunnel Write
	}
	n := copy(p, u.ds[i])
	atomic.AddInt32(&u.handed, 1)
	return n, nil
}
func (u *seqDgram) Write(p []byte) (int, error) { return len(p), nil }
func (u *seqDgram) Close() error                { atomic.AddInt32(&u.closed, 1); return nil }

type gateObs struct {
	Returned            bool     `json:"returned"`
	ReturnedDuringWrite bool     `json:"returned_during_write"`
	Records             []string `json:"records"`   // de-framed from what the tunnel consumed
	Tail                int      `json:"tail"`      // 0 clean, 1 partial record, 2 zero length field
	TunnelOut           string   `json:"tunnel_out"`
	WriteLens           []int    `json:"write_lens"`
	Sent                int64    `json:"sent"`
	SendErr             int      `json:"send_err"`
	EarlyReads          bool     `json:"early_reads"` // the relay asked for a further datagram while the Write was stalled
}

func runUDPGateCase(c *caseIn, out *caseOut) {
	ds := decodeDgrams(c.Dgrams)
	pre := c.Pre
	if pre < 0 || pre+2 > len(ds) {
		panic("udpgate: need pre+2 <= len(dgrams)")
	}
	t := &gatedTunnel{gateAt: pre + 1, entered: make(chan struct{}), gate: make(chan struct{})}
	u := &seqDgram{t: t, ds: ds, pre: pre}
	done := make(chan *iocopy.Result, 1)
	go func() { done <- iocopy.UDP(u, t, &iocopy.Options{LogPrefix: "verif"}) }()
	o := &gateObs{}
	out.G = o
	var res *iocopy.Result
	select {
	case <-t.entered:
	case res = <-done:
	case <-time.After(watchdog):
		fatalHang = true
		out.fail("udpgate-no-timed-flush", "datagram %d was never written to the tunnel by the timed flush", pre)
		return
	}
	if res == nil {
		// the stalled Write is in progress; B is being handed out.  A relay that keeps the batch buffer under its lock
		// now blocks; one that does not will come back for more datagrams.
		deadline := time.Now().Add(12 * time.Millisecond)
		for time.Now().Before(deadline) {
			if int(atomic.LoadInt32(&u.calls)) > pre+2 {
				o.EarlyReads = true
				break
			}
			time.Sleep(200 * time.Microsecond)
		}
		if o.EarlyReads {
			// give it the chance to finish everything else — and to return — while the Write is still stalled
			select {
			case res = <-done:
				o.ReturnedDuringWrite = atomic.LoadInt32(&t.inflight) > 0
			case <-time.After(60 * time.Millisecond):
			}
		}
		close(t.gate)
	}
	if res == nil {
		select {
		case res = <-done:
		case <-time.After(watchdog):
			fatalHang = true
		}
	}
	if res != nil {
		o.Returned = true
		o.Sent, o.SendErr = res.BytesSent, errClass(res.SendError)
	}
	time.Sleep(time.Millisecond)
	t.mu.Lock()
	stream := append([]byte(nil), t.consumed...)
	o.WriteLens = append([]int(nil), t.writeLen...)
	t.mu.Unlock()
	o.TunnelOut = hx(stream)
	recs, tail := refRecords(stream)
	o.Tail = tail
	o.Records = []string{}
	for _, r := range recs {
		o.Records = append(o.Records, hx(r))
	}
	if !o.Returned {
		out.fail("udp-no-return", "udpgate: iocopy.UDP did not return after the stalled tunnel Write was released")
		return
	}
	var want [][]byte
	for _, d := range ds {
		if len(d) > 0 {
			want = append(want, d)
		}
	}
	if tail != 0 || !eqDgrams(recs, want) {
		out.fail("udpgate-stream", "datagrams %d.. arrived while the timed flush of datagram %d was stalled inside tunnel Write: the tunnel consumed %d records (tail kind %d), expected exactly the %d datagrams in arrival order (first difference at record %d)",
			pre+1, pre, len(recs), tail, len(want), firstDiff(recs, want))
	}
	if o.ReturnedDuringWrite {
		out.fail("udpgate-return-during-write", "iocopy.UDP returned while a tunnel Write (the timed flush of datagram %d) was still in flight", pre)
	}
	if atomic.LoadInt32(&t.afterCW) != 0 {
		out.fail("udp-write-after-half-close", "udpgate: %d tunnel Writes came after the tunnel had been half-closed", atomic.LoadInt32(&t.afterCW))
	}
	if o.Sent != int64(sumLen(want)) {
		out.fail("udpgate-sent-count", "BytesSent=%d for %d bytes of datagrams", o.Sent, sumLen(want))
	}
}

func firstDiff(a, b [][]byte) int {
	for i := 0; i < len(a) && i < len(b); i++ {
		if string(a[i]) != string(b[i]) {
			return i
		}
	}
	if len(a) < len(b) {
		return len(a)
	}
	return len(b)
}

//go:build verif

package main

// mode "tunpeer": the real client tunnel (internal/client/tunnel: NewTunnelManager, NewTunnel, RegisterTunnel, Start ->
//                 runDataCopy -> iocopy.Bidirectional / iocopy.UDP) with an IDLE local side — an application that neither
//                 sends nor closes on its own (and ignores a FIN) — and a tunnel that stays open until it is closed.  The
//                 peer's close notification (manager.OnPeerClosed -> NotifyPeerClosed -> Close) must end the relay: the
//                 local->tunnel goroutine blocked in localConn.Read has to be released.
// mode "poolprobe": a relay whose local->tunnel direction ends with a tunnel WRITE ERROR (and other endings), after which
//                 the relay's copy-buffer pool must still hand a distinct buffer to every copy direction that starts:
//                 two concurrently active directions sharing one 32 KB array deliver each other's bytes.

import (
	"context"
	"io"
	"runtime"
	"sync"
	"sync/atomic"
	"time"

	"tunnox-core/internal/client/tunnel"
	"tunnox-core/internal/utils/iocopy"
)

// idleConn: Read blocks until Close; Write accepts; CloseWrite (when present) is a FIN the application ignores
type idleConn struct {
	name     string
	closed   chan struct{}
	once     sync.Once
	inRead   int32
	reads    int32
	closes   int32
	cw       int32
}

func newIdleConn(name string) *idleConn { return &idleConn{name: name, closed: make(chan struct{})} }
func (c *idleConn) Read(p []byte) (int, error) {
	atomic.AddInt32(&c.reads, 1)
	atomic.AddInt32(&c.inRead, 1)
	defer atomic.AddInt32(&c.inRead, -1)
	<-c.closed
	return 0, io.EOF
}
func (c *idleConn) Write(p []byte) (int, error) {
	select {
	case <-c.closed:
		return 0, io.ErrClosedPipe
	default:
		return len(p), nil
	}
}
func (c *idleConn) Close() error {
	atomic.AddInt32(&c.closes, 1)
	c.once.Do(func() { close(c.closed) })
	return nil
}

type idleConnCW struct{ *idleConn }

func (c idleConnCW) CloseWrite() error { atomic.AddInt32(&c.cw, 1); return nil }

type nopClient struct{}

func (nopClient) SendTunnelCloseNotify(targetClientID int64, tunnelID, mappingID, reason string) error {
	return nil
}

type tunPeerObs struct {
	Started        bool  `json:"started"`
	LocalReleased  bool  `json:"local_read_released"`
	TunnelReleased bool  `json:"tunnel_read_released"`
	LocalCloses    int32 `json:"local_closes"`
	OnClosedCalls  int32 `json:"on_closed_calls"`
	WaitedMs       int64 `json:"waited_ms"`
}

func runTunPeerCase(c *caseIn, out *caseOut) {
	o := &tunPeerObs{}
	out.TP = o
	ctx, cancel := context.WithCancel(context.Background())
	defer cancel()
	mgr := tunnel.NewTunnelManager(ctx, tunnel.TunnelRoleListen)
	local := newIdleConn("local")
	tun := newIdleConn("tunnel")
	var localRWC io.ReadWriteCloser = local
	if c.Pre == 1 { // the local side is half-closable (a TCP socket): the FIN does not make an idle application close
		localRWC = idleConnCW{local}
	}
	var onClosed int32
	proto := "tcp"
	if c.Mode2 == "udp" {
		proto = "udp"
	}
	tn := tunnel.NewTunnel(&tunnel.TunnelConfig{ID: "verif-tunnel", MappingID: "m", Role: tunnel.TunnelRoleListen, Protocol: proto,
		LocalConn: localRWC, TunnelRWC: tun, TargetClient: 7, Manager: mgr, Client: nopClient{},
		OnClosed: func(reason tunnel.CloseReason, err error) { atomic.AddInt32(&onClosed, 1) }})
	must(mgr.RegisterTunnel(tn))
	must(tn.Start())
	// both relay directions are blocked in their Reads
	deadline := time.Now().Add(watchdog)
	for (atomic.LoadInt32(&local.inRead) == 0 || atomic.LoadInt32(&tun.inRead) == 0) && time.Now().Before(deadline) {
		time.Sleep(100 * time.Microsecond)
	}
	o.Started = atomic.LoadInt32(&local.inRead) > 0 && atomic.LoadInt32(&tun.inRead) > 0
	if !o.Started {
		out.fail("tunpeer-setup", "the tunnel's relay did not start reading both sides")
		return
	}
	t0 := time.Now()
	mgr.OnPeerClosed("verif-tunnel", "peer closed", nil)
	// the relay has to come to an end: both blocked Reads released (2 s is only ever waited on failure)
	limit := time.Now().Add(2 * time.Second)
	for time.Now().Before(limit) {
		if atomic.LoadInt32(&local.inRead) == 0 && atomic.LoadInt32(&tun.inRead) == 0 {
			break
		}
		time.Sleep(100 * time.Microsecond)
	}
	o.WaitedMs = time.Since(t0).Milliseconds()
	o.LocalReleased = atomic.LoadInt32(&local.inRead) == 0
	o.TunnelReleased = atomic.LoadInt32(&tun.inRead) == 0
	o.LocalCloses = atomic.LoadInt32(&local.closes)
	o.OnClosedCalls = atomic.LoadInt32(&onClosed)
	if !o.TunnelReleased {
		out.fail("tunpeer-tunnel-not-closed", "after the peer's close notification the tunnel side of the relay is still blocked in Read")
	}
	if !o.LocalReleased {
		out.fail("tunpeer-relay-never-returns", "after the peer's close notification (%s tunnel, idle local application, half-closable=%v) the relay's local->tunnel direction is still blocked in localConn.Read: nobody closed the local connection (Close calls: %d), the relay never returns",
			proto, c.Pre == 1, o.LocalCloses)
		local.Close() // release the goroutine before the next case
	}
	if o.OnClosedCalls != 1 {
		out.fail("tunpeer-onclosed", "OnClosed ran %d times", o.OnClosedCalls)
	}
	mgr.Close()
}

// ---- poolprobe -------------------------------------------------------------------------------------

type poolObs struct {
	Relays     int  `json:"relays_run"`
	Taken      int  `json:"buffers_taken"`
	Duplicates int  `json:"duplicates"`
}

func runPoolProbeCase(c *caseIn, out *caseOut) {
	o := &poolObs{}
	out.PP = o
	// one P: Put and Get meet in the same per-P pool, so what a finished relay put back is what the next directions get
	prev := runtime.GOMAXPROCS(1)
	defer runtime.GOMAXPROCS(prev)
	for _, rc := range c.Relays {
		rc := rc
		rc.Mode = "tcp"
		sub := &caseOut{PropOK: true}
		runTCPCase(&rc, sub)
		o.Relays++
		if !sub.PropOK {
			out.fail(sub.PropKey, "poolprobe relay %d: %s", o.Relays, sub.PropMsg)
			return
		}
	}
	ptrs, ids := iocopy.VerifTakeCopyBuffers(8)
	o.Taken = len(ids)
	seen := map[uintptr]int{}
	for _, id := range ids {
		seen[id]++
	}
	for _, n := range seen {
		if n > 1 {
			o.Duplicates += n - 1
		}
	}
	iocopy.VerifReturnCopyBuffers(ptrs)
	if o.Duplicates > 0 {
		out.fail("tcp-copy-buffer-shared", "after %d relays (one of them ended by a tunnel write error) the relay's copy-buffer pool hands the SAME 32 KB buffer to %d of the next %d copy directions: concurrently active directions would overwrite and deliver each other's bytes",
			o.Relays, o.Duplicates+1, o.Taken)
	}
}

//go:build verif

package main

// mode "tcpreal":   iocopy.Bidirectional with a REAL loopback *net.TCPConn as the local side.  The application sends a
//                   request, half-closes, and only starts reading (through a 4 KB receive buffer) after Bidirectional has
//                   RETURNED: every byte the relay counted as delivered must still reach it (no sleeps: gated on return).
// mode "udptrickle": the local UDP side trickles small datagrams with gaps well below the 20 ms flush interval and far
//                   below the size thresholds; the flow only stops once the tunnel has seen a Write (or after a generous
//                   bound): batched datagrams must leave through the timed flush WHILE the flow continues.

import (
	"bytes"
	"io"
	"net"
	"sync"
	"sync/atomic"
	"syscall"
	"time"

	"tunnox-core/internal/utils/iocopy"
)

type tcpRealObs struct {
	Skipped   string `json:"skipped,omitempty"`
	Returned  bool   `json:"returned"`
	AppGot    int    `json:"app_received"`
	AppErr    string `json:"app_read_error,omitempty"`
	Recv      int64  `json:"recv"`
	Sent      int64  `json:"sent"`
	SendErr   int    `json:"send_err"`
	RecvErr   int    `json:"recv_err"`
	ReqAtPeer int    `json:"request_bytes_at_tunnel"`
}

func runTCPRealCase(c *caseIn, out *caseOut) {
	o := &tcpRealObs{}
	out.TR = o
	ln, err := net.Listen("tcp4", "127.0.0.1:0")
	if err != nil {
		o.Skipped = "no loopback TCP: " + err.Error()
		return
	}
	defer ln.Close()
	dialer := net.Dialer{Control: func(network, address string, rc syscall.RawConn) error {
		var serr error
		if cerr := rc.Control(func(fd uintptr) {
			serr = syscall.SetsockoptInt(int(fd), syscall.SOL_SOCKET, syscall.SO_RCVBUF, 4096)
		}); cerr != nil {
			return cerr
		}
		return serr
	}}
	app, err := dialer.Dial("tcp4", ln.Addr().String())
	if err != nil {
		o.Skipped = "no loopback TCP: " + err.Error()
		return
	}
	defer app.Close()
	local, err := ln.Accept()
	if err != nil {
		o.Skipped = "no loopback TCP: " + err.Error()
		return
	}
	local.(*net.TCPConn).SetNoDelay(true)
	local.(*net.TCPConn).SetWriteBuffer(1 << 20)

	resp := unhx(c.B.Data)
	log := &evlog{}
	spec := c.B
	spec.Gate, spec.Wrap, spec.WLimit = 0, 0, -1 // the tunnel answers only after it has been half-closed
	tun := newStreamFake("b", spec, log, make(chan string, 2))
	done := make(chan *iocopy.Result, 1)
	go func() { done <- iocopy.Bidirectional(local, tun, &iocopy.Options{LogPrefix: "verif"}) }()
	req := unhx(c.A.Data)
	if _, err := app.Write(req); err != nil {
		o.Skipped = "loopback write failed: " + err.Error()
		return
	}
	app.(*net.TCPConn).CloseWrite()
	var res *iocopy.Result
	select {
	case res = <-done:
		o.Returned = true
	case <-time.After(watchdog):
		fatalHang = true
	}
	// only now does the application read
	app.SetReadDeadline(time.Now().Add(watchdog))
	got, rerr := io.ReadAll(app)
	o.AppGot = len(got)
	if rerr != nil {
		o.AppErr = rerr.Error()
	}
	tun.mu.Lock()
	o.ReqAtPeer = len(tun.written)
	reqOK := bytes.Equal(tun.written, req)
	tun.mu.Unlock()
	if res != nil {
		o.Sent, o.Recv = res.BytesSent, res.BytesReceived
		o.SendErr, o.RecvErr = errClass(res.SendError), errClassOf(res.ReceiveError, c.B.End)
	}
	if !o.Returned {
		out.fail("tcp-no-return", "tcpreal: Bidirectional did not return although both sides had finished")
		return
	}
	if !reqOK {
		out.fail("tcp-a2b-incomplete", "tcpreal: the tunnel received %d of the %d request bytes", o.ReqAtPeer, len(req))
	}
	if o.Recv != int64(len(resp)) || (c.B.End == 0 && o.RecvErr != 0) {
		out.fail("tcp-result-recv", "tcpreal: BytesReceived=%d (ReceiveError class %d) for a %d-byte response", o.Recv, o.RecvErr, len(resp))
	}
	if rerr != nil || !bytes.Equal(got, resp) {
		out.fail("tcpreal-delivered-bytes-lost", "a real TCP application that half-closed and read only after Bidirectional had returned received %d of the %d bytes the relay reports as delivered (read error: %v)",
			len(got), len(resp), rerr)
	}
}

// ---- udptrickle ---------------------------------------------------------------------------------

type trickleUDP struct {
	t        *trickleTunnel
	gap      time.Duration
	max      int
	bound    time.Duration
	start    time.Time
	handed   int32
	stopWhy  string
	payload  []byte
}

func (u *trickleUDP) Read(p []byte) (int, error) {
	if u.start.IsZero() {
		u.start = time.Now()
	}
	if atomic.LoadInt32(&u.t.nwrites) > 0 {
		u.stopWhy = "tunnel-write-seen"
		return 0, io.EOF
	}
	if int(u.handed) >= u.max || time.Since(u.start) > u.bound {
		u.stopWhy = "bound-reached"
		return 0, io.EOF
	}
	if u.handed > 0 {
		time.Sleep(u.gap)
	}
	u.handed++
	return copy(p, u.payload), nil
}
func (u *trickleUDP) Write(p []byte) (int, error) { return len(p), nil }
func (u *trickleUDP) Close() error                { return nil }

type trickleTunnel struct {
	mu        sync.Mutex
	nwrites   int32
	firstAt   time.Time
	handedAt1 int32 // datagrams handed out when the first Write arrived
	u         *trickleUDP
	consumed  []byte
}

func (t *trickleTunnel) Read(p []byte) (int, error) { return 0, io.EOF }
func (t *trickleTunnel) Write(p []byte) (int, error) {
	t.mu.Lock()
	if t.nwrites == 0 {
		t.firstAt = time.Now()
		t.handedAt1 = atomic.LoadInt32(&t.u.handed)
	}
	t.consumed = append(t.consumed, p...)
	t.mu.Unlock()
	atomic.AddInt32(&t.nwrites, 1)
	return len(p), nil
}
func (t *trickleTunnel) CloseWrite() error { return nil }
func (t *trickleTunnel) Close() error      { return nil }

type trickleObs struct {
	Returned     bool   `json:"returned"`
	Handed       int    `json:"datagrams_handed"`
	StopWhy      string `json:"stopped_because"`
	FirstWriteMs int64  `json:"first_tunnel_write_ms"`
	Records      int    `json:"records_at_tunnel"`
}

func runUDPTrickleCase(c *caseIn, out *caseOut) {
	o := &trickleObs{}
	out.TK = o
	t := &trickleTunnel{}
	n := c.Trickle
	if n <= 0 {
		n = 400
	}
	// gaps of 2 ms (< 20 ms flush interval), 16-byte datagrams (nowhere near the 128 KB / 256 KB thresholds); the flow goes
	// on for at most 2 s of real time — on a relay that flushes on every tick it stops after the first tick
	u := &trickleUDP{t: t, gap: 2 * time.Millisecond, max: n, bound: 2 * time.Second, payload: bytes.Repeat([]byte{0x5a}, 16)}
	t.u = u
	done := make(chan *iocopy.Result, 1)
	go func() { done <- iocopy.UDP(u, t, &iocopy.Options{LogPrefix: "verif"}) }()
	select {
	case <-done:
		o.Returned = true
	case <-time.After(watchdog):
		fatalHang = true
	}
	o.Handed, o.StopWhy = int(u.handed), u.stopWhy
	t.mu.Lock()
	if !t.firstAt.IsZero() {
		o.FirstWriteMs = t.firstAt.Sub(u.start).Milliseconds()
	}
	recs, tail := refRecords(t.consumed)
	t.mu.Unlock()
	o.Records = len(recs)
	if !o.Returned {
		out.fail("udp-no-return", "udptrickle: iocopy.UDP did not return")
		return
	}
	if u.stopWhy != "tunnel-write-seen" {
		out.fail("udptrickle-never-flushed-while-flowing", "a steady trickle of %d small datagrams (2 ms apart, %d ms in all) reached the tunnel only when the local side ended: nothing left through the timed flush while the flow continued",
			o.Handed, time.Since(u.start).Milliseconds())
	}
	if tail != 0 || len(recs) != o.Handed {
		out.fail("udp-encode", "udptrickle: %d datagrams handed to the relay, the tunnel holds %d records (tail kind %d)", o.Handed, len(recs), tail)
	}
}

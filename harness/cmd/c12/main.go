//go:build verif

// verif_c12: drives the real iocopy.UDP and iocopy.Bidirectional between scripted fake endpoints.
//
//	mode "udp":  one iocopy.UDP call; the UDP side reads the scripted datagrams then ends, the tunnel side
//	             reads the scripted byte stream under a chunk oracle then ends (EOF / error, optionally
//	             delivered together with the last chunk).
//	mode "rt":   two iocopy.UDP calls: datagrams -> relay #1 -> tunnel bytes, cut at `cut`, chunked -> relay #2
//	             -> datagrams (the property's round trip, cut at any byte offset).
//	mode "tcp":  one iocopy.Bidirectional call between two scripted stream endpoints (chunking, write
//	             faults, a gate that releases part of one side's data only after that side was half-closed).
//
// A relay that keeps reading a tunnel that has already ended is detected by the fake itself (bounded number
// of reads after the end); the offending goroutine is then parked for ever, never busy.
package main

import (
	"encoding/json"
	"errors"
	"fmt"
	"go/ast"
	"go/constant"
	"go/parser"
	"go/token"
	"io"
	"net"
	"os"
	"path/filepath"
	"sync"
	"sync/atomic"
	"time"

	"tunnox-core/internal/client/mapping"
	"tunnox-core/internal/cloud/constants"
	"tunnox-core/internal/utils/iocopy"
)

var (
	errRead   = errors.New("verif: scripted read error")
	errWrite  = errors.New("verif: scripted write error")
	errClosed = errors.New("verif: use of closed fake connection")
)

const spinLimit = 64 // Reads tolerated after the stream has already reported its end

// failure kinds of an endpoint's read side (spec field `end` / `uend`); every one of them is STICKY: once reported,
// every further Read reports it again
type netErr struct {
	to, tmp bool
}

func (e *netErr) Error() string   { return fmt.Sprintf("verif: net.Error timeout=%v temporary=%v", e.to, e.tmp) }
func (e *netErr) Timeout() bool   { return e.to }
func (e *netErr) Temporary() bool { return e.tmp }

var kindErrs = []error{io.EOF, errRead, io.ErrUnexpectedEOF, net.ErrClosed, os.ErrDeadlineExceeded,
	&netErr{false, false}, &netErr{false, true}, &netErr{true, false}, &netErr{true, true}, io.ErrClosedPipe}
var kindNames = []string{"io.EOF", "plain error", "io.ErrUnexpectedEOF", "net.ErrClosed", "os.ErrDeadlineExceeded",
	"net.Error{timeout=false,temporary=false}", "net.Error{timeout=false,temporary=true}",
	"net.Error{timeout=true,temporary=false}", "net.Error{timeout=true,temporary=true}", "io.ErrClosedPipe"}

func endErrOf(kind int) error {
	if kind < 0 || kind >= len(kindErrs) {
		panic("bad end kind")
	}
	return kindErrs[kind]
}

// the scripted read-end kinds of the case being run: a Result error identical to one of them is "the read error"
var caseKinds []int // kept for the probes; classification is per direction (errClassOf)

// errClassOf: class of a Result error, given the scripted failure kind(s) of the read side that feeds that direction:
// an error identical to that scripted failure is "the read error" (1)
func errClassOf(e error, kinds ...int) int {
	for _, k := range kinds {
		if k >= 1 && e == kindErrs[k] {
			return 1
		}
	}
	return errClass(e)
}

func errClass(e error) int {
	switch {
	case e == nil:
		return 0
	case e == errRead:
		return 1
	case e == errWrite:
		return 2
	case e == io.ErrUnexpectedEOF:
		return 3
	case e == io.ErrShortWrite:
		return 4
	case e == errClosed:
		return 5
	case e == io.EOF:
		return 6
	}
	return 7
}

// ---------------------------------------------------------------------------------------------
// event log shared by the two fakes of one relay call
// ---------------------------------------------------------------------------------------------

type evlog struct {
	mu  sync.Mutex
	evs []string
}

func (l *evlog) add(s string) {
	l.mu.Lock()
	l.evs = append(l.evs, s)
	l.mu.Unlock()
}
func (l *evlog) snapshot() []string {
	l.mu.Lock()
	defer l.mu.Unlock()
	return append([]string(nil), l.evs...)
}

// ---------------------------------------------------------------------------------------------
// stream fake (tunnel side of UDP, both sides of Bidirectional)
// ---------------------------------------------------------------------------------------------

type streamSpec struct {
	Data   string `json:"data"`   // hex: bytes this endpoint will hand to Read
	Cuts   []int  `json:"cuts"`   // chunk oracle (0 treated as 1; exhausted = everything that is left)
	End    int    `json:"end"`    // 0 io.EOF, 1 error
	WD     bool   `json:"wd"`     // the final chunk is returned together with the end error
	WLimit int    `json:"wlimit"` // -1: accepts everything; else total bytes accepted before the write fault
	WKind  int    `json:"wkind"`  // 0: fault = error, 1: fault = short write without error
	Gate   int    `json:"gate"`   // -1 none; else: bytes from this offset on are released only after this endpoint was half-closed
	//                               (or, when its wrapping makes the half-close invisible, after the peer reported its end)
	Wrap int `json:"wrap"` // how the endpoint is handed to the relay, see wrapEndpoint
	WFailAt     int  `json:"wfailat"`      // index of the Write that fails consuming nothing (0 = none; k>0: the k-th Write)
	WFailSticky bool `json:"wfailsticky"`  // ... and every later Write too
	Lax  bool `json:"lax"` // false: the endpoint ENFORCES its half-close (a Write after CloseWrite fails with io.ErrClosedPipe)
	IdleS int `json:"idle_s"` // gated endpoints: logical seconds the peer stays silent after the half-close before it goes on
	Empties []bool `json:"empties"` // Empties[i]: the i-th Read call returns (0, nil) — allowed by io.Reader — and consumes nothing
}

type streamFake struct {
	name string
	log  *evlog
	spin chan string

	mu          sync.Mutex
	cond        *sync.Cond
	data        []byte
	pos         int
	cuts        []int
	end         int
	wd          bool
	gate        int
	ended       bool
	readsAfter  int
	closed      bool
	cw          int
	closes      int
	written     []byte
	writes      int
	wlimit      int
	wkind       int
	ioAfterClos int

	idle         time.Duration // logical idle period served when the gate opens
	idled        bool
	clockOff     time.Duration // logical clock = real clock + clockOff
	deadline     time.Time     // read deadline armed through SetReadDeadline (net.Conn semantics, absolute)
	deadlineSets int
	deadlineHits int
	wfailAt      int
	wfailSticky  bool
	wcalls       int
	wfailed      int
	lax          bool
	empties      []bool
	readIdx      int
	writeAfterCW int
	beforeRead  func(idx int) // called (without the lock) at the start of the idx-th Read
	readCalls   int
	hcInvisible bool   // the wrapping turns tryCloseWrite into a no-op: the gate opens on the peer's end instead
	peerEnded   *int32 // set (atomically) by the peer endpoint when it has reported its end to the relay
	selfEnded   int32
	onEnd       func()
	slept       bool
}

func (f *streamFake) released() bool {
	return f.cw > 0 || (f.hcInvisible && f.peerEnded != nil && atomic.LoadInt32(f.peerEnded) == 1)
}

func (f *streamFake) wake() {
	f.mu.Lock()
	f.cond.Broadcast()
	f.mu.Unlock()
}

func (f *streamFake) markEnded() {
	f.ended = true
	if atomic.SwapInt32(&f.selfEnded, 1) == 0 && f.onEnd != nil {
		go f.onEnd()
	}
}

func newStreamFake(name string, s streamSpec, log *evlog, spin chan string) *streamFake {
	f := &streamFake{name: name, log: log, spin: spin, data: unhx(s.Data), cuts: append([]int(nil), s.Cuts...),
		end: s.End, wd: s.WD, gate: s.Gate, wlimit: s.WLimit, wkind: s.WKind, lax: s.Lax, empties: s.Empties, wfailAt: s.WFailAt, wfailSticky: s.WFailSticky,
		idle: time.Duration(s.IdleS) * time.Second}
	f.cond = sync.NewCond(&f.mu)
	return f
}

func (f *streamFake) endErr() error { return endErrOf(f.end) }

func (f *streamFake) Read(p []byte) (int, error) {
	if f.beforeRead != nil {
		f.mu.Lock()
		idx := f.readCalls
		f.readCalls++
		f.mu.Unlock()
		f.beforeRead(idx)
	}
	f.mu.Lock()
	defer f.mu.Unlock()
	if len(p) == 0 {
		return 0, nil
	}
	if f.closed {
		f.ioAfterClos++
		return 0, errClosed
	}
	if f.readIdx < len(f.empties) {
		f.readIdx++
		if f.empties[f.readIdx-1] {
			return 0, nil // an empty read: no data, no error
		}
	}
	for {
		if f.closed {
			f.ioAfterClos++
			return 0, errClosed
		}
		if f.gate >= 0 && f.pos >= f.gate && f.pos < len(f.data) {
			if !f.released() {
				f.cond.Wait() // the peer only talks again after it has seen our half-close
				continue
			}
			if f.idle > 0 && !f.idled {
				// the peer stays silent for f.idle of LOGICAL time after the half-close (no real waiting); a short real
				// pause lets the relay finish whatever it does right after tryCloseWrite
				f.idled = true
				f.clockOff += f.idle
				f.mu.Unlock()
				time.Sleep(3 * time.Millisecond)
				f.mu.Lock()
				continue
			}
			if f.cw == 0 && !f.slept {
				// opened by the peer's end: give the relay time to run its (invisible) tryCloseWrite on us
				f.slept = true
				f.mu.Unlock()
				time.Sleep(5 * time.Millisecond)
				f.mu.Lock()
				continue
			}
		}
		break
	}
	if !f.deadline.IsZero() && time.Now().Add(f.clockOff).After(f.deadline) {
		f.deadlineHits++
		return 0, os.ErrDeadlineExceeded // net.Conn semantics: an expired absolute deadline fails every Read
	}
	if f.pos >= len(f.data) {
		if f.ended {
			f.readsAfter++
			if f.readsAfter > spinLimit {
				select {
				case f.spin <- f.name:
				default:
				}
				f.mu.Unlock()
				select {} // park the spinning goroutine for ever
			}
		}
		f.markEnded()
		return 0, f.endErr()
	}
	k := len(f.data) - f.pos
	if len(f.cuts) > 0 {
		k = f.cuts[0]
		if k < 1 {
			k = 1
		}
		f.cuts = f.cuts[1:]
	}
	if k > len(p) {
		k = len(p)
	}
	if k > len(f.data)-f.pos {
		k = len(f.data) - f.pos
	}
	if f.gate >= 0 && !f.released() && f.pos < f.gate && f.pos+k > f.gate {
		k = f.gate - f.pos
	}
	copy(p, f.data[f.pos:f.pos+k])
	f.pos += k
	if f.wd && f.pos >= len(f.data) {
		f.markEnded()
		return k, f.endErr()
	}
	return k, nil
}

func (f *streamFake) Write(p []byte) (int, error) {
	f.mu.Lock()
	defer f.mu.Unlock()
	if f.closed {
		f.ioAfterClos++
		return 0, errClosed
	}
	if !f.lax && f.cw > 0 {
		f.writeAfterCW++
		return 0, io.ErrClosedPipe // the write side has been shut down
	}
	f.wcalls++
	if f.wfailAt > 0 && (f.wcalls == f.wfailAt || (f.wfailSticky && f.wcalls > f.wfailAt)) {
		f.wfailed++
		return 0, errWrite // the transport refuses this Write; nothing was consumed
	}
	f.writes++
	if f.wlimit >= 0 && len(f.written)+len(p) > f.wlimit {
		k := f.wlimit - len(f.written)
		if k < 0 {
			k = 0
		}
		f.written = append(f.written, p[:k]...)
		if f.wkind == 1 {
			return k, nil
		}
		return k, errWrite
	}
	f.written = append(f.written, p...)
	return len(p), nil
}

func (f *streamFake) halfClose(tag string) error {
	f.mu.Lock()
	f.cw++
	f.cond.Broadcast()
	f.mu.Unlock()
	f.log.add(tag + ":" + f.name)
	return nil
}

func (f *streamFake) CloseWrite() error { return f.halfClose("cw") }

// SetReadDeadline: like a net.Conn; evaluated against the endpoint's logical clock
func (f *streamFake) SetReadDeadline(t time.Time) error {
	f.mu.Lock()
	f.deadline = t
	if !t.IsZero() {
		f.deadlineSets++
	}
	f.cond.Broadcast()
	f.mu.Unlock()
	return nil
}

// ---------------------------------------------------------------------------------------------
// how an endpoint is handed to the relay: the REAL constructors of internal/utils/iocopy, in the
// configurations the client call sites use (internal/client/mapping/base.go, target_handler.go createTunnelRWC,
// socks5_tunnel.go forwardData: NewReadWriteCloser(streamReader, streamWriter, closeFunc); with GetReader/
// GetWriter == nil the reader/writer is the net.Conn itself, i.e. a writer that HAS CloseWrite) and the others
// ---------------------------------------------------------------------------------------------

type readerOnly struct{ f *streamFake }

func (r readerOnly) Read(p []byte) (int, error) { return r.f.Read(p) }

type writerOnly struct{ f *streamFake } // an io.Writer without CloseWrite (a stream-processor writer)

func (w writerOnly) Write(p []byte) (int, error) { return w.f.Write(p) }

type writerCW struct{ f *streamFake } // an io.Writer with CloseWrite (a *net.TCPConn used as writer)

func (w writerCW) Write(p []byte) (int, error) { return w.f.Write(p) }
func (w writerCW) CloseWrite() error           { return w.f.CloseWrite() }

type rawNoCW struct{ f *streamFake } // io.ReadWriteCloser without CloseWrite

func (r rawNoCW) Read(p []byte) (int, error)  { return r.f.Read(p) }
func (r rawNoCW) Write(p []byte) (int, error) { return r.f.Write(p) }
func (r rawNoCW) Close() error                { return r.f.Close() }
func (r rawNoCW) SetReadDeadline(t time.Time) error { return r.f.SetReadDeadline(t) }

// expected (CloseWrite reaching the endpoint, closeWriteFunc calls, Close reaching the endpoint) per wrap:
// proved for the model as Properties/C12.v C12_wrapper_dispatch_table
var wrapExpect = [7][3]int{{1, 0, 1}, {0, 0, 1}, {0, 0, 1}, {1, 0, 1}, {0, 1, 1}, {0, 1, 1}, {0, 0, 0}}

func wrapInvisible(wrap int) bool { return wrap == 1 || wrap == 2 || wrap == 6 }

func wrapEndpoint(f *streamFake, wrap int) io.ReadWriteCloser {
	var rwc io.ReadWriteCloser
	var err error
	cwf := func() error { return f.halfClose("cwf") }
	switch wrap {
	case 0:
		return f
	case 1:
		return rawNoCW{f}
	case 2:
		rwc, err = iocopy.NewReadWriteCloser(readerOnly{f}, writerOnly{f}, f.Close)
	case 3:
		rwc, err = iocopy.NewReadWriteCloser(readerOnly{f}, writerCW{f}, f.Close)
	case 4:
		rwc, err = iocopy.NewReadWriteCloserWithCloseWrite(readerOnly{f}, writerOnly{f}, f.Close, cwf)
	case 5:
		rwc, err = iocopy.NewReadWriteCloserWithCloseWrite(readerOnly{f}, writerCW{f}, f.Close, cwf)
	case 6:
		rwc, err = iocopy.NewReadWriteCloser(readerOnly{f}, writerOnly{f}, nil)
	default:
		panic("bad wrap")
	}
	must(err)
	return rwc
}

// checkWrapEvents: the half-close / close calls that reached endpoint `name`, against its configuration
func checkWrapEvents(out *caseOut, tag, name string, wrap int, evs []string) {
	n := map[string]int{}
	for _, e := range evs {
		n[e]++
	}
	w := wrapExpect[wrap]
	if n["cw:"+name] != w[0] || n["cwf:"+name] != w[1] {
		out.fail(tag+"-half-close-count", "endpoint %s (wrap %d): CloseWrite reached it %d times and closeWriteFunc ran %d times (want %d / %d)",
			name, wrap, n["cw:"+name], n["cwf:"+name], w[0], w[1])
	}
	if n["close:"+name] != w[2] {
		out.fail(tag+"-close-count", "endpoint %s (wrap %d): Close reached it %d times (want %d)", name, wrap, n["close:"+name], w[2])
	}
}

func (f *streamFake) Close() error {
	f.mu.Lock()
	f.closed = true
	f.closes++
	f.cond.Broadcast()
	f.mu.Unlock()
	f.log.add("close:" + f.name)
	return nil
}

// ---------------------------------------------------------------------------------------------
// datagram fake (UDP side)
// ---------------------------------------------------------------------------------------------

type dgramFake struct {
	log *evlog

	mu       sync.Mutex
	in       [][]byte
	pauseAt  int // index of the datagram before which Read sleeps > one flush interval (-1: never)
	end      int
	out      [][]byte
	wfail    int // index of the Write that fails (-1: never)
	nwrites  int
	closed   bool
	closes   int
	ioAfterC int

	selfEnded  int32
	onEnd      func()
	readsAfter int
	spin       chan string
}

func (f *dgramFake) Read(p []byte) (int, error) {
	f.mu.Lock()
	if f.closed {
		f.ioAfterC++
		f.mu.Unlock()
		return 0, errClosed
	}
	if len(f.in) == 0 {
		e := f.end
		if f.pauseAt == 0 {
			f.pauseAt--
			f.mu.Unlock()
			time.Sleep(45 * time.Millisecond) // the local side goes quiet before it ends: timed flushes happen meanwhile
			f.mu.Lock()
		}
		f.readsAfter++
		ra := f.readsAfter
		f.mu.Unlock()
		if ra > spinLimit+1 && f.spin != nil {
			select {
			case f.spin <- "udp":
			default:
			}
			select {} // park the spinning goroutine for ever
		}
		if atomic.SwapInt32(&f.selfEnded, 1) == 0 && f.onEnd != nil {
			go f.onEnd()
		}
		return 0, endErrOf(e)
	}
	d := f.in[0]
	f.in = f.in[1:]
	pause := f.pauseAt == 0
	f.pauseAt--
	f.mu.Unlock()
	if pause {
		time.Sleep(45 * time.Millisecond) // lets the 20 ms ticker flush what is batched so far
	}
	return copy(p, d), nil
}

func (f *dgramFake) Write(p []byte) (int, error) {
	f.mu.Lock()
	defer f.mu.Unlock()
	if f.closed {
		f.ioAfterC++
		return 0, errClosed
	}
	i := f.nwrites
	f.nwrites++
	if i == f.wfail {
		return 0, errWrite
	}
	f.out = append(f.out, append([]byte(nil), p...))
	return len(p), nil
}

func (f *dgramFake) Close() error {
	f.mu.Lock()
	f.closed = true
	f.closes++
	f.mu.Unlock()
	f.log.add("close:udp")
	return nil
}

// ---------------------------------------------------------------------------------------------
// cases
// ---------------------------------------------------------------------------------------------

type caseIn struct {
	Mode string `json:"mode"`
	// udp / rt
	Dgrams  []string   `json:"dgrams"`  // hex datagrams read on the UDP side
	UEnd    int        `json:"uend"`    // how the UDP side's reads end: 0 EOF, 1 error
	PauseAt int        `json:"pauseat"` // -1 or index of a datagram delayed by 45 ms (ticker flush in between)
	UWFail  int        `json:"uwfail"`  // -1 or index of the failing UDP-side Write
	Tunnel  streamSpec `json:"tunnel"`  // udp mode: the tunnel endpoint; rt mode: cuts/end/wd of relay #2's tunnel
	Cut     int        `json:"cut"`     // rt mode: byte offset at which the encoded stream ends (-1 = not cut)
	// tcp
	A streamSpec `json:"a"`
	B streamSpec `json:"b"`
	Big bool `json:"big"` // do not echo payloads (Go-side predicate only)
	FeedAgeS int `json:"feed_age_s"` // vconn: virtual seconds of application silence before every further tunnel read
	Trickle  int `json:"trickle"`    // udptrickle: number of datagrams the local side is prepared to trickle
	Mode2  string   `json:"proto"`  // tunpeer: "tcp" | "udp"
	Relays []caseIn `json:"relays"` // poolprobe: tcp relays run one after the other before the pool is probed
	Pre int  `json:"pre"` // udpgate: datagrams that leave alone through a timed flush before the stalled one
}

type udpObs struct {
	Returned  bool     `json:"returned"`
	Spin      string   `json:"spin,omitempty"` // name of the endpoint that was read > spinLimit times after its end
	TunnelOut string   `json:"tunnel_out"`     // concatenation of the tunnel writes
	NWrites   int      `json:"n_tunnel_writes"`
	Delivered []string `json:"delivered"` // datagrams written to the UDP side
	NDeliv    int      `json:"n_delivered"`
	Sent      int64    `json:"sent"`
	Recv      int64    `json:"recv"`
	SendErr   int      `json:"send_err"`
	RecvErr   int      `json:"recv_err"`
	Events    []string `json:"events"`
	IOAfterCl int      `json:"io_after_close"`
	ReadsAfterEnd int  `json:"reads_after_end"`
	WriteAfterCW  int  `json:"write_after_half_close"`
	TunnelWriteFault bool `json:"tunnel_write_fault,omitempty"`
	WritesRefused    int  `json:"tunnel_writes_refused,omitempty"`
}

const watchdog = 20 * time.Second // fallback only; a spin is detected by the fake without a clock

var fatalHang = false // set when the wall-clock watchdog fired: results are flushed and the process exits

func runUDP(dgrams [][]byte, uend, pauseAt, uwfail int, tun streamSpec, big bool) (*udpObs, []byte, [][]byte) {
	log := &evlog{}
	spin := make(chan string, 2)
	u := &dgramFake{log: log, in: dgrams, pauseAt: pauseAt, end: uend, wfail: uwfail, spin: spin}
	t := newStreamFake("tunnel", tun, log, spin)
	t.hcInvisible, t.peerEnded, u.onEnd = wrapInvisible(tun.Wrap), &u.selfEnded, t.wake
	tconn := wrapEndpoint(t, tun.Wrap)
	done := make(chan *iocopy.Result, 1)
	go func() { done <- iocopy.UDP(u, tconn, &iocopy.Options{LogPrefix: "verif"}) }()
	o := &udpObs{}
	var res *iocopy.Result
	select {
	case res = <-done:
		o.Returned = true
	case who := <-spin:
		o.Spin = who
	case <-time.After(watchdog):
		fatalHang = true
	}
	t.mu.Lock()
	u.mu.Lock()
	if !big {
		o.TunnelOut = hx(t.written)
		for _, d := range u.out {
			o.Delivered = append(o.Delivered, hx(d))
		}
	}
	out := append([][]byte(nil), u.out...)
	tw := append([]byte(nil), t.written...)
	o.NDeliv = len(u.out)
	o.NWrites = t.writes
	o.IOAfterCl = t.ioAfterClos + u.ioAfterC
	o.ReadsAfterEnd = t.readsAfter
	o.WriteAfterCW = t.writeAfterCW
	o.TunnelWriteFault = tun.WLimit >= 0 || tun.WFailAt > 0
	o.WritesRefused = t.wfailed
	u.mu.Unlock()
	t.mu.Unlock()
	if res != nil {
		o.Sent, o.Recv = res.BytesSent, res.BytesReceived
		o.SendErr, o.RecvErr = errClassOf(res.SendError, uend), errClassOf(res.ReceiveError, tun.End)
	}
	o.Events = log.snapshot()
	if o.Delivered == nil {
		o.Delivered = []string{}
	}
	return o, tw, out
}

type caseOut struct {
	PropOK  bool     `json:"prop_ok"`
	PropKey string   `json:"prop_key,omitempty"`
	PropMsg string   `json:"prop_msg,omitempty"`
	Hang    bool     `json:"hang,omitempty"`
	U1      *udpObs  `json:"u1,omitempty"` // udp mode: the call; rt mode: relay #1 (datagrams -> tunnel bytes)
	U2      *udpObs  `json:"u2,omitempty"` // rt mode: relay #2 (tunnel bytes -> datagrams)
	Stream  string   `json:"stream,omitempty"` // rt mode: the bytes relay #2's tunnel delivered (cut applied)
	Want    []string `json:"want,omitempty"`   // rt mode: datagrams completely encoded before the cut
	T       *tcpObs  `json:"t,omitempty"`
	R       *realObs `json:"r,omitempty"` // udpreal / vconn modes
	G       *gateObs `json:"g,omitempty"` // udpgate mode
	TC      *tcObs   `json:"tc,omitempty"` // udptc mode
	TR      *tcpRealObs `json:"tr,omitempty"` // tcpreal mode
	TP      *tunPeerObs `json:"tp,omitempty"` // tunpeer mode
	PP      *poolObs    `json:"pp,omitempty"` // poolprobe mode
	MH      *mhObs      `json:"mh,omitempty"` // maphandle mode
	TK      *trickleObs `json:"tk,omitempty"` // udptrickle mode
}

func (o *caseOut) fail(key, format string, a ...interface{}) {
	if o.PropOK {
		o.PropOK = false
		o.PropKey = key
		o.PropMsg = fmt.Sprintf(format, a...)
	}
}

func decodeDgrams(hs []string) [][]byte {
	var ds [][]byte
	for _, h := range hs {
		ds = append(ds, unhx(h))
	}
	return ds
}

func eqDgrams(a, b [][]byte) bool {
	if len(a) != len(b) {
		return false
	}
	for i := range a {
		if string(a[i]) != string(b[i]) {
			return false
		}
	}
	return true
}

// the stream encoding as the property states it, written independently of the code under test
func refEncode(ds [][]byte) []byte {
	var s []byte
	for _, d := range ds {
		if len(d) == 0 {
			continue // zero-length datagrams are dropped by design
		}
		s = append(s, byte(len(d)>>8), byte(len(d)))
		s = append(s, d...)
	}
	return s
}

// complete records in a byte stream (reference walk); tail: 0 clean, 1 partial record, 2 zero length field
func refRecords(s []byte) (recs [][]byte, tail int) {
	for len(s) > 0 {
		if len(s) < 2 {
			return recs, 1
		}
		n := int(s[0])<<8 | int(s[1])
		if n == 0 {
			return recs, 2
		}
		if len(s) < 2+n {
			return recs, 1
		}
		recs = append(recs, s[2:2+n])
		s = s[2+n:]
	}
	return recs, 0
}

func checkUDPCommon(out *caseOut, tag string, o *udpObs, wrap int) {
	if o.Spin != "" {
		out.fail("udp-spin-after-tunnel-end", "%s: iocopy.UDP read the %s endpoint more than %d times after it had reported its end (busy loop, never returns)", tag, o.Spin, spinLimit)
		return
	}
	if !o.Returned {
		out.fail("udp-no-return", "%s: iocopy.UDP did not return within %v although both endpoints had ended", tag, watchdog)
		return
	}
	nc := map[string]int{}
	for _, e := range o.Events {
		nc[e]++
	}
	if nc["close:udp"] != 1 {
		out.fail("udp-close-count", "%s: UDP endpoint closed %d times (want exactly once)", tag, nc["close:udp"])
	}
	checkWrapEvents(out, "udp", "tunnel", wrap, o.Events)
	// the tunnel must not be closed before the UDP side's half-close of it (tunnel -> UDP may still be flowing)
	first := map[string]int{}
	for i, e := range o.Events {
		if _, ok := first[e]; !ok {
			first[e] = i
		}
	}
	if ci, ok := first["close:tunnel"]; ok {
		for _, k := range []string{"cw:tunnel", "cwf:tunnel"} {
			if hi, ok2 := first[k]; ok2 && ci < hi {
				out.fail("udp-early-close", "%s: the tunnel was closed before it was half-closed (events %v)", tag, o.Events)
			}
		}
	}
	if o.WriteAfterCW != 0 && !o.TunnelWriteFault {
		out.fail("udp-write-after-half-close", "%s: %d tunnel Writes came after iocopy.UDP had half-closed the tunnel (they fail on a tunnel that honours CloseWrite)", tag, o.WriteAfterCW)
	}
	if o.IOAfterCl != 0 {
		out.fail("udp-io-after-close", "%s: %d Read/Write calls hit an endpoint that iocopy.UDP had already closed", tag, o.IOAfterCl)
	}
}

func runUDPCase(c *caseIn, out *caseOut) {
	ds := decodeDgrams(c.Dgrams)
	switch c.Mode {
	case "udp":
		o, tw, got := runUDP(ds, c.UEnd, c.PauseAt, c.UWFail, c.Tunnel, c.Big)
		out.U1 = o
		checkUDPCommon(out, "udp", o, c.Tunnel.Wrap)
		if !out.PropOK {
			return
		}
		// UDP -> tunnel: the tunnel receives exactly the length-prefixed records of the datagrams, in order
		if c.Tunnel.WFailAt > 0 && c.Tunnel.WFailSticky && o.WritesRefused > 0 && o.SendErr == 0 {
			out.fail("udp-tunnel-write-failure-unreported", "udp: the tunnel refused %d Writes (every Write from the %d-th on) while datagrams were batched, yet SendError is nil and the datagrams are gone", o.WritesRefused, c.Tunnel.WFailAt)
		}
		// a transient refusal that happened to hit the FINAL flush (no tick fired during the pause) is legitimately reported
		// through SendError; only a refusal absorbed silently (SendError nil) obliges the relay to deliver everything
		if c.Tunnel.WLimit < 0 && !(c.Tunnel.WFailAt > 0 && (c.Tunnel.WFailSticky || o.SendErr != 0)) {
			if want := refEncode(ds); string(tw) != string(want) {
				out.fail("udp-encode", "udp: tunnel received %d bytes, expected the %d-byte length-prefixed encoding of the %d datagrams", len(tw), len(want), len(ds))
			}
		}
		// tunnel -> UDP: exactly the complete records of the stream are delivered (up to a zero length field)
		if c.UWFail < 0 {
			recs, _ := refRecords(unhx(c.Tunnel.Data))
			if !eqDgrams(got, recs) {
				out.fail("udp-decode", "udp: %d datagrams delivered to the UDP side, the tunnel stream holds %d complete records (or contents differ)", len(got), len(recs))
			}
		}
	case "rt":
		o1, tw, _ := runUDP(ds, 0, c.PauseAt, -1, streamSpec{WLimit: -1, Gate: -1}, c.Big)
		out.U1 = o1
		checkUDPCommon(out, "relay#1", o1, 0)
		if !out.PropOK {
			return
		}
		stream := tw
		if c.Cut >= 0 && c.Cut < len(stream) {
			stream = stream[:c.Cut]
		}
		// datagrams whose record lies completely before the cut
		var want [][]byte
		off := 0
		for _, d := range ds {
			if len(d) == 0 {
				continue
			}
			if off+2+len(d) > len(stream) {
				break
			}
			off += 2 + len(d)
			want = append(want, d)
		}
		midRecord := off != len(stream)
		t2 := c.Tunnel
		t2.Data = hx(stream)
		t2.WLimit, t2.Gate = -1, -1
		o2, _, got := runUDP(nil, 0, -1, -1, t2, c.Big)
		out.U2 = o2
		if !c.Big {
			out.Stream = hx(stream)
			for _, d := range want {
				out.Want = append(out.Want, hx(d))
			}
		}
		if o2.Spin != "" {
			out.fail("udp-spin-after-tunnel-end", "relay#2: tunnel stream of %d bytes ended at offset %d (mid-record=%v): iocopy.UDP kept reading the ended tunnel (> %d reads after the end) and never returns", len(tw), len(stream), midRecord, spinLimit)
			return
		}
		checkUDPCommon(out, "relay#2", o2, t2.Wrap)
		if !out.PropOK {
			return
		}
		if !eqDgrams(got, want) {
			out.fail("udp-roundtrip", "round trip: %d datagrams sent, stream cut at %d/%d, %d complete before the cut, %d delivered (or contents/boundaries differ)", len(ds), len(stream), len(tw), len(want), len(got))
		}
		if t2.End == 0 && !midRecord && o2.RecvErr != 0 {
			out.fail("udp-clean-end-error", "round trip: stream ended cleanly at a record boundary but ReceiveError is set (class %d)", o2.RecvErr)
		}
		if int64(sumLen(got)) != o2.Recv {
			out.fail("udp-recv-count", "round trip: BytesReceived=%d but %d bytes were delivered", o2.Recv, sumLen(got))
		}
	}
}

func sumLen(ds [][]byte) int {
	n := 0
	for _, d := range ds {
		n += len(d)
	}
	return n
}

// ---------------------------------------------------------------------------------------------
// TCP: iocopy.Bidirectional
// ---------------------------------------------------------------------------------------------

type tcpObs struct {
	Returned bool     `json:"returned"`
	Spin     string   `json:"spin,omitempty"`
	ToB      string   `json:"to_b"` // bytes written to B (came from A)
	ToA      string   `json:"to_a"`
	NToB     int      `json:"n_to_b"`
	NToA     int      `json:"n_to_a"`
	Sent     int64    `json:"sent"`
	Recv     int64    `json:"recv"`
	SendErr  int      `json:"send_err"`
	RecvErr  int      `json:"recv_err"`
	Events   []string `json:"events"`
	IOAfterC int      `json:"io_after_close"`
	OnDone   int      `json:"on_complete_calls"`
	WriteAfterCW int  `json:"write_after_half_close"`
	DeadlineSets int  `json:"read_deadlines_armed"`
	DeadlineHits int  `json:"reads_failed_by_deadline"`
}

func isPrefix(p, s []byte) bool { return len(p) <= len(s) && string(s[:len(p)]) == string(p) }

func runTCPCase(c *caseIn, out *caseOut) {
	log := &evlog{}
	spin := make(chan string, 2)
	a := newStreamFake("a", c.A, log, spin)
	b := newStreamFake("b", c.B, log, spin)
	a.hcInvisible, a.peerEnded, b.onEnd = wrapInvisible(c.A.Wrap), &b.selfEnded, a.wake
	b.hcInvisible, b.peerEnded, a.onEnd = wrapInvisible(c.B.Wrap), &a.selfEnded, b.wake
	connA, connB := wrapEndpoint(a, c.A.Wrap), wrapEndpoint(b, c.B.Wrap)
	var onDone int32
	done := make(chan *iocopy.Result, 1)
	go func() {
		done <- iocopy.Bidirectional(connA, connB, &iocopy.Options{LogPrefix: "verif",
			OnComplete: func(s, r int64, e error) { atomic.AddInt32(&onDone, 1) }})
	}()
	o := &tcpObs{}
	out.T = o
	var res *iocopy.Result
	select {
	case res = <-done:
		o.Returned = true
	case who := <-spin:
		o.Spin = who
	case <-time.After(watchdog):
		fatalHang = true
	}
	a.mu.Lock()
	b.mu.Lock()
	toB := append([]byte(nil), b.written...)
	toA := append([]byte(nil), a.written...)
	o.IOAfterC = a.ioAfterClos + b.ioAfterClos
	o.WriteAfterCW = a.writeAfterCW + b.writeAfterCW
	o.DeadlineSets = a.deadlineSets + b.deadlineSets
	o.DeadlineHits = a.deadlineHits + b.deadlineHits
	a.mu.Unlock()
	b.mu.Unlock()
	o.NToA, o.NToB = len(toA), len(toB)
	if !c.Big {
		o.ToA, o.ToB = hx(toA), hx(toB)
	}
	o.Events = log.snapshot()
	o.OnDone = int(atomic.LoadInt32(&onDone))
	if res != nil {
		o.Sent, o.Recv = res.BytesSent, res.BytesReceived
		o.SendErr, o.RecvErr = errClassOf(res.SendError, c.A.End), errClassOf(res.ReceiveError, c.B.End)
	}
	da, db := unhx(c.A.Data), unhx(c.B.Data)
	if o.Spin != "" {
		out.fail("tcp-spin-after-end", "Bidirectional kept reading endpoint %s after its end", o.Spin)
		return
	}
	if !o.Returned {
		out.fail("tcp-no-return", "Bidirectional did not return within %v although both endpoints reach their end", watchdog)
		return
	}
	// in-order, nothing invented
	if !isPrefix(toB, da) {
		out.fail("tcp-a2b-not-prefix", "bytes written to B are not a prefix of what A sent (%d vs %d bytes)", len(toB), len(da))
	}
	if !isPrefix(toA, db) {
		out.fail("tcp-b2a-not-prefix", "bytes written to A are not a prefix of what B sent (%d vs %d bytes)", len(toA), len(db))
	}
	// complete when the destination accepts everything (a read error still delivers all bytes read before it)
	if c.B.WLimit < 0 && len(toB) != len(da) {
		out.fail("tcp-a2b-incomplete", "A sent %d bytes, B received %d (B accepts everything)", len(da), len(toB))
	}
	if c.A.WLimit < 0 && len(toA) != len(db) {
		out.fail("tcp-b2a-incomplete", "B sent %d bytes, A received %d (A accepts everything)", len(db), len(toA))
	}
	// the half-close reaches each endpoint exactly as its wrapping dispatches it, the full close exactly once
	// (never, when closeFunc is nil), and no endpoint is fully closed before every half-close has happened
	checkWrapEvents(out, "tcp", "a", c.A.Wrap, o.Events)
	checkWrapEvents(out, "tcp", "b", c.B.Wrap, o.Events)
	firstClose, lastHalf := -1, -1
	for i, e := range o.Events {
		if len(e) > 6 && e[:6] == "close:" && firstClose < 0 {
			firstClose = i
		}
		if (len(e) > 3 && e[:3] == "cw:") || (len(e) > 4 && e[:4] == "cwf:") {
			lastHalf = i
		}
	}
	if firstClose >= 0 && firstClose < lastHalf {
		out.fail("tcp-early-close", "an endpoint was fully closed before both directions had finished (events %v)", o.Events)
	}
	if o.DeadlineHits != 0 {
		out.fail("tcp-deadline-cut", "a read deadline armed by Bidirectional expired on a still-open direction (%d Reads failed with a timeout after a %d s idle period following the half-close): that direction was cut although its peer had not finished",
			o.DeadlineHits, c.A.IdleS+c.B.IdleS)
	}
	if o.WriteAfterCW != 0 {
		out.fail("tcp-write-after-half-close", "%d Writes hit an endpoint whose write side Bidirectional had already shut down", o.WriteAfterCW)
	}
	if o.IOAfterC != 0 {
		out.fail("tcp-io-after-close", "%d Read/Write calls hit an endpoint Bidirectional had already closed", o.IOAfterC)
	}
	if o.OnDone != 1 {
		out.fail("tcp-oncomplete", "OnComplete ran %d times", o.OnDone)
	}
	// Result
	if c.B.WLimit < 0 && (o.Sent != int64(len(da)) || (c.A.End == 0) != (o.SendErr == 0)) {
		out.fail("tcp-result-send", "Result: BytesSent=%d SendError class %d for %d bytes ending with kind %d", o.Sent, o.SendErr, len(da), c.A.End)
	}
	if c.A.WLimit < 0 && (o.Recv != int64(len(db)) || (c.B.End == 0) != (o.RecvErr == 0)) {
		out.fail("tcp-result-recv", "Result: BytesReceived=%d ReceiveError class %d for %d bytes ending with kind %d", o.Recv, o.RecvErr, len(db), c.B.End)
	}
	if c.B.WLimit >= 0 && c.B.WLimit < len(da) && o.SendErr == 0 {
		out.fail("tcp-write-fault-unreported", "B stopped accepting after %d of %d bytes but SendError is nil", c.B.WLimit, len(da))
	}
	if c.A.WLimit >= 0 && c.A.WLimit < len(db) && o.RecvErr == 0 {
		out.fail("tcp-write-fault-unreported", "A stopped accepting after %d of %d bytes but ReceiveError is nil", c.A.WLimit, len(db))
	}
}

func runCase(raw json.RawMessage) interface{} {
	var c caseIn
	c.Cut, c.PauseAt, c.UWFail = -1, -1, -1
	c.Tunnel.WLimit, c.Tunnel.Gate = -1, -1
	c.A.WLimit, c.A.Gate, c.B.WLimit, c.B.Gate = -1, -1, -1, -1
	must(json.Unmarshal(raw, &c))
	caseKinds = []int{c.Tunnel.End, c.A.End, c.B.End, c.UEnd}
	out := &caseOut{PropOK: true}
	switch c.Mode {
	case "udp", "rt":
		runUDPCase(&c, out)
	case "tcp":
		runTCPCase(&c, out)
	case "udpreal":
		runUDPRealCase(&c, out)
	case "vconn":
		runVConnCase(&c, out)
	case "udpgate":
		runUDPGateCase(&c, out)
	case "udptc":
		runUDPTCCase(&c, out)
	case "tcpreal":
		runTCPRealCase(&c, out)
	case "tunpeer":
		runTunPeerCase(&c, out)
	case "maphandle":
		runMapHandleCase(&c, out)
	case "poolprobe":
		runPoolProbeCase(&c, out)
	case "udptrickle":
		runUDPTrickleCase(&c, out)
	default:
		panic("bad mode " + c.Mode)
	}
	out.Hang = fatalHang
	return out
}

// ---------------------------------------------------------------------------------------------
// gen: constants of the relays, evaluated from the source of copy.go (go/parser + go/constant)
// ---------------------------------------------------------------------------------------------

func evalConst(e ast.Expr, env map[string]constant.Value) constant.Value {
	switch x := e.(type) {
	case *ast.BasicLit:
		return constant.MakeFromLiteral(x.Value, x.Kind, 0)
	case *ast.ParenExpr:
		return evalConst(x.X, env)
	case *ast.Ident:
		if v, ok := env[x.Name]; ok {
			return v
		}
	case *ast.BinaryExpr:
		a, b := evalConst(x.X, env), evalConst(x.Y, env)
		if a == nil || b == nil {
			return nil
		}
		if x.Op == token.SHL || x.Op == token.SHR {
			s, _ := constant.Uint64Val(b)
			return constant.Shift(a, x.Op, uint(s))
		}
		if x.Op == token.QUO {
			return constant.BinaryOp(a, token.QUO_ASSIGN, b) // integer division
		}
		return constant.BinaryOp(a, x.Op, b)
	}
	return nil
}

func exprString(fset *token.FileSet, e ast.Expr) string {
	switch x := e.(type) {
	case *ast.Ident:
		return x.Name
	case *ast.BinaryExpr:
		return exprString(fset, x.X) + x.Op.String() + exprString(fset, x.Y)
	case *ast.CallExpr:
		return exprString(fset, x.Fun) + "()"
	case *ast.BasicLit:
		return x.Value
	}
	return "?"
}

func gen() {
	repo := os.Getenv("VERIF_REPO")
	if repo == "" {
		repo = "/repo"
	}
	src := filepath.Join(repo, "internal/utils/iocopy/copy.go")
	fset := token.NewFileSet()
	f, err := parser.ParseFile(fset, src, nil, 0)
	must(err)
	var udp *ast.FuncDecl
	for _, d := range f.Decls {
		if fd, ok := d.(*ast.FuncDecl); ok && fd.Name.Name == "UDP" {
			udp = fd
		}
	}
	if udp == nil {
		panic("func UDP not found in " + src)
	}
	env := map[string]constant.Value{}
	vals := map[string][]constant.Value{}
	put := func(k string, v constant.Value) {
		if v != nil {
			vals[k] = append(vals[k], v)
		}
	}
	ast.Inspect(udp, func(n ast.Node) bool {
		switch x := n.(type) {
		case *ast.ValueSpec: // const batchBufSize = 256 * 1024 ...
			for i, nm := range x.Names {
				if i < len(x.Values) {
					if v := evalConst(x.Values[i], env); v != nil && v.Kind() == constant.Int {
						env[nm.Name] = v
						put("const:"+nm.Name, v)
					}
				}
			}
		case *ast.AssignStmt: // readBuf := make([]byte, N)
			if len(x.Lhs) == 1 && len(x.Rhs) == 1 {
				if id, ok := x.Lhs[0].(*ast.Ident); ok {
					if call, ok := x.Rhs[0].(*ast.CallExpr); ok {
						if fn, ok := call.Fun.(*ast.Ident); ok && fn.Name == "make" && len(call.Args) == 2 {
							put("make:"+id.Name, evalConst(call.Args[1], env))
						}
					}
				}
			}
		case *ast.CallExpr: // newUDPBatchWriter(realUDP, batchSize)
			if fn, ok := x.Fun.(*ast.Ident); ok && fn.Name == "newUDPBatchWriter" && len(x.Args) == 2 {
				put("call:newUDPBatchWriter", evalConst(x.Args[1], env))
			}
		case *ast.BinaryExpr: // comparisons against literals: buffered < 256*1024, packetLen > 65535, buffered-processed >= 2
			if x.Op == token.LSS || x.Op == token.GTR || x.Op == token.GEQ || x.Op == token.EQL {
				if v := evalConst(x.Y, env); v != nil && v.Kind() == constant.Int {
					put("cmp:"+exprString(fset, x.X)+x.Op.String(), v)
				}
			}
		}
		return true
	})
	one := func(k string, which int) string {
		vs := vals[k]
		if len(vs) <= which {
			panic(fmt.Sprintf("gen: %s (occurrence %d) not found in func UDP of %s; found keys: %v", k, which, src, keys(vals)))
		}
		return vs[which].ExactString()
	}
	fmt.Println("(* generated by verif_c12 gen from the working tree's internal/utils/iocopy/copy.go (go/parser + go/constant)")
	fmt.Println("   and internal/cloud/constants — do not edit *)")
	fmt.Println("From Coq Require Import NArith List. Import ListNotations. Open Scope N_scope.")
	fmt.Printf("Definition CopyBufferSize : N := %d.\n", constants.CopyBufferSize)
	fmt.Printf("Definition UdpDatagramBuf : N := %s.   (* UDP->tunnel: readBuf := make([]byte, _) *)\n", one("make:readBuf", 0))
	fmt.Printf("Definition UdpBatchBufSize : N := %s.  (* UDP->tunnel: const batchBufSize *)\n", one("const:batchBufSize", 0))
	fmt.Printf("Definition UdpDeframeBuf : N := %s.    (* tunnel->UDP: readBuf := make([]byte, _) *)\n", one("make:readBuf", 1))
	fmt.Printf("Definition UdpRefillBelow : N := %s.   (* tunnel->UDP: if buffered < _ *)\n", one("cmp:buffered<", 0))
	fmt.Printf("Definition UdpMaxRecord : N := %s.     (* tunnel->UDP: packetLen > _ is illegal *)\n", one("cmp:packetLen>", 0))
	fmt.Printf("Definition UdpHeaderLen : N := %s.     (* tunnel->UDP: for buffered-processed >= _ *)\n", one("cmp:buffered-processed>=", 0))
	fmt.Printf("Definition UdpWriteBatch : N := %s.    (* tunnel->UDP: const batchSize *)\n", one("const:batchSize", 0))
	fmt.Printf("Definition UdpBatchWriterCap : N := %s. (* tunnel->UDP: newUDPBatchWriter(realUDP, _): messages the sendmmsg writer can hold *)\n", one("call:newUDPBatchWriter", 0))
	defer genRetryTable()
	// socket options / deadlines the relay code sets on the connections it relays (whole file, syntax tree, no comments)
	opts := map[string]bool{"SetLinger": true, "SetDeadline": true, "SetReadDeadline": true, "SetWriteDeadline": true,
		"SetKeepAlive": true, "SetKeepAlivePeriod": true, "SetReadBuffer": true, "SetWriteBuffer": true}
	var optCalls []string
	ast.Inspect(f, func(n ast.Node) bool {
		if call, ok := n.(*ast.CallExpr); ok {
			if sel, ok := call.Fun.(*ast.SelectorExpr); ok && opts[sel.Sel.Name] {
				optCalls = append(optCalls, fmt.Sprintf("%s@%d", sel.Sel.Name, fset.Position(call.Pos()).Line))
			}
		}
		return true
	})
	fmt.Printf("Definition RelaySocketOptionCalls : N := %d. (* SetLinger / Set*Deadline / SetKeepAlive* / Set*Buffer calls in copy.go: %v *)\n", len(optCalls), optCalls)
	fmt.Printf("Definition UdpSessionTTLSeconds : N := %d. (* internal/client/mapping udpSessionTTL *)\n", mapping.VerifUDPSessionTTLSeconds())
	fmt.Printf("Definition UdpFlushAtLeast : bool := %s. (* tunnel->UDP: the in-loop flush test is len(pendingPackets) >= batchSize *)\n", flushCmp(udp))
}

// flushCmp: "true" iff func UDP contains the comparison `len(pendingPackets) >= batchSize`
func flushCmp(fn *ast.FuncDecl) string {
	found := "false"
	ast.Inspect(fn, func(n ast.Node) bool {
		if b, ok := n.(*ast.BinaryExpr); ok && b.Op == token.GEQ {
			if call, ok := b.X.(*ast.CallExpr); ok && len(call.Args) == 1 {
				if f, ok := call.Fun.(*ast.Ident); ok && f.Name == "len" {
					if a, ok := call.Args[0].(*ast.Ident); ok && a.Name == "pendingPackets" {
						if y, ok := b.Y.(*ast.Ident); ok && y.Name == "batchSize" {
							found = "true"
						}
					}
				}
			}
		}
		return true
	})
	return found
}

// probeRetries: does the real relay come back for more after a STICKY read failure of the given kind at the given
// site (0 UDP relay/tunnel end, 1 UDP relay/local end, 2 Bidirectional/A end, 3 Bidirectional/B end)?  The fakes park a
// goroutine that reads an ended endpoint more than spinLimit times, so a retrying relay is observed, not waited for.
func probeRetries(site, kind int) bool {
	caseKinds = []int{kind}
	none := streamSpec{WLimit: -1, Gate: -1, Lax: true}
	switch site {
	case 0:
		t := none
		t.End = kind
		o, _, _ := runUDP(nil, 0, -1, -1, t, true)
		return o.Spin != "" || !o.Returned
	case 1:
		o, _, _ := runUDP(nil, kind, -1, -1, none, true)
		return o.Spin != "" || !o.Returned
	default:
		c := &caseIn{Mode: "tcp", A: none, B: none, Big: true}
		if site == 2 {
			c.A.End = kind
		} else {
			c.B.End = kind
		}
		out := &caseOut{PropOK: true}
		runTCPCase(c, out)
		return out.T.Spin != "" || !out.T.Returned
	}
}

func genRetryTable() {
	fmt.Println("(* does the relay read again after a sticky read failure?  (site, kind, retried), probed on the real relays;")
	fmt.Println("   site: 0 UDP/tunnel end, 1 UDP/local end, 2 Bidirectional/A, 3 Bidirectional/B;")
	for k, n := range kindNames {
		fmt.Printf("   kind %d = %s\n", k, n)
	}
	fmt.Println("*)")
	fmt.Println("Definition relay_retry_table : list (N * N * bool) := [")
	first := true
	for site := 0; site < 4; site++ {
		for kind := 0; kind < len(kindErrs); kind++ {
			sep := ";"
			if first {
				sep = " "
				first = false
			}
			fmt.Printf(" %s(%d, %d, %v)\n", sep, site, kind, probeRetries(site, kind))
		}
	}
	fmt.Println("].")
}

func keys(m map[string][]constant.Value) []string {
	var ks []string
	for k := range m {
		ks = append(ks, k)
	}
	return ks
}

func main() {
	if len(os.Args) > 1 && os.Args[1] == "gen" {
		gen()
		return
	}
	// like forEachCase, but stops (after flushing the results so far) when the wall-clock watchdog fired:
	// the driver restarts the binary on the remaining cases
	forEachCaseUntil(runCase, func() bool { return fatalHang })
}

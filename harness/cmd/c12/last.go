//go:build verif

package main

// mode "maphandle": the real mapping.BaseMappingHandler.handleConnection (listening client: dial the tunnel, wrap
// reader/writer with iocopy.NewReadWriteCloser + the tunnel closer, build, register and start the tunnel.Tunnel) over a fake
// client whose DialTunnel hands out a recording tunnel conn + stream.  variant 0: the tunnel is closed through the peer's
// close notification — tunnel conn AND stream must get closed and the relay's blocked tunnel Read released;
// variant 1: both directions finish normally — the tunnel is unregistered and conn + stream are closed (no leak).

import (
	"context"
	"errors"
	"io"
	"net"
	"sync"
	"sync/atomic"
	"time"

	"tunnox-core/internal/client/mapping"
	"tunnox-core/internal/cloud/models"
	"tunnox-core/internal/config"
	"tunnox-core/internal/stream"
)

type mhConn struct {
	closed    chan struct{}
	closeOnce sync.Once
	eof       chan struct{}
	eofOnce   sync.Once
	readers   int32
	unblocked int32
}

func (c *mhConn) Read(p []byte) (int, error) {
	atomic.AddInt32(&c.readers, 1)
	defer func() { atomic.AddInt32(&c.readers, -1); atomic.AddInt32(&c.unblocked, 1) }()
	select {
	case <-c.closed:
		return 0, errors.New("verif: use of closed tunnel connection")
	case <-c.eof:
		return 0, io.EOF
	}
}
func (c *mhConn) Write(p []byte) (int, error) {
	select {
	case <-c.closed:
		return 0, errors.New("verif: use of closed tunnel connection")
	default:
		return len(p), nil
	}
}
func (c *mhConn) Close() error { c.closeOnce.Do(func() { close(c.closed) }); return nil }
func (c *mhConn) isClosed() bool {
	select {
	case <-c.closed:
		return true
	default:
		return false
	}
}
func (c *mhConn) LocalAddr() net.Addr                { return &net.TCPAddr{} }
func (c *mhConn) RemoteAddr() net.Addr               { return &net.TCPAddr{} }
func (c *mhConn) SetDeadline(t time.Time) error      { return nil }
func (c *mhConn) SetReadDeadline(t time.Time) error  { return nil }
func (c *mhConn) SetWriteDeadline(t time.Time) error { return nil }

type mhStream struct {
	stream.PackageStreamer // unused methods
	conn                   *mhConn
	closed                 int32
}

func (s *mhStream) GetReader() io.Reader { return s.conn }
func (s *mhStream) GetWriter() io.Writer { return s.conn }
func (s *mhStream) Close()               { atomic.StoreInt32(&s.closed, 1) }

type mhClient struct {
	conn *mhConn
	strm *mhStream
}

func (c *mhClient) DialTunnel(tunnelID, mappingID, secretKey string) (net.Conn, stream.PackageStreamer, error) {
	return c.conn, c.strm, nil
}
func (c *mhClient) DialTunnelPooled(mappingID, secretKey string) (mapping.PooledTunnelConnInterface, error) {
	return nil, nil
}
func (c *mhClient) ReturnTunnelToPool(conn mapping.PooledTunnelConnInterface)  {}
func (c *mhClient) CloseTunnelFromPool(conn mapping.PooledTunnelConnInterface) {}
func (c *mhClient) IsTunnelPoolEnabled() bool                                 { return false }
func (c *mhClient) GetContext() context.Context                               { return context.Background() }
func (c *mhClient) CheckMappingQuota(mappingID string) error                  { return nil }
func (c *mhClient) TrackTraffic(mappingID string, s, r int64) error           { return nil }
func (c *mhClient) GetUserQuota() (*models.UserQuota, error)                  { return &models.UserQuota{}, nil }
func (c *mhClient) GetServerProtocol() string                                 { return "tcp" }
func (c *mhClient) SendTunnelCloseNotify(int64, string, string, string) error { return nil }

type mhAdapter struct{}

func (mhAdapter) StartListener(config.MappingConfig) error   { return nil }
func (mhAdapter) Accept() (io.ReadWriteCloser, error)        { select {} }
func (mhAdapter) PrepareConnection(io.ReadWriteCloser) error { return nil }
func (mhAdapter) GetProtocol() string                        { return "tcp" }
func (mhAdapter) Close() error                               { return nil }

type mhObs struct {
	Started      bool `json:"started"`
	ReadReleased bool `json:"tunnel_read_released"`
	ConnClosed   bool `json:"tunnel_conn_closed"`
	StreamClosed bool `json:"tunnel_stream_closed"`
	Unregistered bool `json:"tunnel_unregistered"`
}

func waitFor(cond func() bool, d time.Duration) bool {
	deadline := time.Now().Add(d)
	for !cond() {
		if time.Now().After(deadline) {
			return false
		}
		time.Sleep(200 * time.Microsecond)
	}
	return true
}

func runMapHandleCase(c *caseIn, out *caseOut) {
	o := &mhObs{}
	out.MH = o
	conn := &mhConn{closed: make(chan struct{}), eof: make(chan struct{})}
	strm := &mhStream{conn: conn}
	h := mapping.NewBaseMappingHandler(&mhClient{conn: conn, strm: strm}, config.MappingConfig{MappingID: "verif", LocalPort: 1}, mhAdapter{})
	appSide, relaySide := net.Pipe()
	defer appSide.Close()
	h.VerifHandleConnection(relaySide)
	mgr := h.VerifTunnelManager()
	o.Started = waitFor(func() bool { return atomic.LoadInt32(&conn.readers) > 0 && mgr.CountTunnels() == 1 }, watchdog)
	if !o.Started {
		out.fail("maphandle-setup", "handleConnection did not start a relay reading from the tunnel")
		conn.Close()
		h.Close()
		return
	}
	if c.Pre == 0 {
		tun := mgr.ListTunnels()[0]
		mgr.OnTunnelClosed(tun.GetID(), "verif", "peer_closed", 0, 0, 0)
		o.ReadReleased = waitFor(func() bool { return atomic.LoadInt32(&conn.unblocked) > 0 }, 2*time.Second)
		o.Unregistered = mgr.CountTunnels() == 0
	} else {
		appSide.Close()
		conn.eofOnce.Do(func() { close(conn.eof) })
		o.Unregistered = waitFor(func() bool { return mgr.CountTunnels() == 0 }, 2*time.Second)
		o.ReadReleased = atomic.LoadInt32(&conn.unblocked) > 0
		waitFor(func() bool { return conn.isClosed() && atomic.LoadInt32(&strm.closed) == 1 }, time.Second)
	}
	o.ConnClosed, o.StreamClosed = conn.isClosed(), atomic.LoadInt32(&strm.closed) == 1
	conn.Close() // let the relay go in any case
	h.Close()
	if !o.ReadReleased {
		out.fail("maphandle-relay-never-returns", "after Tunnel.Close (peer close notification) the relay's tunnel->local direction is still blocked in the tunnel Read: tunnelRWC.Close() did not reach the tunnel connection (conn closed=%v, stream closed=%v)", o.ConnClosed, o.StreamClosed)
	}
	if !o.ConnClosed || !o.StreamClosed {
		out.fail("maphandle-tunnel-conn-leaked", "the tunnel built by handleConnection has ended (variant %d) but the connection to the server is not closed: conn closed=%v, stream closed=%v", c.Pre, o.ConnClosed, o.StreamClosed)
	}
	if !o.Unregistered {
		out.fail("maphandle-not-unregistered", "the tunnel is still registered after it ended")
	}
}

//go:build verif

package iocopy

import "unsafe"

func verifAddr(p *[]byte) uintptr { return uintptr(unsafe.Pointer(p)) }

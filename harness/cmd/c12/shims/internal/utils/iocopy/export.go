//go:build verif

package iocopy

// VerifTakeCopyBuffers takes n buffers out of the relay's copy-buffer pool, exactly as a starting copy direction
// does, and reports their identities (address of the backing array).
func VerifTakeCopyBuffers(n int) (ptrs []*[]byte, ids []uintptr) {
	for i := 0; i < n; i++ {
		p := copyBufferPool.Get().(*[]byte)
		ptrs = append(ptrs, p)
		ids = append(ids, verifAddr(p))
	}
	return
}

// VerifReturnCopyBuffers puts distinct buffers back.
func VerifReturnCopyBuffers(ptrs []*[]byte) {
	seen := map[*[]byte]bool{}
	for _, p := range ptrs {
		if !seen[p] {
			seen[p] = true
			copyBufferPool.Put(p)
		}
	}
}

//go:build verif

package client

import (
	"net"

	"tunnox-core/internal/stream"
)

// VerifUDPTunnelConn is the method set of the unexported udpTunnelConn (socks5.UDPTunnelConn).
type VerifUDPTunnelConn interface {
	SendPacket(data []byte) error
	ReceivePacket() ([]byte, error)
	Close() error
}

// VerifNewUDPTunnelConn builds a udpTunnelConn exactly as UDPTunnelCreatorImpl.CreateUDPTunnel does once the tunnel
// has been dialled.
func VerifNewUDPTunnelConn(serverConn net.Conn, tunnelStream stream.PackageStreamer) VerifUDPTunnelConn {
	return &udpTunnelConn{tunnelID: "verif", serverConn: serverConn, tunnelStream: tunnelStream}
}

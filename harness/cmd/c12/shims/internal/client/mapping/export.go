//go:build verif

package mapping

import "net"

// VerifSession builds a UDPVirtualConn exactly as readLoop does for the first packet of a new peer:
// through the real getOrCreateSession (fields, write loop goroutine, connChan hand-off).
func (a *UDPMappingAdapter) VerifSession(remote net.Addr, listener net.PacketConn) *UDPVirtualConn {
	return a.getOrCreateSession(remote.String(), remote, listener)
}

//go:build verif

package mapping

import (
	"net"
	"time"
)

// VerifSession builds a UDPVirtualConn exactly as readLoop does for the first packet of a new peer:
// through the real getOrCreateSession (fields, write loop goroutine, connChan hand-off).
func (a *UDPMappingAdapter) VerifSession(remote net.Addr, listener net.PacketConn) *UDPVirtualConn {
	return a.getOrCreateSession(remote.String(), remote, listener)
}

// VerifAge moves the session's activity stamp d into the past (virtual time: as if d had elapsed without the stamp
// being refreshed); VerifCleanup runs one pass of the adapter's cleanup loop body.
func (c *UDPVirtualConn) VerifAge(d time.Duration) { c.lastActive.Add(-d.Nanoseconds()) }
func (a *UDPMappingAdapter) VerifCleanup()         { a.cleanupStaleSessions() }
func (c *UDPVirtualConn) VerifClosed() bool {
	select {
	case <-c.closeCh:
		return true
	default:
		return false
	}
}

// VerifUDPSessionTTLSeconds: the session time-to-live the cleanup loop applies
func VerifUDPSessionTTLSeconds() int64 { return int64(udpSessionTTL / time.Second) }

//go:build verif

package mapping

import (
	"io"

	"tunnox-core/internal/client/tunnel"
)

// VerifHandleConnection runs the real per-connection path of the listening client (dial tunnel, wrap it with
// iocopy.NewReadWriteCloser, build + register + start the tunnel.Tunnel).
func (h *BaseMappingHandler) VerifHandleConnection(localConn io.ReadWriteCloser) { h.handleConnection(localConn) }
func (h *BaseMappingHandler) VerifTunnelManager() tunnel.TunnelManager         { return h.tunnelManager }

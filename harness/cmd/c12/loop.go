//go:build verif

package main

import (
	"bufio"
	"encoding/json"
	"os"
)

// forEachCaseUntil is forEachCase (harness/common/io.go) with an early stop: after a case for which
// stop() reports true the results so far are flushed and the process exits with status 3, so that the
// driver can restart the binary on the remaining cases (a hung goroutine cannot be killed from inside).
func forEachCaseUntil(f func(raw json.RawMessage) interface{}, stop func() bool) {
	in := bufio.NewReaderSize(os.Stdin, 1<<20)
	out := bufio.NewWriterSize(os.Stdout, 1<<20)
	enc := json.NewEncoder(out)
	for {
		line, err := in.ReadBytes('\n')
		if len(line) > 1 {
			res := f(json.RawMessage(line))
			if e := enc.Encode(res); e != nil {
				panic(e)
			}
			if stop() {
				out.Flush()
				os.Exit(3)
			}
		}
		if err != nil {
			out.Flush()
			return
		}
	}
}

//go:build verif

package main

// Two further ways of driving the tunnel -> UDP direction of the real iocopy.UDP, with REAL local sides:
//
//	mode "udpreal": the UDP side is a real connected *net.UDPConn (loopback); iocopy.UDP then takes the
//	                sendmmsg batch-writer path (udp_batch.go). A receiver socket collects what arrives.
//	mode "vconn":   the UDP side is the real mapping.UDPVirtualConn (built by the adapter's own
//	                getOrCreateSession) over a gated fake net.PacketConn whose WriteTo calls are held until the
//	                relay has consumed the whole tunnel stream (a slow socket): every datagram handed to Write
//	                must still carry its own bytes when the socket finally sends it.

import (
	"net"
	"sync"
	"sync/atomic"
	"time"

	"tunnox-core/internal/client/mapping"
	"tunnox-core/internal/utils/iocopy"
)

type realObs struct {
	udpObs
	Attempts int    `json:"attempts"`
	Skipped  string `json:"skipped,omitempty"`
	SessionClosedEarly bool `json:"session_closed_early,omitempty"`
}

// ---- mode "udpreal" ---------------------------------------------------------------------------

func runUDPRealOnce(tun streamSpec, want int) (*udpObs, [][]byte, string) {
	recv, err := net.ListenUDP("udp4", &net.UDPAddr{IP: net.IPv4(127, 0, 0, 1)})
	if err != nil {
		return nil, nil, "no loopback UDP socket: " + err.Error()
	}
	defer recv.Close()
	_ = recv.SetReadBuffer(4 << 20)
	snd, err := net.DialUDP("udp4", nil, recv.LocalAddr().(*net.UDPAddr))
	if err != nil {
		return nil, nil, "no loopback UDP socket: " + err.Error()
	}
	var mu sync.Mutex
	var got [][]byte
	go func() {
		buf := make([]byte, 65536)
		for {
			n, _, e := recv.ReadFromUDP(buf)
			if e != nil {
				return
			}
			mu.Lock()
			got = append(got, append([]byte(nil), buf[:n]...))
			mu.Unlock()
		}
	}()
	count := func() int { mu.Lock(); defer mu.Unlock(); return len(got) }

	log := &evlog{}
	spin := make(chan string, 2)
	t := newStreamFake("tunnel", tun, log, spin)
	done := make(chan *iocopy.Result, 1)
	go func() { done <- iocopy.UDP(snd, t, &iocopy.Options{LogPrefix: "verif"}) }()
	o := &udpObs{}
	// the real socket's Read never ends by itself: close it once everything expected has arrived, or once the
	// tunnel has ended and nothing more shows up for a while
	deadline := time.Now().Add(watchdog)
	var endedAt time.Time
loop:
	for {
		select {
		case who := <-spin:
			o.Spin = who
			break loop
		default:
		}
		if count() >= want && atomic.LoadInt32(&t.selfEnded) == 1 {
			time.Sleep(2 * time.Millisecond) // anything beyond `want` would be a duplicate: give it a moment
			break
		}
		if atomic.LoadInt32(&t.selfEnded) == 1 {
			if endedAt.IsZero() {
				endedAt = time.Now()
			} else if time.Since(endedAt) > 400*time.Millisecond {
				break
			}
		}
		if time.Now().After(deadline) {
			break
		}
		time.Sleep(200 * time.Microsecond)
	}
	snd.Close()
	var res *iocopy.Result
	if o.Spin == "" {
		select {
		case res = <-done:
			o.Returned = true
		case <-time.After(watchdog):
			fatalHang = true
		}
	}
	time.Sleep(time.Millisecond)
	mu.Lock()
	out := append([][]byte(nil), got...)
	mu.Unlock()
	o.NDeliv = len(out)
	o.Delivered = []string{}
	for _, d := range out {
		o.Delivered = append(o.Delivered, hx(d))
	}
	if res != nil {
		o.Sent, o.Recv = res.BytesSent, res.BytesReceived
		o.SendErr, o.RecvErr = errClass(res.SendError), errClassOf(res.ReceiveError, tun.End)
	}
	o.Events = log.snapshot()
	return o, out, ""
}

func checkDelivered(out *caseOut, tag string, o *udpObs, got, want [][]byte, end int, tail int) {
	if o.Spin != "" {
		out.fail("udp-spin-after-tunnel-end", "%s: iocopy.UDP kept reading the ended tunnel", tag)
		return
	}
	if !o.Returned {
		out.fail("udp-no-return", "%s: iocopy.UDP did not return after its UDP side was closed", tag)
		return
	}
	if len(got) != len(want) {
		out.fail(tag+"-count", "%s: the tunnel stream holds %d complete records, %d datagrams reached the local socket", tag, len(want), len(got))
		return
	}
	for i := range want {
		if string(got[i]) != string(want[i]) {
			out.fail(tag+"-content", "%s: datagram %d of %d reached the local socket with different bytes (%d bytes: %.24x..., want %d bytes: %.24x...)",
				tag, i, len(want), len(got[i]), got[i], len(want[i]), want[i])
			return
		}
	}
	if int64(sumLen(want)) != o.Recv {
		out.fail(tag+"-recv-count", "%s: BytesReceived=%d but the %d records hold %d bytes", tag, o.Recv, len(want), sumLen(want))
	}
	wantErr := 0
	if end != 0 {
		wantErr = 1
	} else if tail == 1 {
		wantErr = 3
	}
	if tail != 2 && o.RecvErr != wantErr {
		out.fail(tag+"-recv-err", "%s: ReceiveError class %d, want %d", tag, o.RecvErr, wantErr)
	}
}

func runUDPRealCase(c *caseIn, out *caseOut) {
	want, tail := refRecords(unhx(c.Tunnel.Data))
	ro := &realObs{}
	out.R = ro
	// a loopback datagram can in principle be dropped by the kernel: only a failure that repeats counts
	for attempt := 1; attempt <= 3; attempt++ {
		o, got, skipped := runUDPRealOnce(c.Tunnel, len(want))
		if skipped != "" {
			ro.Skipped = skipped
			return
		}
		ro.udpObs, ro.Attempts = *o, attempt
		trial := &caseOut{PropOK: true}
		checkDelivered(trial, "udpreal", o, got, want, c.Tunnel.End, tail)
		if trial.PropOK {
			return
		}
		if attempt == 3 || fatalHang || o.Spin != "" {
			out.fail(trial.PropKey, "%s (same outcome in %d attempts)", trial.PropMsg, attempt)
			return
		}
	}
}

// ---- mode "vconn" -----------------------------------------------------------------------------

type gatedPC struct {
	mu     sync.Mutex
	cond   *sync.Cond
	open   bool
	closed bool
	sent   [][]byte
}

func newGatedPC() *gatedPC { p := &gatedPC{}; p.cond = sync.NewCond(&p.mu); return p }

func (p *gatedPC) release() {
	time.Sleep(5 * time.Millisecond) // let the relay finish the iteration (flush, compaction) of its last read
	p.mu.Lock()
	p.open = true
	p.cond.Broadcast()
	p.mu.Unlock()
}

// WriteTo: a slow socket — what goes "on the wire" is what the slice holds when the send finally happens
func (p *gatedPC) WriteTo(b []byte, addr net.Addr) (int, error) {
	p.mu.Lock()
	defer p.mu.Unlock()
	for !p.open && !p.closed {
		p.cond.Wait()
	}
	p.sent = append(p.sent, append([]byte(nil), b...))
	return len(b), nil
}
func (p *gatedPC) ReadFrom(b []byte) (int, net.Addr, error) {
	p.mu.Lock()
	defer p.mu.Unlock()
	for !p.closed {
		p.cond.Wait()
	}
	return 0, nil, net.ErrClosed
}
func (p *gatedPC) Close() error {
	p.mu.Lock()
	p.closed = true
	p.cond.Broadcast()
	p.mu.Unlock()
	return nil
}
func (p *gatedPC) LocalAddr() net.Addr                { return &net.UDPAddr{IP: net.IPv4(127, 0, 0, 1), Port: 1} }
func (p *gatedPC) SetDeadline(time.Time) error      { return nil }
func (p *gatedPC) SetReadDeadline(time.Time) error  { return nil }
func (p *gatedPC) SetWriteDeadline(time.Time) error { return nil }
func (p *gatedPC) count() int                       { p.mu.Lock(); defer p.mu.Unlock(); return len(p.sent) }

func runVConnCase(c *caseIn, out *caseOut) {
	want, tail := refRecords(unhx(c.Tunnel.Data))
	ro := &realObs{Attempts: 1}
	out.R = ro
	pc := newGatedPC()
	ad := mapping.NewUDPMappingAdapter()
	vc := ad.VerifSession(&net.UDPAddr{IP: net.IPv4(127, 0, 0, 1), Port: 9}, pc)
	if vc == nil {
		out.fail("vconn-setup", "UDPMappingAdapter.getOrCreateSession returned nil")
		return
	}
	log := &evlog{}
	spin := make(chan string, 2)
	t := newStreamFake("tunnel", c.Tunnel, log, spin)
	t.onEnd = pc.release // the socket stays busy until the relay has consumed the whole tunnel stream
	if c.FeedAgeS > 0 {
		// a long one-way feed in VIRTUAL time: before every tunnel Read after the first, FeedAgeS seconds pass without
		// any datagram from the local application, and the adapter's cleanup loop runs once (no real waiting)
		pc.mu.Lock()
		pc.open = true
		pc.mu.Unlock()
		t.beforeRead = func(idx int) {
			if idx >= 1 {
				vc.VerifAge(time.Duration(c.FeedAgeS) * time.Second)
				ad.VerifCleanup()
			}
		}
	}
	done := make(chan *iocopy.Result, 1)
	go func() { done <- iocopy.UDP(vc, t, &iocopy.Options{LogPrefix: "verif"}) }()
	o := &ro.udpObs
	deadline := time.Now().Add(watchdog)
	var endedAt time.Time
loop:
	for {
		select {
		case who := <-spin:
			o.Spin = who
			break loop
		default:
		}
		ended := atomic.LoadInt32(&t.selfEnded) == 1
		if ended && pc.count() >= len(want) {
			time.Sleep(2 * time.Millisecond)
			break
		}
		if ended {
			if endedAt.IsZero() {
				endedAt = time.Now()
			} else if time.Since(endedAt) > 3*time.Second {
				break
			}
		}
		if time.Now().After(deadline) {
			break
		}
		time.Sleep(200 * time.Microsecond)
	}
	vc.Close() // ends the relay's UDP -> tunnel direction (Read returns io.EOF)
	var res *iocopy.Result
	if o.Spin == "" {
		select {
		case res = <-done:
			o.Returned = true
		case <-time.After(watchdog):
			fatalHang = true
		}
	}
	pc.Close()
	pc.mu.Lock()
	got := append([][]byte(nil), pc.sent...)
	pc.mu.Unlock()
	o.NDeliv = len(got)
	o.Delivered = []string{}
	for _, d := range got {
		o.Delivered = append(o.Delivered, hx(d))
	}
	if res != nil {
		o.Sent, o.Recv = res.BytesSent, res.BytesReceived
		o.SendErr, o.RecvErr = errClass(res.SendError), errClassOf(res.ReceiveError, c.Tunnel.End)
	}
	o.Events = log.snapshot()
	ro.SessionClosedEarly = c.FeedAgeS > 0 && len(got) < len(want)
	checkDelivered(out, "vconn", o, got, want, c.Tunnel.End, tail)
}

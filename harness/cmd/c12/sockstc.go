//go:build verif

package main

// mode "udptc": the SOCKS5 UDP-associate tunnel endpoint of the client (internal/client/socks5_tunnel.go
// udpTunnelConn): datagrams -> real SendPacket -> length-prefixed stream, cut at `cut`, delivered under a chunk
// oracle (coalesced records, split records, empty reads) -> real ReceivePacket until it fails.  Boundaries, contents
// and order must survive every chunking; after the last complete record ReceivePacket must fail, not invent data.

import (
	"bytes"
	"context"
	"io"
	"net"

	"tunnox-core/internal/client"
	"tunnox-core/internal/stream"
)

type tcObs struct {
	Stream    string   `json:"stream"`
	Delivered []string `json:"delivered"`
	NDeliv    int      `json:"n_delivered"`
	Ended     bool     `json:"ended_with_error"`
}

func runUDPTCCase(c *caseIn, out *caseOut) {
	ds := decodeDgrams(c.Dgrams)
	var wire bytes.Buffer
	p1, p2 := net.Pipe()
	defer p1.Close()
	defer p2.Close()
	sp1 := stream.NewStreamProcessor(bytes.NewReader(nil), &wire, context.Background())
	tc1 := client.VerifNewUDPTunnelConn(p1, sp1)
	for i, d := range ds {
		if err := tc1.SendPacket(d); err != nil {
			out.fail("udptc-send", "SendPacket refused datagram %d: %v", i, err)
			return
		}
	}
	if want := refEncodeAll(ds); !bytes.Equal(wire.Bytes(), want) {
		out.fail("udptc-encode", "SendPacket produced %d bytes, expected the %d-byte length-prefixed encoding", wire.Len(), len(want))
		return
	}
	s := append([]byte(nil), wire.Bytes()...)
	if c.Cut >= 0 && c.Cut < len(s) {
		s = s[:c.Cut]
	}
	var want [][]byte
	off := 0
	for _, d := range ds {
		if off+2+len(d) > len(s) {
			break
		}
		off += 2 + len(d)
		want = append(want, d)
	}
	spec := c.Tunnel
	spec.Data, spec.WLimit, spec.Gate, spec.Wrap = hx(s), -1, -1, 0
	log := &evlog{}
	f := newStreamFake("tunnel", spec, log, make(chan string, 2))
	sp2 := stream.NewStreamProcessor(f, io.Discard, context.Background())
	tc2 := client.VerifNewUDPTunnelConn(p2, sp2)
	o := &tcObs{Stream: hx(s), Delivered: []string{}}
	out.TC = o
	var got [][]byte
	for i := 0; i < len(s)+4; i++ {
		d, err := tc2.ReceivePacket()
		if err != nil {
			o.Ended = true
			break
		}
		got = append(got, d)
		o.Delivered = append(o.Delivered, hx(d))
	}
	o.NDeliv = len(got)
	if !eqDgrams(got, want) {
		out.fail("udptc-roundtrip", "udpTunnelConn: %d datagrams sent, stream of %d bytes cut at %d holds %d complete records, ReceivePacket delivered %d (first difference at %d)",
			len(ds), wire.Len(), len(s), len(want), len(got), firstDiff(got, want))
		return
	}
	if !o.Ended {
		out.fail("udptc-no-end", "ReceivePacket kept succeeding after the stream had ended")
	}
}

// refEncodeAll: [len:2 BE][datagram] for every datagram (this endpoint also frames empty datagrams)
func refEncodeAll(ds [][]byte) []byte {
	var s []byte
	for _, d := range ds {
		s = append(s, byte(len(d)>>8), byte(len(d)))
		s = append(s, d...)
	}
	return s
}

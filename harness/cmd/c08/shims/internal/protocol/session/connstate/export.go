//go:build verif

package connstate

import "time"

// Export shims for the C08 verification harness (compiled only with -tags verif via -overlay).

func (s *Store) VerifConnKey(connectionID string) string { return s.makeConnectionKey(connectionID) }
func (s *Store) VerifClientKey(clientID int64) string    { return s.makeClientKey(clientID) }
func (s *Store) VerifTTL() time.Duration                 { return s.ttl }

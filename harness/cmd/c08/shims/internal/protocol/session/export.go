//go:build verif

package session

import "time"

// Export shims for the C08 verification harness (compiled only with -tags verif via -overlay).

// VerifC08SweepStale makes the control connection connID look silent for longer than HeartbeatTimeout (LastActiveAt is
// moved back; no sleeping) and runs the periodic sweep body once.  Returns the number of connections the sweep closed.
func (s *SessionManager) VerifC08SweepStale(connID string) int {
	if cc := s.clientRegistry.GetByConnID(connID); cc != nil && s.config != nil {
		cc.LastActiveAt = time.Now().Add(-2*s.config.HeartbeatTimeout - time.Hour)
	}
	return s.cleanupStaleConnections()
}

//go:build verif

// Concurrent phases replayed deterministically: every connstate.Store method invocation of a phase runs in its own
// goroutine over a GATED double of the real shared storage (each Get / Set / Delete / SetExpiration / Exists blocks until the
// scheduler releases that invocation), so a schedule of the model (Model/ConnStateThreads.v: one entry = one storage
// call of one invocation) is reproduced exactly on the real code.
package main

import (
	"fmt"
	"strings"
	"sync"
	"time"

	"tunnox-core/internal/cloud/factories"
	"tunnox-core/internal/cloud/managers"
	"tunnox-core/internal/cloud/repos"
	"tunnox-core/internal/core/storage"
	"tunnox-core/internal/core/storage/hybrid"
	"tunnox-core/internal/core/storage/memory"
	"tunnox-core/internal/protocol/session/connstate"
)

const (
	thStConnect = 4 // n c x   cloud control ConnectClient(x, node n, conn c)        [GetState ; SetState]
	thStEnsure  = 5 // n c x   EnsureClientOnline(x, n, c) (a heartbeat)             [GetState ; SetState]
	thStDisc    = 6 // n c x   DisconnectClientIfMatch(x, n, c) (close / stale sweep) [GetState ; DeleteState if it matched]
)

const (
	thFind    = 0 // n x
	thReg     = 1 // n c x ctl
	thUnreg   = 2 // n c
	thRefresh = 3 // n c
)

var thName = map[int]string{0: "FindClientNode", 1: "RegisterConnection", 2: "UnregisterConnection", 3: "RefreshConnection",
	4: "ConnectClient", 5: "EnsureClientOnline", 6: "DisconnectClientIfMatch"}

type gate struct {
	arrive chan int
	resume []chan struct{}
}

type gatedStore struct {
	storage.Storage // the real storage of the node (everything not overridden passes through ungated)
	idx             int
	g               *gate
	mu              *sync.Mutex
	calls           *[][3]int // type (0 read, 1 Set, 2 Delete, 3 SetExpiration, 4 CompareAndSwap), key family (0 conn_state, 1 client_conn, 2 other), 0
	connPrefix      string
	clientPrefix    string
	casOK           bool // the real storage performs CompareAndSwap on client-index keys (else: behave like a storage without CASStore)
	only            string // when set: only calls on keys with this prefix are gated (and logged); everything else passes through
}

// does the real storage perform CompareAndSwap on keys of the client-index family?  (hybrid storage may answer
// "not implemented"; such a storage is presented to connstate exactly like one that has no CAS at all)
func storageHasCAS(st storage.Storage, clientPrefix string) bool {
	cas, ok := st.(storage.CASStore)
	if !ok {
		return false
	}
	key := clientPrefix + "verif-probe"
	_, err := cas.CompareAndSwap(key, nil, "x", time.Second)
	_ = st.Delete(key)
	return err == nil
}

func (s *gatedStore) enter(kind int, key string) {
	if s.only != "" && !strings.HasPrefix(key, s.only) {
		return
	}
	s.g.arrive <- s.idx
	<-s.g.resume[s.idx]
	fam := 2
	if strings.HasPrefix(key, s.connPrefix) {
		fam = 0
	} else if strings.HasPrefix(key, s.clientPrefix) {
		fam = 1
	}
	s.mu.Lock()
	*s.calls = append(*s.calls, [3]int{kind, fam, 0})
	s.mu.Unlock()
}
func (s *gatedStore) Get(key string) (any, error) { s.enter(0, key); return s.Storage.Get(key) }
func (s *gatedStore) Exists(key string) (bool, error) {
	s.enter(0, key)
	return s.Storage.Exists(key)
}
func (s *gatedStore) Set(key string, v any, ttl time.Duration) error {
	s.enter(1, key)
	return s.Storage.Set(key, v, ttl)
}
func (s *gatedStore) Delete(key string) error { s.enter(2, key); return s.Storage.Delete(key) }
func (s *gatedStore) SetExpiration(key string, ttl time.Duration) error {
	s.enter(3, key)
	return s.Storage.SetExpiration(key, ttl)
}

// CASStore: ONE gated storage call, handed to the real storage's own atomic implementation (if it has one)
func (s *gatedStore) CompareAndSwap(key string, oldValue, newValue any, ttl time.Duration) (bool, error) {
	cas, ok := s.Storage.(storage.CASStore)
	if !ok || !s.casOK {
		return false, fmt.Errorf("underlying storage has no CompareAndSwap")
	}
	s.enter(4, key)
	return cas.CompareAndSwap(key, oldValue, newValue, ttl)
}
func (s *gatedStore) SetNX(key string, value any, ttl time.Duration) (bool, error) {
	cas, ok := s.Storage.(storage.CASStore)
	if !ok {
		return false, fmt.Errorf("underlying storage has no SetNX")
	}
	s.enter(1, key)
	return cas.SetNX(key, value, ttl)
}

type concIn struct {
	Backend string  `json:"backend"`
	Nodes   int     `json:"nodes"`
	Clients []int   `json:"clients"`
	Setup   [][]int `json:"setup"`
	Threads [][]int `json:"threads"`
	Sched   []int   `json:"sched"`
}

type concOut struct {
	Variant [7]int      `json:"variant"`
	Results [][]int     `json:"results"` // per thread: [kind, n, c] for lookups, [] otherwise
	Calls   [][][3]int  `json:"calls"`   // per thread: the storage calls it issued
	Sched   []int       `json:"sched"`   // the schedule actually executed (given schedule + completion suffix)
	Final   [][][3]int  `json:"final"`   // per node, per client
	FinalRS [][][3]int  `json:"final_rs"` // per node, per client: the runtime-state record
	PropOK  bool        `json:"prop_ok"`
	PropKey string      `json:"prop_key"`
	PropMsg string      `json:"prop_msg"`
	Checked int         `json:"checked"`
	Stuck   bool        `json:"stuck"`
}

func runConc(c concIn) *concOut {
	out := &concOut{Variant: variant, PropOK: true}
	if v, ok := casByBackend[c.Backend]; ok {
		out.Variant[4] = v
	}
	if v, ok := scasByBackend[c.Backend]; ok {
		out.Variant[5] = v
	}
	if c.Nodes < 1 {
		c.Nodes = 2
	}
	w := newWorld(c.Backend, c.Nodes, time.Hour, false)
	defer w.close()
	for _, o := range c.Setup {
		if k := arg(o, 0); k == thStConnect || k == thStDisc { // runtime-state setup through an ungated cloud control
			cfg := managers.DefaultConfig()
			cfg.NodeID = nodeName(arg(o, 1))
			cloud := factories.NewBuiltinCloudControlWithStorageAndServices(w.ctx, cfg, w.st[arg(o, 1)])
			if k == thStConnect {
				_ = cloud.ConnectClient(int64(arg(o, 3)), nodeName(arg(o, 1)), connName(arg(o, 2)), "198.51.100.7", "tcp", "V3")
			} else { // a matched delete: leaves the short-lived tombstone
				_, _ = cloud.DisconnectClientIfMatch(int64(arg(o, 3)), nodeName(arg(o, 1)), connName(arg(o, 2)))
			}
			continue
		}
		w.apply(o, nil)
	}
	n := len(c.Threads)
	g := &gate{arrive: make(chan int), resume: make([]chan struct{}, n)}
	done := make([]chan struct{}, n)
	calls := make([][][3]int, n)
	results := make([][]int, n)
	var mu sync.Mutex
	connPrefix := w.cs[1].VerifConnKey("")
	clientPrefix := strings.TrimSuffix(w.cs[1].VerifClientKey(1), "1")
	for i, t := range c.Threads {
		g.resume[i] = make(chan struct{})
		done[i] = make(chan struct{})
		node := arg(t, 1)
		if node < 1 || node > c.Nodes {
			node = 1
		}
		gs := &gatedStore{Storage: w.st[node], idx: i, g: g, mu: &mu, calls: &calls[i], connPrefix: connPrefix, clientPrefix: clientPrefix,
			casOK: storageHasCAS(w.st[node], clientPrefix)}
		var target storage.Storage = gs
		if c.Backend == "hybrid-gated-shared" {
			// the gate sits in the SHARED tier, UNDER a tiered storage instance of this invocation's own node (private local
			// cache): what the tiered storage itself does on the shared tier (e.g. a CompareAndSwap done as Get + Set under a
			// per-process lock) is interleaved at storage-call granularity with the other node's instance
			gs.Storage, gs.casOK = w.shared, true
			target = hybrid.NewWithSharedCache(w.ctx, memory.New(w.ctx), gs, nil, nil)
		}
		store := connstate.NewStore(target, nodeName(node), time.Hour)
		if k := arg(t, 0); k >= thStConnect && k <= thStDisc {
			gs.only = cloudStatePrefix // the client service touches many other keys (node lists, counters, legacy repo): not gated
		}
		go func(i int, t []int, store *connstate.Store, target storage.Storage) {
			defer close(done[i])
			if k := arg(t, 0); k >= thStConnect && k <= thStDisc {
				cfg := managers.DefaultConfig()
				cfg.NodeID = nodeName(arg(t, 1))
				cloud := factories.NewBuiltinCloudControlWithStorageAndServices(w.ctx, cfg, target)
				x, nd, cn := int64(arg(t, 3)), nodeName(arg(t, 1)), connName(arg(t, 2))
				switch k {
				case thStConnect:
					_ = cloud.ConnectClient(x, nd, cn, "198.51.100.7", "tcp", "V3")
				case thStEnsure:
					_ = cloud.EnsureClientOnline(x, nd, cn, "198.51.100.7", "tcp", "V3")
				case thStDisc:
					_, _ = cloud.DisconnectClientIfMatch(x, nd, cn)
				}
				return
			}
			switch arg(t, 0) {
			case thFind:
				nodeID, conn, err := store.FindClientNode(w.ctx, int64(arg(t, 2)))
				r := []int{0, 0, 0}
				if err == nil {
					r = []int{1, nodeNum(nodeID), connNum(conn)}
				} else if err != connstate.ErrConnectionNotFound && err != connstate.ErrConnectionExpired {
					r = []int{2, 0, 0}
				}
				mu.Lock()
				results[i] = r
				mu.Unlock()
			case thReg:
				ct := "control"
				if arg(t, 4) == 0 {
					ct = "tunnel"
				}
				_ = store.RegisterConnection(w.ctx, &connstate.Info{ConnectionID: connName(arg(t, 2)), ClientID: int64(arg(t, 3)), Protocol: "tcp", ConnType: ct})
			case thUnreg:
				_ = store.UnregisterConnection(w.ctx, connName(arg(t, 2)))
			case thRefresh:
				_ = store.RefreshConnection(w.ctx, connName(arg(t, 2)))
			}
		}(i, t, store, target)
	}
	parked := make([]bool, n)
	finished := make([]bool, n)
	settle := func(i int) {
		for !parked[i] && !finished[i] {
			select {
			case j := <-g.arrive:
				parked[j] = true
			case <-done[i]:
				finished[i] = true
			case <-time.After(20 * time.Second):
				out.Stuck = true
				finished[i] = true
			}
		}
	}
	for i := 0; i < n; i++ {
		settle(i)
	}
	stepOne := func(i int) {
		if i < 0 || i >= n || finished[i] {
			return
		}
		out.Sched = append(out.Sched, i)
		parked[i] = false
		g.resume[i] <- struct{}{}
		settle(i)
	}
	for _, i := range c.Sched {
		stepOne(i)
	}
	for i := 0; i < n; i++ {
		for !finished[i] {
			stepOne(i)
		}
	}
	if out.Sched == nil {
		out.Sched = []int{}
	}
	for i := 0; i < n; i++ {
		if results[i] == nil {
			results[i] = []int{}
		}
		if calls[i] == nil {
			calls[i] = [][3]int{}
		}
	}
	out.Results, out.Calls = results, calls
	for m := 1; m <= c.Nodes; m++ {
		row := [][3]int{}
		for _, x := range c.Clients {
			a, _ := w.lookup(m, x)
			row = append(row, a)
		}
		out.Final = append(out.Final, row)
		repo := repos.NewClientStateRepository(w.ctx, w.st[m])
		rrow := [][3]int{}
		for _, x := range c.Clients {
			a := [3]int{0, 0, 0}
			if st, err := repo.GetState(int64(x)); err != nil {
				a = [3]int{2, 0, 0}
			} else if st != nil && st.IsOnline() {
				a = [3]int{1, nodeNum(st.NodeID), connNum(st.ConnID)}
			}
			rrow = append(rrow, a)
		}
		out.FinalRS = append(out.FinalRS, rrow)
	}
	if statePhase(c) {
		statePredicate(c, out)
		return out
	}
	concPredicate(c, out)
	return out
}

const cloudStatePrefix = "tunnox:runtime:client:state:"

func statePhase(c concIn) bool {
	for _, t := range c.Threads {
		if k := arg(t, 0); k >= thStConnect && k <= thStDisc {
			return true
		}
	}
	return false
}

// runtime-state phases: a single ConnectClient (the new login) races heartbeats / cleanups of OLDER connections;
// afterwards every node must read the new login's (node, conn)
func statePredicate(c concIn, out *concOut) {
	if out.Stuck {
		out.PropOK, out.PropKey, out.PropMsg = false, "conc-stuck", "an invocation neither reached a storage call nor finished within 20 s"
		return
	}
	var login []int
	kinds := map[int]bool{}
	for _, t := range c.Threads {
		kinds[arg(t, 0)] = true
		if arg(t, 0) == thStConnect {
			if login != nil {
				return // two logins racing: either may win
			}
			login = t
		}
	}
	if login == nil {
		return
	}
	want := [3]int{1, arg(login, 1), arg(login, 2)}
	for xi, x := range c.Clients {
		if x != arg(login, 3) {
			continue
		}
		for m, row := range out.FinalRS {
			out.Checked++
			if row[xi] != want {
				key := "race-state-other"
				absentAtStart := true // the phase starts from an absent record or a tombstone: the heartbeat REBUILDS
				for _, o := range c.Setup {
					if arg(o, 0) == thStConnect && arg(o, 3) == x {
						absentAtStart = false
					}
					if arg(o, 0) == thStDisc && arg(o, 3) == x {
						absentAtStart = true
					}
				}
				switch {
				case kinds[thStEnsure] && !kinds[thStDisc] && absentAtStart:
					key = "race-state-rebuild-window"
				case kinds[thStDisc] && !kinds[thStEnsure]:
					key = "race-state-disconnect-read-delete-window"
				case kinds[thStEnsure] && !kinds[thStDisc]:
					key = "race-state-touch-read-set-window"
				}
				desc := []string{}
				for _, t := range c.Threads {
					desc = append(desc, fmt.Sprintf("%s%v", thName[arg(t, 0)], t[1:]))
				}
				if out.Variant[5] == 1 && key != "race-state-other" {
					key += "-despite-cas" // this tree has the atomic service on this backend: never a known finding
				}
				out.PropOK, out.PropKey = false, key
				out.PropMsg = fmt.Sprintf("after the concurrent phase {%s} under schedule %v (one entry = one GetState/SetState/DeleteState), the client runtime state of %d read on node %d is %v, expected %v",
					strings.Join(desc, " || "), out.Sched, x, m+1, row[xi], want)
				return
			}
		}
	}
}

// the property on the real code's behaviour in a concurrent phase
func concPredicate(c concIn, out *concOut) {
	fail := func(key, msg string) {
		if out.PropOK {
			out.PropOK, out.PropKey, out.PropMsg = false, key, msg
		}
	}
	if out.Stuck {
		fail("conc-stuck", "an invocation neither reached a storage call nor finished within 20 s")
		return
	}
	// (p1) a lookup never writes: FindClientNode issues reads only
	for i, t := range c.Threads {
		if arg(t, 0) != thFind {
			continue
		}
		out.Checked++
		for _, call := range out.Calls[i] {
			if call[0] != 0 {
				what := map[int]string{1: "Set", 2: "Delete", 3: "SetExpiration", 4: "CompareAndSwap"}[call[0]]
				fam := map[int]string{0: "tunnox:conn_state:*", 1: "tunnox:client_conn:*", 2: "another key"}[call[1]]
				fail("lookup-writes-store", fmt.Sprintf("FindClientNode(%d) on node %d issued %s on %s: a lookup in flight while the client moves can destroy the client's registration (schedule %v)",
					arg(t, 2), arg(t, 1), what, fam, out.Sched))
			}
		}
	}
	// (p2) after the phase: a client whose (single) registration of this phase / latest registration before it was not
	// unregistered is found there on every node; a client whose current connection was unregistered is not connected
	owner := map[int][2]int{} // conn -> (node, client) of control registrations
	curr := map[int]int{}     // client -> conn
	for _, o := range c.Setup {
		switch arg(o, 0) {
		case opSReg:
			cn, x := arg(o, 2), arg(o, 3)
			if arg(o, 4) != 0 && x > 0 {
				owner[cn] = [2]int{arg(o, 1), x}
				curr[x] = cn
			}
		case opSUnreg:
			cn := arg(o, 2)
			if ow, ok := owner[cn]; ok {
				if curr[ow[1]] == cn {
					delete(curr, ow[1])
				}
				delete(owner, cn)
			}
		}
	}
	unreg := map[int]bool{}
	regs := map[int][][2]int{} // client -> (node, conn) registered in the phase
	kinds := map[int]bool{}
	for _, t := range c.Threads {
		kinds[arg(t, 0)] = true
		switch arg(t, 0) {
		case thUnreg:
			unreg[arg(t, 2)] = true
		case thReg:
			if arg(t, 4) != 0 && arg(t, 3) > 0 {
				regs[arg(t, 3)] = append(regs[arg(t, 3)], [2]int{arg(t, 1), arg(t, 2)})
			}
		}
	}
	for xi, x := range c.Clients {
		if x <= 0 {
			continue
		}
		want := [3]int{0, 0, 0}
		switch {
		case len(regs[x]) > 1:
			continue // two logins racing: either may win
		case len(regs[x]) == 1:
			if unreg[regs[x][0][1]] {
				continue
			}
			want = [3]int{1, regs[x][0][0], regs[x][0][1]}
		default:
			if cn, ok := curr[x]; ok && !unreg[cn] {
				want = [3]int{1, owner[cn][0], cn}
			}
		}
		for m, row := range out.Final {
			out.Checked++
			if row[xi] != want {
				key := "race-other"
				switch {
				case len(regs[x]) == 1 && kinds[thUnreg] && !kinds[thRefresh]:
					key = "race-unregister-read-delete-window"
				case len(regs[x]) == 1 && kinds[thRefresh] && !kinds[thUnreg]:
					key = "race-refresh-read-set-window"
				case len(regs[x]) == 1 && kinds[thRefresh] && kinds[thUnreg]:
					key = "race-unregister-or-refresh-window"
				}
				if out.Variant[4] == 1 && key != "race-other" {
					key += "-despite-cas" // the tree has the atomic index update on this backend: never a known finding
				}
				desc := []string{}
				for _, t := range c.Threads {
					desc = append(desc, fmt.Sprintf("%s%v", thName[arg(t, 0)], t[1:]))
				}
				fail(key, fmt.Sprintf("after the concurrent phase {%s} under schedule %v, FindClientNode(%d) on node %d answers %v, expected %v",
					strings.Join(desc, " || "), out.Sched, x, m+1, row[xi], want))
				return
			}
		}
	}
}

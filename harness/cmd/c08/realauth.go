//go:build verif

// "realauth" mode: the REAL ServerAuthHandler (challenge-response authentication, updateClientRuntimeState -> ConnectClient)
// wired into two fully assembled server fixtures (node-1, node-2) over ONE shared storage.  A client performs a control
// handshake, then tunnel-typed handshakes (what client/tunnel_dialer.go sends on every tunnel connection it dials) on
// either node; after every step both location records are read on both nodes.
package main

import (
	"context"
	"crypto/hmac"
	"crypto/sha256"
	"encoding/hex"
	"encoding/json"
	"fmt"
	"time"

	"tunnox-core/internal/app/server"
	"tunnox-core/internal/cloud/repos"
	"tunnox-core/internal/core/storage/memory"
	"tunnox-core/internal/core/types"
	"tunnox-core/internal/packet"
)

// ops: [0, n, c]            open connection c on node n
//      [1, n, c, kind]      authenticated handshake on c (both phases), kind 0 = "control", 1 = "tunnel", 2 = connection_type omitted,
//                           3 = "control" whose final (success) response cannot be written: not a successful handshake
//      [2, n, c]            CloseConnection(c) on node n
//      [3, n, c]            heartbeat on c
type realIn struct {
	Ops [][]int `json:"ops"`
}
type realStep struct {
	Err   bool      `json:"err"`
	State [][3]int  `json:"state"` // per node: runtime-state record (kind, node, conn)
	Index [][3]int  `json:"index"` // per node: connstate FindClientNode (kind, node, conn)
}
type realOut struct {
	Variant [7]int     `json:"variant"`
	Steps   []realStep `json:"steps"`
	PropOK  bool       `json:"prop_ok"`
	PropKey string     `json:"prop_key"`
	PropMsg string     `json:"prop_msg"`
	Checked int        `json:"checked"`
}

func hmacHex(secret, chal string) string {
	h := hmac.New(sha256.New, []byte(secret))
	h.Write([]byte(chal))
	return hex.EncodeToString(h.Sum(nil))
}

func runRealAuth(in realIn) *realOut {
	out := &realOut{Variant: variant, PropOK: true}
	ctx, cancel := context.WithCancel(context.Background())
	defer cancel()
	st := memory.New(ctx)
	fx := make([]*server.VerifFixture, 3)
	states := make([]*repos.ClientStateRepository, 3)
	for n := 1; n <= 2; n++ {
		f, err := server.VerifNewFixture(ctx, st, server.VerifFixtureOptions{NodeID: nodeName(n), WithRouting: true, ConnStateTTL: time.Hour})
		must(err)
		fx[n] = f
		states[n] = repos.NewClientStateRepository(ctx, st)
		defer f.Close()
	}
	cl, err := fx[1].Cloud.GenerateAnonymousCredentials()
	must(err)
	x, secret := cl.ID, cl.SecretKeyPlaintext

	trs := map[[2]int]*transport{}
	handshake := func(n, c, kind int) error {
		sm := fx[n].Session
		ct := map[int]string{0: "control", 1: "tunnel", 2: "", 3: "control", 4: "control"}[kind]
		send := func(resp string) error {
			req := map[string]interface{}{"client_id": x, "version": "V3", "protocol": "tcp"}
			if ct != "" {
				req["connection_type"] = ct
			}
			if resp != "" {
				req["challenge_response"] = resp
			}
			payload, _ := json.Marshal(req)
			return sm.HandlePacket(&types.StreamPacket{ConnectionID: connName(c), Timestamp: time.Now(),
				Packet: &packet.TransferPacket{PacketType: packet.Handshake, Payload: payload}})
		}
		if err := send(""); err != nil {
			return fmt.Errorf("phase 1: %w", err)
		}
		if kind == 4 { // a phase-1 message only (the client never answers the challenge): nothing is proven by it
			return nil
		}
		cc := sm.GetControlConnection(connName(c))
		if cc == nil {
			return fmt.Errorf("no control connection object after phase 1")
		}
		if kind == 3 {
			if t := trs[[2]int{n, c}]; t != nil {
				t.fail = true
			}
		}
		return send(hmacHex(secret, cc.GetPendingChallenge()))
	}

	// ghost: the client's registered control connection (only control-type / untyped handshakes are logins)
	curN, curC, curOK := 0, 0, false
	lost := false // a handshake whose response was lost has happened
	for i, o := range in.Ops {
		n, c := arg(o, 1), arg(o, 2)
		var err error
		switch arg(o, 0) {
		case 0:
			t := &transport{id: connName(c)}
			trs[[2]int{n, c}] = t
			_, err = fx[n].Session.AcceptConnection(t, t)
		case 1:
			err = handshake(n, c, arg(o, 3))
			if err == nil && arg(o, 3) != 1 && arg(o, 3) != 3 && arg(o, 3) != 4 {
				curN, curC, curOK = n, c, true
			}
			if arg(o, 3) == 3 {
				lost = true
			}
		case 2:
			err = fx[n].Session.CloseConnection(connName(c))
			if curOK && curC == c {
				curOK = false
			}
		case 3:
			err = fx[n].Session.HandlePacket(&types.StreamPacket{ConnectionID: connName(c), Timestamp: time.Now(),
				Packet: &packet.TransferPacket{PacketType: packet.Heartbeat}})
		}
		step := realStep{Err: err != nil}
		for m := 1; m <= 2; m++ {
			a := [3]int{0, 0, 0}
			if s, e := states[m].GetState(x); e != nil {
				a = [3]int{2, 0, 0}
			} else if s != nil && s.IsOnline() {
				a = [3]int{1, nodeNum(s.NodeID), connNum(s.ConnID)}
			}
			step.State = append(step.State, a)
			b := [3]int{0, 0, 0}
			if store := fx[m].Session.GetConnectionStateStore(); store != nil {
				if node, conn, e := store.FindClientNode(ctx, x); e == nil {
					b = [3]int{1, nodeNum(node), connNum(conn)}
				}
			}
			step.Index = append(step.Index, b)
		}
		out.Steps = append(out.Steps, step)
		if out.PropOK && curOK {
			for m := 0; m < 2; m++ {
				out.Checked += 2
				want := [3]int{1, curN, curC}
				if step.State[m] != want {
					key := "tunnel-handshake-moves-runtime-state"
					if arg(o, 0) == 2 {
						key = "tunnel-close-deletes-runtime-state"
					}
					if lost {
						key = "unanswered-handshake-moves-runtime-state"
					}
					out.PropOK, out.PropKey = false, key
					out.PropMsg = fmt.Sprintf("REAL ServerAuthHandler: client %d's control connection c%d is registered on node %d, but after step %d %v the runtime state read on node %d says %v",
						x, curC, curN, i, o, m+1, step.State[m])
					break
				}
				if step.Index[m] != want {
					out.PropOK, out.PropKey = false, "tunnel-handshake-moves-client-index"
					if lost {
						out.PropKey = "unanswered-handshake-took-the-index"
					}
					out.PropMsg = fmt.Sprintf("REAL ServerAuthHandler: client %d's control connection c%d is registered on node %d, but after step %d %v FindClientNode on node %d says %v",
						x, curC, curN, i, o, m+1, step.Index[m])
					break
				}
			}
		}
	}
	return out
}

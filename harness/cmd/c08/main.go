//go:build verif

// verif_c08: cross-node client lookup.  Drives the REAL connstate.Store (store mode) and the REAL SessionManager
// (session mode: CreateConnection / HandlePacket(Handshake|Heartbeat) / KickOldControlConnection / CloseConnection)
// of several nodes over ONE shared storage (memory, redis@miniredis, hybrid with a shared redis cache, hybrid without
// shared cache), asks FindClientNode for every client on every node after every event and evaluates the C08
// predicate on those answers.
package main

import (
	"bufio"
	"context"
	"encoding/json"
	"errors"
	"fmt"
	"go/ast"
	"go/parser"
	"go/token"
	"io"
	"os"
	"path/filepath"
	"strconv"
	"strings"
	"sync"
	"time"

	"github.com/alicebob/miniredis/v2"

	cloudconst "tunnox-core/internal/cloud/constants"
	"tunnox-core/internal/cloud/factories"
	"tunnox-core/internal/cloud/managers"
	"tunnox-core/internal/cloud/repos"
	corelog "tunnox-core/internal/core/log"
	"tunnox-core/internal/core/storage"
	"tunnox-core/internal/core/storage/hybrid"
	"tunnox-core/internal/core/storage/memory"
	stypes "tunnox-core/internal/core/storage/types"
	rstore "tunnox-core/internal/core/storage/redis"
	"tunnox-core/internal/core/types"
	"tunnox-core/internal/packet"
	"tunnox-core/internal/protocol/session"
	"tunnox-core/internal/protocol/httptypes"
	"tunnox-core/internal/protocol/session/connstate"
)

// operation codes (shared with Corr/C08.v and lib/props/c08.py)
const (
	opConnect   = 0  // n c
	opAuthOK    = 1  // n c x shape   (shape of the handshake request, see handshakePayload)
	opAuthFail  = 2  // n c
	opKick      = 3  // n x c
	opHeartbeat = 4  // n c
	opClose     = 5  // n c
	opTick      = 6  // d (units)
	opStale     = 7  // n c: node n's periodic sweep finds control connection c silent beyond HeartbeatTimeout
	opSend      = 8  // n x via: node n forwards a command (via 0: SendCommandToClient) / an HTTP request (via 1: SendHTTPProxyRequest) to client x
	opSendRace  = 9  // n c x shape via pos: the same, while x's handshake on connection c of the SAME node completes inside the
	//                forwarder's lookup (pos 0: right before the client-index read, 1: right before the conn_state read)
	opAuthLost  = 13 // n c x shape: the handshake authenticates, but its response cannot be written (peer reset): NOT a successful handshake
	opShutdown  = 14 // n: graceful shutdown of node n's SessionManager (Close()); the adapters' deferred CloseConnection calls follow as Close ops
	opFault     = 15 // n on: node n's cloud control starts (1) / stops (0) failing EnsureClientOnline (a fault of a collaborator; outside C08's quantifier)
	opChallenge = 16 // n c x shape: a phase-1 handshake message (no proof): answered with a challenge (Success=false, no error); NOT a successful handshake
	opSReg      = 10 // n c x ctl
	opSUnreg    = 11 // n c
	opSRefresh  = 12 // n c
)

var opName = map[int]string{0: "Connect", 1: "AuthOK", 2: "AuthFail", 3: "Kick", 4: "Heartbeat", 5: "Close", 6: "Tick", 7: "StaleSweep", 8: "Forward", 9: "ForwardRacingLogin", 13: "HandshakeResponseLost", 14: "NodeShutdown", 15: "CloudControlFault", 16: "HandshakePhase1Message",
	10: "Register", 11: "Unregister", 12: "Refresh"}

type caseIn struct {
	Mode     string  `json:"mode"`    // store | session
	Backend  string  `json:"backend"` // memory | redis | hybrid-redis | hybrid-mem
	TTLms    int     `json:"ttl_ms"`
	UnitMs   int     `json:"unit_ms"`
	MarginMs int     `json:"margin_ms"`
	Virtual  bool    `json:"virtual"` // redis-backed backends only: Tick advances miniredis' clock without sleeping (lifetimes of seconds)
	Nodes    int     `json:"nodes"`
	Clients  []int   `json:"clients"`
	Ops      [][]int `json:"ops"`
}

type caseOut struct {
	Variant   [7]int      `json:"variant"` // guard, refresh_idx, hb, ptr, cas, scas, tomb_ms (probed on the real code)
	Obs       [][][][3]int `json:"obs"`     // per op, per node, per client: kind(0 absent,1 found,2 error), node, conn
	RS        [][][][3]int `json:"rs"`      // session mode: the same for the client runtime-state record
	Errs      []int       `json:"errs"`    // per op: the call returned an error
	TaintedAt int         `json:"tainted_at"`
	MaxLateMs int         `json:"max_late_ms"`
	PropOK    bool        `json:"prop_ok"`
	PropKey   string      `json:"prop_key"`
	PropMsg   string      `json:"prop_msg"`
	PropStep  int         `json:"prop_step"`
	Checked   int         `json:"checked"` // number of (step, client) expectations evaluated
}

// ---------------------------------------------------------------------------------------------
// transports and scripted authentication
// ---------------------------------------------------------------------------------------------
type transport struct {
	id     string
	closed bool
	fail   bool // writes fail although the transport is not closed (peer reset)
}

func (t *transport) Read(p []byte) (int, error) { return 0, io.EOF }
func (t *transport) Write(p []byte) (int, error) {
	if t.closed || t.fail {
		return 0, errors.New("transport closed")
	}
	return len(p), nil
}
func (t *transport) Close() error            { t.closed = true; return nil }
func (t *transport) GetConnectionID() string { return t.id }

// Scripted stand-in for ServerAuthHandler: like the real one it marks the connection authenticated and records the client's
// location in the cloud control's runtime state (ConnectClient) before the session layer registers the connection.
// (The real handler does that for tunnel-typed handshakes as well; this one only for requests the server classifies as
// control handshakes — see the report: candidate finding, not exercised here.)
type authHandler struct {
	chal  bool // answer with a challenge: Success=false, NeedResponse=true, no error, connection state untouched (phase 1)
	ok    bool
	x     int64
	cloud *managers.BuiltinCloudControl
	node  string
}

func (h *authHandler) HandleHandshake(conn session.ControlConnectionInterface, req *packet.HandshakeRequest) (*packet.HandshakeResponse, error) {
	if h.chal {
		conn.SetPendingChallenge("verif-challenge")
		return &packet.HandshakeResponse{Success: false, NeedResponse: true, Challenge: "verif-challenge"}, nil
	}
	if !h.ok || h.x <= 0 {
		return &packet.HandshakeResponse{Success: false, Error: "rejected"}, errors.New("rejected")
	}
	conn.SetClientID(h.x)
	conn.SetAuthenticated(true)
	if h.cloud != nil && req.ConnectionType != "tunnel" {
		_ = h.cloud.ConnectClient(h.x, h.node, conn.GetConnID(), "198.51.100.7", "tcp", "V3")
	}
	return &packet.HandshakeResponse{Success: true, Message: "ok"}, nil
}
func (h *authHandler) GetClientConfig(conn session.ControlConnectionInterface) (string, error) {
	return "", nil
}

// ---------------------------------------------------------------------------------------------
// the cluster
// ---------------------------------------------------------------------------------------------
// hookStore: the node's real storage as seen by its connstate.Store, with a one-shot hook that runs right before a chosen
// read (deterministic stand-in for "another goroutine of this node gets scheduled exactly here")
type hookStore struct {
	storage.Storage
	prefix string // armed: run fn before the next Get of a key with this prefix
	fn     func()
}

func (h *hookStore) Get(key string) (any, error) {
	if h.fn != nil && strings.HasPrefix(key, h.prefix) {
		fn := h.fn
		h.fn = nil
		fn()
	}
	return h.Storage.Get(key)
}
func (h *hookStore) CompareAndSwap(key string, o, n any, ttl time.Duration) (bool, error) {
	if cas, ok := h.Storage.(storage.CASStore); ok {
		return cas.CompareAndSwap(key, o, n, ttl)
	}
	return false, errors.New("no CompareAndSwap")
}
func (h *hookStore) SetNX(key string, v any, ttl time.Duration) (bool, error) {
	if cas, ok := h.Storage.(storage.CASStore); ok {
		return cas.SetNX(key, v, ttl)
	}
	return false, errors.New("no SetNX")
}

// cloud control as the SessionManager sees it, with an on/off fault on the heartbeat's runtime-state refresh
type faultyCloud struct {
	session.CloudControlAPI
	fail bool
}

func (f *faultyCloud) EnsureClientOnline(clientID int64, nodeID, connID, ip, proto, version string) error {
	if f.fail {
		return errors.New("verif: cloud control unavailable")
	}
	return f.CloudControlAPI.EnsureClientOnline(clientID, nodeID, connID, ip, proto, version)
}

type world struct {
	faults []*faultyCloud
	hooks  []*hookStore
	ctx    context.Context
	cancel context.CancelFunc
	mr     *miniredis.Miniredis
	st     []storage.Storage // per node (index 1..N)
	cs     []*connstate.Store
	sms    []*session.SessionManager
	auth   []*authHandler
	cloud  []*managers.BuiltinCloudControl    // per node: the real cloud control over the node's storage
	states []*repos.ClientStateRepository     // per node: reader of the shared runtime-state record
	ttl    time.Duration
	shared *memory.Storage // the ONE shared cache of the tiered in-memory configurations
}

func nodeName(n int) string { return fmt.Sprintf("node-%d", n) }
func connName(c int) string { return fmt.Sprintf("c%d", c) }
func nodeNum(s string) int {
	n, err := strconv.Atoi(strings.TrimPrefix(s, "node-"))
	if err != nil {
		return 0
	}
	return n
}
func connNum(s string) int {
	n, err := strconv.Atoi(strings.TrimPrefix(s, "c"))
	if err != nil {
		return 0
	}
	return n
}

func ptrShape(backend string) bool {
	return backend == "hybrid-gated-shared" || backend == "memory" || backend == "hybrid-mem" || backend == "hybrid-shared-mem" || backend == "hybrid-persist"
}

func newWorld(backend string, nodes int, ttl time.Duration, withSessions bool) *world {
	ctx, cancel := context.WithCancel(context.Background())
	w := &world{ctx: ctx, cancel: cancel, ttl: ttl}
	w.st = make([]storage.Storage, nodes+1)
	w.cs = make([]*connstate.Store, nodes+1)
	w.sms = make([]*session.SessionManager, nodes+1)
	w.auth = make([]*authHandler, nodes+1)
	w.cloud = make([]*managers.BuiltinCloudControl, nodes+1)
	w.states = make([]*repos.ClientStateRepository, nodes+1)
	w.hooks = make([]*hookStore, nodes+1)
	w.faults = make([]*faultyCloud, nodes+1)
	var sharedMem *memory.Storage
	var sharedHybrid *hybrid.Storage
	switch backend {
	case "memory", "hybrid-shared-mem", "hybrid-persist", "hybrid-gated-shared":
		sharedMem = memory.New(ctx)
		w.shared = sharedMem
	case "hybrid-mem":
		// the single-node default: hybrid storage whose "shared" keys fall back to the local memory cache
		sharedHybrid = hybrid.New(ctx, memory.New(ctx), nil, nil)
	case "redis", "hybrid-redis":
		mr, err := miniredis.Run()
		must(err)
		w.mr = mr
	default:
		panic("unknown backend " + backend)
	}
	for n := 1; n <= nodes; n++ {
		switch backend {
		case "memory":
			w.st[n] = sharedMem
		case "hybrid-mem":
			w.st[n] = sharedHybrid
		case "hybrid-persist":
			// the cluster-with-database deployment: private local cache, ONE shared cache, persistence ENABLED
			cfg := hybrid.DefaultConfig()
			cfg.EnablePersistent = true
			w.st[n] = hybrid.NewWithSharedCache(ctx, memory.New(ctx), sharedMem, stypes.NewNullPersistentStorage(), cfg)
		case "hybrid-shared-mem", "hybrid-gated-shared":
			// tiered storage per node: a private local cache and ONE shared cache (an in-memory one here)
			w.st[n] = hybrid.NewWithSharedCache(ctx, memory.New(ctx), sharedMem, nil, nil)
		case "redis":
			r, err := rstore.New(ctx, &rstore.Config{Addr: w.mr.Addr(), PoolSize: 2})
			must(err)
			w.st[n] = r
		case "hybrid-redis":
			// what a cluster node runs: its own local cache, the Redis shared cache, no persistence
			r, err := rstore.New(ctx, &rstore.Config{Addr: w.mr.Addr(), PoolSize: 2})
			must(err)
			w.st[n] = hybrid.NewWithSharedCache(ctx, memory.New(ctx), r, nil, nil)
		}
		if withSessions {
			sc := &session.SessionConfig{HeartbeatTimeout: 100000 * time.Hour, CleanupInterval: 100000 * time.Hour}
			sm := session.NewSessionManagerWithConfig(nil, ctx, sc)
			cfg := managers.DefaultConfig()
			cfg.NodeID = nodeName(n)
			w.cloud[n] = factories.NewBuiltinCloudControlWithStorageAndServices(ctx, cfg, w.st[n])
			w.states[n] = repos.NewClientStateRepository(ctx, w.st[n])
			w.auth[n] = &authHandler{cloud: w.cloud[n], node: nodeName(n)}
			sm.SetAuthHandler(w.auth[n])
			w.faults[n] = &faultyCloud{CloudControlAPI: session.NewCloudControlAdapter(w.cloud[n])}
			sm.SetCloudControl(w.faults[n])
			sm.SetNodeID(nodeName(n))
			w.hooks[n] = &hookStore{Storage: w.st[n]}
			store := session.NewConnectionStateStore(w.hooks[n], nodeName(n), ttl)
			sm.SetConnectionStateStore(store)
			sm.SetCrossNodePool(session.NewCrossNodePool(ctx, w.st[n], nodeName(n), session.DefaultCrossNodePoolConfig()))
			w.sms[n] = sm
			w.cs[n] = store
		} else {
			w.cs[n] = connstate.NewStore(w.st[n], nodeName(n), ttl)
		}
	}
	return w
}

func (w *world) close() {
	for _, sm := range w.sms {
		if sm != nil {
			sm.Close()
		}
	}
	w.cancel()
	if w.mr != nil {
		w.mr.Close()
	}
}

func arg(o []int, i int) int {
	if i < len(o) {
		return o[i]
	}
	return 0
}

// apply one operation to the real code; returns whether the call reported an error
func (w *world) apply(o []int, tr map[[2]int]*transport) bool {
	code, n := arg(o, 0), arg(o, 1)
	if code == opTick {
		return false
	}
	if n < 1 || n >= len(w.cs) {
		return true
	}
	switch code {
	case opConnect:
		c := arg(o, 2)
		t := &transport{id: connName(c)}
		_, err := w.sms[n].AcceptConnection(t, t)
		if err == nil {
			tr[[2]int{n, c}] = t
		}
		return err != nil
	case opAuthOK, opAuthFail:
		c, x := arg(o, 2), arg(o, 3)
		w.auth[n].ok, w.auth[n].x = code == opAuthOK, int64(x)
		payload := handshakePayload(int64(x), arg(o, 4))
		err := w.sms[n].HandlePacket(&types.StreamPacket{ConnectionID: connName(c), Timestamp: time.Now(),
			Packet: &packet.TransferPacket{PacketType: packet.Handshake, Payload: payload}})
		return err != nil
	case opChallenge:
		w.auth[n].chal = true
		e := w.apply([]int{opAuthFail, n, arg(o, 2), arg(o, 3), arg(o, 4)}, tr)
		w.auth[n].chal = false
		return e
	case opShutdown:
		_ = w.sms[n].Close()
		return false
	case opFault:
		w.faults[n].fail = arg(o, 2) != 0
		return false
	case opAuthLost:
		if t := tr[[2]int{n, arg(o, 2)}]; t != nil {
			t.fail = true
		}
		return w.apply([]int{opAuthOK, n, arg(o, 2), arg(o, 3), arg(o, 4)}, tr)
	case opKick:
		w.sms[n].KickOldControlConnection(int64(arg(o, 2)), connName(arg(o, 3)))
		return false
	case opHeartbeat:
		err := w.sms[n].HandlePacket(&types.StreamPacket{ConnectionID: connName(arg(o, 2)), Timestamp: time.Now(),
			Packet: &packet.TransferPacket{PacketType: packet.Heartbeat}})
		return err != nil
	case opClose:
		return w.sms[n].CloseConnection(connName(arg(o, 2))) != nil
	case opStale:
		w.sms[n].VerifC08SweepStale(connName(arg(o, 2)))
		return false
	case opSend:
		w.forward(n, arg(o, 2), arg(o, 3))
		return false
	case opSendRace:
		// [9, n, c, x, shape, via, pos]
		c, x, via, pos := arg(o, 2), arg(o, 3), arg(o, 5), arg(o, 6)
		fired, hsErr := false, false
		login := func() {
			fired = true
			hsErr = w.apply([]int{opAuthOK, n, c, x, arg(o, 4)}, tr)
		}
		w.hooks[n].prefix = strings.TrimSuffix(w.cs[n].VerifClientKey(1), "1")
		if pos == 1 {
			w.hooks[n].prefix = w.cs[n].VerifConnKey("")
		}
		w.hooks[n].fn = login
		w.forward(n, x, via)
		w.hooks[n].fn = nil
		if !fired { // the forwarder never reached that read (e.g. it found the client locally): the login simply happens next
			login()
		}
		return hsErr
	case opSReg:
		ct := "control"
		if arg(o, 4) == 0 {
			ct = "tunnel"
		}
		return w.cs[n].RegisterConnection(w.ctx, &connstate.Info{ConnectionID: connName(arg(o, 2)), ClientID: int64(arg(o, 3)),
			Protocol: "tcp", ConnType: ct}) != nil
	case opSUnreg:
		return w.cs[n].UnregisterConnection(w.ctx, connName(arg(o, 2))) != nil
	case opSRefresh:
		return w.cs[n].RefreshConnection(w.ctx, connName(arg(o, 2))) != nil
	}
	return true
}

// the handshake request shapes the server may meet (wire JSON; optional fields present or omitted):
//   shape%4: connection_type = "control" | omitted | "tunnel" | "CONTROL" (any other spelling)
//   +4: version omitted   +8: protocol omitted   +16: empty payload (no JSON at all)
const nShapes = 32

func handshakePayload(x int64, shape int) []byte {
	if shape&16 != 0 {
		return nil
	}
	m := map[string]interface{}{"client_id": x}
	switch shape % 4 {
	case 0:
		m["connection_type"] = "control"
	case 2:
		m["connection_type"] = "tunnel"
	case 3:
		m["connection_type"] = "CONTROL"
	}
	if shape&4 == 0 {
		m["version"] = "V3"
	}
	if shape&8 == 0 {
		m["protocol"] = "tcp"
	}
	b, err := json.Marshal(m)
	must(err)
	return b
}

type shapeProbe struct {
	control  bool   // the accepted connection ends up as the client's control connection in the registry
	record   bool   // a conn_state record exists afterwards
	connType string // its ConnType
	indexed  bool   // FindClientNode finds the client
}

// what handleHandshake does with each request shape, observed on a fresh connection of a fresh node (no clock)
func probeShape(shape int) shapeProbe {
	w := newWorld("redis", 1, time.Hour, true)
	defer w.close()
	tr := map[[2]int]*transport{}
	w.apply([]int{opConnect, 1, 1}, tr)
	w.apply([]int{opAuthOK, 1, 1, 7, shape}, tr)
	var p shapeProbe
	if cc := w.sms[1].GetControlConnectionByClientID(7); cc != nil && cc.ConnID == connName(1) {
		p.control = true
	}
	if st, err := w.cs[1].GetConnectionState(w.ctx, connName(1)); err == nil && st != nil {
		p.record, p.connType = true, st.ConnType
	}
	if a, _ := w.lookup(1, 7); a[0] == 1 && a[2] == 1 {
		p.indexed = true
	}
	return p
}

// for which ConnType strings does the store build the client index?
func storeIndexes(ct string) bool {
	w := newWorld("redis", 1, time.Hour, false)
	defer w.close()
	_ = w.cs[1].RegisterConnection(w.ctx, &connstate.Info{ConnectionID: connName(1), ClientID: 7, Protocol: "tcp", ConnType: ct})
	a, _ := w.lookup(1, 7)
	return a[0] == 1
}

var shapeIsControl [nShapes]bool

// the forwarding paths that READ the location (command_forwarder.go, http_proxy.go); their own outcome is irrelevant here
func (w *world) forward(n, x, via int) {
	ctx, cancel := context.WithTimeout(w.ctx, 150*time.Millisecond)
	defer cancel()
	if via == 1 {
		_, _ = w.sms[n].SendHTTPProxyRequest(int64(x), &httptypes.HTTPProxyRequest{RequestID: "verif", Method: "GET", URL: "http://verif.local/", Timeout: 1})
		return
	}
	_, _ = w.sms[n].SendCommandToClient(ctx, int64(x), &packet.CommandPacket{CommandType: packet.ConfigGet, CommandId: "verif-cmd"}, 100*time.Millisecond)
}

// the OTHER cross-node location record: the client runtime state kept by cloud control (read on node m)
func (w *world) stateLookup(m int, x int) [3]int {
	if w.states[m] == nil {
		return [3]int{0, 0, 0}
	}
	st, err := w.states[m].GetState(int64(x))
	if err != nil {
		return [3]int{2, 0, 0}
	}
	if st == nil || !st.IsOnline() {
		return [3]int{0, 0, 0}
	}
	return [3]int{1, nodeNum(st.NodeID), connNum(st.ConnID)}
}

func (w *world) lookup(m int, x int) ([3]int, string) {
	node, conn, err := w.cs[m].FindClientNode(w.ctx, int64(x))
	if err == nil {
		return [3]int{1, nodeNum(node), connNum(conn)}, ""
	}
	if errors.Is(err, connstate.ErrConnectionNotFound) || errors.Is(err, connstate.ErrConnectionExpired) ||
		err == connstate.ErrConnectionNotFound || err == connstate.ErrConnectionExpired {
		return [3]int{0, 0, 0}, ""
	}
	return [3]int{2, 0, 0}, err.Error()
}

// ---------------------------------------------------------------------------------------------
// the C08 predicate, evaluated on the real code's answers with a ghost that only follows the history
// ---------------------------------------------------------------------------------------------
type cur struct {
	n, c    int
	renewed int // nominal ms of the last renewal
	valid   bool
}

type ghost struct {
	ttl      int
	ptr      bool
	session  bool
	conns    map[[2]int]bool // session mode: open (accepted, CloseConnection not yet run)
	reg      map[[2]int]int  // (node, conn) -> client, registered control connection (session: in the registry)
	open     map[int]map[[2]int]bool // client -> (node, conn) authenticated as client and not yet closed
	cur      map[int]*cur
	rsOff    bool         // a cloud-control fault was injected: the runtime-state expectation is off for this history
	rsSkip   map[int]bool // the runtime-state expectation is suspended (a handshake whose response was lost moved it: known finding, realauth mode)
}

func newGhost(ttl int, ptr, sess bool) *ghost {
	return &ghost{ttl: ttl, ptr: ptr, session: sess, conns: map[[2]int]bool{}, reg: map[[2]int]int{},
		open: map[int]map[[2]int]bool{}, cur: map[int]*cur{}, rsSkip: map[int]bool{}}
}

func (g *ghost) dropConn(c int) {
	for x, cu := range g.cur {
		if cu.c == c {
			g.cur[x].valid = false
		}
	}
	for _, s := range g.open {
		for k := range s {
			if k[1] == c {
				delete(s, k)
			}
		}
	}
}

func (g *ghost) login(n, c, x, now int) {
	if g.open[x] == nil {
		g.open[x] = map[[2]int]bool{}
	}
	g.open[x][[2]int{n, c}] = true
	g.cur[x] = &cur{n: n, c: c, renewed: now, valid: true}
}

func (g *ghost) renew(c, now int) {
	for _, cu := range g.cur {
		if cu.valid && cu.c == c && now-cu.renewed < g.ttl {
			cu.renewed = now
		}
	}
}

// follow one operation (errFlag: the real call reported an error)
func (g *ghost) step(o []int, errFlag bool, now int) {
	code, n := arg(o, 0), arg(o, 1)
	switch code {
	case opConnect:
		if !errFlag {
			g.conns[[2]int{n, arg(o, 2)}] = true
		}
	case opAuthOK, opSendRace:
		c, x := arg(o, 2), arg(o, 3)
		if errFlag || x <= 0 {
			return
		}
		if sh := arg(o, 4); sh < 0 || sh >= nShapes || !shapeIsControl[sh] {
			return // the server takes this request for a tunnel-type handshake: no control login, nothing to be indexed
		}
		// an older registered connection of x on this node is replaced (removed from the registry, its stream closed)
		for k, y := range g.reg {
			if k[0] == n && y == x && k[1] != c {
				delete(g.reg, k)
			}
		}
		g.reg[[2]int{n, c}] = x
		delete(g.rsSkip, x)
		g.login(n, c, x, now)
	case opShutdown:
		// the registry is emptied (no cloud call); the connections are closed by the following Close ops
		for k := range g.reg {
			if k[0] == n {
				for _, cu := range g.cur {
					if cu.n == n && cu.c == k[1] {
						cu.valid = false
					}
				}
				delete(g.reg, k)
			}
		}
	case opFault:
		g.rsOff = true
	case opAuthLost:
		// not a successful handshake: nothing is registered for the lookup; the connection sits in the registry (authenticated
		// by the auth handler) until it is closed
		if x := arg(o, 3); x > 0 {
			g.rsSkip[x] = true
			g.reg[[2]int{n, arg(o, 2)}] = -x // in the registry, but not the client's indexed control connection
		}
	case opKick:
		x, newc := arg(o, 2), arg(o, 3)
		for k, y := range g.reg {
			if k[0] == n && y == x && k[1] != newc {
				delete(g.reg, k)
				if cu := g.cur[x]; cu != nil && cu.c == k[1] {
					cu.valid = false // kicked: no heartbeat will renew it any more
				}
			}
		}
	case opHeartbeat:
		c := arg(o, 2)
		if _, ok := g.reg[[2]int{n, c}]; ok {
			g.renew(c, now)
		}
	case opClose:
		c := arg(o, 2)
		delete(g.conns, [2]int{n, c})
		delete(g.reg, [2]int{n, c})
		g.dropConn(c)
	case opStale:
		// the sweep only sees connections that are still in the registry; it closes them (CloseConnection)
		c := arg(o, 2)
		if _, ok := g.reg[[2]int{n, c}]; ok {
			delete(g.conns, [2]int{n, c})
			delete(g.reg, [2]int{n, c})
			g.dropConn(c)
		}
	case opSReg:
		c, x, ctl := arg(o, 2), arg(o, 3), arg(o, 4)
		if errFlag {
			return
		}
		// a connection id re-registered for another client / as a tunnel no longer belongs to its previous client
		g.dropConn(c)
		if ctl != 0 && x > 0 {
			g.login(n, c, x, now)
		}
	case opSUnreg:
		g.dropConn(arg(o, 2))
	case opSRefresh:
		g.renew(arg(o, 2), now)
	}
}

func opString(o []int) string {
	return fmt.Sprintf("%s%v", opName[arg(o, 0)], o[1:])
}

// check the answers after step i; returns key, message ("" = fine), number of expectations checked
func (g *ghost) check(o []int, now int, clients []int, ans [][][3]int, msgs [][]string) (string, string, int) {
	checked := 0
	for xi, x := range clients {
		if x <= 0 {
			continue
		}
		for m := 1; m < len(ans); m++ {
			a := ans[m][xi]
			if a[0] == 2 {
				key := "lookup-error:" + opName[arg(o, 0)]
				if g.ptr && strings.Contains(msgs[m][xi], "unexpected value type: *connstate.Info") {
					key = "memory-pointer-shape"
				}
				return key, fmt.Sprintf("FindClientNode(%d) on node %d fails with %q after %s", x, m, msgs[m][xi], opString(o)), checked
			}
			// soundness: a returned connection authenticated as x on that node and has not been closed
			if a[0] == 1 {
				checked++
				if !g.open[x][[2]int{a[1], a[2]}] {
					return "lookup-returns-closed-connection", fmt.Sprintf("FindClientNode(%d) on node %d returns (node %d, c%d), which is not an open authenticated connection of client %d, after %s",
						x, m, a[1], a[2], x, opString(o)), checked
				}
			}
			cu := g.cur[x]
			if cu != nil && cu.valid && now-cu.renewed < g.ttl {
				checked++
				if a[0] != 1 || a[1] != cu.n || a[2] != cu.c {
					key := "lookup-wrong:" + opName[arg(o, 0)]
					switch arg(o, 0) {
					case opTick:
						key = "client-index-expired-despite-heartbeat"
					case opClose, opSUnreg, opStale:
						if arg(o, 2) != cu.c {
							key = "late-unregister-deletes-current-index"
						}
					case opAuthOK, opSReg:
						if arg(o, 3) == x {
							key = "register-not-visible"
						}
					case opSendRace:
						if arg(o, 3) == x {
							key = "forwarder-removed-fresh-registration"
						}
					case opAuthLost:
						key = "unanswered-handshake-took-the-index"
					case opChallenge:
						key = "unproven-handshake-message-took-the-index"
					}
					got := "NOT_FOUND"
					if a[0] == 1 {
						got = fmt.Sprintf("(node %d, c%d)", a[1], a[2])
					}
					return key, fmt.Sprintf("client %d holds live connection c%d on node %d (last renewed %d ms ago, ttl %d ms) but FindClientNode(%d) on node %d answers %s after %s",
						x, cu.c, cu.n, now-cu.renewed, g.ttl, x, m, got, opString(o)), checked
				}
			}
			if len(g.open[x]) == 0 {
				checked++
				if a[0] != 0 {
					return "lookup-after-close", fmt.Sprintf("client %d has no open connection but FindClientNode(%d) on node %d answers (node %d, c%d) after %s",
						x, x, m, a[1], a[2], opString(o)), checked
				}
			}
		}
	}
	return "", "", checked
}

// the runtime-state record: while the client's newest registered control connection (n, c) is registered, every node
// reads (n, c) from the shared record (its 90 s ttl is far beyond these histories and refreshed by every heartbeat)
func (g *ghost) checkState(o []int, clients []int, rs [][][3]int) (string, string, int) {
	checked := 0
	for xi, x := range clients {
		cu := g.cur[x]
		if x <= 0 || cu == nil || !cu.valid || g.rsSkip[x] || g.rsOff {
			continue
		}
		for m, row := range rs {
			checked++
			a := row[xi]
			if a[0] != 1 || a[1] != cu.n || a[2] != cu.c {
				key := "state-wrong:" + opName[arg(o, 0)]
				switch arg(o, 0) {
				case opHeartbeat:
					if arg(o, 2) != cu.c {
						key = "state-moved-by-heartbeat-of-old-connection"
					}
				case opClose, opStale:
					if arg(o, 2) != cu.c {
						key = "state-deleted-by-cleanup-of-old-connection"
					}
				case opAuthOK:
					if arg(o, 3) == x {
						key = "state-not-set-by-login"
					}
				}
				got := "offline"
				if a[0] == 1 {
					got = fmt.Sprintf("(node %d, c%d)", a[1], a[2])
				} else if a[0] == 2 {
					got = "an error"
				}
				return key, fmt.Sprintf("client %d's newest registered control connection is c%d on node %d but the client runtime state read on node %d says %s after %s",
					x, cu.c, cu.n, m+1, got, opString(o)), checked
			}
		}
	}
	return "", "", checked
}

// ---------------------------------------------------------------------------------------------
// one history
// ---------------------------------------------------------------------------------------------
var variant [7]int

func runCase(raw json.RawMessage) interface{} {
	var c caseIn
	must(json.Unmarshal(raw, &c))
	if c.Mode == "realauth" {
		var ri realIn
		must(json.Unmarshal(raw, &ri))
		return runRealAuth(ri)
	}
	if c.Mode == "conc" {
		var cc concIn
		must(json.Unmarshal(raw, &cc))
		return runConc(cc)
	}
	if c.Nodes < 1 {
		c.Nodes = 2
	}
	if c.TTLms <= 0 {
		c.TTLms = 300
	}
	if c.UnitMs <= 0 {
		c.UnitMs = 120
	}
	if c.MarginMs <= 0 {
		c.MarginMs = 25
	}
	out := &caseOut{Variant: variant, TaintedAt: -1, PropOK: true, PropStep: -1}
	sess := c.Mode == "session"
	w := newWorld(c.Backend, c.Nodes, time.Duration(c.TTLms)*time.Millisecond, sess)
	defer w.close()
	g := newGhost(c.TTLms, ptrShape(c.Backend), sess)
	tr := map[[2]int]*transport{}
	t0 := time.Now()
	now := 0 // nominal ms
	margin := time.Duration(c.MarginMs) * time.Millisecond
	late := func() time.Duration { return time.Since(t0) - time.Duration(now)*time.Millisecond }
	for i, o := range c.Ops {
		if l := late(); l > margin && out.TaintedAt < 0 {
			out.TaintedAt = i
		}
		var errFlag bool
		if arg(o, 0) == opTick {
			d := arg(o, 1) * c.UnitMs
			now += d
			if w.mr != nil {
				w.mr.FastForward(time.Duration(d) * time.Millisecond)
			}
			if wait := time.Duration(now)*time.Millisecond - time.Since(t0); wait > 0 && !(c.Virtual && w.mr != nil) {
				time.Sleep(wait)
			}
		} else {
			errFlag = w.apply(o, tr)
		}
		if l := late(); l > margin && out.TaintedAt < 0 {
			out.TaintedAt = i
		}
		ans := make([][][3]int, c.Nodes+1)
		msgs := make([][]string, c.Nodes+1)
		ans[0] = [][3]int{}
		for m := 1; m <= c.Nodes; m++ {
			for _, x := range c.Clients {
				a, msg := w.lookup(m, x)
				ans[m] = append(ans[m], a)
				msgs[m] = append(msgs[m], msg)
			}
		}
		l := late()
		if int(l/time.Millisecond) > out.MaxLateMs {
			out.MaxLateMs = int(l / time.Millisecond)
		}
		if l > margin && out.TaintedAt < 0 {
			out.TaintedAt = i
		}
		out.Obs = append(out.Obs, ans[1:])
		var rsAns [][][3]int
		if sess {
			for m := 1; m <= c.Nodes; m++ {
				row := [][3]int{}
				for _, x := range c.Clients {
					row = append(row, w.stateLookup(m, x))
				}
				rsAns = append(rsAns, row)
			}
			out.RS = append(out.RS, rsAns)
		}
		e := 0
		if errFlag {
			e = 1
		}
		out.Errs = append(out.Errs, e)
		g.step(o, errFlag, now)
		if out.PropOK && out.TaintedAt < 0 {
			key, msg, k := g.check(o, now, c.Clients, ans, msgs)
			out.Checked += k
			if key == "" && sess {
				var k2 int
				key, msg, k2 = g.checkState(o, c.Clients, rsAns)
				out.Checked += k2
			}
			if key != "" {
				out.PropOK, out.PropKey, out.PropMsg, out.PropStep = false, key, msg, i
			}
		}
	}
	return out
}

// ---------------------------------------------------------------------------------------------
// which of the three repairs does the tree under test contain?  (probed on the real code, no clock involved)
// ---------------------------------------------------------------------------------------------
func probeVariant() [7]int {
	var v [7]int
	ttl := 300 * time.Millisecond
	// ptr: memory backend hands back the stored *Info
	{
		w := newWorld("memory", 1, time.Hour, false)
		w.apply([]int{opSReg, 1, 1, 7, 1}, nil)
		if _, err := w.cs[1].GetConnectionState(w.ctx, connName(1)); err == nil {
			v[3] = 1
		}
		w.close()
	}
	// guard: a late unregister of the old connection leaves the index of the new one alone
	{
		w := newWorld("redis", 2, time.Hour, false)
		w.apply([]int{opSReg, 1, 1, 7, 1}, nil)
		w.apply([]int{opSReg, 2, 2, 7, 1}, nil)
		w.apply([]int{opSUnreg, 1, 1}, nil)
		if a, _ := w.lookup(1, 7); a[0] == 1 && a[2] == 2 {
			v[0] = 1
		}
		w.close()
	}
	// refresh_idx: RefreshConnection renews the client index (miniredis virtual clock; no real time passes)
	{
		w := newWorld("redis", 1, ttl, false)
		w.apply([]int{opSReg, 1, 1, 7, 1}, nil)
		w.mr.FastForward(200 * time.Millisecond)
		w.apply([]int{opSRefresh, 1, 1}, nil)
		if w.mr.TTL(w.cs[1].VerifClientKey(7)) > 250*time.Millisecond {
			v[1] = 1
		}
		w.close()
	}
	// hb: a heartbeat packet renews the connection record
	{
		w := newWorld("redis", 1, ttl, true)
		tr := map[[2]int]*transport{}
		w.apply([]int{opConnect, 1, 1}, tr)
		w.apply([]int{opAuthOK, 1, 1, 7}, tr)
		w.mr.FastForward(200 * time.Millisecond)
		w.apply([]int{opHeartbeat, 1, 1}, tr)
		if w.mr.TTL(w.cs[1].VerifConnKey(connName(1))) > 250*time.Millisecond {
			v[2] = 1
		}
		w.close()
	}
	return v
}

// cas: is the index test-and-write of UnregisterConnection / RefreshConnection one atomic storage call?  Probed by replaying
// the two window schedules through the gated double, per backend (a tiered storage may lack CompareAndSwap): the new registration must survive both.
// tomb_ms: after a matched DisconnectClientIfMatch, does the heartbeat of another connection of the client rebuild the runtime
// state at once (0), or is the rebuild blocked by a tombstone — then: the tombstone's ttl in ms, read from miniredis (no clock)
func probeTombMs() int {
	w := newWorld("redis", 1, time.Hour, false)
	defer w.close()
	cfg := managers.DefaultConfig()
	cfg.NodeID = nodeName(1)
	cloud := factories.NewBuiltinCloudControlWithStorageAndServices(w.ctx, cfg, w.st[1])
	_ = cloud.ConnectClient(7, nodeName(1), connName(1), "198.51.100.7", "tcp", "V3")
	_, _ = cloud.DisconnectClientIfMatch(7, nodeName(1), connName(1))
	ttl := w.mr.TTL(cloudStatePrefix + "7")
	_ = cloud.EnsureClientOnline(7, nodeName(1), connName(2), "198.51.100.7", "tcp", "V3")
	repo := repos.NewClientStateRepository(w.ctx, w.st[1])
	if st, err := repo.GetState(7); err == nil && st != nil && st.IsOnline() {
		return 0
	}
	return int(ttl / time.Millisecond)
}

var casByBackend = map[string]int{}
var scasByBackend = map[string]int{}

// scas: does the client-state service close its two read-modify-write windows (atomic touch / matched delete)?  Probed per
// backend by replaying the two window schedules on the real service: the new login must survive both.
func probeStateCAS(backend string) int {
	old := [][]int{{thStConnect, 1, 1, 7}}
	a := runConc(concIn{Backend: backend, Nodes: 2, Clients: []int{7}, Setup: old,
		Threads: [][]int{{thStDisc, 1, 1, 7}, {thStConnect, 2, 2, 7}}, Sched: []int{0, 1, 1, 0}})
	b := runConc(concIn{Backend: backend, Nodes: 2, Clients: []int{7}, Setup: old,
		Threads: [][]int{{thStEnsure, 1, 1, 7}, {thStConnect, 2, 2, 7}}, Sched: []int{0, 1, 1, 0}})
	ok := func(o *concOut) bool { return len(o.FinalRS) > 0 && o.FinalRS[0][0] == [3]int{1, 2, 2} }
	if ok(a) && ok(b) {
		return 1
	}
	return 0
}

func probeCAS(backend string) int {
	old := [][]int{{opSReg, 1, 1, 7, 1}}
	a := runConc(concIn{Backend: backend, Nodes: 2, Clients: []int{7}, Setup: old,
		Threads: [][]int{{thUnreg, 1, 1}, {thReg, 2, 2, 7, 1}}, Sched: []int{0, 0, 1, 1, 0, 0}})
	b := runConc(concIn{Backend: backend, Nodes: 2, Clients: []int{7}, Setup: old,
		Threads: [][]int{{thRefresh, 1, 1}, {thReg, 2, 2, 7, 1}}, Sched: []int{0, 0, 0, 1, 1, 0}})
	ok := func(o *concOut) bool { return len(o.Final) > 0 && o.Final[0][0] == [3]int{1, 2, 2} }
	if ok(a) && ok(b) {
		return 1
	}
	return 0
}

// ---------------------------------------------------------------------------------------------
// gen: constants and tables evaluated from the real code / parsed from the real sources
// ---------------------------------------------------------------------------------------------
func durExpr(e ast.Expr) (int64, bool) { // milliseconds
	switch v := e.(type) {
	case *ast.BasicLit:
		if v.Kind == token.INT {
			n, err := strconv.ParseInt(v.Value, 0, 64)
			return n, err == nil
		}
	case *ast.ParenExpr:
		return durExpr(v.X)
	case *ast.SelectorExpr:
		if id, ok := v.X.(*ast.Ident); ok && id.Name == "time" {
			switch v.Sel.Name {
			case "Millisecond":
				return 1, true
			case "Second":
				return 1000, true
			case "Minute":
				return 60000, true
			case "Hour":
				return 3600000, true
			}
		}
	case *ast.BinaryExpr:
		a, ok1 := durExpr(v.X)
		b, ok2 := durExpr(v.Y)
		if ok1 && ok2 && v.Op == token.MUL {
			return a * b, true
		}
	}
	return 0, false
}

// the duration argument (index argIdx) of the first call of function `fn` in a source file of the tree under test
func durationArgOfCall(rel, fn string, argIdx int) int64 {
	root := os.Getenv("VERIF_REPO") // the tree under test (lib/vlib.py REPO)
	if root == "" {
		root = "/repo"
	}
	f, err := parser.ParseFile(token.NewFileSet(), filepath.Join(root, rel), nil, 0)
	must(err)
	var res int64 = -1
	ast.Inspect(f, func(n ast.Node) bool {
		call, ok := n.(*ast.CallExpr)
		if !ok || res >= 0 {
			return true
		}
		name := ""
		switch fun := call.Fun.(type) {
		case *ast.SelectorExpr:
			name = fun.Sel.Name
		case *ast.Ident:
			name = fun.Name
		}
		if name == fn && len(call.Args) > argIdx {
			if d, ok := durExpr(call.Args[argIdx]); ok {
				res = d
			}
		}
		return true
	})
	if res < 0 {
		panic(fmt.Sprintf("no call %s(...) with a constant duration argument #%d in %s", fn, argIdx, rel))
	}
	return res
}

func nlistOf(s string) string {
	parts := make([]string, 0, len(s))
	for _, b := range []byte(s) {
		parts = append(parts, strconv.Itoa(int(b)))
	}
	return "[" + strings.Join(parts, ";") + "]"
}

// hybrid storage with a shared cache: is a key of this family written to the shared cache only (visible to another
// node's hybrid storage, absent from the writer's local cache)?
func hybridShares(key string) bool {
	ctx, cancel := context.WithCancel(context.Background())
	defer cancel()
	shared := memory.New(ctx)
	localA, localB := memory.New(ctx), memory.New(ctx)
	a := hybrid.NewWithSharedCache(ctx, localA, shared, nil, nil)
	b := hybrid.NewWithSharedCache(ctx, localB, shared, nil, nil)
	must(a.Set(key, "v", time.Minute))
	vb, errB := b.Get(key)
	_, errLocal := localA.Get(key)
	return errB == nil && vb == "v" && errLocal != nil
}

func gen() {
	s := connstate.NewStore(nil, "n", 0)
	connKey := s.VerifConnKey("")
	clientKey := strings.TrimSuffix(s.VerifClientKey(1), "1")
	fmt.Println("(* generated by verif_c08 gen from /repo's working tree — do not edit *)")
	fmt.Println("From Coq Require Import NArith List. Import ListNotations. Open Scope N_scope.")
	fmt.Printf("Definition StoreDefaultTTLms : N := %d.\n", s.VerifTTL().Milliseconds())
	fmt.Printf("Definition ConnStateTTLms : N := %d.\n", durationArgOfCall("internal/app/server/components_session.go", "NewConnectionStateStore", 2))
	fmt.Printf("Definition ClientKeepaliveMs : N := %d.\n", durationArgOfCall("internal/client/control_connection_keepalive.go", "NewTicker", 0))
	fmt.Printf("Definition CloudHeartbeatIntervalMs : N := %d.\n", int64(cloudconst.DefaultHeartbeatInterval)*1000)
	fmt.Printf("Definition SessionHeartbeatTimeoutMs : N := %d.\n", session.DefaultSessionConfig().HeartbeatTimeout.Milliseconds())
	fmt.Printf("Definition conn_key_prefix : list N := %s.\n", nlistOf(connKey))
	fmt.Printf("Definition client_key_prefix : list N := %s.\n", nlistOf(clientKey))
	fmt.Printf("Definition hybrid_shares_conn_state : bool := %v.\n", hybridShares(s.VerifConnKey("c1")))
	fmt.Printf("Definition hybrid_shares_client_conn : bool := %v.\n", hybridShares(s.VerifClientKey(7)))
	// handleHandshake's own classification of every request shape, and what it registers in the store for it
	rows := []string{}
	for k := 0; k < nShapes; k++ {
		p := probeShape(k)
		rows = append(rows, fmt.Sprintf(" (%v, %v, %s, %v)", p.control, p.record, nlistOf(p.connType), p.indexed))
	}
	fmt.Printf("(* per handshake request shape: (accepted as control connection, conn_state record written, its ConnType, client indexed) *)\n")
	fmt.Printf("Definition handshake_shapes : list (bool * bool * list N * bool) := [\n%s\n].\n", strings.Join(rows, ";\n"))
	cts := []string{}
	for _, ct := range []string{"control", "", "tunnel", "CONTROL"} {
		cts = append(cts, fmt.Sprintf("(%s, %v)", nlistOf(ct), storeIndexes(ct)))
	}
	fmt.Printf("(* RegisterConnection builds the client index for these ConnType strings *)\n")
	fmt.Printf("Definition store_indexes_conntype : list (list N * bool) := [%s].\n", strings.Join(cts, "; "))
}

func main() {
	corelog.SetDefault(corelog.NewNopLogger())
	if len(os.Args) > 1 && os.Args[1] == "gen" {
		gen()
		return
	}
	variant = probeVariant()
	for _, be := range []string{"memory", "redis", "hybrid-redis", "hybrid-shared-mem", "hybrid-mem", "hybrid-persist", "hybrid-gated-shared"} {
		casByBackend[be] = probeCAS(be)
		scasByBackend[be] = probeStateCAS(be)
	}
	variant[4] = casByBackend["memory"]
	variant[5] = scasByBackend["memory"]
	variant[6] = probeTombMs()
	for k := 0; k < nShapes; k++ {
		shapeIsControl[k] = probeShape(k).control
	}
	if len(os.Args) > 1 && os.Args[1] == "probe" {
		fmt.Println(variant)
		return
	}
	// histories sleep on the wall clock, so they run concurrently (each has its own storages and nodes)
	in := bufio.NewReaderSize(os.Stdin, 1<<20)
	var lines [][]byte
	for {
		line, err := in.ReadBytes('\n')
		if len(line) > 1 {
			lines = append(lines, line)
		}
		if err != nil {
			break
		}
	}
	par := 24
	if v, err := strconv.Atoi(os.Getenv("VERIF_C08_PAR")); err == nil && v > 0 {
		par = v
	}
	results := make([]interface{}, len(lines))
	var wg sync.WaitGroup
	sem := make(chan struct{}, par)
	for i := range lines {
		wg.Add(1)
		sem <- struct{}{}
		go func(i int) {
			defer wg.Done()
			defer func() { <-sem }()
			results[i] = runCase(json.RawMessage(lines[i]))
		}(i)
	}
	wg.Wait()
	out := bufio.NewWriterSize(os.Stdout, 1<<20)
	defer out.Flush()
	enc := json.NewEncoder(out)
	for _, r := range results {
		must(enc.Encode(r))
	}
}

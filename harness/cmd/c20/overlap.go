//go:build verif

package main

// Overlapping handling of two inputs — strictly beyond C20's quantifier (which ranges over inputs, one at a time),
// added because two clauses speak about what the application RECEIVES ("rejected with the appropriate reply", "payload
// left intact") and because Model/Socks.v treats every connection / datagram as an independent value:
//
//	twoconn: connection A's n-th Write is parked (its buffer not yet taken), connection B is handled completely,
//	         A is released; both connections must be answered exactly as when handled alone.
//	relay:   a REAL UDPRelay on 127.0.0.1 (NewUDPRelay, its own readLoop / handlePacket goroutines).  Datagram D is
//	         parsed and parked inside the tunnel-creator double; further datagrams (port 53, answered by a DNS-handler
//	         double, each awaited) arrive; then D's tunnel is released: the payload forwarded for D must be D's DATA
//	         bytes and every later datagram's query must be its own DATA bytes.  Nothing is timed: a datagram that
//	         does not show up within 2 s makes the round inconclusive, never a failure.

import (
	"bytes"
	"context"
	"encoding/json"
	"errors"
	"fmt"
	"net"
	"time"

	"tunnox-core/internal/client/socks5"
)

func sameSession(a, b *caseOut) bool {
	return a.Ok == b.Ok && a.Cmd == b.Cmd && a.Host == b.Host && a.Port == b.Port && a.Out == b.Out &&
		a.Used == b.Used && a.HsOk == b.HsOk && a.HsUsed == b.HsUsed && a.Panic == b.Panic
}

func runTwoConn(c *caseIn, o *caseOut) {
	if len(c.Conns) != 2 {
		panic("twoconn needs two connections")
	}
	aloneA := runCase(c.Conns[0]).(*caseOut)
	aloneB := runCase(c.Conns[1]).(*caseOut)
	o.Conns = []*caseOut{aloneA, aloneB}
	for w := 0; w < 4; w++ {
		g := &gate{at: w, parked: make(chan struct{}), release: make(chan struct{})}
		pendingGate = g
		done := make(chan *caseOut, 1)
		go func() { done <- runCase(c.Conns[0]).(*caseOut) }()
		var ra *caseOut
		parked := false
		select {
		case <-g.parked:
			parked = true
		case ra = <-done:
		}
		rb := runCase(c.Conns[1]).(*caseOut)
		close(g.release)
		if ra == nil {
			ra = <-done
		}
		for _, t := range ra.Tbl {
			o.Tbl = append(o.Tbl, t)
		}
		for _, t := range rb.Tbl {
			o.Tbl = append(o.Tbl, t)
		}
		if !sameSession(ra, aloneA) {
			o.Conns = []*caseOut{ra, rb}
			o.fail("concurrent-connections", fmt.Sprintf(
				"connection A (%s) handled alone is answered %s (ok=%v); with connection B (%s) handled while A's write #%d was in progress it is answered %s (ok=%v)",
				aloneA.Host+"/"+c0s(c.Conns[0]), aloneA.Out, aloneA.Ok, c0s(c.Conns[1]), w, ra.Out, ra.Ok))
			return
		}
		if !sameSession(rb, aloneB) {
			o.Conns = []*caseOut{ra, rb}
			o.fail("concurrent-connections", fmt.Sprintf(
				"connection B (%s) handled alone is answered %s; handled while connection A's write #%d was in progress it is answered %s",
				c0s(c.Conns[1]), aloneB.Out, w, rb.Out))
			return
		}
		if !parked {
			break // A has fewer than w+1 writes
		}
	}
}

func c0s(raw json.RawMessage) string {
	var c caseIn
	_ = json.Unmarshal(raw, &c)
	return c.K + " " + c.S
}

// ---- real relay ----

type recTunnel struct {
	sent   chan []byte
	closed chan struct{}
}

func (t *recTunnel) SendPacket(data []byte) error {
	t.sent <- append([]byte(nil), data...)
	return nil
}
func (t *recTunnel) ReceivePacket() ([]byte, error) {
	<-t.closed
	return nil, errors.New("closed")
}
func (t *recTunnel) Close() error {
	select {
	case <-t.closed:
	default:
		close(t.closed)
	}
	return nil
}

type gatedCreator struct {
	entered chan string
	release chan struct{}
	tunnel  *recTunnel
}

func (c *gatedCreator) CreateUDPTunnel(_ string, _ int64, host string, port int, _ string) (socks5.UDPTunnelConn, error) {
	select {
	case c.entered <- fmt.Sprintf("%s:%d", host, port):
	default:
	}
	<-c.release
	return c.tunnel, nil
}

type recDNS struct{ seen chan []byte }

func (d *recDNS) QueryDNS(_ int64, _ string, raw []byte) ([]byte, error) {
	d.seen <- append([]byte(nil), raw...)
	return nil, errors.New("no answer")
}

func runRelay(c *caseIn, o *caseOut) {
	d := unhx(c.D)
	rok, ratyp, raddr, rport, rpayload := refUDP(d)
	if !rok || rport == 53 || len(d) < 10 {
		return // not a case for this mode
	}
	rounds := c.Rounds
	if rounds < 1 {
		rounds = 1
	}
	wait := 2 * time.Second
	for round := 0; round < rounds && o.PropOK; round++ {
		func() {
			appTCP, relayTCP := net.Pipe()
			defer appTCP.Close()
			cr := &gatedCreator{entered: make(chan string, 1), release: make(chan struct{}),
				tunnel: &recTunnel{sent: make(chan []byte, 8), closed: make(chan struct{})}}
			dns := &recDNS{seen: make(chan []byte, 64)}
			relay, err := socks5.NewUDPRelay(context.Background(), relayTCP, &socks5.UDPRelayConfig{MappingID: "m"}, cr)
			if err != nil {
				o.Inconcl++
				return
			}
			relay.SetDNSHandler(dns)
			released := false
			defer func() {
				if !released {
					close(cr.release)
				}
				relay.Close()
			}()
			app, err := net.DialUDP("udp", nil, relay.GetBindAddr())
			if err != nil {
				o.Inconcl++
				return
			}
			defer app.Close()
			app.Write(d)
			select {
			case dst := <-cr.entered:
				if want := fmt.Sprintf("%s:%d", hostText(ratyp, raddr), rport); dst != want {
					o.fail("relay-payload-intact", fmt.Sprintf("datagram % x reached the tunnel creator as %q, RFC 1928 assigns %q", d, dst, want))
					return
				}
			case <-time.After(wait):
				o.Inconcl++
				return
			}
			for i, lh := range c.Later {
				ld := unhx(lh)
				lok, _, _, lport, lpayload := refUDP(ld)
				if !lok || lport != 53 {
					continue
				}
				app.Write(ld)
				select {
				case raw := <-dns.seen:
					if !bytes.Equal(raw, lpayload) {
						o.fail("relay-payload-intact", fmt.Sprintf("later datagram %d: the DNS handler received % x, its DATA bytes are % x", i, raw, lpayload))
						return
					}
				case <-time.After(wait):
					o.Inconcl++
					return
				}
			}
			released = true
			close(cr.release)
			select {
			case got := <-cr.tunnel.sent:
				o.RelayOK++
				if !bytes.Equal(got, rpayload) {
					o.fail("relay-payload-intact", fmt.Sprintf(
						"round %d: datagram %s was still being handled (tunnel being set up) when %d later datagrams arrived; the payload forwarded for it is %s, its DATA bytes are %s",
						round, short(d), len(c.Later), short(got), short(rpayload)))
				}
			case <-time.After(wait):
				o.Inconcl++
			}
		}()
	}
}

// short renders long byte strings as length + head
func short(b []byte) string {
	if len(b) <= 64 {
		return fmt.Sprintf("% x", b)
	}
	return fmt.Sprintf("[%d bytes] % x ...", len(b), b[:24])
}

//go:build verif

package main

// Value semantics of parseUDPHeader / buildUDPHeader results on ONE long-lived relay.
//
// The relay calls buildUDPHeader from one receiveLoop goroutine per destination session and from handleDNSQuery,
// and hands the returned datagram to WriteToUDP afterwards; parseUDPHeader results (host, payload) are handed to
// the tunnel.  The property's "same destination and payload" is about those values at the time they are USED, so:
//
//	a built datagram keeps its bytes until its consumer is done with it — whatever else the relay encodes or
//	parses in the meantime, and whatever the caller does with the payload buffer it passed in;
//	a parsed host/port keeps its value when the input buffer is reused; a parsed payload either is a copy or is
//	a sub-slice of the input buffer (reported, see assumptions) and is not changed by other relay operations.
//
// "seq": a list of operations on one fresh relay, every result retained (not copied) and compared with a snapshot
// taken right after the operation, after EVERY later operation.  "conc": len(ops) goroutines build at the same
// time on one relay, each result is judged after a barrier, for several rounds.

import (
	"bytes"
	"fmt"
	"sync"

	"tunnox-core/internal/client/socks5"
)

type seqOp struct {
	Op      string `json:"op"` // build | parse
	Host    string `json:"host"`
	Port    int    `json:"port"`
	Payload string `json:"payload"`
	D       string `json:"d"`
}

// final value of each retained result (after the whole sequence / after the barrier)
type seqRes struct {
	Op      string `json:"op"`
	Built   string `json:"built"`
	Ok      bool   `json:"ok"`
	Canon   canonT `json:"canon"`
	Port    int    `json:"port"`
	Payload string `json:"payload"`
}

type retained struct {
	op       seqOp
	built    []byte // as returned
	snap     []byte
	ok       bool
	host     string
	snapHost string
	port     int
	payload  []byte // as returned
	snapPl   []byte
}

func (x *retained) describe() string {
	if x.op.Op == "build" {
		return fmt.Sprintf("the datagram built for %q:%d (%d payload bytes)", string(unhx(x.op.Host)), x.op.Port, len(unhx(x.op.Payload)))
	}
	return fmt.Sprintf("the result of parsing % x", unhx(x.op.D))
}

func (x *retained) changed() string {
	if x.op.Op == "build" {
		if !bytes.Equal(x.built, x.snap) {
			return fmt.Sprintf("was % x, is now % x", x.snap, x.built)
		}
		return ""
	}
	if x.ok && (x.host != x.snapHost || !bytes.Equal(x.payload, x.snapPl)) {
		return fmt.Sprintf("was %q payload % x, is now %q payload % x", x.snapHost, x.snapPl, x.host, x.payload)
	}
	return ""
}

func scribble(b []byte) {
	for i := range b {
		b[i] ^= 0x5A
	}
}

func runSeq(c *caseIn, o *caseOut) {
	defer func() {
		if p := recover(); p != nil {
			o.Panic = fmt.Sprint(p)
			o.fail("udp-panic", "panic in a parse/build sequence: "+o.Panic)
		}
	}()
	relay := socks5.VerifRelay()
	var kept []*retained
	for i, op := range c.Ops {
		x := &retained{op: op}
		switch op.Op {
		case "build":
			host, pl := string(unhx(op.Host)), unhx(op.Payload)
			o.addTbl(host)
			x.built = relay.VerifBuild(host, op.Port, pl)
			x.snap = append([]byte(nil), x.built...)
			// the caller's payload buffer is reused for the next packet (receiveLoop: tunnel.ReceivePacket)
			scribble(pl)
			if !bytes.Equal(x.built, x.snap) {
				o.fail("udp-result-aliasing", fmt.Sprintf("op %d: %s aliases the payload argument: it changed when the caller reused that buffer",
					i, x.describe()))
			}
		case "parse":
			d := unhx(op.D)
			h, p, pl, err := relay.VerifParse(d) // d is owned by this result from now on (readLoop: dataCopy)
			if err == nil {
				x.ok, x.host, x.port, x.payload = true, h, p, pl
				x.snapHost, x.snapPl = string(append([]byte(nil), h...)), append([]byte(nil), pl...)
				o.addTbl(h)
			}
			// alias probe on a second, separate input buffer: reuse that buffer and see what moves
			d2 := unhx(op.D)
			h2, p2, pl2, err2 := relay.VerifParse(d2)
			if (err2 == nil) != x.ok || (x.ok && (h2 != h || p2 != p || !bytes.Equal(pl2, pl))) {
				o.fail("udp-result-aliasing", fmt.Sprintf("op %d: parsing % x twice on one relay gave different results", i, unhx(op.D)))
			}
			if err2 == nil {
				before := append([]byte(nil), pl2...)
				scribble(d2)
				if h2 != h {
					o.fail("udp-result-aliasing", fmt.Sprintf("op %d: the host returned by parseUDPHeader changed from %q to %q when the input buffer was reused", i, h, h2))
				}
				if len(pl2) > 0 && !bytes.Equal(pl2, before) {
					o.Aliased++ // payload is a sub-slice of the input buffer
				}
			}
		default:
			panic("bad op " + op.Op)
		}
		kept = append(kept, x)
		// after every operation: is every earlier retained result still what it was?
		for j, y := range kept[:len(kept)-1] {
			if m := y.changed(); m != "" {
				o.fail("udp-result-aliasing", fmt.Sprintf("%s (op %d) did not keep its bytes: it changed when op %d (%s) ran on the same relay: %s",
					y.describe(), j, i, op.Op, m))
				y.snap, y.snapHost, y.snapPl = append([]byte(nil), y.built...), y.host, append([]byte(nil), y.payload...)
			}
		}
	}
	for _, x := range kept {
		r := seqRes{Op: x.op.Op, Built: hx(x.built), Ok: x.ok, Port: x.port, Payload: hx(x.payload)}
		if x.ok {
			r.Canon = canon(x.host)
		}
		o.Ops = append(o.Ops, r)
	}
}

// builtMatches: is b the RFC 1928 datagram of (host, port, payload)?
func builtMatches(b []byte, host string, port int, payload []byte) bool {
	rok, ratyp, raddr, rport, rpayload := refUDP(b)
	return rok && canon(hostText(ratyp, raddr)) == canon(host) && rport == port&0xFFFF && bytes.Equal(rpayload, payload)
}

func runConc(c *caseIn, o *caseOut) {
	relay := socks5.VerifRelay()
	g := len(c.Ops)
	rounds := c.Rounds
	if rounds < 1 {
		rounds = 1
	}
	var mu sync.Mutex
	for round := 0; round < rounds; round++ {
		results := make([][]byte, g)
		var wg sync.WaitGroup
		start := make(chan struct{})
		for i := 0; i < g; i++ {
			wg.Add(1)
			go func(i int) {
				defer wg.Done()
				defer func() {
					if p := recover(); p != nil {
						mu.Lock()
						o.Panic = fmt.Sprint(p)
						o.fail("udp-panic", "buildUDPHeader panicked under concurrent use: "+o.Panic)
						mu.Unlock()
					}
				}()
				op := c.Ops[(i+round)%g] // a different session order every round
				<-start
				results[i] = relay.VerifBuild(string(unhx(op.Host)), op.Port, unhx(op.Payload))
			}(i)
		}
		close(start)
		wg.Wait() // barrier: every session has built its datagram, none has been sent yet
		for i := 0; i < g; i++ {
			op := c.Ops[(i+round)%g]
			host, pl := string(unhx(op.Host)), unhx(op.Payload)
			o.addTbl(host)
			if o.Panic == "" && !builtMatches(results[i], host, op.Port, pl) {
				o.fail("udp-result-aliasing", fmt.Sprintf(
					"round %d: %d sessions built at the same time on one relay; the datagram built for %q:%d (%d payload bytes) reads % x after the barrier",
					round, g, host, op.Port, len(pl), results[i]))
			}
			o.Ops = append(o.Ops, seqRes{Op: "build", Built: hx(results[i])})
		}
	}
}

//go:build verif

package socks5

// Export shims for the C20 verification harness (compiled only with -tags verif via -overlay).

// VerifParseUDPHeader calls the real (*UDPRelay).parseUDPHeader.
func VerifParseUDPHeader(data []byte) (string, int, []byte, error) {
	return (&UDPRelay{}).parseUDPHeader(data)
}

// VerifBuildUDPHeader calls the real (*UDPRelay).buildUDPHeader.
func VerifBuildUDPHeader(host string, port int, payload []byte) []byte {
	return (&UDPRelay{}).buildUDPHeader(host, port, payload)
}

//go:build verif

package socks5

// Export shims for the C20 verification harness (compiled only with -tags verif via -overlay).

// VerifParseUDPHeader calls the real (*UDPRelay).parseUDPHeader.
func VerifParseUDPHeader(data []byte) (string, int, []byte, error) {
	return (&UDPRelay{}).parseUDPHeader(data)
}

// VerifBuildUDPHeader calls the real (*UDPRelay).buildUDPHeader.
func VerifBuildUDPHeader(host string, port int, payload []byte) []byte {
	return (&UDPRelay{}).buildUDPHeader(host, port, payload)
}

// VerifRelay returns a relay value that is kept across calls (the real code calls parseUDPHeader / buildUDPHeader
// on one long-lived *UDPRelay from many goroutines), without sockets or background goroutines.
func VerifRelay() *UDPRelay {
	return &UDPRelay{sessions: make(map[string]*udpSession)}
}

// VerifParse calls the real parseUDPHeader on this relay; nothing is copied.
func (r *UDPRelay) VerifParse(data []byte) (string, int, []byte, error) {
	return r.parseUDPHeader(data)
}

// VerifBuild calls the real buildUDPHeader on this relay; the returned slice is handed out as is.
func (r *UDPRelay) VerifBuild(host string, port int, payload []byte) []byte {
	return r.buildUDPHeader(host, port, payload)
}

//go:build verif

package adapter

import "net"

// Export shims for the C20 verification harness (compiled only with -tags verif via -overlay).

// VerifSocksHandshake calls the real (*SocksAdapter).handleHandshake on an adapter configured like
// NewSocksAdapter does (one credential pair when authentication is enabled).
func VerifSocksHandshake(conn net.Conn, auth bool, user, pass string) error {
	s := &SocksAdapter{credentials: map[string]string{}, authEnabled: auth}
	if auth {
		s.credentials[user] = pass
	}
	return s.handleHandshake(conn)
}

// VerifSocksRequest calls the real (*SocksAdapter).handleRequest.
func VerifSocksRequest(conn net.Conn) (string, error) {
	return (&SocksAdapter{}).handleRequest(conn)
}

// VerifSocksConsts exposes the package's SOCKS5 protocol constants.
func VerifSocksConsts() map[string]int {
	return map[string]int{
		"Version": socks5Version, "AuthNone": socksAuthNone, "AuthPassword": socksAuthPassword,
		"AuthNoMatch": socksAuthNoMatch, "CmdConnect": socksCmdConnect, "CmdBind": socksCmdBind,
		"CmdUDPAssociate": socksCmdUDPAssociate, "AddrIPv4": socksAddrTypeIPv4,
		"AddrDomain": socksAddrTypeDomain, "AddrIPv6": socksAddrTypeIPv6,
		"RepSuccess": socksRepSuccess, "RepServerFailure": socksRepServerFailure,
		"RepCommandNotSupported":  socksRepCommandNotSupported,
		"RepAddrTypeNotSupported": socksRepAddrTypeNotSupported,
	}
}

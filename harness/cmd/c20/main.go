//go:build verif

// verif_c20: drives the real SOCKS5 parsers of tunnox-core
//
//	internal/client/socks5     Listener.Handshake, (*UDPRelay).parseUDPHeader / buildUDPHeader
//	internal/protocol/adapter  (*SocksAdapter).handleHandshake / handlePasswordAuth / handleRequest
//
// over a scripted net.Conn whose Read calls are cut by a chunk script, evaluates the C20 predicate on their
// outputs against an independent RFC 1928 / RFC 1929 reference written here (ref*.go style: slice by
// computed length, no reads), and reports the projected observables for the Coq model comparison.
package main

import (
	"bytes"
	"encoding/json"
	"fmt"
	"io"
	"net"
	"os"
	"strconv"
	"strings"
	"time"

	"tunnox-core/internal/client/socks5"
	"tunnox-core/internal/protocol/adapter"
)

// ---------------------------------------------------------------------------------------------
// scripted connection
// ---------------------------------------------------------------------------------------------

type scriptConn struct {
	data       []byte
	cuts       []int
	used       int
	out        []byte
	firstWrite int // bytes consumed when the first Write happened (-1: nothing written)
	g          *gate
	writes     int
}

// gate parks one Write of a connection (before its bytes are taken) until released: used to handle a second
// connection while the first one's reply is being written
type gate struct {
	at              int
	parked, release chan struct{}
}

var pendingGate *gate // consumed by the next newConn

func (c *scriptConn) Read(p []byte) (int, error) {
	if len(p) == 0 {
		return 0, nil
	}
	if len(c.data) == 0 {
		return 0, io.EOF
	}
	k := len(c.data)
	if len(c.cuts) > 0 {
		k = c.cuts[0]
		if k < 1 {
			k = 1
		}
		c.cuts = c.cuts[1:]
	}
	if k > len(p) {
		k = len(p)
	}
	if k > len(c.data) {
		k = len(c.data)
	}
	copy(p, c.data[:k])
	c.data = c.data[k:]
	c.used += k
	return k, nil
}
func (c *scriptConn) Write(p []byte) (int, error) {
	if c.g != nil && c.writes == c.g.at {
		close(c.g.parked)
		<-c.g.release
	}
	c.writes++
	if c.firstWrite < 0 {
		c.firstWrite = c.used
	}
	c.out = append(c.out, p...)
	return len(p), nil
}
func (c *scriptConn) Close() error { return nil }
func (c *scriptConn) LocalAddr() net.Addr {
	return &net.TCPAddr{IP: net.IPv4(127, 0, 0, 1), Port: 1080}
}
func (c *scriptConn) RemoteAddr() net.Addr {
	return &net.TCPAddr{IP: net.IPv4(127, 0, 0, 1), Port: 40000}
}
func (c *scriptConn) SetDeadline(t time.Time) error      { return nil }
func (c *scriptConn) SetReadDeadline(t time.Time) error  { return nil }
func (c *scriptConn) SetWriteDeadline(t time.Time) error { return nil }

func newConn(s []byte, cuts []int) *scriptConn {
	c := &scriptConn{data: append([]byte(nil), s...), cuts: append([]int(nil), cuts...), firstWrite: -1, g: pendingGate}
	pendingGate = nil
	return c
}

// ---------------------------------------------------------------------------------------------
// independent reference (RFC 1928 sections 3-7, RFC 1929 section 2)
// ---------------------------------------------------------------------------------------------

const (
	aUnknown = iota
	aIncomplete
	aOk
)

// DST.ADDR DST.PORT at the head of s
func refAddrPort(atyp byte, s []byte) (st int, addr []byte, port int, n int) {
	var alen, off int
	switch atyp {
	case 1:
		alen, off = 4, 0
	case 4:
		alen, off = 16, 0
	case 3:
		if len(s) < 1 {
			return aIncomplete, nil, 0, 0
		}
		alen, off = int(s[0]), 1
	default:
		return aUnknown, nil, 0, 0
	}
	n = off + alen + 2
	if len(s) < n {
		return aIncomplete, nil, 0, 0
	}
	return aOk, s[off : off+alen], int(s[n-2])<<8 | int(s[n-1]), n
}

func hostText(atyp byte, addr []byte) string {
	if atyp == 3 {
		return string(addr)
	}
	return net.IP(addr).String()
}

// what a conforming server may show for a byte stream
type expT struct {
	ok        bool
	cmd       byte
	host      string
	port      int
	prefix    []byte // exact bytes that must have been written first (method selection, auth status)
	altEmpty  bool   // NMETHODS = 0: the prefix may also be missing altogether
	authFail  bool   // RFC 1929 failure: prefix is followed by 01 <non-zero>
	reply     int    // -1: no reply; -2: optional general-failure reply; >= 0: a reply with this REP is required
	used      int    // accept: exact number of bytes consumed; reject: upper bound
	incompl   bool   // the stream ends inside a message: nothing more may be written, consumption unconstrained
	hsOk      bool   // greeting (+ sub-negotiation) stage accepted
	hsUsed    int    // bytes belonging to that stage (exact on accept, upper bound on reject)
	hsIncompl bool
	gIncompl  bool
	gUsed     int // length of the greeting message itself (what may have been consumed when the method selection is written)
}

func refUserPass(s []byte, user, pass []byte) (incompl bool, badver bool, ok bool, n int) {
	if len(s) < 2 {
		return true, false, false, 0
	}
	if s[0] != 1 {
		return false, true, false, 2
	}
	ul := int(s[1])
	if len(s) < 2+ul+1 {
		return true, false, false, 0
	}
	pl := int(s[2+ul])
	n = 2 + ul + 1 + pl
	if len(s) < n {
		return true, false, false, 0
	}
	return false, false, bytes.Equal(s[2:2+ul], user) && bytes.Equal(s[3+ul:n], pass), n
}

func expectedSession(s []byte, want byte, cmdOK func(byte) bool, auth bool, user, pass []byte) expT {
	e := expT{reply: -1}
	if len(s) < 2 {
		e.incompl, e.hsIncompl, e.gIncompl = true, true, true
		return e
	}
	e.gUsed = 2
	if s[0] != 5 {
		e.used, e.hsUsed = 2, 2
		return e
	}
	nm := int(s[1])
	if nm == 0 {
		e.prefix, e.altEmpty, e.used, e.hsUsed = []byte{5, 0xFF}, true, 2, 2
		return e
	}
	e.gUsed = 2 + nm
	if len(s) < 2+nm {
		e.incompl, e.hsIncompl, e.gIncompl = true, true, true
		return e
	}
	pos := 2 + nm
	if bytes.IndexByte(s[2:pos], want) < 0 {
		e.prefix, e.used, e.hsUsed = []byte{5, 0xFF}, pos, pos
		return e
	}
	e.prefix = []byte{5, want}
	if auth {
		inc, badver, ok, n := refUserPass(s[pos:], user, pass)
		switch {
		case inc:
			e.incompl, e.hsIncompl = true, true
			return e
		case badver:
			e.used, e.hsUsed = pos+2, pos+2
			return e
		case !ok:
			e.authFail, e.used, e.hsUsed = true, pos+n, pos+n
			return e
		}
		e.prefix = append(e.prefix, 1, 0)
		pos += n
	}
	e.hsOk, e.hsUsed = true, pos
	r := s[pos:]
	if len(r) < 4 {
		e.incompl = true
		return e
	}
	e.used = pos + 4
	if r[0] != 5 {
		e.reply = -2
		return e
	}
	if !cmdOK(r[1]) {
		e.reply = 7
		return e
	}
	st, addr, port, n := refAddrPort(r[3], r[4:])
	switch st {
	case aUnknown:
		e.reply = 8
	case aIncomplete:
		e.incompl = true
	case aOk:
		e.ok, e.cmd, e.host, e.port, e.used = true, r[1], hostText(r[3], addr), port, pos+4+n
	}
	return e
}

// a well-formed RFC 1928 reply carrying REP = code
func isReply(b []byte, code int) bool {
	if len(b) < 4 || b[0] != 5 || int(b[1]) != code || b[2] != 0 {
		return false
	}
	st, _, _, n := refAddrPort(b[3], b[4:])
	return st == aOk && 4+n == len(b)
}

func outOK(e expT, out []byte) string {
	if e.altEmpty && len(out) == 0 {
		return ""
	}
	if !bytes.HasPrefix(out, e.prefix) {
		return fmt.Sprintf("wrote % x, expected it to start with % x", out, e.prefix)
	}
	rest := out[len(e.prefix):]
	if e.authFail {
		if len(rest) == 2 && rest[0] == 1 && rest[1] != 0 {
			return ""
		}
		return fmt.Sprintf("wrote % x after the method selection, expected an RFC 1929 failure status", rest)
	}
	if e.incompl || e.reply == -1 {
		if len(rest) != 0 {
			return fmt.Sprintf("wrote % x where nothing may be written", rest)
		}
		return ""
	}
	if e.reply == -2 {
		if len(rest) == 0 || isReply(rest, 1) {
			return ""
		}
		return fmt.Sprintf("wrote % x, expected nothing or a general-failure reply", rest)
	}
	if !isReply(rest, e.reply) {
		return fmt.Sprintf("wrote % x, expected a well-formed reply with REP=%d", rest, e.reply)
	}
	return ""
}

// ---------------------------------------------------------------------------------------------
// cases
// ---------------------------------------------------------------------------------------------

type caseIn struct {
	K       string            `json:"k"` // listener | adapter | udp | build
	S       string            `json:"s"`
	Cuts    []int             `json:"cuts"`
	Auth    bool              `json:"auth"`
	User    string            `json:"user"`
	Pass    string            `json:"pass"`
	D       string            `json:"d"`
	Host    string            `json:"host"`
	Port    int               `json:"port"`
	Payload string            `json:"payload"`
	Ops     []seqOp           `json:"ops"`    // seq: operations on ONE relay, results retained until the end
	Rounds  int               `json:"rounds"` // conc: rounds of len(Ops) goroutines building at the same time on ONE relay
	Conns   []json.RawMessage `json:"conns"`  // twoconn: two listener/adapter cases handled at overlapping times
	Later   []string          `json:"later"`  // relay: datagrams (to port 53) that arrive while datagram D is still being handled
}

type canonT struct {
	Tag int    `json:"tag"` // 1: IP (16-byte form), 0: name
	B   string `json:"b"`
}

type caseOut struct {
	Panic    string          `json:"panic,omitempty"`
	Ok       bool            `json:"ok"`
	Cmd      int             `json:"cmd"`
	Host     string          `json:"host"` // hex of the host text
	Canon    canonT          `json:"canon"`
	Port     int             `json:"port"`
	Out      string          `json:"out"`
	Used     int             `json:"used"`
	HsOk     bool            `json:"hs_ok"`
	HsUsed   int             `json:"hs_used"`
	Payload  string          `json:"payload"`
	Built    string          `json:"built"`
	Ok2      bool            `json:"ok2"`
	Canon2   canonT          `json:"canon2"`
	Port2    int             `json:"port2"`
	Payload2 string          `json:"payload2"`
	Ops      []seqRes        `json:"ops,omitempty"`
	Conns    []*caseOut      `json:"conns,omitempty"`
	Inconcl  int             `json:"inconclusive"` // relay rounds in which a datagram did not arrive in time (not judged)
	RelayOK  int             `json:"relay_rounds_judged"`
	Aliased  int             `json:"payload_aliases_input"` // parse results whose payload is a sub-slice of the input buffer
	Tbl      [][]interface{} `json:"tbl"`                   // net.ParseIP oracle: [hex text, hex 16-byte ip | null]
	PropOK   bool            `json:"prop_ok"`
	PropKey  string          `json:"prop_key,omitempty"`
	PropMsg  string          `json:"prop_msg,omitempty"`
}

func canon(host string) canonT {
	if ip := net.ParseIP(host); ip != nil {
		return canonT{1, hx(ip.To16())}
	}
	return canonT{0, hx([]byte(host))}
}

func (o *caseOut) addTbl(host string) {
	k := hx([]byte(host))
	for _, e := range o.Tbl {
		if e[0].(string) == k {
			return
		}
	}
	var v interface{}
	if ip := net.ParseIP(host); ip != nil {
		v = hx(ip.To16())
	}
	o.Tbl = append(o.Tbl, []interface{}{k, v})
}

func (o *caseOut) fail(key, msg string) {
	if o.PropOK {
		o.PropOK, o.PropKey, o.PropMsg = false, key, msg
	}
}

func listenerCmdOK(c byte) bool { return c == 1 || c == 3 }
func adapterCmdOK(c byte) bool  { return c == 1 }

type lres struct {
	ok         bool
	cmd        byte
	host       string
	port       int
	out        []byte
	used       int
	firstWrite int
	pnc        string
}

func runListener(s []byte, cuts []int) (r lres) {
	c := newConn(s, cuts)
	defer func() {
		if p := recover(); p != nil {
			r.pnc = fmt.Sprint(p)
		}
		r.out, r.used, r.firstWrite = c.out, c.used, c.firstWrite
	}()
	l := &socks5.Listener{}
	res, err := l.Handshake(c)
	if err == nil && res != nil {
		r.ok, r.cmd, r.host, r.port = true, res.Command, res.TargetHost, res.TargetPort
	}
	return
}

type ares struct {
	lres
	hsOk   bool
	hsUsed int
}

// what handleSocksConnection does with a connection: handshake, then (only on success) the request
func runAdapter(s []byte, cuts []int, auth bool, user, pass []byte) (r ares) {
	c := newConn(s, cuts)
	defer func() {
		if p := recover(); p != nil {
			r.pnc = fmt.Sprint(p)
		}
		r.out, r.used, r.firstWrite = c.out, c.used, c.firstWrite
	}()
	err := adapter.VerifSocksHandshake(c, auth, string(user), string(pass))
	r.hsUsed = c.used
	if err != nil {
		return
	}
	r.hsOk = true
	target, err := adapter.VerifSocksRequest(c)
	if err != nil {
		return
	}
	i := strings.LastIndexByte(target, ':')
	if i < 0 {
		r.pnc = "handleRequest returned a target without a port: " + target
		return
	}
	p, perr := strconv.Atoi(target[i+1:])
	if perr != nil {
		r.pnc = "handleRequest returned a target with a bad port: " + target
		return
	}
	r.ok, r.cmd, r.host, r.port = true, 1, target[:i], p
	return
}

func checkSession(o *caseOut, kind string, e expT, r lres) {
	if r.pnc != "" {
		o.Panic = r.pnc
		o.fail(kind+"-panic", "the parser panicked: "+r.pnc)
		return
	}
	if !e.gIncompl && r.firstWrite > e.gUsed {
		o.fail(kind+"-session", fmt.Sprintf("had consumed %d bytes when it answered the %d-byte greeting", r.firstWrite, e.gUsed))
		return
	}
	if r.ok != e.ok {
		if e.ok {
			o.fail(kind+"-session", fmt.Sprintf("a valid request (%s:%d cmd %d) was refused", e.host, e.port, e.cmd))
		} else {
			o.fail(kind+"-session", fmt.Sprintf("accepted %q:%d cmd %d where the reference rejects / is incomplete", r.host, r.port, r.cmd))
		}
		return
	}
	if r.ok && (r.cmd != e.cmd || r.host != e.host || r.port != e.port) {
		o.fail(kind+"-session", fmt.Sprintf("parsed cmd=%d %q:%d, RFC 1928 assigns cmd=%d %q:%d", r.cmd, r.host, r.port, e.cmd, e.host, e.port))
		return
	}
	if m := outOK(e, r.out); m != "" {
		o.fail(kind+"-session", m)
		return
	}
	if r.ok && r.used != e.used {
		o.fail(kind+"-session", fmt.Sprintf("consumed %d bytes, the messages are %d bytes long", r.used, e.used))
		return
	}
	if !r.ok && !e.incompl && r.used > e.used {
		o.fail(kind+"-session", fmt.Sprintf("consumed %d bytes for a rejected message that is decided after %d", r.used, e.used))
	}
}

// one relay for all single-operation cases of a run, like the long-lived relay of the real client
var sharedRelay = socks5.VerifRelay()

func udpParse(d []byte) (ok bool, host string, port int, payload []byte, pnc string) {
	defer func() {
		if p := recover(); p != nil {
			pnc = fmt.Sprint(p)
		}
	}()
	h, p, pl, err := sharedRelay.VerifParse(append([]byte(nil), d...))
	if err != nil {
		return false, "", 0, nil, ""
	}
	return true, h, p, append([]byte(nil), pl...), ""
}

func udpBuild(host string, port int, payload []byte) (b []byte, pnc string) {
	defer func() {
		if p := recover(); p != nil {
			pnc = fmt.Sprint(p)
		}
	}()
	return append([]byte(nil), sharedRelay.VerifBuild(host, port, append([]byte(nil), payload...))...), ""
}

func refUDP(d []byte) (ok bool, atyp byte, addr []byte, port int, payload []byte) {
	if len(d) < 4 || d[2] != 0 {
		return
	}
	st, a, p, n := refAddrPort(d[3], d[4:])
	if st != aOk {
		return
	}
	return true, d[3], a, p, d[4+n:]
}

func runCase(raw json.RawMessage) interface{} {
	var c caseIn
	must(json.Unmarshal(raw, &c))
	o := &caseOut{PropOK: true, Tbl: [][]interface{}{}}
	switch c.K {
	case "listener":
		s := unhx(c.S)
		r := runListener(s, c.Cuts)
		o.Ok, o.Cmd, o.Host, o.Port, o.Out, o.Used = r.ok, int(r.cmd), hx([]byte(r.host)), r.port, hx(r.out), r.used
		if r.ok {
			o.Canon = canon(r.host)
			o.addTbl(r.host)
		}
		checkSession(o, "listener", expectedSession(s, 0, listenerCmdOK, false, nil, nil), r)
	case "adapter":
		s, user, pass := unhx(c.S), unhx(c.User), unhx(c.Pass)
		r := runAdapter(s, c.Cuts, c.Auth, user, pass)
		o.Ok, o.Cmd, o.Host, o.Port, o.Out, o.Used = r.ok, int(r.cmd), hx([]byte(r.host)), r.port, hx(r.out), r.used
		o.HsOk, o.HsUsed = r.hsOk, r.hsUsed
		if r.ok {
			o.Canon = canon(r.host)
			o.addTbl(r.host)
		}
		want := byte(0)
		if c.Auth {
			want = 2
		}
		e := expectedSession(s, want, adapterCmdOK, c.Auth, user, pass)
		if r.pnc == "" && !e.gIncompl && r.firstWrite > e.gUsed {
			o.fail("adapter-greeting-overread", fmt.Sprintf(
				"handleHandshake had consumed %d bytes of the connection when it answered the %d-byte greeting; the rest belongs to the next message",
				r.firstWrite, e.gUsed))
		}
		if r.pnc == "" && !e.hsIncompl && r.hsUsed > e.hsUsed {
			o.fail("adapter-greeting-overread", fmt.Sprintf(
				"handleHandshake consumed %d bytes of the connection; the greeting%s is %d bytes long, the rest belongs to the next message",
				r.hsUsed, map[bool]string{true: " and sub-negotiation", false: ""}[c.Auth], e.hsUsed))
		}
		if r.pnc == "" && r.hsOk != e.hsOk {
			o.fail("adapter-session", fmt.Sprintf("handshake stage ok=%v, reference says %v", r.hsOk, e.hsOk))
		}
		if r.pnc == "" && e.hsOk && r.hsUsed != e.hsUsed {
			o.fail("adapter-session", fmt.Sprintf("handshake stage consumed %d bytes, its messages are %d bytes long", r.hsUsed, e.hsUsed))
		}
		checkSession(o, "adapter", e, r.lres)
	case "udp":
		d := unhx(c.D)
		ok, host, port, payload, pnc := udpParse(d)
		o.Ok, o.Host, o.Port, o.Payload = ok, hx([]byte(host)), port, hx(payload)
		if pnc != "" {
			o.Panic = pnc
			o.fail("udp-panic", "parseUDPHeader panicked: "+pnc)
			break
		}
		rok, ratyp, raddr, rport, rpayload := refUDP(d)
		switch {
		case !ok && rok && len(d) < 10:
			o.fail("udp-short-datagram-rejected", fmt.Sprintf(
				"parseUDPHeader refused the valid %d-byte datagram % x (ATYP=%d %q:%d, %d payload bytes)",
				len(d), d, ratyp, hostText(ratyp, raddr), rport, len(rpayload)))
		case ok != rok:
			o.fail("udp-parse", fmt.Sprintf("parseUDPHeader ok=%v, RFC 1928 reference ok=%v for % x", ok, rok, d))
		case ok && (host != hostText(ratyp, raddr) || port != rport || !bytes.Equal(payload, rpayload)):
			o.fail("udp-parse", fmt.Sprintf("parsed %q:%d payload % x, RFC 1928 assigns %q:%d payload % x",
				host, port, payload, hostText(ratyp, raddr), rport, rpayload))
		}
		if ok {
			o.Canon = canon(host)
			o.addTbl(host)
			built, pnc := udpBuild(host, port, payload)
			if pnc != "" {
				o.Panic = pnc
				o.fail("udp-panic", "buildUDPHeader panicked: "+pnc)
				break
			}
			o.Built = hx(built)
			ok2, host2, port2, payload2, pnc := udpParse(built)
			if pnc != "" {
				o.Panic = pnc
				o.fail("udp-panic", "parseUDPHeader panicked on a rebuilt header: "+pnc)
				break
			}
			o.Ok2, o.Port2, o.Payload2 = ok2, port2, hx(payload2)
			if ok2 {
				o.Canon2 = canon(host2)
				o.addTbl(host2)
			}
			if !ok2 || canon(host2) != canon(host) || port2 != port || !bytes.Equal(payload2, payload) {
				o.fail("udp-rebuild-reparse", fmt.Sprintf(
					"parse(build(parse d)) differs: %q:%d payload % x became ok=%v %q:%d payload % x (rebuilt % x)",
					host, port, payload, ok2, host2, port2, payload2, built))
			}
		}
	case "build":
		host, payload := string(unhx(c.Host)), unhx(c.Payload)
		o.addTbl(host)
		built, pnc := udpBuild(host, c.Port, payload)
		if pnc != "" {
			o.Panic = pnc
			o.fail("udp-panic", "buildUDPHeader panicked: "+pnc)
			break
		}
		o.Built = hx(built)
		rok, ratyp, raddr, rport, rpayload := refUDP(built)
		if !rok || canon(hostText(ratyp, raddr)) != canon(host) || rport != c.Port&0xFFFF || !bytes.Equal(rpayload, payload) {
			o.fail("udp-build", fmt.Sprintf("buildUDPHeader(%q, %d, % x) = % x is not the RFC 1928 header of that destination",
				host, c.Port, payload, built))
		}
		if rok {
			o.addTbl(hostText(ratyp, raddr))
		}
	case "twoconn":
		runTwoConn(&c, o)
	case "relay":
		runRelay(&c, o)
	case "seq":
		runSeq(&c, o)
	case "conc":
		runConc(&c, o)
	default:
		panic("bad case kind " + c.K)
	}
	return o
}

// ---------------------------------------------------------------------------------------------
// gen: constants of both packages and single-field sweeps of the real parsers, as Coq definitions
// ---------------------------------------------------------------------------------------------

func gen() {
	fmt.Println("(* generated by verif_c20 gen from the repository's working tree — do not edit *)")
	fmt.Println("From Coq Require Import NArith List. Import ListNotations. Open Scope N_scope.")
	fmt.Println("(* internal/client/socks5 constants *)")
	for _, kv := range []struct {
		n string
		v int
	}{{"L_Version", socks5.Version}, {"L_AuthNone", socks5.AuthNone}, {"L_AuthNoMatch", socks5.AuthNoMatch},
		{"L_CmdConnect", socks5.CmdConnect}, {"L_CmdBind", socks5.CmdBind}, {"L_CmdUDPAssoc", socks5.CmdUDPAssoc},
		{"L_AddrIPv4", socks5.AddrIPv4}, {"L_AddrDomain", socks5.AddrDomain}, {"L_AddrIPv6", socks5.AddrIPv6},
		{"L_RepSuccess", socks5.RepSuccess}, {"L_RepFailure", socks5.RepFailure},
		{"L_RepCmdNotSupp", socks5.RepCmdNotSupp}, {"L_RepAddrNotSupp", socks5.RepAddrNotSupp}} {
		fmt.Printf("Definition %s : N := %d.\n", kv.n, kv.v)
	}
	fmt.Println("(* internal/protocol/adapter constants *)")
	ac := adapter.VerifSocksConsts()
	for _, n := range []string{"Version", "AuthNone", "AuthPassword", "AuthNoMatch", "CmdConnect", "CmdBind", "CmdUDPAssociate",
		"AddrIPv4", "AddrDomain", "AddrIPv6", "RepSuccess", "RepServerFailure", "RepCommandNotSupported", "RepAddrTypeNotSupported"} {
		fmt.Printf("Definition A_%s : N := %d.\n", n, ac[n])
	}
	// greeting and request are delivered in separate reads (cuts 3, then everything) so that the sweeps do
	// not depend on how the greeting is fetched
	greet := []byte{5, 1, 0}
	tail := []byte{3, 97, 98, 99, 0, 80, 1, 2, 3, 4, 5, 6, 7, 8, 9, 10, 11, 12, 13, 14, 15, 16, 17, 18, 19, 20}
	code := func(ok bool, out []byte) int {
		// 0 accepted; REP of the reply written after the 2-byte method selection; 255 rejected without reply
		if ok {
			return 0
		}
		if len(out) >= 4 {
			return int(out[3])
		}
		return 255
	}
	row := func(name string, f func(b byte) (int, int)) {
		fmt.Printf("Definition %s : list (N * N) := [", name)
		for i := 0; i < 256; i++ {
			a, b := f(byte(i))
			if i > 0 {
				fmt.Print(";")
			}
			if i%16 == 0 {
				fmt.Print("\n ")
			}
			fmt.Printf("(%d,%d)", a, b)
		}
		fmt.Println("].")
	}
	fmt.Println("(* per CMD byte: (0 accepted | REP | 255 no reply, bytes consumed after the greeting); request 05 CMD 00 01 .. *)")
	row("listener_cmd_table", func(b byte) (int, int) {
		r := runListener(append(append([]byte{}, greet...), append([]byte{5, b, 0, 1}, tail...)...), []int{3})
		return code(r.ok, r.out), r.used - 3
	})
	row("adapter_cmd_table", func(b byte) (int, int) {
		r := runAdapter(append(append([]byte{}, greet...), append([]byte{5, b, 0, 1}, tail...)...), []int{3}, false, nil, nil)
		return code(r.ok, r.out), r.used - 3
	})
	fmt.Println("(* per ATYP byte, request 05 01 00 ATYP 03 'a' 'b' 'c' 00 50 01 02 .. *)")
	row("listener_atyp_table", func(b byte) (int, int) {
		r := runListener(append(append([]byte{}, greet...), append([]byte{5, 1, 0, b}, tail...)...), []int{3})
		return code(r.ok, r.out), r.used - 3
	})
	row("adapter_atyp_table", func(b byte) (int, int) {
		r := runAdapter(append(append([]byte{}, greet...), append([]byte{5, 1, 0, b}, tail...)...), []int{3}, false, nil, nil)
		return code(r.ok, r.out), r.used - 3
	})
	fmt.Println("(* per VER byte of the request *)")
	row("listener_ver_table", func(b byte) (int, int) {
		r := runListener(append(append([]byte{}, greet...), append([]byte{b, 1, 0, 1}, tail...)...), []int{3})
		return code(r.ok, r.out), r.used - 3
	})
	row("adapter_ver_table", func(b byte) (int, int) {
		r := runAdapter(append(append([]byte{}, greet...), append([]byte{b, 1, 0, 1}, tail...)...), []int{3}, false, nil, nil)
		return code(r.ok, r.out), r.used - 3
	})
	fmt.Println("(* parseUDPHeader per ATYP byte (accepted?, payload length) and per FRAG byte, 30-byte datagram *)")
	row("udp_atyp_table", func(b byte) (int, int) {
		ok, _, _, pl, _ := udpParse(append([]byte{0, 0, 0, b}, tail...))
		if !ok {
			return 0, 0
		}
		return 1, len(pl)
	})
	row("udp_frag_table", func(b byte) (int, int) {
		ok, _, _, pl, _ := udpParse(append([]byte{0, 0, b, 1}, tail...))
		if !ok {
			return 0, 0
		}
		return 1, len(pl)
	})
}

func main() {
	if len(os.Args) > 1 && os.Args[1] == "gen" {
		gen()
		return
	}
	forEachCase(runCase)
}

//go:build verif

// verif_c09: drives the REAL tunnel.RoutingTable (RegisterWaitingTunnel / LookupWaitingTunnel /
// RemoveWaitingTunnel / RegisterNodeAddress / GetNodeAddress) of several nodes over the real storage backends
// (memory.Storage, redis.Storage over miniredis, hybrid.Storage with and without a shared cache) with operation
// histories, and evaluates property C09's own predicate on the answers with a small reference map that is
// independent of the Coq model:
//
//	while a registration of a tunnel id is live (not removed, not past its waiting period) a lookup from ANY node
//	returns exactly the ten registered fields; afterwards the lookup fails with one of the two sentinel errors
//	the session layer polls on (tunnel.ErrNotFound / tunnel.ErrExpired).
//
// Time: the routing table reads the real clock.  Every call is bracketed by two clock readings and the caller's
// struct gives the exact CreatedAt/ExpiresAt the code chose, so each lookup is classified as definitely-live,
// definitely-dead or ambiguous from MEASURED times (no assumption about scheduling delays).  Ambiguous steps are
// counted, never judged.  miniredis has a virtual TTL clock (FastForward), which lets the backend's own expiry and
// the explicit ExpiresAt check be exercised independently.
//
//	verif_c09 gen     print coq/Gen/C09.v (key layout, TTLs, hybrid prefix tables, value shapes - all from the real code)
//	verif_c09         JSON case per line on stdin -> JSON result per line (cases run concurrently, output in order)
package main

import (
	"bufio"
	"context"
	"encoding/json"
	"fmt"
	"go/ast"
	"go/parser"
	"go/token"
	"io"
	"net"
	"os"
	"path/filepath"
	"sort"
	"sync/atomic"
	"strings"
	"sync"
	"time"
	"unicode/utf8"

	"github.com/alicebob/miniredis/v2"

	"tunnox-core/internal/cloud/models"
	"tunnox-core/internal/core/idgen"
	corelog "tunnox-core/internal/core/log"
	"tunnox-core/internal/core/storage"
	"tunnox-core/internal/core/storage/hybrid"
	"tunnox-core/internal/core/storage/memory"
	rstore "tunnox-core/internal/core/storage/redis"
	"tunnox-core/internal/protocol/session"
	"tunnox-core/internal/protocol/session/tunnel"
)

// ---------------------------------------------------------------------------------------------
// cases
// ---------------------------------------------------------------------------------------------

type recIn struct {
	Tunnel  string `json:"tunnel"` // hex of the raw string bytes
	Mapping string `json:"mapping"`
	Secret  string `json:"secret"`
	Node    string `json:"node"`
	Src     int64  `json:"src"`
	Dst     int64  `json:"dst"`
	Host    string `json:"host"`
	Port    int64  `json:"port"`
}

type opIn struct {
	Op   string `json:"op"` // reg look rem sleep ff regaddr getaddr mutate poll
	N    int    `json:"n"`
	Rec  *recIn `json:"rec,omitempty"`
	Tid  string `json:"tid,omitempty"`  // hex
	D    int64  `json:"d,omitempty"`    // milliseconds (sleep: real, ff: virtual backend clock)
	ID   string `json:"id,omitempty"`   // node id, hex
	Addr string `json:"addr,omitempty"` // hex
	// poll: a registration of Rec by node (n+1) mod nodes happens Delay ms after the polling lookup started
	Delay int64 `json:"delay,omitempty"`
	// reg: the struct handed to RegisterWaitingTunnel already CARRIES CreatedAt/ExpiresAt of an earlier life (the same struct
	// published again, a looked-up record re-homed to this node): the registration must stamp it afresh
	Carry bool `json:"carry,omitempty"`
	// the shared tier (miniredis) fails every command for the duration of THIS call only
	Fault bool `json:"fault,omitempty"`
	// forward stream: "addr" registers listener K as the node's address, "fwd" forwards a fresh tunnel
	K int `json:"k,omitempty"`
}

type caseIn struct {
	Backend string `json:"backend"` // memory | redis | hybrid | hybridone | hybridsplit | lazy | mapshape
	TTLms   int64  `json:"ttl_ms"`
	Nodes   int    `json:"nodes"`
	Ops     []opIn `json:"ops"`
	Stream  string `json:"stream,omitempty"` // "valid" | "invalid_utf8" | "probe" | "bridge"
	// bridge stream: how the tunnel started by the REAL startSourceBridge ends; Rec gives the mapping and the tunnel id
	Way string `json:"way,omitempty"` // abort | cancel | complete | duplicate | restart | timeout
	Rec *recIn `json:"rec,omitempty"`
	// conc / sweep streams
	Pool    int      `json:"pool,omitempty"`    // go-redis connection pool size of every Redis client (default 2)
	Recs    []*recIn `json:"recs,omitempty"`    // conc: the records registered concurrently (distinct tunnel ids)
	Workers int      `json:"workers,omitempty"` // conc storm: number of goroutines
	Fill    int      `json:"fill,omitempty"`    // sweep: lapsed filler entries that make the sweep long
	// bridge: the target client's CONTROL connection is registered on the node that starts the source bridge (where a
	// client's control connection lives says nothing about where its next tunnel connection arrives)
	LocalTarget bool `json:"local_target,omitempty"`
}

type recOut struct {
	Tunnel  string `json:"tunnel"`
	Mapping string `json:"mapping"`
	Secret  string `json:"secret"`
	Node    string `json:"node"`
	Src     int64  `json:"src"`
	Dst     int64  `json:"dst"`
	Host    string `json:"host"`
	Port    int64  `json:"port"`
	Created int64  `json:"created"` // ns since the case's base instant
	Expires int64  `json:"expires"`
}

type opOut struct {
	Res  string  `json:"res"`           // reg: ok|invalid|err ; look: ok|notfound|expired|invalid|err ; rem: ok|invalid ; getaddr: ok|notfound|bad ; tick: ok
	T0   int64   `json:"t0"`            // ns since base, read before the call
	T1   int64   `json:"t1"`            // ns since base, read after the call
	Rec  *recOut `json:"rec,omitempty"` // reg: the caller's struct after the call ; look: the returned record
	Addr string  `json:"addr,omitempty"`
	Amb  bool    `json:"amb,omitempty"` // the reference could not classify this step from the measured times
	Flt  bool    `json:"fault,omitempty"` // the shared tier failed during this call
	Err  string  `json:"err,omitempty"` // diagnostic only
}

type caseOut struct {
	Obs     []opOut           `json:"obs"`
	PropOK  bool              `json:"prop_ok"`
	PropKey string            `json:"prop_key,omitempty"`
	PropMsg string            `json:"prop_msg,omitempty"`
	FailAt  int               `json:"fail_at"`
	Amb     int               `json:"ambiguous"`
	Shapes  map[string]string `json:"shapes"`
	Judged  int               `json:"judged"` // lookups / address reads the predicate decided
}

// ---------------------------------------------------------------------------------------------
// backends
// ---------------------------------------------------------------------------------------------

// lazyStore: the real memory.Storage behind a facade that never lets the BACKEND expire anything (ttl dropped).
// What remains is the routing table's own ExpiresAt check.
type lazyStore struct{ storage.Storage }

func (l lazyStore) Set(key string, value interface{}, ttl time.Duration) error {
	return l.Storage.Set(key, value, 0)
}

// mapShapeStore: a backend of the kind the comment in LookupWaitingTunnel describes ("Storage.Get returns the
// deserialized map[string]interface{}"): values are kept as JSON and handed back through encoding/json into
// interface{}.  No shipped backend behaves like this for the waiting key; used only by the reported probe stream.
type mapShapeStore struct{ storage.Storage }

func (m mapShapeStore) Set(key string, value interface{}, ttl time.Duration) error {
	b, err := json.Marshal(value)
	if err != nil {
		return err
	}
	return m.Storage.Set(key, string(b), ttl)
}

func (m mapShapeStore) Get(key string) (interface{}, error) {
	v, err := m.Storage.Get(key)
	if err != nil {
		return nil, err
	}
	var out interface{}
	if err := json.Unmarshal([]byte(v.(string)), &out); err != nil {
		return nil, err
	}
	return out, nil
}

type world struct {
	tables  []*tunnel.RoutingTable
	stores  []storage.Storage
	mr      *miniredis.Miniredis
	virtual bool // the shared backend's TTL clock is miniredis' virtual clock
	never   bool // the backend never expires by itself
	split   bool // nodes do not share a store
	mems    []*memory.Storage
	rclis   []*rstore.Storage
	closers []func()
}

// newMem: a memory.Storage whose deadlines the harness can move (VerifAdvance)
func (w *world) newMem(ctx context.Context) *memory.Storage {
	m := memory.New(ctx)
	w.mems = append(w.mems, m)
	return m
}

// advance lets d of backend time pass on every backend of the world (miniredis.FastForward / memory VerifAdvance)
func (w *world) advance(d time.Duration) {
	if w.mr != nil {
		w.mr.FastForward(d)
	}
	for _, m := range w.mems {
		m.VerifAdvance(d)
	}
}

func (w *world) close() {
	for i := len(w.closers) - 1; i >= 0; i-- {
		w.closers[i]()
	}
}

func newWorld(c caseIn) *world {
	ctx := context.Background()
	w := &world{}
	n := c.Nodes
	if n <= 0 {
		n = 2
	}
	ttl := time.Duration(c.TTLms) * time.Millisecond
	newRedis := func() storage.Storage {
		pool := 2
		if c.Pool > 0 {
			pool = c.Pool
		}
		st, err := rstore.New(ctx, &rstore.Config{Addr: w.mr.Addr(), PoolSize: pool})
		must(err)
		w.rclis = append(w.rclis, st)
		w.closers = append(w.closers, func() { st.Close() })
		return st
	}
	switch c.Backend {
	case "memory", "lazy", "mapshape":
		var st storage.Storage = w.newMem(ctx)
		if c.Backend == "lazy" {
			st = lazyStore{st}
			w.never = true
		}
		if c.Backend == "mapshape" {
			st = mapShapeStore{st}
		}
		for i := 0; i < n; i++ {
			w.stores = append(w.stores, st)
		}
	case "redis":
		mr, err := miniredis.Run()
		must(err)
		w.mr, w.virtual = mr, true
		w.closers = append(w.closers, mr.Close)
		for i := 0; i < n; i++ {
			w.stores = append(w.stores, newRedis())
		}
	case "hybrid":
		// the clustered deployment: every node has its own local memory cache and a client of the shared Redis
		mr, err := miniredis.Run()
		must(err)
		w.mr, w.virtual = mr, true
		w.closers = append(w.closers, mr.Close)
		for i := 0; i < n; i++ {
			h := hybrid.NewWithSharedCache(ctx, w.newMem(ctx), newRedis().(*rstore.Storage), nil, nil)
			w.stores = append(w.stores, h)
		}
	case "hybridone":
		// the single-process default: one hybrid storage without shared cache, all tables on it
		h := hybrid.New(ctx, w.newMem(ctx), nil, nil)
		for i := 0; i < n; i++ {
			w.stores = append(w.stores, h)
		}
	case "hybridsplit":
		// several nodes each with the default storage and NO shared cache: nothing is shared
		w.split = true
		for i := 0; i < n; i++ {
			w.stores = append(w.stores, hybrid.New(ctx, w.newMem(ctx), nil, nil))
		}
	default:
		panic("unknown backend " + c.Backend)
	}
	for i := 0; i < n; i++ {
		w.tables = append(w.tables, tunnel.NewRoutingTable(w.stores[i], ttl))
	}
	return w
}

// ---------------------------------------------------------------------------------------------
// running one history + the reference predicate
// ---------------------------------------------------------------------------------------------

const epsNs = int64(5 * time.Millisecond) // guard band around a deadline (wall vs monotonic clock readings)

type regInfo struct {
	remFault bool // RemoveWaitingTunnel ran while the shared tier failed: the delete did not happen
	st      tunnel.WaitingState // copy of the caller's struct right after RegisterWaitingTunnel
	in      tunnel.WaitingState // copy of the caller's struct right before
	node    int
	removed bool
	ff      time.Duration // virtual backend time elapsed since the registration
	regDur  int64         // duration of the Register call (upper bound on backend deadline - ExpiresAt), ns
	created int64
	expires int64
}

type addrInfo struct {
	addr   string
	node   int
	ff     time.Duration // backend time advanced since the latest RegisterNodeAddress
	t0, t1 int64         // clock readings around the latest RegisterNodeAddress
	n      int           // how many times it was registered
}

func toState(r *recIn) *tunnel.WaitingState {
	return &tunnel.WaitingState{
		TunnelID: string(unhx(r.Tunnel)), MappingID: string(unhx(r.Mapping)), SecretKey: string(unhx(r.Secret)),
		SourceNodeID: string(unhx(r.Node)), SourceClientID: r.Src, TargetClientID: r.Dst,
		TargetHost: string(unhx(r.Host)), TargetPort: int(r.Port),
	}
}

func fromState(s *tunnel.WaitingState, created, expires int64) *recOut {
	return &recOut{Tunnel: hx([]byte(s.TunnelID)), Mapping: hx([]byte(s.MappingID)), Secret: hx([]byte(s.SecretKey)),
		Node: hx([]byte(s.SourceNodeID)), Src: s.SourceClientID, Dst: s.TargetClientID, Host: hx([]byte(s.TargetHost)),
		Port: int64(s.TargetPort), Created: created, Expires: expires}
}

func short(s string) string {
	if len(s) > 40 {
		return fmt.Sprintf("%q...(%d bytes)", s[:40], len(s))
	}
	return fmt.Sprintf("%q", s)
}

// fieldDiff compares the eight caller-supplied fields; returns the Go field name of the first difference
func fieldDiff(a, b *tunnel.WaitingState) (string, string) {
	switch {
	case a.TunnelID != b.TunnelID:
		return "TunnelID", short(a.TunnelID) + " vs " + short(b.TunnelID)
	case a.MappingID != b.MappingID:
		return "MappingID", short(a.MappingID) + " vs " + short(b.MappingID)
	case a.SecretKey != b.SecretKey:
		return "SecretKey", short(a.SecretKey) + " vs " + short(b.SecretKey)
	case a.SourceNodeID != b.SourceNodeID:
		return "SourceNodeID", short(a.SourceNodeID) + " vs " + short(b.SourceNodeID)
	case a.SourceClientID != b.SourceClientID:
		return "SourceClientID", fmt.Sprintf("%d vs %d", a.SourceClientID, b.SourceClientID)
	case a.TargetClientID != b.TargetClientID:
		return "TargetClientID", fmt.Sprintf("%d vs %d", a.TargetClientID, b.TargetClientID)
	case a.TargetHost != b.TargetHost:
		return "TargetHost", short(a.TargetHost) + " vs " + short(b.TargetHost)
	case a.TargetPort != b.TargetPort:
		return "TargetPort", fmt.Sprintf("%d vs %d", a.TargetPort, b.TargetPort)
	}
	return "", ""
}

func runCase(c caseIn) *caseOut {
	out := &caseOut{PropOK: true, FailAt: -1, Shapes: map[string]string{}}
	w := newWorld(c)
	defer w.close()
	ttl := w.tables[0].VerifTTL()
	base := time.Now()
	since := func() int64 { return int64(time.Since(base)) }
	rel := func(t time.Time) int64 { return int64(t.Sub(base)) }
	cur := map[string]*regInfo{}
	addrs := map[string]*addrInfo{}
	// nodes that share no store have separate registrations per node
	ck := func(node int, id string) string {
		if w.split {
			return fmt.Sprintf("%d/%s", node, id)
		}
		return id
	}
	fail := func(i int, key, msg string) {
		if out.PropOK {
			out.PropOK, out.FailAt, out.PropKey, out.PropMsg = false, i, key, msg
		}
	}
	for i, o := range c.Ops {
		var oo opOut
		node := o.N
		if node < 0 || node >= len(w.tables) {
			node = 0
		}
		rt := w.tables[node]
		faulted := o.Fault && w.mr != nil
		if faulted {
			w.mr.SetError("ERR verif injected outage")
			oo.Flt = true
		}
		switch o.Op {
		case "sleep":
			oo.T0 = since()
			time.Sleep(time.Duration(o.D) * time.Millisecond)
			oo.T1, oo.Res = since(), "ok"
		case "ff":
			oo.T0 = since()
			d := time.Duration(o.D) * time.Millisecond
			w.advance(d)
			for _, ri := range cur {
				ri.ff += d
			}
			for _, ai := range addrs {
				ai.ff += d
			}
			oo.T1, oo.Res = since(), "ok"
		case "reg":
			st := toState(o.Rec)
			if o.Carry {
				st.CreatedAt = base.Add(-2 * ttl)
				st.ExpiresAt = st.CreatedAt.Add(ttl)
			}
			before := *st
			oo.T0 = since()
			err := rt.RegisterWaitingTunnel(context.Background(), st)
			oo.T1 = since()
			if faulted {
				w.mr.SetError("")
			}
			if err != nil {
				oo.Res, oo.Err = "err", err.Error()
				if st.TunnelID == "" {
					oo.Res = "invalid"
				} else if faulted {
					// the failed write is REPORTED: nothing was registered, whatever was there before stays
					oo.Res = "fault"
				} else {
					fail(i, "register-failed", fmt.Sprintf("op #%d RegisterWaitingTunnel(%s) on %s failed: %v", i, short(st.TunnelID), c.Backend, err))
				}
				oo.Rec = fromState(st, 0, 0)
				break
			}
			oo.Res = "ok"
			cr, ex := rel(st.CreatedAt), rel(st.ExpiresAt)
			oo.Rec = fromState(st, cr, ex)
			if st.TunnelID == "" {
				fail(i, "register-empty-id-accepted", fmt.Sprintf("op #%d RegisterWaitingTunnel accepted an empty tunnel id", i))
				break
			}
			// the caller's struct: eight fields untouched, CreatedAt read during the call, ExpiresAt = CreatedAt + ttl
			if f, d := fieldDiff(&before, st); f != "" {
				fail(i, "register-mutated-"+f, fmt.Sprintf("op #%d RegisterWaitingTunnel changed the caller's %s: %s", i, f, d))
			}
			if st.ExpiresAt.Sub(st.CreatedAt) != ttl || cr < oo.T0 || cr > oo.T1 {
				fail(i, "register-stamps", fmt.Sprintf("op #%d RegisterWaitingTunnel stamped CreatedAt=%d ExpiresAt=%d (call in [%d,%d], ttl=%v)", i, cr, ex, oo.T0, oo.T1, ttl))
			}
			cur[ck(node, st.TunnelID)] = &regInfo{st: *st, in: before, node: node, regDur: oo.T1 - cr, created: cr, expires: ex}
			if _, seen := out.Shapes["waiting"]; !seen {
				if v, err := w.stores[node].Get(rt.VerifMakeKey(st.TunnelID)); err == nil {
					out.Shapes["waiting"] = fmt.Sprintf("%T", v)
				}
			}
		case "rem":
			tid := string(unhx(o.Tid))
			oo.T0 = since()
			err := rt.RemoveWaitingTunnel(context.Background(), tid)
			oo.T1 = since()
			switch {
			case err == nil && tid != "":
				oo.Res = "ok"
				if ri := cur[ck(node, tid)]; ri != nil {
					if faulted {
						ri.remFault = true // the Delete failed and RemoveWaitingTunnel swallowed the error
					} else {
						ri.removed = true
					}
				}
			case err != nil && tid == "":
				oo.Res = "invalid"
			default:
				oo.Res, oo.Err = "err", fmt.Sprint(err)
				fail(i, "remove-result", fmt.Sprintf("op #%d RemoveWaitingTunnel(%s) returned %v", i, short(tid), err))
			}
		case "look", "poll":
			tid := string(unhx(o.Tid))
			oo.T0 = since()
			var got *tunnel.WaitingState
			var err error
			var late *tunnel.WaitingState
			if o.Op == "poll" {
				// the REAL polling lookup of cross_node_session.go while another node registers the tunnel later
				var wg sync.WaitGroup
				if o.Rec != nil {
					late = toState(o.Rec)
					wg.Add(1)
					go func() {
						defer wg.Done()
						time.Sleep(time.Duration(o.Delay) * time.Millisecond)
						_ = w.tables[(node+1)%len(w.tables)].RegisterWaitingTunnel(context.Background(), late)
					}()
				}
				ctx, cancel := context.WithTimeout(context.Background(), time.Duration(o.D)*time.Millisecond)
				got, err = session.VerifLookupTunnelRouting(ctx, rt, tid)
				cancel()
				wg.Wait()
			} else {
				got, err = rt.LookupWaitingTunnel(context.Background(), tid)
			}
			oo.T1 = since()
			ri := cur[ck(node, tid)]
			switch {
			case err == nil && got != nil:
				oo.Res = "ok"
				cr, ex := rel(got.CreatedAt), rel(got.ExpiresAt)
				if ri != nil && got.CreatedAt.Equal(ri.st.CreatedAt) {
					cr = ri.created
				}
				if ri != nil && got.ExpiresAt.Equal(ri.st.ExpiresAt) {
					ex = ri.expires
				}
				oo.Rec = fromState(got, cr, ex)
			case err == tunnel.ErrNotFound:
				oo.Res = "notfound"
			case err == tunnel.ErrExpired:
				oo.Res = "expired"
			case tid == "":
				oo.Res = "invalid"
			default:
				oo.Res, oo.Err = "err", fmt.Sprint(err)
			}
			if tid == "" {
				if oo.Res != "invalid" {
					fail(i, "lookup-empty-id", fmt.Sprintf("op #%d LookupWaitingTunnel(\"\") answered %s", i, oo.Res))
				}
				break
			}
			if o.Op == "poll" {
				out.Judged++
				took := time.Duration(oo.T1 - oo.T0)
				switch {
				case late != nil && !w.split:
					if oo.Res != "ok" {
						fail(i, "poll-missed-late-registration", fmt.Sprintf("op #%d on %s: lookupTunnelRouting(%s) with a %d ms budget did not see the registration made %d ms after it started: %s %s", i, c.Backend, short(tid), o.D, o.Delay, oo.Res, oo.Err))
					} else if f, d := fieldDiff(late, got); f != "" {
						fail(i, "field-"+f, fmt.Sprintf("op #%d on %s: polling lookup of %s returned a different %s: registered %s", i, c.Backend, short(tid), f, d))
					} else if took < time.Duration(o.Delay)*time.Millisecond {
						fail(i, "poll-early", fmt.Sprintf("op #%d: polling lookup answered after %v, before the registration at %d ms", i, took, o.Delay))
					} else if lat := time.Duration(oo.T1 - rel(late.CreatedAt)); lat > pollBound {
						// the source published after several misses: the next poll must come within the interval cap
						fail(i, "poll-interval-not-capped", fmt.Sprintf("op #%d on %s: the target was polling for %s; the waiting record was published %d ms after the polling started and lookupTunnelRouting resolved it only %v after the publication (poll interval cap 200 ms, bound %v)", i, c.Backend, short(tid), o.Delay, lat.Round(time.Millisecond), pollBound))
					}
					if oo.Res == "ok" {
						cur[ck((node+1)%len(w.tables), tid)] = &regInfo{st: *late, node: (node + 1) % len(w.tables), created: rel(late.CreatedAt), expires: rel(late.ExpiresAt)}
						oo.Rec = fromState(got, rel(late.CreatedAt), rel(late.ExpiresAt))
					}
				case ri == nil || ri.removed:
					if oo.Res == "ok" {
						fail(i, "poll-unregistered", fmt.Sprintf("op #%d on %s: lookupTunnelRouting(%s) resolved an id nobody registered", i, c.Backend, short(tid)))
					} else if took < time.Duration(o.D)*time.Millisecond*9/10 {
						fail(i, "poll-gave-up-early", fmt.Sprintf("op #%d on %s: lookupTunnelRouting(%s) gave up after %v of a %d ms budget: %s", i, c.Backend, short(tid), took, o.D, oo.Err))
					}
				}
				break
			}
			if faulted && oo.Res == "err" {
				break // the failed read is reported as a storage error: no routing decision was made
			}
			if ri != nil && ri.remFault && !ri.removed {
				// the Delete of RemoveWaitingTunnel was itself made to fail: the property does not quantify over storage
				// faults, the record may stay until ExpiresAt (the model replay still compares the answer); not judged
				oo.Amb = true
				out.Amb++
				break
			}
			// ---- the property's predicate
			gone := ri == nil || ri.removed
			var mustOK, mustGone bool
			if gone {
				mustGone = true
			} else {
				realLive := oo.T1+epsNs <= ri.expires
				realDead := oo.T0-epsNs > ri.expires
				var backLive, backDead bool
				if w.virtual {
					backLive, backDead = ri.ff < ttl, ri.ff > ttl
				} else if w.never {
					backLive = true
				} else {
					// memory.Storage: its clock is the real clock plus what was advanced; its deadline was taken
					// at most regDur after CreatedAt
					backLive = time.Duration(oo.T1+epsNs-ri.created)+ri.ff < ttl
					backDead = time.Duration(oo.T0-epsNs-ri.created-ri.regDur)+ri.ff > ttl
				}
				mustOK = realLive && backLive
				mustGone = realDead || backDead
			}
			switch {
			case mustGone:
				out.Judged++
				if oo.Res == "ok" {
					why := "after its waiting period lapsed"
					key := "stale-after-expiry"
					if ri == nil {
						why, key = "although it was never registered", "lookup-unregistered"
					} else if ri.removed {
						why, key = "after RemoveWaitingTunnel", "stale-after-remove"
					} else if w.split && ri.node != node {
						why, key = "on a node that shares no store with the registering node", "split-hit"
					}
					fail(i, key, fmt.Sprintf("op #%d on %s: LookupWaitingTunnel(%s) from node %d resolved %s (t in [%d,%d] ns, ExpiresAt=%d)", i, c.Backend, short(tid), node, why, oo.T0, oo.T1, expOf(ri)))
				} else if oo.Res != "notfound" && oo.Res != "expired" {
					fail(i, "lookup-error-not-sentinel", fmt.Sprintf("op #%d on %s: LookupWaitingTunnel(%s) failed with %q, which is neither tunnel.ErrNotFound nor tunnel.ErrExpired (the session layer aborts instead of treating the id as gone)", i, c.Backend, short(tid), oo.Err))
				}
			case mustOK:
				out.Judged++
				if oo.Res != "ok" {
					key := "lookup-lost"
					if ri.node != node {
						key = "lookup-lost-cross-node"
					}
					fail(i, key, fmt.Sprintf("op #%d on %s: tunnel %s registered on node %d at %d ns (ExpiresAt=%d) is not routable from node %d at [%d,%d] ns: %s %s", i, c.Backend, short(tid), ri.node, ri.created, ri.expires, node, oo.T0, oo.T1, oo.Res, oo.Err))
				} else {
					if f, d := fieldDiff(&ri.st, got); f != "" {
						fail(i, "field-"+f, fmt.Sprintf("op #%d on %s: lookup of %s returned a different %s: registered %s", i, c.Backend, short(tid), f, d))
					} else if !got.CreatedAt.Equal(ri.st.CreatedAt) {
						fail(i, "field-CreatedAt", fmt.Sprintf("op #%d on %s: CreatedAt %v vs %v", i, c.Backend, ri.st.CreatedAt, got.CreatedAt))
					} else if !got.ExpiresAt.Equal(ri.st.ExpiresAt) {
						fail(i, "field-ExpiresAt", fmt.Sprintf("op #%d on %s: ExpiresAt %v vs %v", i, c.Backend, ri.st.ExpiresAt, got.ExpiresAt))
					}
				}
			default:
				oo.Amb = true
				out.Amb++
			}
		case "regaddr":
			id, addr := string(unhx(o.ID)), string(unhx(o.Addr))
			oo.T0 = since()
			err := rt.RegisterNodeAddress(id, addr)
			oo.T1 = since()
			if err != nil && faulted {
				oo.Res, oo.Err = "fault", err.Error()
				break
			}
			if err != nil {
				oo.Res, oo.Err = "err", err.Error()
				fail(i, "regaddr-failed", fmt.Sprintf("op #%d RegisterNodeAddress(%s,%s) failed: %v", i, short(id), short(addr), err))
				break
			}
			oo.Res = "ok"
			// every RegisterNodeAddress (first or refresh, same or new address, any node) restarts the 24 h
			prev := addrs[ck(node, id)]
			addrs[ck(node, id)] = &addrInfo{addr: addr, node: node, t0: oo.T0, t1: oo.T1, n: 1}
			if prev != nil {
				addrs[ck(node, id)].n = prev.n + 1
			}
			if _, seen := out.Shapes["addr"]; !seen {
				if v, err := w.stores[node].Get("tunnox:node:" + id + ":addr"); err == nil {
					out.Shapes["addr"] = fmt.Sprintf("%T", v)
				}
			}
		case "getaddr":
			id := string(unhx(o.ID))
			oo.T0 = since()
			a, err := rt.GetNodeAddress(id)
			oo.T1 = since()
			switch {
			case err == nil:
				oo.Res, oo.Addr = "ok", hx([]byte(a))
			case err == storage.ErrKeyNotFound:
				oo.Res = "notfound"
			default:
				oo.Res, oo.Err = "bad", err.Error()
			}
			if faulted && oo.Res != "ok" {
				break
			}
			ai := addrs[ck(node, id)]
			known := ai != nil
			addrTTL := tunnel.NodeAddressTTL
			var live, dead bool
			if known {
				switch {
				case w.virtual:
					live, dead = ai.ff < addrTTL, ai.ff > addrTTL
				case w.never:
					live = true
				default:
					live = time.Duration(oo.T1+epsNs-ai.t0)+ai.ff < addrTTL
					dead = time.Duration(oo.T0-epsNs-ai.t1)+ai.ff > addrTTL
				}
			}
			switch {
			case known && !live && !dead:
				oo.Amb = true
				out.Amb++
			case known && ai.addr != "" && live:
				out.Judged++
				if oo.Res != "ok" || a != ai.addr {
					key := "node-address"
					if ai.n > 1 && oo.Res != "ok" {
						key = "node-address-refresh-not-kept-alive"
					}
					fail(i, key, fmt.Sprintf("op #%d on %s: GetNodeAddress(%s) from node %d = %s %s; %s was registered by node %d (%d registrations, the latest %v of backend time ago, NodeAddressTTL %v)", i, c.Backend, short(id), node, oo.Res, short(a), short(ai.addr), ai.node, ai.n, ai.ff, addrTTL))
				}
			default:
				out.Judged++
				if oo.Res == "ok" {
					fail(i, "node-address-stale", fmt.Sprintf("op #%d on %s: GetNodeAddress(%s) = %s although no usable address is registered", i, c.Backend, short(id), short(a)))
				}
			}
		default:
			panic("unknown op " + o.Op)
		}
		if faulted {
			w.mr.SetError("")
		}
		out.Obs = append(out.Obs, oo)
	}
	return out
}

func expOf(ri *regInfo) int64 {
	if ri == nil {
		return -1
	}
	return ri.expires
}

// ---------------------------------------------------------------------------------------------
// the registration / removal CALL SITES: SessionManager.startSourceBridge / runBridgeLifecycle (server_bridge.go) with
// the routing table installed.  A source bridge is started on node A by the real code and ended in one of the ways a
// tunnel ends; while it waits the id must resolve on every node to node A with the mapping's data, after the
// lifecycle ended it must not resolve on any node.
// ---------------------------------------------------------------------------------------------

type fakeCloud struct{ m map[string]*models.PortMapping }

func (f *fakeCloud) GetPortMapping(id string) (*models.PortMapping, error) {
	if m, ok := f.m[id]; ok {
		cp := *m
		return &cp, nil
	}
	return nil, fmt.Errorf("mapping %s not found", id)
}
func (f *fakeCloud) UpdatePortMappingStats(string, *models.TrafficStats) error { return nil }
func (f *fakeCloud) GetClientPortMappings(int64) ([]*models.PortMapping, error) { return nil, nil }
func (f *fakeCloud) TouchClient(int64)                                          {}
func (f *fakeCloud) DisconnectClient(int64) error                               { return nil }
func (f *fakeCloud) DisconnectClientIfMatch(int64, string, string) (bool, error) {
	return false, nil
}
func (f *fakeCloud) EnsureClientOnline(int64, string, string, string, string, string) error {
	return nil
}

type bridgeOut struct {
	Stream  string   `json:"stream"`
	Backend string   `json:"backend"`
	Way     string   `json:"way"`
	PropOK  bool     `json:"prop_ok"`
	PropKey string   `json:"prop_key,omitempty"`
	PropMsg string   `json:"prop_msg,omitempty"`
	FailAt  int      `json:"fail_at"`
	Events  []string `json:"events"`
	Obs     []opOut  `json:"obs"`
	Judged  int      `json:"judged"`
	Amb     int      `json:"ambiguous"`
	EndMs   int64    `json:"lifecycle_end_ms"` // how long after the ending event the bridge left the index
}

// localwait: the waiting record says the tunnel waits on THIS node but the bridge is not indexed yet (ordering of the two
// steps of startSourceBridge as seen by a target connection that is already here): processCrossNodeForward ->
// handleLocalBridgeWait polls the bridge index with the same back-off as lookupTunnelRouting.  The bridge appears Delay ms
// later; the target must be attached within pollBound of that.
const pollBound = 1000 * time.Millisecond // pollMaxInterval (200 ms) + scheduling slack

func runLocalWait(c caseIn, out *bridgeOut, w *world, sm *session.SessionManager, tid, mid, secret string,
	fail func(string, string), ev func(string, ...interface{})) {
	bg := context.Background()
	must(w.tables[1].RegisterWaitingTunnel(bg, &tunnel.WaitingState{TunnelID: tid, MappingID: mid, SourceNodeID: "node-a"}))
	delay := time.Duration(c.Fill) * time.Millisecond
	mgr := session.NewTunnelConnectionManager(w.tables[0].GetNodeAddress, session.DefaultTunnelConnectionManagerConfig())
	defer mgr.Close()
	sm.SetTunnelConnectionManager(mgr)
	srv, cli := net.Pipe()
	defer srv.Close()
	defer cli.Close()
	go io.Copy(io.Discard, cli)
	conn, err := sm.CreateConnection(srv, srv)
	must(err)
	var startedAt time.Time
	done := make(chan error, 1)
	t0 := time.Now()
	go func() { done <- session.VerifHandleCrossNodeTarget(sm, tid, mid, conn, srv) }()
	time.Sleep(delay)
	s1, c1 := net.Pipe()
	defer s1.Close()
	defer c1.Close()
	startedAt = time.Now()
	must(session.VerifStartSourceBridge(sm, tid, mid, secret, s1))
	ev("bridge indexed %v after the target connection arrived", startedAt.Sub(t0).Round(time.Millisecond))
	select {
	case err := <-done:
		lat := time.Since(startedAt)
		out.Judged++
		ev("handleLocalBridgeWait returned %v after the bridge appeared: %v", lat.Round(time.Millisecond), err)
		if err != nil {
			fail("local-bridge-wait-failed", fmt.Sprintf("localwait on %s: the target connection for %s was on the source node before the bridge was indexed; the bridge appeared %v later but the wait ended with %v", c.Backend, short(tid), delay, err))
		} else if lat > pollBound {
			fail("poll-interval-not-capped", fmt.Sprintf("localwait on %s: the bridge of %s was indexed %v after the target connection arrived, yet handleLocalBridgeWait attached the target only %v after that (poll interval cap 200 ms, bound %v)", c.Backend, short(tid), delay, lat.Round(time.Millisecond), pollBound))
		}
	case <-time.After(6 * time.Second):
		fail("local-bridge-wait-failed", fmt.Sprintf("localwait on %s: handleLocalBridgeWait did not return within 6 s although the bridge was indexed after %v", c.Backend, delay))
	}
	if b := session.VerifBridge(sm, tid); b != nil {
		b.Close()
	}
}

func runBridge(c caseIn) *bridgeOut {
	out := &bridgeOut{Stream: "bridge", Backend: c.Backend, Way: c.Way, PropOK: true, FailAt: -1, Obs: []opOut{}, Events: []string{}}
	fail := func(key, msg string) {
		if out.PropOK {
			out.PropOK, out.PropKey, out.PropMsg, out.FailAt = false, key, msg, len(out.Events)
		}
	}
	ev := func(f string, a ...interface{}) { out.Events = append(out.Events, fmt.Sprintf(f, a...)) }
	c.Nodes = 2
	w := newWorld(c)
	defer w.close()
	bg := context.Background()
	ctxA, cancelA := context.WithCancel(bg)
	defer cancelA()
	r := c.Rec
	tid, mid, secret := string(unhx(r.Tunnel)), string(unhx(r.Mapping)), string(unhx(r.Secret))
	cloud := &fakeCloud{m: map[string]*models.PortMapping{
		mid:          {ID: mid, ListenClientID: r.Src, TargetClientID: r.Dst, TargetHost: string(unhx(r.Host)), TargetPort: int(r.Port), Protocol: "tcp", SecretKey: "mapping-key"},
		mid + "-dup": {ID: mid + "-dup", ListenClientID: r.Src + 1, TargetClientID: r.Dst + 1, TargetHost: "dup-host", TargetPort: 1, Protocol: "tcp"},
	}}
	sm := session.NewSessionManager(idgen.NewIDManager(memory.New(ctxA), ctxA), ctxA)
	sm.SetNodeID("node-a")
	sm.SetCloudControl(cloud)
	sm.SetTunnelRoutingTable(w.tables[0])
	views := []*tunnel.RoutingTable{w.tables[0], w.tables[1]}
	want := tunnel.WaitingState{TunnelID: tid, MappingID: mid, SecretKey: secret, SourceNodeID: "node-a",
		SourceClientID: r.Src, TargetClientID: r.Dst, TargetHost: string(unhx(r.Host)), TargetPort: int(r.Port)}

	resolves := func(v int) (*tunnel.WaitingState, error) { return views[v].LookupWaitingTunnel(bg, tid) }
	mustWait := func(when string) {
		for v := range views {
			got, err := resolves(v)
			out.Judged++
			if err != nil {
				fail("bridge-waiting-not-routable", fmt.Sprintf("%s on %s: tunnel %s started by startSourceBridge on node-a is not routable from node %d %s: %v", c.Way, c.Backend, short(tid), v, when, err))
			} else if f, d := fieldDiff(&want, got); f != "" {
				fail("bridge-registration-"+f, fmt.Sprintf("%s on %s: the record registered by startSourceBridge has a different %s %s: expected vs got %s", c.Way, c.Backend, f, when, d))
			}
		}
	}
	mustBeGone := func(when string) {
		// RemoveWaitingTunnel follows the removal from the bridge index by a few instructions: poll briefly
		deadline := time.Now().Add(2 * time.Second)
		for v := range views {
			for {
				got, err := resolves(v)
				if err != nil {
					if err != tunnel.ErrNotFound && err != tunnel.ErrExpired {
						fail("lookup-error-not-sentinel", fmt.Sprintf("%s on %s: lookup %s failed with %v", c.Way, c.Backend, when, err))
					}
					break
				}
				if time.Now().After(deadline) {
					fail("stale-after-tunnel-end-"+c.Way, fmt.Sprintf("%s on %s: the tunnel %s ended on node-a (%s) but 2 s later the id still resolves from node %d to %q (ExpiresAt in %v)", c.Way, c.Backend, short(tid), when, v, got.SourceNodeID, time.Until(got.ExpiresAt).Round(time.Millisecond)))
					break
				}
				time.Sleep(5 * time.Millisecond)
			}
			out.Judged++
		}
	}
	waitEnded := func(limit time.Duration) bool {
		t0 := time.Now()
		for session.VerifBridge(sm, tid) != nil {
			if time.Since(t0) > limit {
				fail("bridge-lifecycle-stuck", fmt.Sprintf("%s on %s: the bridge of %s is still indexed %v after the ending event", c.Way, c.Backend, short(tid), limit))
				return false
			}
			time.Sleep(2 * time.Millisecond)
		}
		out.EndMs = time.Since(t0).Milliseconds()
		return true
	}

	if _, err := resolves(1); err == nil {
		fail("lookup-unregistered", "the id resolves before any bridge was started")
	}
	if c.LocalTarget {
		cs, cc := net.Pipe()
		defer cs.Close()
		defer cc.Close()
		go io.Copy(io.Discard, cc) // the target client reads the TunnelOpen command node-a pushes over its control connection
		tc, err := sm.CreateConnection(cs, cs)
		must(err)
		ctl := session.NewControlConnection(tc.ID, tc.Stream, nil, "tcp")
		ctl.SetClientID(r.Dst)
		ctl.SetAuthenticated(true)
		sm.RegisterControlConnection(ctl)
		if sm.GetControlConnectionByClientID(r.Dst) == nil {
			panic("control connection of the target client was not registered")
		}
		ev("target client %d has its control connection on node-a", r.Dst)
	}
	if c.Way == "localwait" {
		runLocalWait(c, out, w, sm, tid, mid, secret, fail, ev)
		return out
	}
	srvSide, cliSide := net.Pipe()
	defer srvSide.Close()
	defer cliSide.Close()
	if err := session.VerifStartSourceBridge(sm, tid, mid, secret, srvSide); err != nil {
		fail("bridge-start-failed", fmt.Sprintf("startSourceBridge(%s) failed: %v", short(tid), err))
		return out
	}
	ev("started")
	mustWait("while waiting")
	b := session.VerifBridge(sm, tid)
	if b == nil {
		fail("bridge-not-indexed", "startSourceBridge returned nil but the bridge is not indexed")
		return out
	}
	limit := 5 * time.Second
	switch c.Way {
	case "abort":
		// the source goes away before a target attached: the bridge is closed while Start() still waits
		b.Close()
		ev("bridge closed before target attached")
	case "cancel":
		cancelA()
		ev("session manager context cancelled")
	case "timeout":
		// nobody attaches: Start() gives up after its own 30 s wait (the table ttl of this case is longer)
		limit = 40 * time.Second
		ev("waiting for the Start timeout")
	case "duplicate", "dupother":
		// a second TunnelOpen for the id whose source is waiting passed handleTunnelOpen's checks (client retry on a second
		// connection, interleaved) and reaches the REAL handleSourceBridge -> startSourceBridge, which refuses it:
		// "duplicate": on the same node (bridge already exists); "dupother": on ANOTHER node whose open fails (mapping unknown there)
		s2, c2 := net.Pipe()
		go io.Copy(io.Discard, c2)
		dupSM, dupMap := sm, mid+"-dup"
		if c.Way == "dupother" {
			dupSM = session.NewSessionManager(idgen.NewIDManager(memory.New(ctxA), ctxA), ctxA)
			dupSM.SetNodeID("node-b")
			dupSM.SetCloudControl(&fakeCloud{m: map[string]*models.PortMapping{}})
			dupSM.SetTunnelRoutingTable(w.tables[1])
			dupMap = mid
		}
		dc, derr := dupSM.CreateConnection(s2, s2)
		must(derr)
		err := session.VerifHandleSourceBridge(dupSM, tid, dupMap, "other-secret", dc, s2)
		s2.Close()
		c2.Close()
		if err == nil {
			fail("bridge-duplicate-accepted", fmt.Sprintf("a second startSourceBridge for the waiting tunnel %s was accepted", short(tid)))
		}
		ev("duplicate open (%s): %v", c.Way, err)
		mustWait("after a refused duplicate open (" + c.Way + ")")
		if session.VerifBridge(sm, tid) != b {
			fail("bridge-duplicate-replaced", "the rejected duplicate start replaced the indexed bridge")
		}
		b.Close()
		ev("bridge closed")
	case "complete", "restart":
		tsrv, tcli := net.Pipe()
		defer tsrv.Close()
		defer tcli.Close()
		session.VerifAttachTarget(b, "target-conn", tsrv, r.Dst, mid, tid)
		ev("target attached")
		done := make(chan string, 1)
		go func() {
			buf := make([]byte, 4)
			tcli.SetReadDeadline(time.Now().Add(3 * time.Second))
			if _, err := io.ReadFull(tcli, buf); err != nil {
				done <- "read: " + err.Error()
				return
			}
			done <- string(buf)
		}()
		cliSide.SetWriteDeadline(time.Now().Add(3 * time.Second))
		if _, err := cliSide.Write([]byte("ping")); err != nil {
			ev("source write: %v", err)
		}
		if got := <-done; got != "ping" {
			fail("bridge-forward", fmt.Sprintf("bytes written by the source did not reach the attached target: %s", got))
		}
		cliSide.Close() // the source hangs up: forwarding ends, Start() returns nil
		ev("source closed after forwarding")
	default:
		panic("unknown way " + c.Way)
	}
	if !waitEnded(limit) {
		return out
	}
	ev("lifecycle ended after %d ms", out.EndMs)
	mustBeGone("way " + c.Way)
	if c.Way == "restart" && out.PropOK {
		// the same id can wait again after its first life ended, and ends again
		s3, c3 := net.Pipe()
		defer s3.Close()
		defer c3.Close()
		if err := session.VerifStartSourceBridge(sm, tid, mid, secret, s3); err != nil {
			fail("bridge-restart-failed", fmt.Sprintf("startSourceBridge(%s) after the first life ended failed: %v", short(tid), err))
			return out
		}
		mustWait("after a restart")
		if b3 := session.VerifBridge(sm, tid); b3 != nil {
			b3.Close()
		}
		if waitEnded(5 * time.Second) {
			mustBeGone("restart, second life aborted")
		}
	}
	return out
}

// ---------------------------------------------------------------------------------------------
// concurrency at the granularity of storage calls.
//
// conc:  several goroutines of ONE node register distinct tunnel ids at the same time through the real backend
//        (redis.Storage over miniredis: the go-redis client copies the value bytes when it writes the command to the
//        socket, exactly where the real client does).  Obligation checked: Storage.Set is atomic - what is stored under
//        a key is the encoding of the value handed to THAT call.  Afterwards every id is looked up on a PEER node and
//        must return exactly its own record; the registrations (ordered by the CreatedAt the code chose) and the
//        lookups are handed to the model as a sequential history.
//        way "storm": workers x records, connection pool of 1 so writers queue for the connection.
//        way "gated": the single pooled connection is held by a blocking BLPOP; Register #1 has encoded its value and
//        waits for the connection, Register #2 encodes its (shorter) value, then the connection is released and #1's
//        bytes go out.  (Run with GOMAXPROCS=1 so that a sync.Pool hands #2 the buffer #1 gave back.)
// sweep: the backend's sweep (memory.Storage.CleanupExpired, directly / through hybrid.Storage / by the StartCleanup
//        ticker) races the re-registration of a lapsed-but-unswept tunnel id: the harness polls Storage.mu until the
//        sweep is inside its critical section and then registers, so the write queues on the mutex and lands as early
//        as the sweep allows.  Whatever the order, once RegisterWaitingTunnel returned the id must resolve on every node.
// ---------------------------------------------------------------------------------------------

type concOut struct {
	Stream  string  `json:"stream"`
	Backend string  `json:"backend"`
	Way     string  `json:"way"`
	PropOK  bool    `json:"prop_ok"`
	PropKey string  `json:"prop_key,omitempty"`
	PropMsg string  `json:"prop_msg,omitempty"`
	FailAt  int     `json:"fail_at"`
	Ops     []opIn  `json:"ops"` // the equivalent sequential history (for the model replay)
	Obs     []opOut `json:"obs"`
	Judged  int     `json:"judged"`
	Amb     int     `json:"ambiguous"`
	Bad     int     `json:"bad"`
	Overlap bool    `json:"overlap"` // sweep: the registration was issued while the sweep held the mutex
	Left    int     `json:"left"`    // sweep: physical entries left afterwards
}

type timer struct{ base time.Time }

func (o opOut) Rec0(reg *tunnel.WaitingState, tm timer) int64 { return tm.rel(reg.CreatedAt) }
func (t timer) since() int64          { return int64(time.Since(t.base)) }
func (t timer) rel(x time.Time) int64 { return int64(x.Sub(t.base)) }

func doReg(tm timer, rt *tunnel.RoutingTable, node int, r *recIn) (opIn, opOut, *tunnel.WaitingState, error) {
	st := toState(r)
	var oo opOut
	oo.T0 = tm.since()
	err := rt.RegisterWaitingTunnel(context.Background(), st)
	oo.T1 = tm.since()
	if err != nil {
		oo.Res, oo.Err = "err", err.Error()
		oo.Rec = fromState(st, 0, 0)
	} else {
		oo.Res = "ok"
		oo.Rec = fromState(st, tm.rel(st.CreatedAt), tm.rel(st.ExpiresAt))
	}
	return opIn{Op: "reg", N: node, Rec: r}, oo, st, err
}

func doLook(tm timer, rt *tunnel.RoutingTable, node int, tid string, reg *tunnel.WaitingState) (opIn, opOut, *tunnel.WaitingState) {
	var oo opOut
	oo.T0 = tm.since()
	got, err := rt.LookupWaitingTunnel(context.Background(), tid)
	oo.T1 = tm.since()
	switch {
	case err == nil:
		oo.Res = "ok"
		cr, ex := tm.rel(got.CreatedAt), tm.rel(got.ExpiresAt)
		if reg != nil && got.CreatedAt.Equal(reg.CreatedAt) {
			cr = tm.rel(reg.CreatedAt)
		}
		if reg != nil && got.ExpiresAt.Equal(reg.ExpiresAt) {
			ex = tm.rel(reg.ExpiresAt)
		}
		oo.Rec = fromState(got, cr, ex)
	case err == tunnel.ErrNotFound:
		oo.Res = "notfound"
	case err == tunnel.ErrExpired:
		oo.Res = "expired"
	default:
		oo.Res, oo.Err = "err", err.Error()
	}
	return opIn{Op: "look", N: node, Tid: hx([]byte(tid))}, oo, got
}

func exactly(reg, got *tunnel.WaitingState) string {
	if f, d := fieldDiff(reg, got); f != "" {
		return f + " " + d
	}
	if !got.CreatedAt.Equal(reg.CreatedAt) || !got.ExpiresAt.Equal(reg.ExpiresAt) {
		return "CreatedAt/ExpiresAt"
	}
	return ""
}

func runConc(c caseIn) *concOut {
	out := &concOut{Stream: "conc", Backend: c.Backend, Way: c.Way, PropOK: true, FailAt: -1}
	c.Nodes = 2
	if c.Pool == 0 {
		c.Pool = 1
	}
	w := newWorld(c)
	defer w.close()
	tm := timer{time.Now()}
	type done struct {
		in  opIn
		out opOut
		st  *tunnel.WaitingState
		err error
	}
	res := make([]done, len(c.Recs))
	var wg sync.WaitGroup
	register := func(i int) {
		defer wg.Done()
		in, oo, st, err := doReg(tm, w.tables[0], 0, c.Recs[i])
		res[i] = done{in, oo, st, err}
	}
	switch c.Way {
	case "gated":
		// hold node 0's only pooled connection, start the registrations one after the other, release
		var hold sync.WaitGroup
		if len(w.rclis) > 0 {
			hold.Add(1)
			go func() {
				defer hold.Done()
				w.rclis[0].Client().BLPop(context.Background(), 250*time.Millisecond, "verif:c09:nokey")
			}()
			time.Sleep(30 * time.Millisecond)
		}
		for i := range c.Recs {
			wg.Add(1)
			go register(i)
			time.Sleep(25 * time.Millisecond) // #i has encoded its value and waits for the connection
		}
		hold.Wait()
	default: // storm
		workers := c.Workers
		if workers <= 0 {
			workers = 16
		}
		start := make(chan struct{})
		for g := 0; g < workers; g++ {
			wg.Add(1)
			go func(g int) {
				defer wg.Done()
				<-start
				for i := g; i < len(c.Recs); i += workers {
					wg.Add(1)
					register(i)
				}
			}(g)
		}
		close(start)
	}
	wg.Wait()
	// the equivalent sequential history: registrations in the order of the instants the code stamped, then lookups
	order := make([]int, len(res))
	for i := range order {
		order[i] = i
	}
	sort.Slice(order, func(a, b int) bool { return res[order[a]].out.Rec.Created < res[order[b]].out.Rec.Created })
	for _, i := range order {
		out.Ops = append(out.Ops, res[i].in)
		out.Obs = append(out.Obs, res[i].out)
		if res[i].err != nil && out.PropOK {
			out.PropOK, out.PropKey, out.FailAt = false, "register-failed", len(out.Ops)-1
			out.PropMsg = fmt.Sprintf("concurrent RegisterWaitingTunnel(%s) on %s failed: %v", short(res[i].st.TunnelID), c.Backend, res[i].err)
		}
	}
	ttl := w.tables[0].VerifTTL()
	for _, i := range order {
		if res[i].err != nil {
			continue
		}
		reg := res[i].st
		for _, node := range []int{1, 0} {
			in, oo, got := doLook(tm, w.tables[node], node, reg.TunnelID, reg)
			out.Ops = append(out.Ops, in)
			out.Obs = append(out.Obs, oo)
			if time.Duration(oo.T1+epsNs)-time.Duration(tm.rel(reg.CreatedAt)) >= ttl {
				out.Amb++
				continue
			}
			out.Judged++
			bad := ""
			if oo.Res != "ok" {
				bad = fmt.Sprintf("does not resolve: %s %s", oo.Res, oo.Err)
			} else if d := exactly(reg, got); d != "" {
				bad = "resolves to foreign data: " + d
			}
			if bad != "" {
				out.Bad++
				if out.PropOK {
					out.PropOK, out.PropKey, out.FailAt = false, "concurrent-registration-corrupted", len(out.Ops)-1
					out.PropMsg = fmt.Sprintf("%s on %s: %d tunnel ids were registered concurrently on node 0; afterwards %s looked up from node %d %s", c.Way, c.Backend, len(c.Recs), short(reg.TunnelID), node, bad)
				}
			}
		}
	}
	if !out.PropOK && out.PropKey == "concurrent-registration-corrupted" {
		out.PropMsg += fmt.Sprintf(" (%d of %d lookups wrong)", out.Bad, out.Judged)
	}
	return out
}

func runSweep(c caseIn) *concOut {
	out := &concOut{Stream: "sweep", Backend: c.Backend, Way: c.Way, PropOK: true, FailAt: -1}
	n := c.Fill
	if n <= 0 {
		n = 60000
	}
	c.Nodes = 2
	fail := func(key, msg string) {
		if out.PropOK {
			out.PropOK, out.PropKey, out.PropMsg, out.FailAt = false, key, msg, len(out.Ops)-1
		}
	}
	for attempt := 0; attempt < 4 && !out.Overlap && out.PropOK; attempt++ {
		out.Ops, out.Obs, out.Judged = nil, nil, 0
		w := newWorld(c)
		m := w.mems[0]
		tm := timer{time.Now()}
		add := func(in opIn, oo opOut) {
			out.Ops = append(out.Ops, in)
			out.Obs = append(out.Obs, oo)
		}
		tid := string(unhx(c.Recs[0].Tunnel))
		// first life of the id on node 0; then it lapses together with a lot of other runtime keys, nothing is swept yet
		in, oo, _, err := doReg(tm, w.tables[0], 0, c.Recs[0])
		add(in, oo)
		must(err)
		for i := 0; i < n; i++ {
			must(w.stores[0].Set(fmt.Sprintf("tunnox:temp:fill:%d", i), "x", time.Hour))
		}
		w.advance(2 * time.Hour)
		add(opIn{Op: "ff", D: 7200000}, opOut{Res: "ok", T0: tm.since(), T1: tm.since()})
		in, oo, _ = doLook(tm, w.tables[1], 1, tid, nil)
		add(in, oo)
		out.Judged++
		if oo.Res == "ok" {
			fail("stale-after-expiry", fmt.Sprintf("sweep on %s: the lapsed record of %s still resolves", c.Backend, short(tid)))
		}
		// the sweep starts; as soon as it is inside its critical section the id is registered again on node 1
		sweepDone := make(chan struct{})
		if c.Way == "ticker" {
			m.StartCleanup(2 * time.Millisecond)
			close(sweepDone)
		} else {
			go func() { _ = w.stores[0].CleanupExpired(); close(sweepDone) }()
		}
		deadline := time.Now().Add(2 * time.Second)
		for time.Now().Before(deadline) {
			if m.VerifMuTryLock() {
				m.VerifMuUnlock()
				if m.VerifLen() < n/2 {
					break // the sweep is over already: too late for this attempt
				}
				continue
			}
			out.Overlap = true
			break
		}
		in, oo, reg2, err := doReg(tm, w.tables[1], 1, c.Recs[1])
		add(in, oo)
		<-sweepDone
		if c.Way == "ticker" {
			for i := 0; i < 500 && m.VerifLen() > 8; i++ {
				time.Sleep(time.Millisecond)
			}
			m.StopCleanup()
		}
		if err != nil {
			fail("register-failed", fmt.Sprintf("sweep on %s: re-registration failed: %v", c.Backend, err))
		}
		for _, node := range []int{0, 1} {
			in, oo, got := doLook(tm, w.tables[node], node, tid, reg2)
			add(in, oo)
			out.Judged++
			if oo.Res != "ok" {
				fail("sweep-deletes-fresh-registration", fmt.Sprintf("%s sweep on %s: %s lapsed unswept, then {CleanupExpired || RegisterWaitingTunnel(%s) on node 1} both returned (registration issued while the sweep held the mutex: %v); the lookup from node %d answers %s %s although the registration is %v old", c.Way, c.Backend, short(tid), short(tid), out.Overlap, node, oo.Res, oo.Err, time.Duration(oo.T1-oo.Rec0(reg2, tm))))
			} else if d := exactly(reg2, got); d != "" {
				fail("sweep-registration-field", fmt.Sprintf("%s sweep on %s: the re-registered %s resolves to different data: %s", c.Way, c.Backend, short(tid), d))
			}
		}
		out.Left = m.VerifLen()
		w.close()
	}
	return out
}

// ---------------------------------------------------------------------------------------------
// forward: the LAST hop of "resolves to the correct source node".  Node B is a real SessionManager with the routing table
// and a TunnelConnectionManager wired exactly as components_session.go wires them (getNodeAddr = RoutingTable.GetNodeAddress).
// Node A's address is one of several REAL listeners that are all alive; ops: "addr" k = RegisterNodeAddress(node-a, listener k),
// "fwd" = a fresh tunnel waits on node A and a target connection for it arrives on B, which runs the REAL
// handleCrossNodeTargetConnection (polling lookup, processCrossNodeForward, forwardToSourceNode: resolve, dial, TargetReady),
// "ff" = backend time passes.  Predicate: the TargetReady frame of every forwarded tunnel arrives at the listener whose
// address is registered for the source node AT THAT MOMENT; with no (unexpired) address the forward fails and nothing is dialled.
// ---------------------------------------------------------------------------------------------

type fwdHit struct {
	listener int
	tunnel   string
	from     string
}

type forwardOut struct {
	Stream  string   `json:"stream"`
	Backend string   `json:"backend"`
	PropOK  bool     `json:"prop_ok"`
	PropKey string   `json:"prop_key,omitempty"`
	PropMsg string   `json:"prop_msg,omitempty"`
	FailAt  int      `json:"fail_at"`
	Events  []string `json:"events"`
	Obs     []opOut  `json:"obs"`
	Judged  int      `json:"judged"`
	Amb     int      `json:"ambiguous"`
	Dials   []int    `json:"dials"` // per "fwd" op: the listener that received the tunnel's TargetReady (-1: none)
	Want    []int    `json:"want"`  // per "fwd" op: the listener currently registered (-1: none)
}

func runForward(c caseIn) *forwardOut {
	out := &forwardOut{Stream: "forward", Backend: c.Backend, PropOK: true, FailAt: -1, Obs: []opOut{}, Events: []string{}}
	fail := func(i int, key, msg string) {
		if out.PropOK {
			out.PropOK, out.PropKey, out.PropMsg, out.FailAt = false, key, msg, i
		}
	}
	c.Nodes = 2
	w := newWorld(c)
	defer w.close()
	bg := context.Background()
	ctxB, cancelB := context.WithCancel(bg)
	defer cancelB()
	// listeners standing for the addresses node-a has had; every one stays alive
	hits := make(chan fwdHit, 64)
	var listeners []net.Listener
	for k := 0; k < 3; k++ {
		l, err := net.Listen("tcp", "127.0.0.1:0")
		must(err)
		listeners = append(listeners, l)
		defer l.Close()
		go func(k int, l net.Listener) {
			for {
				cn, err := l.Accept()
				if err != nil {
					return
				}
				go func(cn net.Conn) {
					defer cn.Close()
					cn.SetReadDeadline(time.Now().Add(3 * time.Second))
					_, ft, data, err := session.ReadFrameFromReader(cn)
					if err != nil {
						hits <- fwdHit{listener: k, tunnel: "", from: "read: " + err.Error()}
						return
					}
					tid, from, _ := session.DecodeTargetReadyMessage(data)
					_ = ft
					hits <- fwdHit{listener: k, tunnel: tid, from: from}
					cn.SetReadDeadline(time.Time{})
					// a connection that is (wrongly) reused for another forward announces that tunnel here too
					for {
						_, _, more, err := session.ReadFrameFromReader(cn)
						if err != nil {
							return
						}
						if t2, f2, derr := session.DecodeTargetReadyMessage(more); derr == nil {
							hits <- fwdHit{listener: k, tunnel: t2, from: f2}
						}
					}
				}(cn)
			}
		}(k, l)
	}
	smB := session.NewSessionManager(idgen.NewIDManager(memory.New(ctxB), ctxB), ctxB)
	smB.SetNodeID("node-b")
	smB.SetTunnelRoutingTable(w.tables[1])
	mgr := session.NewTunnelConnectionManager(w.tables[1].GetNodeAddress, session.DefaultTunnelConnectionManagerConfig())
	defer mgr.Close()
	if c.Way == "legacypool" {
		// the compatibility fallback of forwardToSourceNode (no TunnelConnectionManager installed): reported, not judged -
		// the server always installs the TunnelConnectionManager (components_session.go)
		smB.SetCrossNodePool(session.NewCrossNodePool(ctxB, w.stores[1], "node-b", session.DefaultCrossNodePoolConfig()))
	} else {
		smB.SetTunnelConnectionManager(mgr)
	}

	cur, curFF := -1, time.Duration(0) // the listener registered for node-a, backend time since that registration
	var curT0 time.Time
	nfwd := 0
	for i, o := range c.Ops {
		switch o.Op {
		case "addr":
			rt := w.tables[o.N%2]
			must(rt.RegisterNodeAddress("node-a", listeners[o.K%3].Addr().String()))
			cur, curFF, curT0 = o.K%3, 0, time.Now()
			out.Events = append(out.Events, fmt.Sprintf("node-a registers address #%d", cur))
		case "ff":
			d := time.Duration(o.D) * time.Millisecond
			w.advance(d)
			curFF += d
			out.Events = append(out.Events, fmt.Sprintf("%v of backend time pass", d))
		case "fwd":
			nfwd++
			tid := fmt.Sprintf("fwd-%d", nfwd)
			must(w.tables[0].RegisterWaitingTunnel(bg, &tunnel.WaitingState{TunnelID: tid, MappingID: "m", SourceNodeID: "node-a", TargetClientID: 7}))
			srv, cli := net.Pipe()
			go io.Copy(io.Discard, cli) // the target client reads the TunnelOpenAck and whatever follows
			conn, err := smB.CreateConnection(srv, srv)
			must(err)
			ferr := session.VerifHandleCrossNodeTarget(smB, tid, "m", conn, srv)
			got := -1
			var hit fwdHit
			select {
			case hit = <-hits:
				got = hit.listener
			case <-time.After(700 * time.Millisecond):
			}
			want := cur
			ttl := tunnel.NodeAddressTTL
			elapsed := curFF
			if !w.virtual {
				elapsed += time.Since(curT0)
			}
			if cur >= 0 && !w.never && elapsed > ttl {
				want = -1
			}
			out.Dials = append(out.Dials, got)
			out.Want = append(out.Want, want)
			out.Judged++
			out.Events = append(out.Events, fmt.Sprintf("tunnel %s forwarded: dialled #%d, registered #%d (%v)", tid, got, want, ferr))
			switch {
			case got >= 0 && hit.tunnel != tid:
				fail(i, "forward-wrong-tunnel", fmt.Sprintf("op #%d on %s: listener #%d received %q/%q for the forward of %s", i, c.Backend, got, hit.tunnel, hit.from, tid))
			case got != want && want >= 0 && got >= 0:
				fail(i, "forward-dials-stale-node-address", fmt.Sprintf("op #%d on %s: tunnel %s waits on node-a whose registered address is listener #%d (%s); the target node dialled listener #%d (%s), an address node-a had earlier (history: %s)", i, c.Backend, tid, want, listeners[want].Addr(), got, listeners[got].Addr(), strings.Join(out.Events, "; ")))
			case want >= 0 && got < 0:
				fail(i, "forward-lost", fmt.Sprintf("op #%d on %s: tunnel %s waits on node-a (address #%d registered) but the forward reached no listener: %v", i, c.Backend, tid, want, ferr))
			case want < 0 && got >= 0:
				fail(i, "forward-dials-unregistered-address", fmt.Sprintf("op #%d on %s: no unexpired address is registered for node-a, yet tunnel %s was dialled at listener #%d", i, c.Backend, tid, got))
			}
			mgr.CloseTunnel(tid)
			cli.Close()
			srv.Close()
			_ = w.tables[0].RemoveWaitingTunnel(bg, tid)
		case "replay":
			// a replayed tunnel id: T waits on node-a and is forwarded (the dedicated connection stays OPEN: data still flowing /
			// draining); T ends on node-a and is registered again from node-c (listener K); a target connection for T arrives.
			// It must reach node-c's listener or be refused - never node-a's.
			if cur < 0 {
				break
			}
			nfwd++
			tid := fmt.Sprintf("replay-%d", nfwd)
			kc := (cur + 1 + o.K%2) % 3
			must(w.tables[0].RegisterNodeAddress("node-c", listeners[kc].Addr().String()))
			var lastCli, lastSrv net.Conn
			forward := func() (int, fwdHit, error) {
				srv, cli := net.Pipe()
				lastCli, lastSrv = cli, srv
				go io.Copy(io.Discard, cli)
				conn, err := smB.CreateConnection(srv, srv)
				must(err)
				ferr := session.VerifHandleCrossNodeTarget(smB, tid, "m", conn, srv)
				select {
				case hit := <-hits:
					return hit.listener, hit, ferr
				case <-time.After(700 * time.Millisecond):
					return -1, fwdHit{}, ferr
				}
			}
			must(w.tables[0].RegisterWaitingTunnel(bg, &tunnel.WaitingState{TunnelID: tid, MappingID: "m", SourceNodeID: "node-a"}))
			g1, _, e1 := forward()
			firstEnded := false
			if o.N == 1 {
				// the first life runs to its END on this node: the target client hangs up, the production forwarder
				// (runCrossNodeDataForwardDedicated) finishes and runs its deferred cleanup (CloseTunnel, MarkTunnelClosed)
				lastCli.Close()
				lastSrv.Close()
				for k := 0; k < 400 && !smB.IsTunnelClosed(tid); k++ {
					time.Sleep(5 * time.Millisecond)
				}
				firstEnded = smB.IsTunnelClosed(tid)
			}
			_ = w.tables[0].RemoveWaitingTunnel(bg, tid)
			must(w.tables[1].RegisterWaitingTunnel(bg, &tunnel.WaitingState{TunnelID: tid, MappingID: "m", SourceNodeID: "node-c"}))
			g2, h2, e2 := forward()
			out.Judged++
			out.Dials = append(out.Dials, g1, g2)
			out.Want = append(out.Want, cur, kc)
			out.Events = append(out.Events, fmt.Sprintf("tunnel %s: first life on node-a dialled #%d (%v)%s; replayed from node-c (#%d): dialled #%d (%v)", tid, g1, e1, map[bool]string{true: " and ended on node-b", false: ""}[firstEnded], kc, g2, e2))
			if g1 != cur {
				fail(i, "forward-lost", fmt.Sprintf("op #%d on %s: first life of %s was dialled at #%d, registered #%d", i, c.Backend, tid, g1, cur))
			} else if firstEnded && g2 != kc {
				fail(i, "replayed-id-not-routable-on-forwarding-node", fmt.Sprintf("op #%d on %s: tunnel id %s was forwarded by node-b to node-a and ENDED (the forwarder on node-b finished its cleanup); the id was registered again from node-c (listener #%d) and resolves through the routing table, but the new target connection arriving on node-b was not forwarded there: dialled #%d, %v", i, c.Backend, tid, kc, g2, e2))
			} else if g2 >= 0 && g2 != kc {
				fail(i, "forward-reuses-connection-to-stale-node", fmt.Sprintf("op #%d on %s: tunnel id %s waited on node-a (listener #%d) and was forwarded there; it ended and was registered again from node-c (listener #%d); LookupWaitingTunnel answers node-c, but the target connection's TargetReady for %q arrived at listener #%d - the node of the id's FIRST life", i, c.Backend, tid, cur, kc, h2.tunnel, g2))
			}
			mgr.CloseTunnel(tid)
			_ = w.tables[1].RemoveWaitingTunnel(bg, tid)
		default:
			panic("forward: unknown op " + o.Op)
		}
	}
	return out
}

// ---------------------------------------------------------------------------------------------
// flight: every LookupWaitingTunnel answers from ITS OWN storage read.  Lookup #1 of tunnel T on a node is parked right after its
// storage Get returned (gate store); T is removed / re-homed to another node by a call that RETURNS; lookup #2 of T on the same
// node is started strictly afterwards; then #1 is released.  #1 may answer the old record (it read before the change); #2 must
// answer the state after the change.
// ---------------------------------------------------------------------------------------------

type gateStore struct {
	storage.Storage
	armed   atomic.Bool
	reached chan struct{}
	release chan struct{}
}

func (g *gateStore) Get(key string) (interface{}, error) {
	v, err := g.Storage.Get(key)
	if g.armed.CompareAndSwap(true, false) {
		close(g.reached)
		<-g.release
	}
	return v, err
}

func runFlight(c caseIn) *concOut {
	out := &concOut{Stream: "flight", Backend: c.Backend, Way: c.Way, PropOK: true, FailAt: -1}
	bg := context.Background()
	gs := &gateStore{Storage: memory.New(bg), reached: make(chan struct{}), release: make(chan struct{})}
	rt := tunnel.NewRoutingTable(gs, 30*time.Second)   // the node both lookups run on
	peer := tunnel.NewRoutingTable(gs, 30*time.Second) // another node on the same store
	first := toState(c.Recs[0])
	second := toState(c.Recs[1])
	tid := first.TunnelID
	must(peer.RegisterWaitingTunnel(bg, first))
	type ans struct {
		st  *tunnel.WaitingState
		err error
	}
	a1 := make(chan ans, 1)
	a2 := make(chan ans, 1)
	gs.armed.Store(true)
	go func() { st, err := rt.LookupWaitingTunnel(bg, tid); a1 <- ans{st, err} }()
	<-gs.reached // lookup #1 has read the first record and is parked
	must(peer.RemoveWaitingTunnel(bg, tid))
	if c.Way == "rehome" {
		must(peer.RegisterWaitingTunnel(bg, second))
	}
	go func() { st, err := rt.LookupWaitingTunnel(bg, tid); a2 <- ans{st, err} }()
	var r2 ans
	select {
	case r2 = <-a2:
	case <-time.After(150 * time.Millisecond):
		// #2 did not answer by itself: it waits for #1 - release and take what it says
		close(gs.release)
		r2 = <-a2
	}
	select {
	case <-gs.release:
	default:
		close(gs.release)
	}
	r1 := <-a1
	out.Judged = 2
	if r1.err == nil && r1.st.SourceNodeID != first.SourceNodeID {
		out.PropOK, out.PropKey, out.PropMsg = false, "flight-first-lookup", "lookup #1 answered a record it cannot have read"
	}
	switch {
	case c.Way == "rehome" && (r2.err != nil || r2.st.SourceNodeID != second.SourceNodeID):
		got := fmt.Sprint(r2.err)
		if r2.err == nil {
			got = "node " + r2.st.SourceNodeID
		}
		out.PropOK, out.PropKey = false, "lookup-answers-from-another-lookups-read"
		out.PropMsg = fmt.Sprintf("flight/rehome: lookup #1 of %s was parked after its storage read; the id was removed and registered again from %q (both calls returned); lookup #2, started after that, answered %s instead of %q", short(tid), second.SourceNodeID, got, second.SourceNodeID)
	case c.Way != "rehome" && r2.err == nil:
		out.PropOK, out.PropKey = false, "lookup-answers-from-another-lookups-read"
		out.PropMsg = fmt.Sprintf("flight/remove: lookup #1 of %s was parked after its storage read; RemoveWaitingTunnel returned; lookup #2, started after that, still resolved the id to %q", short(tid), r2.st.SourceNodeID)
	case c.Way != "rehome" && r2.err != tunnel.ErrNotFound && r2.err != tunnel.ErrExpired:
		out.PropOK, out.PropKey, out.PropMsg = false, "lookup-error-not-sentinel", fmt.Sprintf("flight: lookup #2 failed with %v", r2.err)
	}
	return out
}

// ---------------------------------------------------------------------------------------------
// probes (reported, never judged): aliasing of the caller's struct, the map[string]interface{} decode path
// ---------------------------------------------------------------------------------------------

type probeOut struct {
	Backend string `json:"backend"`
	Shape   string `json:"shape"`
	// the caller sets TargetHost="MUTATED" / TargetClientID=7 on its struct AFTER RegisterWaitingTunnel returned
	AliasHost string `json:"alias_host"`
	AliasDst  int64  `json:"alias_dst"`
	Aliased   bool   `json:"aliased"`
	// the looked-up record is changed by the caller; a second lookup must not see it
	ReturnAliased bool `json:"return_aliased"`
	// registered ids 9007199254740993 / 9223372036854775807
	BigSrc  int64  `json:"big_src"`
	BigDst  int64  `json:"big_dst"`
	BigErr  string `json:"big_err,omitempty"`
	BigOK   bool   `json:"big_exact"`
	// schedule probe: node B's lookup of an EXPIRED record is paused between its Get and its Delete while node A
	// registers the same tunnel id again; afterwards the fresh registration is looked up
	RaceLookupB string `json:"race_lookup_b,omitempty"` // what B's lookup answered
	RaceAfter   string `json:"race_after,omitempty"`    // what a lookup of the fresh registration answers afterwards
	RaceLost    bool   `json:"race_lost"`
	PropOK  bool   `json:"prop_ok"`
	FailAt  int    `json:"fail_at"`
	Obs     []int  `json:"obs"`
	Stream  string `json:"stream"`
	Comment string `json:"comment,omitempty"`
}

// hookStore runs a callback between the caller's decision to delete and the delete itself (a deterministic replay of
// the schedule "another node acts inside LookupWaitingTunnel's Get..Delete window")
type hookStore struct {
	storage.Storage
	onDelete func()
}

func (h *hookStore) Delete(key string) error {
	if f := h.onDelete; f != nil {
		h.onDelete = nil
		f()
	}
	return h.Storage.Delete(key)
}

func lookRes(got *tunnel.WaitingState, err error) string {
	switch {
	case err == nil:
		return "ok:" + got.TargetHost
	case err == tunnel.ErrNotFound:
		return "notfound"
	case err == tunnel.ErrExpired:
		return "expired"
	}
	return "err:" + err.Error()
}

func raceProbe(p *probeOut) {
	ctx := context.Background()
	// a backend that still holds the key when the waiting period has lapsed (Redis whose TTL has a little longer to run,
	// or any cache with lazy expiry): here memory.Storage with the ttl dropped
	hs := &hookStore{Storage: lazyStore{memory.New(ctx)}}
	a := tunnel.NewRoutingTable(hs, 60*time.Millisecond)
	b := tunnel.NewRoutingTable(hs, 60*time.Millisecond)
	must(a.RegisterWaitingTunnel(ctx, &tunnel.WaitingState{TunnelID: "T", SourceNodeID: "node-a", TargetHost: "first"}))
	time.Sleep(90 * time.Millisecond)
	hs.onDelete = func() {
		must(a.RegisterWaitingTunnel(ctx, &tunnel.WaitingState{TunnelID: "T", SourceNodeID: "node-a", TargetHost: "second"}))
	}
	p.RaceLookupB = lookRes(b.LookupWaitingTunnel(ctx, "T"))
	if hs.onDelete != nil {
		// the lookup issued no Delete: there is no window; register the second record now and look it up
		hs.onDelete = nil
		must(a.RegisterWaitingTunnel(ctx, &tunnel.WaitingState{TunnelID: "T", SourceNodeID: "node-a", TargetHost: "second"}))
	}
	p.RaceAfter = lookRes(b.LookupWaitingTunnel(ctx, "T"))
	p.RaceLost = p.RaceAfter != "ok:second"
}

func runProbe(c caseIn) *probeOut {
	p := &probeOut{Backend: c.Backend, PropOK: true, FailAt: -1, Stream: "probe", Obs: []int{}}
	if c.Backend == "race" {
		raceProbe(p)
		return p
	}
	c.Nodes = 2
	if c.TTLms == 0 {
		c.TTLms = 30000
	}
	w := newWorld(c)
	defer w.close()
	ctx := context.Background()
	st := &tunnel.WaitingState{TunnelID: "probe-alias", MappingID: "m", SecretKey: "s", SourceNodeID: "node-0",
		SourceClientID: 1, TargetClientID: 2, TargetHost: "10.0.0.1", TargetPort: 80}
	must(w.tables[0].RegisterWaitingTunnel(ctx, st))
	if v, err := w.stores[0].Get(w.tables[0].VerifMakeKey("probe-alias")); err == nil {
		p.Shape = fmt.Sprintf("%T", v)
	}
	st.TargetHost, st.TargetClientID = "MUTATED", 7
	if got, err := w.tables[1%len(w.tables)].LookupWaitingTunnel(ctx, "probe-alias"); err == nil {
		p.AliasHost, p.AliasDst = got.TargetHost, got.TargetClientID
		p.Aliased = got.TargetHost != "10.0.0.1" || got.TargetClientID != 2
		got.TargetHost = "CHANGED-BY-READER"
		if again, err := w.tables[0].LookupWaitingTunnel(ctx, "probe-alias"); err == nil {
			p.ReturnAliased = again.TargetHost == "CHANGED-BY-READER"
		}
	} else if !w.split {
		p.Comment = "alias lookup failed: " + err.Error()
	}
	big := &tunnel.WaitingState{TunnelID: "probe-big", SourceClientID: 9007199254740993, TargetClientID: 9223372036854775807}
	must(w.tables[0].RegisterWaitingTunnel(ctx, big))
	got, err := w.tables[0].LookupWaitingTunnel(ctx, "probe-big")
	if err != nil {
		p.BigErr = err.Error()
	} else {
		p.BigSrc, p.BigDst = got.SourceClientID, got.TargetClientID
		p.BigOK = got.SourceClientID == 9007199254740993 && got.TargetClientID == 9223372036854775807
	}
	return p
}

// ---------------------------------------------------------------------------------------------
// gen: coq/Gen/C09.v
// ---------------------------------------------------------------------------------------------

// recStore records the keys and ttls the routing table hands to its backend
type recStore struct {
	storage.Storage
	keys []string
	ttls []time.Duration
}

func (r *recStore) Set(key string, value interface{}, ttl time.Duration) error {
	r.keys = append(r.keys, key)
	r.ttls = append(r.ttls, ttl)
	return r.Storage.Set(key, value, ttl)
}

func nlist(s string) string {
	parts := make([]string, 0, len(s))
	for i := 0; i < len(s); i++ {
		parts = append(parts, fmt.Sprint(s[i]))
	}
	return "[" + strings.Join(parts, ";") + "]"
}

func nlists(ss []string) string {
	parts := make([]string, 0, len(ss))
	for _, s := range ss {
		parts = append(parts, "  "+nlist(s)+" (* "+s+" *)")
	}
	return "[\n" + strings.Join(parts, ";\n") + "\n]"
}

// refreshInterval evaluates `refreshInterval := <n> * time.<Unit>` of the goroutine that keeps the node address alive
// (internal/app/server/components_session.go) from the working tree's source (go/parser, no regexes)
func refreshInterval() time.Duration {
	repo := os.Getenv("VERIF_REPO")
	if repo == "" {
		repo = "/repo"
	}
	fs := token.NewFileSet()
	f, err := parser.ParseFile(fs, filepath.Join(repo, "internal/app/server/components_session.go"), nil, 0)
	must(err)
	unit := func(e ast.Expr) time.Duration {
		if sel, ok := e.(*ast.SelectorExpr); ok {
			if x, ok := sel.X.(*ast.Ident); ok && x.Name == "time" {
				switch sel.Sel.Name {
				case "Hour":
					return time.Hour
				case "Minute":
					return time.Minute
				case "Second":
					return time.Second
				case "Millisecond":
					return time.Millisecond
				}
			}
		}
		return 0
	}
	var eval func(e ast.Expr) time.Duration
	eval = func(e ast.Expr) time.Duration {
		switch v := e.(type) {
		case *ast.ParenExpr:
			return eval(v.X)
		case *ast.BasicLit:
			var n int64
			fmt.Sscan(v.Value, &n)
			return time.Duration(n)
		case *ast.BinaryExpr:
			if v.Op == token.MUL {
				return eval(v.X) * eval(v.Y)
			}
		case *ast.SelectorExpr:
			return unit(v)
		}
		panic("refreshInterval: expression not understood")
	}
	var found time.Duration
	refreshes := false
	ast.Inspect(f, func(n ast.Node) bool {
		switch v := n.(type) {
		case *ast.AssignStmt:
			if len(v.Lhs) == 1 && len(v.Rhs) == 1 {
				if id, ok := v.Lhs[0].(*ast.Ident); ok && id.Name == "refreshInterval" {
					found = eval(v.Rhs[0])
				}
			}
		case *ast.CallExpr:
			if sel, ok := v.Fun.(*ast.SelectorExpr); ok && sel.Sel.Name == "RegisterNodeAddress" {
				refreshes = true
			}
		}
		return true
	})
	if found <= 0 || !refreshes {
		panic("components_session.go: the node-address refresh goroutine (refreshInterval / RegisterNodeAddress) was not found")
	}
	return found
}

func gen() {
	ctx := context.Background()
	rs := &recStore{Storage: memory.New(ctx)}
	rt := tunnel.NewRoutingTable(rs, 0)
	must(rt.RegisterNodeAddress("\x00", "a"))
	k := rs.keys[0]
	cut := strings.IndexByte(k, 0)
	npre, nsuf := k[:cut], k[cut+1:]
	addrTTL := rs.ttls[0]
	st := &tunnel.WaitingState{TunnelID: "\x00"}
	must(rt.RegisterWaitingTunnel(ctx, st))
	wk := rs.keys[1]
	if !strings.HasSuffix(wk, "\x00") || rt.VerifMakeKey("") != wk[:len(wk)-1] {
		panic("waiting key is not prefix ++ tunnel id")
	}
	if rs.ttls[1] != rt.VerifTTL() {
		panic("waiting ttl handed to the backend differs from the table ttl")
	}
	cfg := hybrid.DefaultConfig()
	shape := func(backend string) bool {
		p := runProbe(caseIn{Backend: backend})
		switch p.Shape {
		case "*tunnel.WaitingState":
			return true
		case "string":
			return false
		}
		panic("backend " + backend + " returns shape " + p.Shape + " for a waiting key: extend the model")
	}
	pi, pm, pf := session.VerifPollConstants()
	// does LookupWaitingTunnel delete the key of a record it finds expired?  (backend that keeps the key: ttl dropped)
	lz := lazyStore{memory.New(ctx)}
	lt := tunnel.NewRoutingTable(lz, 40*time.Millisecond)
	must(lt.RegisterWaitingTunnel(ctx, &tunnel.WaitingState{TunnelID: "D"}))
	time.Sleep(70 * time.Millisecond)
	if _, err := lt.LookupWaitingTunnel(ctx, "D"); err != tunnel.ErrExpired {
		panic(fmt.Sprintf("lookup of an expired record kept by the backend answered %v", err))
	}
	_, kerr := lz.Get(lt.VerifMakeKey("D"))
	deletes := kerr != nil
	fmt.Println("(* generated by verif_c09 gen from /repo's working tree — do not edit *)")
	fmt.Println("From Coq Require Import NArith List. Import ListNotations. Open Scope N_scope.")
	fmt.Printf("Definition WaitPrefix : list N := %s. (* %s *)\n", nlist(rt.VerifMakeKey("")), rt.VerifMakeKey(""))
	fmt.Printf("Definition NodePrefix : list N := %s. (* %s *)\n", nlist(npre), npre)
	fmt.Printf("Definition NodeSuffix : list N := %s. (* %s *)\n", nlist(nsuf), nsuf)
	fmt.Printf("Definition DefaultTTLns : N := %d.\n", int64(rt.VerifTTL()))
	fmt.Printf("Definition NodeAddressTTLns : N := %d.\n", int64(addrTTL))
	fmt.Printf("Definition NodeAddressTTLconst : N := %d.\n", int64(tunnel.NodeAddressTTL))
	fmt.Printf("Definition HybridSharedPersistent : list (list N) := %s.\n", nlists(cfg.SharedPersistentPrefixes))
	fmt.Printf("Definition HybridShared : list (list N) := %s.\n", nlists(cfg.SharedPrefixes))
	fmt.Printf("Definition HybridPersistent : list (list N) := %s.\n", nlists(cfg.PersistentPrefixes))
	fmt.Printf("Definition ShapeIdentMemory : bool := %v.\n", shape("memory"))
	fmt.Printf("Definition ShapeIdentRedis : bool := %v.\n", shape("redis"))
	fmt.Printf("Definition ShapeIdentHybridShared : bool := %v.\n", shape("hybrid"))
	fmt.Printf("Definition ShapeIdentHybridLocal : bool := %v.\n", shape("hybridone"))
	fmt.Printf("Definition AddrRefreshIntervalNs : N := %d. (* components_session.go: refreshInterval of the node-address refresh goroutine *)\n", int64(refreshInterval()))
	fmt.Printf("Definition LookupDeletesExpired : bool := %v.\n", deletes)
	fmt.Printf("Definition PollInitialNs : N := %d.\nDefinition PollMaxNs : N := %d.\nDefinition PollFactor : N := %d.\n", int64(pi), int64(pm), pf)
}

// ---------------------------------------------------------------------------------------------

func main() {
	corelog.SetDefault(corelog.NewNopLogger())
	if len(os.Args) > 1 && os.Args[1] == "gen" {
		gen()
		return
	}
	in := bufio.NewReaderSize(os.Stdin, 1<<20)
	var lines [][]byte
	for {
		line, err := in.ReadBytes('\n')
		if len(line) > 1 {
			lines = append(lines, line)
		}
		if err != nil {
			break
		}
	}
	results := make([]interface{}, len(lines))
	par := 24
	if v := os.Getenv("VERIF_C09_PAR"); v != "" {
		fmt.Sscan(v, &par)
	}
	sem := make(chan struct{}, par)
	var wg sync.WaitGroup
	for i, line := range lines {
		var c caseIn
		must(json.Unmarshal(line, &c))
		wg.Add(1)
		sem <- struct{}{}
		go func(i int, c caseIn) {
			defer wg.Done()
			defer func() { <-sem }()
			if c.Stream == "probe" {
				results[i] = runProbe(c)
			} else if c.Stream == "bridge" {
				results[i] = runBridge(c)
			} else if c.Stream == "forward" {
				results[i] = runForward(c)
			} else if c.Stream == "flight" {
				results[i] = runFlight(c)
			} else if c.Stream == "conc" {
				results[i] = runConc(c)
			} else if c.Stream == "sweep" {
				results[i] = runSweep(c)
			} else {
				results[i] = runCase(c)
			}
		}(i, c)
	}
	wg.Wait()
	out := bufio.NewWriterSize(os.Stdout, 1<<20)
	defer out.Flush()
	enc := json.NewEncoder(out)
	for _, r := range results {
		must(enc.Encode(r))
	}
	_ = utf8.ValidString
}

//go:build verif

package session

import (
	"context"
	"time"
)

// VerifLookupTunnelRouting runs the REAL polling lookup of cross_node_session.go (lookupTunnelRouting) of a
// SessionManager whose only configured component is the given routing table.
func VerifLookupTunnelRouting(ctx context.Context, rt *TunnelRoutingTable, tunnelID string) (*TunnelWaitingState, error) {
	s := &SessionManager{tunnelRouting: rt}
	return s.lookupTunnelRouting(ctx, tunnelID)
}

// VerifPollConstants exposes the backoff constants of lookupTunnelRouting.
func VerifPollConstants() (time.Duration, time.Duration, int) {
	return pollInitialInterval, pollMaxInterval, pollBackoffFactor
}

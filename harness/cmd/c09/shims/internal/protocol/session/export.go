//go:build verif

package session

import (
	"context"
	"net"
	"time"

	"tunnox-core/internal/core/types"
	"tunnox-core/internal/packet"
)

// VerifLookupTunnelRouting runs the REAL polling lookup of cross_node_session.go (lookupTunnelRouting) of a
// SessionManager whose only configured component is the given routing table.
func VerifLookupTunnelRouting(ctx context.Context, rt *TunnelRoutingTable, tunnelID string) (*TunnelWaitingState, error) {
	s := &SessionManager{tunnelRouting: rt}
	return s.lookupTunnelRouting(ctx, tunnelID)
}

// VerifPollConstants exposes the backoff constants of lookupTunnelRouting.
func VerifPollConstants() (time.Duration, time.Duration, int) {
	return pollInitialInterval, pollMaxInterval, pollBackoffFactor
}

// ---- the registration / removal CALL SITES of the waiting-tunnel record (server_bridge.go)

// VerifStartSourceBridge runs the REAL startSourceBridge (creates + indexes the bridge, registers the waiting tunnel,
// spawns notifyTargetClientToOpenTunnel and runBridgeLifecycle).
func VerifStartSourceBridge(s *SessionManager, tunnelID, mappingID, secret string, sourceConn net.Conn) error {
	return s.startSourceBridge(&packet.TunnelOpenRequest{TunnelID: tunnelID, MappingID: mappingID, SecretKey: secret}, sourceConn, nil)
}

// VerifBridge returns the indexed bridge of a tunnel id (nil when the lifecycle has removed it).
func VerifBridge(s *SessionManager, tunnelID string) *TunnelBridge {
	s.bridgeLock.RLock()
	defer s.bridgeLock.RUnlock()
	return s.tunnelBridges[tunnelID]
}

// VerifAttachTarget does what the target side's TunnelOpen does on the bridge's node.
func VerifAttachTarget(b *TunnelBridge, connID string, c net.Conn, clientID int64, mappingID, tunnelID string) {
	b.SetTargetConnection(CreateTunnelConnection(connID, c, nil, clientID, mappingID, tunnelID))
}

// VerifHandleCrossNodeTarget runs the REAL target-side path of cross_node_session.go for a TunnelOpen that arrived on this
// node for a tunnel waiting elsewhere: handleCrossNodeTargetConnection = lookupTunnelRouting (polling) +
// processCrossNodeForward + forwardToSourceNode (resolve the source node's address, dial, send TargetReady).
func VerifHandleCrossNodeTarget(s *SessionManager, tunnelID, mappingID string, conn *types.Connection, netConn net.Conn) error {
	return s.handleCrossNodeTargetConnection(&packet.TunnelOpenRequest{TunnelID: tunnelID, MappingID: mappingID}, conn, netConn)
}

// VerifHandleSourceBridge runs the REAL handleSourceBridge (packet_handler_tunnel_bridge.go): what handleTunnelOpen calls for
// a source-side TunnelOpen that passed its checks - it wraps startSourceBridge and owns its error path.
func VerifHandleSourceBridge(s *SessionManager, tunnelID, mappingID, secret string, conn *types.Connection, netConn net.Conn) error {
	return s.handleSourceBridge(conn, &packet.TunnelOpenRequest{TunnelID: tunnelID, MappingID: mappingID, SecretKey: secret}, netConn)
}

//go:build verif

package tunnel

import "time"

// VerifMakeKey exposes RoutingTable.makeKey (the storage key of a waiting tunnel).
func (t *RoutingTable) VerifMakeKey(tunnelID string) string { return t.makeKey(tunnelID) }

// VerifTTL exposes the effective waiting-state TTL chosen by NewRoutingTable.
func (t *RoutingTable) VerifTTL() time.Duration { return t.ttl }

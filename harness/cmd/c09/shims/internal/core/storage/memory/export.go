//go:build verif

package memory

import "time"

// VerifAdvance lets d of BACKEND time pass: every deadline moves d earlier (memory.Storage reads time.Now() directly;
// this is its counterpart of miniredis.FastForward).  Values are untouched.
func (m *Storage) VerifAdvance(d time.Duration) {
	m.mu.Lock()
	defer m.mu.Unlock()
	for _, it := range m.data {
		if !it.Expiration.IsZero() {
			it.Expiration = it.Expiration.Add(-d)
		}
	}
}

//go:build verif

package memory

import "time"

// VerifAdvance lets d of BACKEND time pass: every deadline moves d earlier (memory.Storage reads time.Now() directly;
// this is its counterpart of miniredis.FastForward).  Values are untouched.
func (m *Storage) VerifAdvance(d time.Duration) {
	m.mu.Lock()
	defer m.mu.Unlock()
	for _, it := range m.data {
		if !it.Expiration.IsZero() {
			it.Expiration = it.Expiration.Add(-d)
		}
	}
}

// VerifMuTryLock / VerifMuUnlock: is some method inside a critical section of Storage.mu right now?
// (TryLock fails while a CleanupExpired sweep holds the mutex, read or write.)
func (m *Storage) VerifMuTryLock() bool { return m.mu.TryLock() }
func (m *Storage) VerifMuUnlock()       { m.mu.Unlock() }

// VerifLen is the number of physical entries (live + lapsed garbage).
func (m *Storage) VerifLen() int {
	m.mu.RLock()
	defer m.mu.RUnlock()
	return len(m.data)
}

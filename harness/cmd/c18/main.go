//go:build verif

// verif_c18: drives the real BruteForceProtector / IPManager / RateLimiter / ServerAuthHandler.HandleHandshake
// over scripted time lines (real clock, millisecond-scale configuration), replays the expired-entry
// unban race and the in-flight-handshake ban-weakening schedule, and prints Gen/C18.v.
package main

import (
	"bufio"
	"context"
	"encoding/base64"
	"encoding/json"
	"errors"
	"fmt"
	"net"
	"os"
	"runtime"
	"sync"
	"sync/atomic"
	"time"

	"tunnox-core/internal/app/server"
	"tunnox-core/internal/cloud/managers"
	"tunnox-core/internal/cloud/models"
	corelog "tunnox-core/internal/core/log"
	"tunnox-core/internal/core/storage"
	"tunnox-core/internal/packet"
	"tunnox-core/internal/protocol/session"
	"tunnox-core/internal/security"
)

type cfgIn struct {
	MaxF     int `json:"maxf"`
	WindowMs int `json:"window_ms"`
	BanMs    int `json:"ban_ms"`
	Perm     int `json:"perm"`
	Rate     int `json:"rate"`
	Burst    int `json:"burst"`
	TTLMs    int `json:"ttl_ms"`
}
type opIn struct {
	At  int    `json:"at"` // planned offset, ms
	Op  string `json:"op"`
	IP  int    `json:"ip"`
	Arg int    `json:"arg"`
}
type caseIn struct {
	Kind       string `json:"kind"` // tl | race | inflight
	Cfg        cfgIn  `json:"cfg"`
	Ops        []opIn `json:"ops"`
	Which      string `json:"which"`      // race: ban | bl | perm | permfail | blperm
	Trials     int    `json:"trials"`     // race
	Entry      string `json:"entry"`      // burst: allowip | allowipburst | allowtunnel
	Goroutines int    `json:"goroutines"` // burst
	Keys       int    `json:"keys"`       // burst
}
type opOut struct {
	R  int   `json:"r"`
	T0 int64 `json:"t0"` // ns since the start of the case, just before the call
	T1 int64 `json:"t1"` // just after
	CC int   `json:"cc"` // cloud-control calls made during the op (handshake ops)
}
type caseOut struct {
	Kind string  `json:"kind"`
	Obs  []opOut `json:"obs,omitempty"`
	// race
	Trials        int `json:"trials,omitempty"`
	Lost          int `json:"lost"`            // trials in which the re-established entry was gone
	PreNotExpired int `json:"pre_not_expired"` // trials skipped: the short entry had not expired yet (never expected)
	// inflight
	Parked                int  `json:"parked,omitempty"`
	BannedRightAfter      bool `json:"banned_right_after"`
	PermanentKept         bool `json:"permanent_kept"`
	BannedLater           bool `json:"banned_later"`
	CloudCallsWhileBanned int  `json:"cloud_calls_while_banned"`
	// burst: per fresh key, admissions among the concurrently released first requests and the time they took
	Registers []bool   `json:"registers,omitempty"` // tokens: per candidate token form
	Charged   []bool   `json:"charged,omitempty"`
	Forms     []string `json:"forms,omitempty"`
	Keys      []string `json:"keys,omitempty"`   // addr: extractIP key per shape
	Peers     []int    `json:"peers,omitempty"`  // addr: peer identity per shape
	Evaded    []string `json:"evaded,omitempty"` // addr: end-to-end evasions
	Admitted  []int    `json:"admitted,omitempty"`
	ElapsedNs []int64  `json:"elapsed_ns,omitempty"`
}

func ipStr(i int) string { return fmt.Sprintf("10.1.%d.%d", (i>>8)&255, i&255) }

// list keys (Model/Lockout.v keys_of): an address; 1000+g = the /28 holding the addresses 16g .. 16g+15;
// 2000+g = the /27 holding 32g .. 32g+31 (every /28 lies inside a /27: overlapping ranges)
func keyStr(i int) string {
	switch {
	case i >= 2000:
		return fmt.Sprintf("10.1.0.%d/27", 32*(i-2000))
	case i >= 1000:
		return fmt.Sprintf("10.1.0.%d/28", 16*(i-1000))
	}
	return ipStr(i)
}

// ---- doubles for HandleHandshake ----
type fakeConn struct {
	session.ControlConnectionInterface
	addr      net.Addr
	clientID  int64
	authed    bool
	challenge string
}

func (c *fakeConn) GetRemoteAddr() net.Addr      { return c.addr }
func (c *fakeConn) GetConnID() string            { return "verif-conn" }
func (c *fakeConn) GetProtocol() string          { return "tcp" }
func (c *fakeConn) GetClientID() int64           { return c.clientID }
func (c *fakeConn) SetClientID(id int64)         { c.clientID = id }
func (c *fakeConn) SetAuthenticated(b bool)      { c.authed = b }
func (c *fakeConn) IsAuthenticated() bool        { return c.authed }
func (c *fakeConn) SetPendingChallenge(s string) { c.challenge = s }
func (c *fakeConn) GetPendingChallenge() string  { return c.challenge }
func (c *fakeConn) ClearPendingChallenge()       { c.challenge = "" }

type fakeCloud struct {
	managers.CloudControlAPI
	calls   int64
	genFail int32
	gate    chan struct{} // when non-nil GetClientConfig parks until the channel is closed
	parked  int64
	nextID  int64
	known   *models.ClientConfig // the one registered client (challenge-response authentication)
}

const knownClient = 777

// one master key for every rig: the harness plays the client too and needs the plaintext secret
var masterKey = base64.StdEncoding.EncodeToString([]byte("0123456789abcdef0123456789abcdef"))

func (f *fakeCloud) GetClientConfig(id int64) (*models.ClientConfig, error) {
	atomic.AddInt64(&f.calls, 1)
	if f.gate != nil {
		atomic.AddInt64(&f.parked, 1)
		<-f.gate
	}
	if id == knownClient && f.known != nil {
		return f.known, nil
	}
	return nil, errors.New("client not found")
}
func (f *fakeCloud) GenerateAnonymousCredentials() (*models.Client, error) {
	atomic.AddInt64(&f.calls, 1)
	if atomic.LoadInt32(&f.genFail) != 0 {
		return nil, errors.New("credential generation failed")
	}
	id := atomic.AddInt64(&f.nextID, 1)
	return &models.Client{ID: 10000000 + id, SecretKeyPlaintext: "k"}, nil
}
func (f *fakeCloud) ConnectClient(clientID int64, nodeID, connID, ip, protocol, version string) error {
	return nil
}

type rig struct {
	ctx    context.Context
	cancel context.CancelFunc
	p      *security.BruteForceProtector
	m      *security.IPManager
	r      *security.RateLimiter
	cloud  *fakeCloud
	h      *server.ServerAuthHandler
	skm    *security.SecretKeyManager
	secret string            // plaintext SecretKey of knownClient
	conns  map[int]*fakeConn // connections that stay open across handshake messages (phase 1 -> phase 2)
}

func newRig(c cfgIn) *rig {
	return newRigOn(c, nil)
}

// newRigOn builds every component anew; with a storage given, the IPManager is rebuilt over it (= what a
// restarted process, or a second node sharing the store, does in NewIPManager -> loadFromStorage)
func newRigOn(c cfgIn, st storage.Storage) *rig {
	ctx, cancel := context.WithCancel(context.Background())
	g := &rig{ctx: ctx, cancel: cancel}
	g.p = security.NewBruteForceProtector(&security.BruteForceConfig{
		MaxFailures: c.MaxF, TimeWindow: time.Duration(c.WindowMs) * time.Millisecond,
		BanDuration: time.Duration(c.BanMs) * time.Millisecond, PermanentBanAt: c.Perm,
		CleanupInterval: time.Hour}, ctx)
	if st == nil {
		st = storage.NewMemoryStorage(ctx)
	}
	g.m = security.NewIPManager(st, ctx)
	g.r = security.NewRateLimiter(&security.RateLimitConfig{Rate: c.Rate, Burst: c.Burst,
		TTL: time.Duration(c.TTLMs) * time.Millisecond}, nil, ctx)
	g.cloud = &fakeCloud{}
	skm, err := security.NewSecretKeyManager(&security.SecretKeyConfig{MasterKey: masterKey})
	must(err)
	plain, enc, err := skm.GenerateCredentials()
	must(err)
	g.skm, g.secret, g.conns = skm, plain, map[int]*fakeConn{}
	g.cloud.known = &models.ClientConfig{SecretKeyEncrypted: enc}
	g.h = server.NewServerAuthHandler(g.cloud, &session.SessionManager{}, g.p, g.m, g.r, skm)
	return g
}

func classify(resp *packet.HandshakeResponse) int {
	switch {
	case resp == nil:
		return 9
	case resp.Success:
		return 4
	case resp.NeedResponse:
		return 5
	case resp.Error == "Access denied":
		return 0
	case resp.Error == "Access denied: too many failed attempts":
		return 1
	case resp.Error == "Rate limit exceeded, please try again later":
		return 2
	default:
		return 3
	}
}

// candidate token strings of a ClientID == 0 handshake; which of them the handler accepts as a first connection
// (= registers a new anonymous client) is PROBED on the real code (tokenTable), never assumed
var tokenForms = []string{"new-client", "anonymous:dev-1", "anonymous:", "", "NEW-CLIENT", "anonymous",
	"new-client ", "Anonymous:x", "anonymous:x:y", "new-client:anonymous:", "anonymous:\u4e2d", "guest"}

// handshake: arg = kind + 10*x.
// kind 0 = unknown client id (ClientID != 0, not registered); kind 1 / 2 = ClientID == 0 with token form x, credential
// generation succeeding / failing; kinds 3, 4, 5 = the registered client on the LONG-LIVED connection x of this case:
// 3 = phase 1 (no response: a challenge is issued and kept on the connection), 4 / 5 = phase 2 with a wrong / the
// correct HMAC of whatever challenge is pending on that connection; kind 6 = unknown non-zero client id + token form x
func (g *rig) handshake(ip string, arg int) int {
	kind, x := arg%10, arg/10
	conn := &fakeConn{addr: &net.TCPAddr{IP: net.ParseIP(ip), Port: 40000}}
	req := &packet.HandshakeRequest{Version: "1", Protocol: "tcp"}
	switch kind {
	case 0:
		req.ClientID = 4242
	case 1:
		req.Token = tokenForms[x%len(tokenForms)]
		atomic.StoreInt32(&g.cloud.genFail, 0)
	case 2:
		req.Token = tokenForms[x%len(tokenForms)]
		atomic.StoreInt32(&g.cloud.genFail, 1)
	case 6: // an unknown NON-ZERO client id sent together with token form x (stale id left in a client's configuration)
		req.ClientID = 4242
		req.Token = tokenForms[x%len(tokenForms)]
		atomic.StoreInt32(&g.cloud.genFail, 0)
	default:
		if c, ok := g.conns[x]; ok {
			conn = c
		} else {
			g.conns[x] = conn
		}
		req.ClientID = knownClient
		switch kind {
		case 4:
			req.ChallengeResponse = "00ff-not-the-hmac"
		case 5:
			req.ChallengeResponse = g.skm.ComputeResponse(g.secret, conn.challenge)
			if conn.challenge == "" {
				req.ChallengeResponse = g.skm.ComputeResponse(g.secret, "no-challenge-pending")
			}
		}
	}
	resp, _ := g.h.HandleHandshake(conn, req)
	return classify(resp)
}

// tokenTable probes, for every candidate token of a ClientID == 0 handshake on a fresh address: does it register a
// new client, and is the address's registration bucket charged for it (burst 2, 1 token/s: after one charge a
// 2-token request is refused)
func tokenTable() (registers, charged []bool) {
	g := newRig(cfgIn{MaxF: 50, WindowMs: 60000, BanMs: 60000, Perm: 500, Rate: 1, Burst: 2, TTLMs: 600000})
	defer g.cancel()
	for f := range tokenForms {
		ip := ipStr(5000 + f)
		registers = append(registers, g.handshake(ip, 1+10*f) == 4)
		charged = append(charged, !g.r.AllowIPBurst(ip, 2))
	}
	return
}

func b2i(b bool) int {
	if b {
		return 1
	}
	return 0
}

func runTimeline(c *caseIn) *caseOut {
	stCtx, stCancel := context.WithCancel(context.Background())
	defer stCancel()
	st := storage.NewMemoryStorage(stCtx) // the one store of this "deployment": survives the restarts
	g := newRigOn(c.Cfg, st)
	defer func() { g.cancel() }()
	out := &caseOut{Kind: "tl"}
	start := time.Now()
	ms := func(n int) time.Duration { return time.Duration(n) * time.Millisecond }
	for _, o := range c.Ops {
		if d := time.Until(start.Add(ms(o.At))); d > 0 {
			time.Sleep(d)
		}
		ip := keyStr(o.IP)
		if o.Op == "restart" { // before the clock is read: the rebuild is the operation
			g.cancel()
		}
		cc0 := atomic.LoadInt64(&g.cloud.calls)
		r := 0
		t0 := time.Since(start)
		switch o.Op {
		case "fail":
			r = b2i(g.p.RecordFailure(ip))
		case "succ":
			g.p.RecordSuccess(ip)
		case "query":
			b, _ := g.p.IsBanned(ip)
			r = b2i(b)
		case "ban":
			g.p.BanIP(ip, ms(o.Arg), "manual")
		case "unban":
			g.p.UnbanIP(ip)
		case "cleanup":
			g.p.VerifCleanup()
		case "bladd":
			must(g.m.AddToBlacklist(ip, ms(o.Arg), "listed", "admin"))
		case "blrm":
			g.m.RemoveFromBlacklist(ip)
		case "wladd":
			must(g.m.AddToWhitelist(ip, "trusted", "admin"))
		case "wlrm":
			g.m.RemoveFromWhitelist(ip)
		case "allowed":
			b, _ := g.m.IsAllowed(ip)
			r = b2i(b)
		case "blcleanup":
			g.m.VerifCleanup()
		case "allowip":
			r = b2i(g.r.AllowIPBurst(ip, o.Arg))
		case "rlcleanup":
			g.r.VerifCleanup()
		case "hs":
			r = g.handshake(ip, o.Arg)
		case "restart":
			g = newRigOn(c.Cfg, st)
			cc0 = 0
		default:
			panic("bad op " + o.Op)
		}
		t1 := time.Since(start)
		out.Obs = append(out.Obs, opOut{R: r, T0: int64(t0), T1: int64(t1), CC: int(atomic.LoadInt64(&g.cloud.calls) - cc0)})
	}
	return out
}

// expire -> query (spawns the asynchronous removal) -> immediate re-establishment -> 5 ms -> query must say "refused"
func runRace(c *caseIn) *caseOut {
	g := newRig(cfgIn{MaxF: 5, WindowMs: 200, BanMs: 300, Perm: 20, Rate: 10, Burst: 20, TTLMs: 60000})
	defer g.cancel()
	out := &caseOut{Kind: "race", Trials: c.Trials}
	for i := 0; i < c.Trials; i++ {
		ip := ipStr(1000 + i)
		switch c.Which {
		case "bl", "blperm":
			must(g.m.AddToBlacklist(ip, 3*time.Millisecond, "short", "admin"))
			time.Sleep(8 * time.Millisecond)
			if ok, _ := g.m.IsAllowed(ip); !ok {
				out.PreNotExpired++
				continue
			}
			if c.Which == "bl" {
				must(g.m.AddToBlacklist(ip, time.Hour, "re-listed", "admin"))
			} else {
				must(g.m.AddToBlacklist(ip, 0, "listed for good", "admin"))
			}
			time.Sleep(5 * time.Millisecond)
			if ok, _ := g.m.IsAllowed(ip); ok {
				out.Lost++
			}
		default:
			g.p.BanIP(ip, 3*time.Millisecond, "short")
			time.Sleep(8 * time.Millisecond)
			if b, _ := g.p.IsBanned(ip); b {
				out.PreNotExpired++
				continue
			}
			switch c.Which {
			case "perm": // manual permanent ban right after the query that scheduled the lazy unban
				g.p.BanIP(ip, 0, "banned for good")
			case "permfail": // the admitted attempts fail up to PermanentBanAt
				for k := 0; k < 20; k++ {
					g.p.RecordFailure(ip)
				}
			default:
				g.p.BanIP(ip, time.Hour, "re-banned")
			}
			time.Sleep(5 * time.Millisecond)
			if b, _ := g.p.IsBanned(ip); !b {
				out.Lost++
			}
		}
	}
	return out
}

// maxf handshakes with a wrong client id are parked inside the (gated) cloud lookup, i.e. after the
// ban gate; the address is then banned permanently; the parked handshakes are released and record
// their failures.  The permanent ban must survive.
func runInflight(c *caseIn) *caseOut {
	g := newRig(c.Cfg)
	defer g.cancel()
	out := &caseOut{Kind: "inflight"}
	ip := ipStr(77)
	g.cloud.gate = make(chan struct{})
	var wg sync.WaitGroup
	n := c.Cfg.MaxF
	for i := 0; i < n; i++ {
		wg.Add(1)
		go func() { defer wg.Done(); g.handshake(ip, 0) }()
	}
	deadline := time.Now().Add(5 * time.Second)
	for atomic.LoadInt64(&g.cloud.parked) < int64(n) && time.Now().Before(deadline) {
		time.Sleep(time.Millisecond)
	}
	out.Parked = int(atomic.LoadInt64(&g.cloud.parked))
	g.p.BanIP(ip, 0, "permanent")
	close(g.cloud.gate)
	wg.Wait()
	g.cloud.gate = nil
	b, _ := g.p.IsBanned(ip)
	out.BannedRightAfter = b
	for _, rec := range g.p.GetBannedIPs() {
		if rec.IP == ip && rec.ExpiresAt.IsZero() {
			out.PermanentKept = true
		}
	}
	time.Sleep(time.Duration(c.Cfg.BanMs)*time.Millisecond + 150*time.Millisecond)
	cc0 := atomic.LoadInt64(&g.cloud.calls)
	out.BannedLater = g.handshake(ip, 0) == 1
	out.CloudCallsWhileBanned = int(atomic.LoadInt64(&g.cloud.calls) - cc0)
	return out
}

// the FIRST requests of an address released together: they must all draw on one bucket
func runBurst(c *caseIn) *caseOut {
	ctx, cancel := context.WithCancel(context.Background())
	defer cancel()
	rc := &security.RateLimitConfig{Rate: c.Cfg.Rate, Burst: c.Cfg.Burst, TTL: time.Duration(c.Cfg.TTLMs) * time.Millisecond}
	rc2 := *rc
	r := security.NewRateLimiter(rc, &rc2, ctx)
	out := &caseOut{Kind: "burst"}
	for k := 0; k < c.Keys; k++ {
		key := ipStr(3000 + k)
		// spin barrier: the goroutines are running (not parked) when released, so their first calls overlap
		var ready, done sync.WaitGroup
		var start int32
		var admitted int64
		n := c.Goroutines
		if p := runtime.GOMAXPROCS(0); n > p {
			n = p
		}
		for i := 0; i < n; i++ {
			ready.Add(1)
			done.Add(1)
			go func() {
				defer done.Done()
				ready.Done()
				for atomic.LoadInt32(&start) == 0 {
				}
				ok := false
				switch c.Entry {
				case "allowipburst":
					ok = r.AllowIPBurst(key, 1)
				case "allowtunnel":
					ok = r.AllowTunnel(key, 1)
				default:
					ok = r.AllowIP(key)
				}
				if ok {
					atomic.AddInt64(&admitted, 1)
				}
			}()
		}
		ready.Wait()
		time.Sleep(200 * time.Microsecond) // let the last ones reach the spin loop
		t0 := time.Now()
		atomic.StoreInt32(&start, 1)
		done.Wait()
		out.ElapsedNs = append(out.ElapsedNs, int64(time.Since(t0)))
		out.Admitted = append(out.Admitted, int(admitted))
	}
	return out
}

// behavioural probe of the blacklist lookup: an entry in force covers the address while another matching entry has
// lapsed.  exact: permanent /28 + lapsed exact entry;  range: permanent /27 + lapsed /28 inside it (first-match code
// meets either first, depending on the map iteration).  Lost = trials in which the address was let through.
func runShadow(c *caseIn) *caseOut {
	out := &caseOut{Kind: "shadow", Trials: c.Trials}
	for i := 0; i < c.Trials; i++ {
		ctx, cancel := context.WithCancel(context.Background())
		m := security.NewIPManager(storage.NewMemoryStorage(ctx), ctx)
		addr := fmt.Sprintf("10.2.%d.40", i&255)
		if c.Which == "exact" {
			must(m.AddToBlacklist(fmt.Sprintf("10.2.%d.32/28", i&255), 0, "range", "admin"))
			must(m.AddToBlacklist(addr, 3*time.Millisecond, "short exact", "admin"))
		} else {
			must(m.AddToBlacklist(fmt.Sprintf("10.2.%d.32/27", i&255), 0, "wide range", "admin"))
			must(m.AddToBlacklist(fmt.Sprintf("10.2.%d.32/28", i&255), 3*time.Millisecond, "short range", "admin"))
		}
		if ok, _ := m.IsAllowed(addr); ok {
			out.PreNotExpired++ // not refused while everything is in force: never expected
		}
		time.Sleep(8 * time.Millisecond)
		if ok, _ := m.IsAllowed(addr); ok {
			out.Lost++
		}
		cancel()
	}
	return out
}

// cleanup() racing with the renewal of a lapsed entry: `entries` lapsed temporary entries are in the table (nobody
// queried them); cleanup() runs while other goroutines re-establish some of them for an hour.  Whatever the
// interleaving, a renewed entry must still be in force afterwards (Lost = renewed entries that are gone).
func runSweepRace(c *caseIn) *caseOut {
	out := &caseOut{Kind: "sweeprace", Trials: c.Trials}
	for t := 0; t < c.Trials; t++ {
		g := newRig(cfgIn{MaxF: 5, WindowMs: 200, BanMs: 300, Perm: 20, Rate: 10, Burst: 20, TTLMs: 60000})
		n := c.Keys
		addr := func(i int) string { return fmt.Sprintf("10.%d.%d.%d", 3+(i>>16)&255, (i>>8)&255, i&255) }
		for i := 0; i < n; i++ {
			if c.Which == "bl" {
				must(g.m.AddToBlacklist(addr(i), time.Millisecond, "short", "admin"))
			} else {
				g.p.BanIP(addr(i), time.Millisecond, "short")
			}
		}
		time.Sleep(5 * time.Millisecond)
		workers := 6
		var ready, done sync.WaitGroup
		var start int32
		renewed := make([][]int, workers)
		for w := 0; w < workers; w++ {
			ready.Add(1)
			done.Add(1)
			go func(w int) {
				defer done.Done()
				ready.Done()
				for atomic.LoadInt32(&start) == 0 {
				}
				// spread over the table; the first renewals are issued while cleanup() is scanning
				for i := w * 7; i < n; i += n/13 + 1 {
					if c.Which == "bl" {
						must(g.m.AddToBlacklist(addr(i), time.Hour, "renewed", "admin"))
					} else {
						g.p.BanIP(addr(i), time.Hour, "renewed")
					}
					renewed[w] = append(renewed[w], i)
					if len(renewed[w]) >= 12 {
						break
					}
				}
			}(w)
		}
		ready.Add(1)
		done.Add(1)
		go func() {
			defer done.Done()
			ready.Done()
			for atomic.LoadInt32(&start) == 0 {
			}
			if c.Which == "bl" {
				g.m.VerifCleanup()
			} else {
				g.p.VerifCleanup()
			}
		}()
		ready.Wait()
		time.Sleep(200 * time.Microsecond)
		atomic.StoreInt32(&start, 1)
		done.Wait()
		for _, l := range renewed {
			for _, i := range l {
				if c.Which == "bl" {
					if ok, _ := g.m.IsAllowed(addr(i)); ok {
						out.Lost++
					}
				} else if b, _ := g.p.IsBanned(addr(i)); !b {
					out.Lost++
				}
			}
		}
		g.cancel()
	}
	return out
}

// one address drains its bucket, then c.Keys OTHER distinct addresses each make a request (a crowd, or one attacker
// with many source addresses), then the first address asks again within the refill time: Admitted[0] = requests of the
// limited address let through in total, ElapsedNs[0] = from its first to its last request
func runCrowd(c *caseIn) *caseOut {
	ctx, cancel := context.WithCancel(context.Background())
	defer cancel()
	rc := &security.RateLimitConfig{Rate: c.Cfg.Rate, Burst: c.Cfg.Burst, TTL: time.Duration(c.Cfg.TTLMs) * time.Millisecond}
	rc2 := *rc
	r := security.NewRateLimiter(rc, &rc2, ctx)
	out := &caseOut{Kind: "crowd"}
	x := "198.51.100.77"
	call := func(k string) bool {
		if c.Entry == "allowtunnel" {
			return r.AllowTunnel(k, 1)
		}
		return r.AllowIP(k)
	}
	n := 0
	t0 := time.Now()
	for i := 0; i < c.Cfg.Burst+2; i++ {
		if call(x) {
			n++
		}
	}
	for i := 0; i < c.Keys; i++ {
		call(fmt.Sprintf("11.%d.%d.%d", (i>>16)&255, (i>>8)&255, i&255))
	}
	for i := 0; i < c.Cfg.Burst+2; i++ {
		if call(x) {
			n++
		}
	}
	out.Admitted = []int{n}
	out.ElapsedNs = []int64{int64(time.Since(t0))}
	return out
}

// holdStore delays the FIRST Set of every key until a later Set of the same key has completed (300 ms at most, so
// code that writes synchronously is merely slowed down): two writes of one key issued in call order by concurrent
// writers land in the opposite order
type holdStore struct {
	storage.Storage
	storage.ListStore
	mu    sync.Mutex
	first map[string]chan struct{}
}

func (h *holdStore) Set(key string, value any, ttl time.Duration) error {
	h.mu.Lock()
	ch, seen := h.first[key]
	if !seen {
		ch = make(chan struct{})
		h.first[key] = ch
	}
	h.mu.Unlock()
	if !seen {
		select {
		case <-ch:
		case <-time.After(300 * time.Millisecond):
		}
		return h.Storage.Set(key, value, ttl)
	}
	err := h.Storage.Set(key, value, ttl)
	select {
	case <-ch:
	default:
		close(ch)
	}
	return err
}

// AddToBlacklist(ip, short) then AddToBlacklist(ip, permanent), the store delaying the first write; once the short
// period is over a manager built from the same store must still refuse the address
func runStoreOrder(c *caseIn) *caseOut {
	out := &caseOut{Kind: "storeorder", Trials: c.Trials}
	for t := 0; t < c.Trials; t++ {
		ctx, cancel := context.WithCancel(context.Background())
		mem := storage.NewMemoryStorage(ctx)
		hs := &holdStore{Storage: mem, ListStore: mem.(storage.ListStore), first: map[string]chan struct{}{}}
		m := security.NewIPManager(hs, ctx)
		ip := fmt.Sprintf("203.0.113.%d", 10+t)
		must(m.AddToBlacklist(ip, 120*time.Millisecond, "temporary", "admin"))
		time.Sleep(3 * time.Millisecond) // a write started by the first call is under way before the second call
		must(m.AddToBlacklist(ip, 0, "permanent", "admin"))
		time.Sleep(450 * time.Millisecond) // the temporary period (and any delayed write) is over
		if ok, _ := m.IsAllowed(ip); ok {
			out.PreNotExpired++ // the live manager itself lost the permanent entry: never expected
		}
		after := security.NewIPManager(hs, ctx)
		if ok, _ := after.IsAllowed(ip); ok {
			out.Lost++
		}
		cancel()
	}
	return out
}

// strAddr is what adapters that do not hand out *net.TCPAddr / *net.UDPAddr give to the handler: only String()
type strAddr string

func (a strAddr) Network() string { return "tcp" }
func (a strAddr) String() string  { return string(a) }

type addrShape struct {
	Peer int // shapes with the same Peer are the same remote IP
	Addr net.Addr
	Text string
}

// every way one peer address can reach extractIP: typed addresses (with and without an IPv6 zone) and the string
// forms with / without port, brackets and zone
func addrShapes() []addrShape {
	mk := func(peer int, a net.Addr) addrShape { return addrShape{peer, a, fmt.Sprintf("%T %s", a, a.String())} }
	ll := net.ParseIP("fe80::1")
	return []addrShape{
		mk(0, &net.TCPAddr{IP: net.ParseIP("192.0.2.7"), Port: 1}),
		mk(0, &net.UDPAddr{IP: net.ParseIP("192.0.2.7"), Port: 2}),
		mk(0, strAddr("192.0.2.7:40000")),
		mk(0, strAddr("192.0.2.7")),
		mk(1, &net.TCPAddr{IP: ll, Port: 1}),
		mk(1, &net.TCPAddr{IP: ll, Port: 1, Zone: "eth0"}),
		mk(1, &net.UDPAddr{IP: ll, Port: 9, Zone: "wlan1"}),
		mk(1, strAddr("[fe80::1]:443")),
		mk(1, strAddr("[fe80::1%eth0]:443")),
		mk(1, strAddr("[fe80::1%eth1]:8443")),
		mk(1, strAddr("[fe80::1%25]:1")),
		mk(1, strAddr("fe80::1%eth0")),
		mk(1, strAddr("fe80::1")),
		mk(2, &net.TCPAddr{IP: net.ParseIP("2001:db8::5"), Port: 1}),
		mk(2, strAddr("[2001:db8::5]:51000")),
		mk(2, strAddr("2001:db8::5")),
		mk(3, strAddr("[fe80::2%eth0]:443")),
		mk(3, &net.TCPAddr{IP: net.ParseIP("fe80::2"), Port: 1, Zone: "eth0"}),
	}
}

// runAddr: the keys extractIP derives, and end to end: an address banned / blacklisted under the key of one shape
// must be refused when it arrives in any other shape of the same peer
func runAddr(c *caseIn) *caseOut {
	out := &caseOut{Kind: "addr"}
	shapes := addrShapes()
	for _, sh := range shapes {
		out.Forms = append(out.Forms, sh.Text)
		out.Keys = append(out.Keys, server.VerifExtractIP(sh.Addr))
		out.Peers = append(out.Peers, sh.Peer)
	}
	for i, a := range shapes {
		g := newRig(cfgIn{MaxF: 5, WindowMs: 2000, BanMs: 60000, Perm: 50, Rate: 100, Burst: 100, TTLMs: 60000})
		g.p.BanIP(server.VerifExtractIP(a.Addr), time.Hour, "banned in this shape")
		for j, b := range shapes {
			if a.Peer != b.Peer || i == j {
				continue
			}
			conn := &fakeConn{addr: b.Addr}
			resp, _ := g.h.HandleHandshake(conn, &packet.HandshakeRequest{ClientID: 4242, Version: "1", Protocol: "tcp"})
			if classify(resp) != 1 {
				out.Evaded = append(out.Evaded, fmt.Sprintf("banned as %q, let through as %q (answer %d)", a.Text, b.Text, classify(resp)))
			}
		}
		g.cancel()
	}
	return out
}

func runCase(raw []byte) *caseOut {
	var c caseIn
	must(json.Unmarshal(raw, &c))
	switch c.Kind {
	case "tl":
		return runTimeline(&c)
	case "race":
		return runRace(&c)
	case "inflight":
		return runInflight(&c)
	case "burst":
		return runBurst(&c)
	case "shadow":
		return runShadow(&c)
	case "crowd":
		return runCrowd(&c)
	case "storeorder":
		return runStoreOrder(&c)
	case "sweeprace":
		return runSweepRace(&c)
	case "addr":
		return runAddr(&c)
	case "tokens":
		reg, ch := tokenTable()
		return &caseOut{Kind: "tokens", Registers: reg, Charged: ch, Forms: tokenForms}
	}
	panic("bad kind " + c.Kind)
}

func gen() {
	bf := security.DefaultBruteForceConfig()
	ipc := security.DefaultIPRateLimitConfig()
	tc := security.DefaultTunnelRateLimitConfig()
	fmt.Println("(* generated by verif_c18 gen from /repo's working tree — do not edit *)")
	fmt.Println("From Coq Require Import ZArith List. Open Scope Z_scope.")
	fmt.Println("(* security.DefaultBruteForceConfig(); durations in milliseconds *)")
	fmt.Printf("Definition DefaultMaxFailures : Z := %d.\n", bf.MaxFailures)
	fmt.Printf("Definition DefaultTimeWindowMs : Z := %d.\n", bf.TimeWindow.Milliseconds())
	fmt.Printf("Definition DefaultBanDurationMs : Z := %d.\n", bf.BanDuration.Milliseconds())
	fmt.Printf("Definition DefaultPermanentBanAt : Z := %d.\n", bf.PermanentBanAt)
	fmt.Printf("Definition DefaultCleanupIntervalMs : Z := %d.\n", bf.CleanupInterval.Milliseconds())
	fmt.Println("(* security.DefaultIPRateLimitConfig() / DefaultTunnelRateLimitConfig() *)")
	fmt.Printf("Definition IPRate : Z := %d.\nDefinition IPBurst : Z := %d.\nDefinition IPTTLMs : Z := %d.\n", ipc.Rate, ipc.Burst, ipc.TTL.Milliseconds())
	reg, ch := tokenTable()
	fmt.Println("(* HandleHandshake with ClientID = 0, probed for each candidate token string (harness tokenForms):")
	fmt.Println("   (registers a new anonymous client, charges the registration bucket of the address) *)")
	fmt.Println("Definition token_table : list (bool * bool) := (")
	for i := range reg {
		fmt.Printf("  (%v, %v) :: (* %q *)\n", reg[i], ch[i], tokenForms[i])
	}
	fmt.Println("  nil)%list.")
	fmt.Println("(* extractIP probed on every shape in which one peer address can reach the handler: (peer, index of the distinct key) *)")
	fmt.Println("Definition addr_key_table : list (nat * nat) := (")
	idx := map[string]int{}
	for _, sh := range addrShapes() {
		k := server.VerifExtractIP(sh.Addr)
		if _, ok := idx[k]; !ok {
			idx[k] = len(idx)
		}
		fmt.Printf("  (%d, %d)%%nat :: (* %s -> %q *)\n", sh.Peer, idx[k], sh.Text, k)
	}
	fmt.Println("  nil)%list.")
	fmt.Printf("Definition TunnelRate : Z := %d.\nDefinition TunnelBurst : Z := %d.\nDefinition TunnelTTLMs : Z := %d.\n", tc.Rate, tc.Burst, tc.TTL.Milliseconds())
}

func main() {
	corelog.SetDefault(corelog.NewNopLogger())
	if len(os.Args) > 1 && os.Args[1] == "gen" {
		gen()
		return
	}
	par := 48
	if len(os.Args) > 1 {
		fmt.Sscanf(os.Args[1], "%d", &par)
	}
	// cases are independent (each builds its own protector / manager / limiter) and mostly sleep:
	// run them concurrently, print results in input order
	in := bufio.NewReaderSize(os.Stdin, 1<<20)
	var lines [][]byte
	for {
		line, err := in.ReadBytes('\n')
		if len(line) > 1 {
			lines = append(lines, line)
		}
		if err != nil {
			break
		}
	}
	res := make([]*caseOut, len(lines))
	sem := make(chan struct{}, par)
	var wg sync.WaitGroup
	for i := range lines {
		wg.Add(1)
		sem <- struct{}{}
		go func(i int) {
			defer wg.Done()
			defer func() { <-sem }()
			res[i] = runCase(lines[i])
		}(i)
	}
	wg.Wait()
	w := bufio.NewWriterSize(os.Stdout, 1<<20)
	defer w.Flush()
	enc := json.NewEncoder(w)
	for _, r := range res {
		must(enc.Encode(r))
	}
}

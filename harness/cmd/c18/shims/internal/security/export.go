//go:build verif

package security

// Export shims for the C18 verification harness: the periodic clean-up bodies are unexported and
// driven by one-minute tickers; the harness calls them at scripted instants instead.

func (p *BruteForceProtector) VerifCleanup() { p.cleanup() }
func (m *IPManager) VerifCleanup()           { m.cleanup() }
func (r *RateLimiter) VerifCleanup()         { r.cleanup() }

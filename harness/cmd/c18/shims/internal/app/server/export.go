//go:build verif

package server

import "net"

// VerifExtractIP exposes extractIP: the key under which HandleHandshake looks an address up in the blacklist, the ban
// list and the registration rate limiter.
func VerifExtractIP(addr net.Addr) string { return extractIP(addr) }

//go:build verif

package hybrid

import "sync"

// Export shims for the C14 verification harness (compiled only into verif_c14).

// VerifCategory returns getCategory(key) as an int (0 runtime, 1 persistent, 2 shared, 3 shared+persistent).
func VerifCategory(h *Storage, key string) int { return int(h.getCategory(key)) }

// VerifCacheForKeyIsShared reports whether getCacheForKey(key) selects the shared cache.
func VerifCacheForKeyIsShared(h *Storage, key string) bool {
	return h.sharedCache != nil && h.getCacheForKey(key) == h.sharedCache
}

// VerifCategoryConstants returns the numeric values of the four DataCategory constants.
func VerifCategoryConstants() [4]int {
	return [4]int{int(DataCategoryRuntime), int(DataCategoryPersistent), int(DataCategoryShared), int(DataCategorySharedPersistent)}
}

// VerifKeyLockHeld reports whether the per-key lock of the repaired code (method keyLock) is currently held for key.
// supported is false on a tree without key locks.  Only called while every caller is parked, blocked or finished.
func VerifKeyLockHeld(h *Storage, key string) (held bool, supported bool) {
	l, ok := any(h).(interface{ keyLock(string) *sync.Mutex })
	if !ok {
		return false, false
	}
	mu := l.keyLock(key)
	if mu.TryLock() {
		mu.Unlock()
		return false, true
	}
	return true, true
}

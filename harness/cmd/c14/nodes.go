//go:build verif

package main

// nodes mode: 2-3 REAL hybrid.Storage instances ("nodes"), each with a private local memory cache, over ONE persistent
// double and (optionally) ONE shared cache; a strictly sequential cross-node history, every operation running to
// completion including the landing of its asynchronous write-back.  Node -1 is a node created for that single call: a
// cold local cache (restart, expiry, or a node that never saw the key).  Predicate, evaluated on every read of the
// history: a read returns the value of the latest completed write of the key, from whichever node it is issued
// (cross-node visible key classes), and from the writer itself (every class).

import (
	"context"
	"fmt"
	"time"

	"tunnox-core/internal/core/storage/hybrid"
	"tunnox-core/internal/core/storage/memory"
	"tunnox-core/internal/core/storage/types"
)

type stepIn struct {
	Node int  `json:"node"`
	Op   opIn `json:"op"`
}

type nodesOut struct {
	Results [][]any    `json:"results"`
	Locals  [][][]any  `json:"locals"` // per node: [key index, value]
	Shared  [][]any    `json:"shared"`
	Pers    [][]any    `json:"pers"`
	Cats    []int      `json:"cats"`
	Viol    []nodeViol `json:"viol"`
	WbMiss  bool       `json:"wb_missing"`
}
type nodeViol struct {
	Kind   string `json:"kind"`
	Msg    string `json:"msg"`
	K      int    `json:"k"`
	Step   int    `json:"step"`
	Reader int    `json:"reader"`
	Writer int    `json:"writer"`
}

func runNodes(c caseIn) *nodesOut {
	out := &nodesOut{Viol: []nodeViol{}}
	ctx, cancel := context.WithCancel(context.Background())
	defer cancel()
	s := &sched{seq: true, main: goid(), keys: c.Keys, noWb: c.Locks != ""}
	var sharedU *memory.Storage
	var sc types.CacheStorage
	if c.Shared {
		sharedU = memory.New(ctx)
		sc = &cacheDouble{under: sharedU, tier: tShared, s: s}
	}
	var pd *persDouble
	var ps types.PersistentStorage
	if c.Pers {
		pd = &persDouble{m: map[string]any{}, s: s}
		ps = pd
	}
	mk := func() (*hybrid.Storage, *memory.Storage) {
		l := memory.New(ctx)
		cfg := hybrid.DefaultConfig()
		cfg.EnablePersistent = c.Pers
		var scc types.CacheStorage
		if sc != nil {
			scc = sc
		}
		var pss types.PersistentStorage
		if ps != nil {
			pss = ps
		}
		return hybrid.NewWithSharedCache(ctx, &cacheDouble{under: l, tier: tLocal, s: s}, scc, pss, cfg), l
	}
	hs := make([]*hybrid.Storage, c.Nodes)
	ls := make([]*memory.Storage, c.Nodes)
	for i := range hs {
		hs[i], ls[i] = mk()
	}
	val := func(in initIn) any {
		switch {
		case in.L != nil:
			return lval(*in.L)
		case in.I != nil:
			return int64(*in.I)
		case in.V != nil:
			return sval(*in.V)
		}
		return nil
	}
	for _, in := range c.Init { // tier 2 = persistent, 1 = shared cache, 10+i = local cache of node i
		v := val(in)
		if v == nil {
			continue
		}
		switch {
		case in.Tier == tPers && pd != nil:
			pd.m[c.Keys[in.K]] = v
		case in.Tier == tShared && sharedU != nil:
			sharedU.Set(c.Keys[in.K], v, 0)
		case in.Tier >= 10 && in.Tier-10 < c.Nodes:
			ls[in.Tier-10].Set(c.Keys[in.K], v, 0)
		}
	}
	for _, k := range c.Keys {
		out.Cats = append(out.Cats, hybrid.VerifCategory(hs[0], k))
	}
	crossVisible := func(k int) bool {
		cat := out.Cats[k]
		return (c.Pers && (cat == 1 || cat == 3)) || (c.Shared && (cat == 2 || cat == 3))
	}
	latest := make([]string, len(c.Keys))
	writer := make([]int, len(c.Keys))
	for k, key := range c.Keys {
		latest[k], writer[k] = "none", -2
		if pd != nil {
			if v, ok := pd.m[key]; ok {
				latest[k] = canon(encVal(v))
				continue
			}
		}
		if sharedU != nil {
			if v, err := sharedU.Get(key); err == nil {
				latest[k] = canon(encVal(v))
			}
		}
	}
	wait := 3 * time.Second
	for si, st := range c.Steps {
		h := (*hybrid.Storage)(nil)
		if st.Node >= 0 && st.Node < c.Nodes {
			h = hs[st.Node]
		} else {
			h, _ = mk()
		}
		res := doOp(h, c.Keys, st.Op)
		done := make(chan struct{})
		go func() { s.wg.Wait(); close(done) }()
		select {
		case <-done:
		case <-time.After(wait):
			out.WbMiss = true
			wait = 50 * time.Millisecond
		}
		out.Results = append(out.Results, res)
		k := st.Op.K
		code := int(toInt(res[0]))
		switch st.Op.Op {
		case "set":
			if code == 0 {
				v := []any{0, st.Op.V}
				if st.Op.L != nil {
					v = []any{1, *st.Op.L}
				}
				latest[k], writer[k] = canon(v), st.Node
			}
		case "del":
			if code == 0 {
				latest[k], writer[k] = "none", st.Node
			}
		case "setnx":
			if code == 4 && res[1] == true {
				latest[k], writer[k] = canon([]any{0, st.Op.V}), st.Node
			}
		case "get", "exists":
			if !(crossVisible(k) || (st.Node >= 0 && st.Node == writer[k])) {
				continue
			}
			var obs, want string
			switch {
			case st.Op.Op == "get" && code == 3:
				obs, want = canon(res[1]), latest[k]
			case st.Op.Op == "get" && code == 2:
				obs, want = "none", latest[k]
			case st.Op.Op == "exists" && code == 4:
				obs, want = fmt.Sprint(res[1]), fmt.Sprint(latest[k] != "none")
			default:
				continue
			}
			if obs != want {
				who := "a cold-cache node"
				if st.Node >= 0 {
					who = fmt.Sprintf("node %d", st.Node)
				}
				out.Viol = append(out.Viol, nodeViol{Kind: "cross-node-stale-read", K: k, Step: si, Reader: st.Node, Writer: writer[k],
					Msg: fmt.Sprintf("step %d: %s of %q from %s returned %s, but the latest completed write (by node %d) is %s", si, st.Op.Op, c.Keys[k], who, obs, writer[k], latest[k])})
			}
		}
	}
	dump := func(get func(string) (any, bool)) [][]any {
		o := [][]any{}
		for i, k := range c.Keys {
			if v, ok := get(k); ok {
				o = append(o, []any{i, encVal(v)})
			}
		}
		return o
	}
	mget := func(m *memory.Storage) func(string) (any, bool) {
		return func(k string) (any, bool) {
			if m == nil {
				return nil, false
			}
			v, err := m.Get(k)
			return v, err == nil
		}
	}
	for i := range ls {
		out.Locals = append(out.Locals, dump(mget(ls[i])))
	}
	out.Shared = dump(mget(sharedU))
	out.Pers = dump(func(k string) (any, bool) {
		if pd == nil {
			return nil, false
		}
		v, ok := pd.m[k]
		return v, ok
	})
	if out.Results == nil {
		out.Results = [][]any{}
	}
	if out.Locals == nil {
		out.Locals = [][][]any{}
	}
	return out
}

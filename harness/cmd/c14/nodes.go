//go:build verif

package main

// nodes mode: 2-3 REAL hybrid.Storage instances ("nodes"), each with a private local memory cache, over ONE persistent
// double and (optionally) ONE shared cache; a strictly sequential cross-node history, every operation running to
// completion including the landing of its asynchronous write-back.  Node -1 is a node created for that single call: a
// cold local cache (restart, expiry, or a node that never saw the key).  Predicate, evaluated on every read of the
// history: a read returns the value of the latest completed write of the key, from whichever node it is issued
// (cross-node visible key classes), and from the writer itself (every class).

import (
	"context"
	"encoding/json"
	"fmt"
	"runtime"
	"strings"
	"time"

	"tunnox-core/internal/core/storage/hybrid"
	"tunnox-core/internal/core/storage/memory"
	"tunnox-core/internal/core/storage/types"
)

type stepIn struct {
	Node int  `json:"node"`
	Op   opIn `json:"op"`
}

type nodesOut struct {
	Results [][]any    `json:"results"`
	Locals  [][][]any  `json:"locals"` // per node: [key index, value]
	Shared  [][]any    `json:"shared"`
	Pers    [][]any    `json:"pers"`
	Cats    []int      `json:"cats"`
	Intend  []int      `json:"intended"` // class by the shipped prefix tables, most specific (longest) prefix wins
	Async   []asyncRec `json:"async"`
	Viol    []nodeViol `json:"viol"`
	WbMiss  bool       `json:"wb_missing"`
}
type nodeViol struct {
	Kind   string `json:"kind"`
	Msg    string `json:"msg"`
	K      int    `json:"k"`
	Step   int    `json:"step"`
	Reader int    `json:"reader"`
	Writer int    `json:"writer"`
	LastOp string `json:"last_op"` // the operation that made the latest completed write of the key
}

// intendedCategory: the class the shipped configuration means the key to have — the longest matching prefix over the three
// configured tables and the documented runtime prefixes wins (0 runtime, 1 persistent, 2 shared, 3 shared+persistent)
func intendedCategory(key string) int {
	cfg := hybrid.DefaultConfig()
	best, cat := -1, 0
	for c, tbl := range [][]string{hybrid.RuntimePrefixes, cfg.PersistentPrefixes, cfg.SharedPrefixes, cfg.SharedPersistentPrefixes} {
		for _, p := range tbl {
			if strings.HasPrefix(key, p) && len(p) > best {
				best, cat = len(p), c
			}
		}
	}
	return cat
}

func runNodes(c caseIn) *nodesOut {
	out := &nodesOut{Viol: []nodeViol{}}
	ctx, cancel := context.WithCancel(context.Background())
	defer cancel()
	s := &sched{seq: true, main: goid(), keys: c.Keys, noWb: c.Locks != ""}
	var sharedU *memory.Storage
	var sc types.CacheStorage
	if c.Shared {
		sharedU = memory.New(ctx)
		sc = &cacheDouble{under: sharedU, tier: tShared, s: s}
	}
	var pd *persDouble
	var ps types.PersistentStorage
	if c.Pers {
		pd = &persDouble{m: map[string]any{}, s: s}
		ps = pd
	}
	mk := func() (*hybrid.Storage, *memory.Storage) {
		l := memory.New(ctx)
		cfg := hybrid.DefaultConfig()
		cfg.EnablePersistent = c.Pers
		var scc types.CacheStorage
		if sc != nil {
			scc = sc
		}
		var pss types.PersistentStorage
		if ps != nil {
			pss = ps
		}
		return hybrid.NewWithSharedCache(ctx, &cacheDouble{under: l, tier: tLocal, s: s}, scc, pss, cfg), l
	}
	hs := make([]*hybrid.Storage, c.Nodes)
	ls := make([]*memory.Storage, c.Nodes)
	for i := range hs {
		hs[i], ls[i] = mk()
	}
	val := func(in initIn) any {
		switch {
		case in.L != nil:
			return lval(*in.L)
		case in.I != nil:
			return int64(*in.I)
		case in.V != nil:
			return sval(*in.V)
		}
		return nil
	}
	for _, in := range c.Init { // tier 2 = persistent, 1 = shared cache, 10+i = local cache of node i
		v := val(in)
		if v == nil {
			continue
		}
		switch {
		case in.Tier == tPers && pd != nil:
			pd.m[c.Keys[in.K]] = v
		case in.Tier == tShared && sharedU != nil:
			sharedU.Set(c.Keys[in.K], v, 0)
		case in.Tier >= 10 && in.Tier-10 < c.Nodes:
			ls[in.Tier-10].Set(c.Keys[in.K], v, 0)
		}
	}
	for _, k := range c.Keys {
		out.Cats = append(out.Cats, hybrid.VerifCategory(hs[0], k))
		out.Intend = append(out.Intend, intendedCategory(k))
	}
	// judged by the INTENDED class, not by what getCategory happens to answer: a key of a shared class written on one node
	// must be visible on every node
	crossVisible := func(k int) bool {
		cat := out.Intend[k]
		return (c.Pers && (cat == 1 || cat == 3)) || (c.Shared && (cat == 2 || cat == 3))
	}
	// the register a read is judged against: ONE per key for cross-node visible classes, one per (node, key) otherwise
	// (a cache-only key lives in each node's private cache)
	type slotKey struct{ node, k int }
	latestM := map[slotKey]string{}
	writerM := map[slotKey]int{}
	slot := func(node, k int) slotKey {
		if crossVisible(k) {
			return slotKey{-9, k}
		}
		return slotKey{node, k}
	}
	for k, key := range c.Keys {
		init := "none"
		if pd != nil {
			if v, ok := pd.m[key]; ok {
				init = canon(encVal(v))
			}
		}
		if init == "none" && sharedU != nil {
			if v, err := sharedU.Get(key); err == nil {
				init = canon(encVal(v))
			}
		}
		latestM[slotKey{-9, k}], writerM[slotKey{-9, k}] = init, -2
	}
	lastOp := map[slotKey]string{}
	dropped := map[slotKey]bool{} // a cache copy of the key was lost since its latest write
	getLatest := func(node, k int) (string, int) {
		sl := slot(node, k)
		if v, ok := latestM[sl]; ok {
			return v, writerM[sl]
		}
		return "none", -2
	}
	wait := 3 * time.Second
	for si, st := range c.Steps {
		h := (*hybrid.Storage)(nil)
		if st.Node >= 0 && st.Node < c.Nodes {
			h = hs[st.Node]
		} else {
			h, _ = mk()
		}
		if st.Op.Op == "dropc" || st.Op.Op == "dropall" {
			// "cache entry lost": TTL expiry / eviction / restart of a cache tier.  dropc: the copy in this node's local cache and in the
			// shared cache; dropall: in every node's local cache and in the shared cache.  The persistent tier is never touched.
			k, key := st.Op.K, c.Keys[st.Op.K]
			for i := range ls {
				if st.Op.Op == "dropall" || i == st.Node {
					ls[i].Delete(key)
				}
			}
			if sharedU != nil {
				sharedU.Delete(key)
			}
			twoTier := c.Pers && (out.Intend[k] == 1 || out.Intend[k] == 3)
			if twoTier {
				dropped[slotKey{-9, k}] = true // nothing may change: the persistent tier holds the value
			} else if crossVisible(k) { // shared class, cache only: the shared copy was the value
				latestM[slotKey{-9, k}], writerM[slotKey{-9, k}] = "none", -2
			} else {
				for i := range ls {
					if st.Op.Op == "dropall" || i == st.Node {
						latestM[slotKey{i, k}], writerM[slotKey{i, k}] = "none", -2
					}
				}
			}
			out.Results = append(out.Results, []any{0})
			continue
		}
		before := runtime.NumGoroutine()
		res := doOp(h, c.Keys, st.Op)
		// sequential history: whatever the facade spawned (the old write-back, or anything else) lands before the next step
		for deadline := time.Now().Add(wait); runtime.NumGoroutine() > before && spawnedPending(allStacks()) > 0; {
			if time.Now().After(deadline) {
				out.WbMiss = true
				wait = 50 * time.Millisecond
				break
			}
			time.Sleep(30 * time.Microsecond)
		}
		out.Results = append(out.Results, res)
		k := st.Op.K
		code := int(toInt(res[0]))
		switch st.Op.Op {
		case "set", "del", "setnx", "append", "remove", "incr":
			if code == 0 || code == 5 || (code == 4 && res[1] == true) {
				delete(dropped, slot(st.Node, k))
				lastOp[slot(st.Node, k)] = st.Op.Op
			}
		}
		switch st.Op.Op {
		case "set":
			if code == 0 {
				v := []any{0, st.Op.V}
				if st.Op.L != nil {
					v = []any{1, *st.Op.L}
				}
				latestM[slot(st.Node, k)], writerM[slot(st.Node, k)] = canon(v), st.Node
			}
		case "del":
			if code == 0 {
				latestM[slot(st.Node, k)], writerM[slot(st.Node, k)] = "none", st.Node
			}
		case "setnx":
			if code == 4 && res[1] == true {
				latestM[slot(st.Node, k)], writerM[slot(st.Node, k)] = canon([]any{0, st.Op.V}), st.Node
			}
		case "incr":
			if code == 5 {
				latestM[slot(st.Node, k)], writerM[slot(st.Node, k)] = canon([]any{2, int(toInt(res[1]))}), st.Node
			}
		case "append", "remove":
			if code == 0 {
				var l []int
				cur, _ := getLatest(st.Node, k)
				if cur != "none" {
					var dec []any
					if json.Unmarshal([]byte(cur), &dec) == nil && len(dec) == 2 && toInt(dec[0]) == 1 {
						for _, x := range dec[1].([]any) {
							l = append(l, int(toInt(x)))
						}
					}
				}
				nl := []int{}
				for _, x := range l {
					if !(st.Op.Op == "remove" && x == st.Op.V) {
						nl = append(nl, x)
					}
				}
				if st.Op.Op == "append" {
					nl = append(nl, st.Op.V)
				}
				latestM[slot(st.Node, k)], writerM[slot(st.Node, k)] = canon([]any{1, nl}), st.Node
			}
		case "get", "exists":
			lat, wr := getLatest(st.Node, k)
			if !(crossVisible(k) || (st.Node >= 0 && st.Node == wr)) {
				continue
			}
			var obs, want string
			switch {
			case st.Op.Op == "get" && code == 3:
				obs, want = canon(res[1]), lat
			case st.Op.Op == "get" && code == 2:
				obs, want = "none", lat
			case st.Op.Op == "exists" && code == 4:
				obs, want = fmt.Sprint(res[1]), fmt.Sprint(lat != "none")
			default:
				continue
			}
			if obs != want {
				who := "a cold-cache node"
				if st.Node >= 0 {
					who = fmt.Sprintf("node %d", st.Node)
				}
				kind := "cross-node-stale-read"
				if dropped[slot(st.Node, k)] {
					kind = "lost-after-cache-drop"
					who += ", after the cache copy of the key was lost (expiry / eviction / cache restart)"
				}
				out.Viol = append(out.Viol, nodeViol{Kind: kind, K: k, Step: si, Reader: st.Node, Writer: wr, LastOp: lastOp[slot(st.Node, k)],
					Msg: fmt.Sprintf("step %d: %s of %q from %s returned %s, but the latest completed write (by node %d) is %s", si, st.Op.Op, c.Keys[k], who, obs, wr, lat)})
			}
		}
	}
	dump := func(get func(string) (any, bool)) [][]any {
		o := [][]any{}
		for i, k := range c.Keys {
			if v, ok := get(k); ok {
				o = append(o, []any{i, encVal(v)})
			}
		}
		return o
	}
	mget := func(m *memory.Storage) func(string) (any, bool) {
		return func(k string) (any, bool) {
			if m == nil {
				return nil, false
			}
			v, err := m.Get(k)
			return v, err == nil
		}
	}
	for i := range ls {
		out.Locals = append(out.Locals, dump(mget(ls[i])))
	}
	out.Shared = dump(mget(sharedU))
	out.Pers = dump(func(k string) (any, bool) {
		if pd == nil {
			return nil, false
		}
		v, ok := pd.m[k]
		return v, ok
	})
	s.mu.Lock()
	out.Async = append([]asyncRec{}, s.async...)
	s.mu.Unlock()
	if out.Results == nil {
		out.Results = [][]any{}
	}
	if out.Locals == nil {
		out.Locals = [][][]any{}
	}
	return out
}

//go:build verif

// verif_c14: the REAL hybrid.Storage over gated tier doubles.  The local and the shared cache are real
// memory.Storage instances seen through a double whose every call blocks until the scheduler releases the
// calling goroutine; the persistent tier is a map-backed PersistentStorage gated the same way.  Callers are
// identified by goroutine id; a tier call from an unknown goroutine is the asynchronous cache write-back
// spawned by Get/getSharedPersistent and becomes "write-back worker j" (j = spawn order).  A model schedule
// (list of thread indices: callers 0..n-1, write-back workers n..n+W-1, ONE tier call per entry) is replayed
// exactly.  The harness evaluates the property predicates on the real outputs: tier routing of every call,
// regular-register freshness of every read, list updates all taking effect, counter results distinct.
package main

import (
	"context"
	"encoding/json"
	"errors"
	"fmt"
	"os"
	"runtime"
	"sort"
	"strconv"
	"strings"
	"sync"
	"time"

	"tunnox-core/internal/core/storage/hybrid"
	"tunnox-core/internal/core/storage/memory"
	"tunnox-core/internal/core/storage/types"
)

const (
	tLocal  = 0
	tShared = 1
	tPers   = 2
)

var errInjected = errors.New("verif: injected tier failure")

// asyncRec: a tier call that arrived from a goroutine spawned by the code under test
type asyncRec struct {
	Who   int    `json:"who"` // schedule index of the parked call (sched mode), -2 in nodes mode
	Tier  int    `json:"tier"`
	M     string `json:"m"`
	Key   string `json:"key"`
	Frame string `json:"frame"` // innermost frame of package hybrid on that goroutine's stack, and who created the goroutine
}

// hybridFrame: innermost hybrid frame (function, file:line) and the "created by" line of the calling goroutine
func hybridFrame() string {
	buf := make([]byte, 1<<14)
	n := runtime.Stack(buf, false)
	lines := strings.Split(string(buf[:n]), "\n")
	out := ""
	for i, ln := range lines {
		if out == "" && strings.HasPrefix(ln, "tunnox-core/internal/core/storage/hybrid.") {
			out = strings.SplitN(ln, "(0x", 2)[0]
			if i+1 < len(lines) {
				f := strings.Fields(lines[i+1])
				if len(f) > 0 {
					out += " " + f[0][strings.LastIndex(f[0], "/")+1:]
				}
			}
		}
		if strings.HasPrefix(ln, "created by ") {
			out += " (" + strings.SplitN(ln, " in goroutine", 2)[0] + ")"
		}
	}
	return out
}

// spawnedPending: goroutines created by package hybrid that are alive and not (yet) parked in one of our gates
func spawnedPending(dump string) int {
	n := 0
	for _, blk := range strings.Split(dump, "\n\n") {
		if strings.Contains(blk, "created by tunnox-core/internal/core/storage/hybrid.") && !strings.Contains(blk, "main.(*sched).enter(") {
			n++
		}
	}
	return n
}

var nDumps int
var stackBuf = make([]byte, 1<<16)

func allStacks() string {
	nDumps++
	for {
		n := runtime.Stack(stackBuf, true)
		if n < len(stackBuf) {
			return string(stackBuf[:n])
		}
		stackBuf = make([]byte, 2*len(stackBuf))
	}
}

// blockedOnHybridLock: goroutine gid waits in sync.Mutex.Lock and the first frame outside sync/runtime belongs to package hybrid
func blockedOnHybridLock(dump string, gid uint64) bool {
	hdr := fmt.Sprintf("goroutine %d [", gid)
	i := strings.Index(dump, hdr)
	if i < 0 {
		return false
	}
	blk := dump[i:]
	if j := strings.Index(blk, "\n\n"); j >= 0 {
		blk = blk[:j]
	}
	lines := strings.Split(blk, "\n")
	state := lines[0][len(hdr):]
	if !strings.HasPrefix(state, "sync.Mutex.Lock") && !strings.HasPrefix(state, "semacquire") {
		return false
	}
	for _, ln := range lines[1:] {
		if strings.HasPrefix(ln, "\t") || strings.HasPrefix(ln, "sync.") || strings.HasPrefix(ln, "internal/sync.") || strings.HasPrefix(ln, "runtime.") || strings.HasPrefix(ln, "internal/runtime") {
			continue
		}
		return strings.HasPrefix(ln, "tunnox-core/internal/core/storage/hybrid.")
	}
	return false
}

func goid() uint64 {
	var b [64]byte
	n := runtime.Stack(b[:], false)
	f := strings.Fields(string(b[:n]))
	id, _ := strconv.ParseUint(f[1], 10, 64)
	return id
}

type access struct {
	Who   int    `json:"who"`
	Tier  int    `json:"tier"`
	M     string `json:"m"`
	Key   string `json:"key"`
	KI    int    `json:"ki"` // index of the key of the operation that made the call (-1 unknown)
	Op    string `json:"op"`
	Step  int    `json:"step"`
	Fault bool   `json:"fault"`
}

type opRec struct {
	Op    string `json:"op"`
	K     int    `json:"k"`
	V     int    `json:"v"`
	L     []int  `json:"l,omitempty"` // SetList: the list written
	Res   []any  `json:"res"`
	First int    `json:"first"`
	Last  int    `json:"last"`

	before, after string // canonical content of the key's three tiers when the operation made its first tier call / returned
	ret           any    // the value handed to the caller by Get (by reference)
	retCopy       string // its canonical content at that moment
}

type sched struct {
	mu     sync.Mutex
	n      int
	maxWb  int
	goids  map[uint64]int
	nextWb int
	arrive chan int
	wbLeft chan int
	resume []chan struct{}
	free   bool
	step   int
	cur    []*opRec
	acc    []access
	expWb  int
	faults [][]bool
	over   bool
	keys   []string
	wbRead []int // step of the persistent read that fed the j-th write-back

	noWb    bool       // repaired code: no write-back goroutine is spawned
	async   []asyncRec // tier calls made by goroutines that belong to no caller (spawned by the facade)
	seq     bool       // nodes mode: ungated sequential history; only write-back goroutines are tracked
	main    uint64
	wg      sync.WaitGroup
	onFirst func(who int, r *opRec) // sched mode: called when an operation makes its first tier call (state still untouched)
}

func (s *sched) keyIndex(key string) int {
	for i, k := range s.keys {
		if k == key {
			return i
		}
	}
	return -1
}

// enter gates one tier call; returns (who, injected fault)
func (s *sched) enter(tier int, method, key string) (int, bool) {
	if s == nil {
		return -1, false
	}
	id := goid()
	if s.seq {
		if id == s.main {
			return -1, false
		}
		fr := hybridFrame() // a goroutine spawned by the facade (the old write-back, or anything else asynchronous)
		s.mu.Lock()
		s.async = append(s.async, asyncRec{Who: -2, Tier: tier, M: method, Key: key, Frame: fr})
		s.mu.Unlock()
		return -2, false
	}
	s.mu.Lock()
	if s.free {
		s.mu.Unlock()
		return -1, false
	}
	who, ok := s.goids[id]
	if !ok {
		// a tier call from a goroutine that belongs to no caller: an asynchronous tier write by the facade.  It is parked like any
		// other step (schedule index n+j, j = arrival order) so that the schedule can delay it past other callers' operations.
		s.mu.Unlock()
		fr := hybridFrame()
		s.mu.Lock()
		if s.nextWb >= s.maxWb {
			s.over = true
			s.async = append(s.async, asyncRec{Who: -1, Tier: tier, M: method, Key: key, Frame: fr})
			s.mu.Unlock()
			return -1, false
		}
		who = s.n + s.nextWb
		s.nextWb++
		s.goids[id] = who
		s.async = append(s.async, asyncRec{Who: who, Tier: tier, M: method, Key: key, Frame: fr})
	}
	s.mu.Unlock()
	s.arrive <- who
	<-s.resume[who]
	s.mu.Lock()
	defer s.mu.Unlock()
	fault := false
	ki, opn := s.keyIndex(key), "writeback"
	if who < s.n {
		if len(s.faults[who]) > 0 {
			fault = s.faults[who][0]
			s.faults[who] = s.faults[who][1:]
		}
		if r := s.cur[who]; r != nil {
			if r.First < 0 {
				r.First = s.step
				if s.onFirst != nil {
					s.onFirst(who, r)
				}
			}
			r.Last = s.step
			ki, opn = r.K, r.Op
		}
	}
	s.acc = append(s.acc, access{Who: who, Tier: tier, M: method, Key: key, KI: ki, Op: opn, Step: s.step, Fault: fault})
	return who, fault
}

func (s *sched) leave(who int) {
	if s != nil && who == -2 {
		return
	}
	if s == nil || who < 0 {
		return
	}
	if who >= s.n {
		s.wbLeft <- who
	}
}

// ---- tier doubles -------------------------------------------------------------------------------

// cp copies list values on the way in and out, as a serialising tier (Redis, gRPC, JSON file) does.  memory.Storage
// hands out its internal slice by reference; hybrid.AppendToList then appends in place, so two overlapping calls
// additionally race on the shared backing array (which element survives depends on slice capacity).  The model
// has value semantics, so the doubles give the tiers value semantics too.
func cp(v any) any {
	if l, ok := v.([]interface{}); ok {
		return append(make([]interface{}, 0, len(l)), l...)
	}
	return v
}

type cacheDouble struct {
	under *memory.Storage
	tier  int
	s     *sched
	raw   bool // hand list values through BY REFERENCE, exactly like the real memory.Storage tier (aliasing mode)
}

func (c *cacheDouble) cp(v any) any {
	if c.raw {
		return v
	}
	return cp(v)
}

func (c *cacheDouble) Set(key string, v any, ttl time.Duration) error {
	who, f := c.s.enter(c.tier, "Set", key)
	defer c.s.leave(who)
	if f {
		return errInjected
	}
	return c.under.Set(key, c.cp(v), ttl)
}
func (c *cacheDouble) Get(key string) (any, error) {
	who, f := c.s.enter(c.tier, "Get", key)
	defer c.s.leave(who)
	if f {
		return nil, errInjected
	}
	v, err := c.under.Get(key)
	return c.cp(v), err
}
func (c *cacheDouble) Delete(key string) error {
	who, f := c.s.enter(c.tier, "Delete", key)
	defer c.s.leave(who)
	if f {
		return errInjected
	}
	return c.under.Delete(key)
}
func (c *cacheDouble) Exists(key string) (bool, error) {
	who, f := c.s.enter(c.tier, "Exists", key)
	defer c.s.leave(who)
	if f {
		return false, errInjected
	}
	return c.under.Exists(key)
}
func (c *cacheDouble) Close() error { return nil }
func (c *cacheDouble) SetNX(key string, v any, ttl time.Duration) (bool, error) {
	who, f := c.s.enter(c.tier, "SetNX", key)
	defer c.s.leave(who)
	if f {
		return false, errInjected
	}
	return c.under.SetNX(key, c.cp(v), ttl)
}
func (c *cacheDouble) Incr(key string) (int64, error) { return c.IncrBy(key, 1) }
func (c *cacheDouble) IncrBy(key string, d int64) (int64, error) {
	who, f := c.s.enter(c.tier, "IncrBy", key)
	defer c.s.leave(who)
	if f {
		return 0, errInjected
	}
	return c.under.IncrBy(key, d)
}

// plainCache exposes only the five CacheStorage methods of a cache double: hybrid.IncrBy and hybrid.SetNX then take their fallback
// paths (cache.Get + cache.Set, cache.Exists + cache.Set) — the facade's own read-modify-writes on the cache tier
type plainCache struct{ d *cacheDouble }

func (p plainCache) Set(key string, v any, ttl time.Duration) error { return p.d.Set(key, v, ttl) }
func (p plainCache) Get(key string) (any, error)                    { return p.d.Get(key) }
func (p plainCache) Delete(key string) error                        { return p.d.Delete(key) }
func (p plainCache) Exists(key string) (bool, error)                { return p.d.Exists(key) }
func (p plainCache) Close() error                                   { return nil }

type persDouble struct {
	mu   sync.Mutex
	m    map[string]any
	s    *sched
	json bool // store lists as JSON text, like the remote / database tier (and Redis) do: Get returns a string, GetList decodes it
}

// toStored: the form in which a JSON-text tier keeps a list
func toStored(v any) any {
	if l, ok := v.([]interface{}); ok {
		b, _ := json.Marshal(l)
		return string(b)
	}
	return v
}

func (p *persDouble) Set(key string, v any) error {
	who, f := p.s.enter(tPers, "Set", key)
	defer p.s.leave(who)
	if f {
		return errInjected
	}
	p.mu.Lock()
	defer p.mu.Unlock()
	if p.json {
		v = toStored(v)
	}
	p.m[key] = cp(v)
	return nil
}
func (p *persDouble) Get(key string) (any, error) {
	who, f := p.s.enter(tPers, "Get", key)
	defer p.s.leave(who)
	if f {
		return nil, errInjected
	}
	p.mu.Lock()
	defer p.mu.Unlock()
	v, ok := p.m[key]
	if !ok {
		return nil, types.ErrKeyNotFound
	}
	if p.s != nil {
		p.s.mu.Lock()
		p.s.expWb++ // hybrid.Get / getSharedPersistent spawn one write-back per successful persistent read
		p.s.wbRead = append(p.s.wbRead, p.s.step)
		p.s.mu.Unlock()
	}
	return cp(v), nil
}
func (p *persDouble) Delete(key string) error {
	who, f := p.s.enter(tPers, "Delete", key)
	defer p.s.leave(who)
	if f {
		return errInjected
	}
	p.mu.Lock()
	defer p.mu.Unlock()
	delete(p.m, key)
	return nil
}
func (p *persDouble) Exists(key string) (bool, error) {
	who, f := p.s.enter(tPers, "Exists", key)
	defer p.s.leave(who)
	if f {
		return false, errInjected
	}
	p.mu.Lock()
	defer p.mu.Unlock()
	_, ok := p.m[key]
	return ok, nil
}
func (p *persDouble) BatchSet(items map[string]any) error { return nil }
func (p *persDouble) BatchGet(keys []string) (map[string]any, error) {
	return map[string]any{}, nil
}
func (p *persDouble) BatchDelete(keys []string) error { return nil }
func (p *persDouble) QueryByField(a, b string, c any) ([]string, error) {
	return nil, types.ErrKeyNotFound
}
func (p *persDouble) QueryByPrefix(prefix string, limit int) (map[string]string, error) {
	return map[string]string{}, nil
}
func (p *persDouble) Close() error { return nil }

// ---- values -------------------------------------------------------------------------------------

func sval(n int) any { return fmt.Sprintf("v%d", n) }
func lval(l []int) any {
	out := []interface{}{}
	for _, e := range l {
		out = append(out, fmt.Sprintf("e%d", e))
	}
	return out
}

// encVal: [0,n] string "v<n>", [1,[..]] list of "e<n>", [2,n] int64, [3] anything else
func encVal(x any) []any {
	switch v := x.(type) {
	case string:
		if strings.HasPrefix(v, "[") { // a list kept as JSON text
			var l []interface{}
			if json.Unmarshal([]byte(v), &l) == nil {
				return encVal(l)
			}
		}
		if strings.HasPrefix(v, "v") {
			if n, err := strconv.Atoi(v[1:]); err == nil {
				return []any{0, n}
			}
		}
	case []interface{}:
		l := []int{}
		for _, e := range v {
			s, ok := e.(string)
			if !ok || !strings.HasPrefix(s, "e") {
				return []any{3}
			}
			n, err := strconv.Atoi(s[1:])
			if err != nil {
				return []any{3}
			}
			l = append(l, n)
		}
		return []any{1, l}
	case int64:
		if v >= 0 {
			return []any{2, int(v)}
		}
	}
	return []any{3}
}

type opIn struct {
	Op string `json:"op"`
	K  int    `json:"k"`
	V  int    `json:"v"`
	L  *[]int `json:"l"`
}
type thrIn struct {
	Ops    []opIn `json:"ops"`
	Faults []bool `json:"faults"`
}
type initIn struct {
	Tier int    `json:"tier"`
	K    int    `json:"k"`
	V    *int   `json:"v"`
	L    *[]int `json:"l"`
	I    *int   `json:"i"`
}
type caseIn struct {
	Mode    string   `json:"mode"` // sched | cat | stress | probe
	Shared  bool     `json:"shared"`
	Pers    bool     `json:"pers"`
	Keys    []string `json:"keys"`
	Kinds   []string `json:"kinds"` // per key: "s" scalar, "l" list, "c" counter, "x" routing only
	Init    []initIn `json:"init"`
	Threads []thrIn  `json:"threads"`
	Sched   []int    `json:"sched"`
	MaxWb   int      `json:"max_wb"`
	Reader  bool     `json:"reader"` // the last caller only runs once everything else (write-backs included) has quiesced
	JSONP   bool     `json:"jsonp"`  // the persistent tier (and seeded cache entries) hold lists as JSON text
	Plain   bool     `json:"plain"`  // cache tiers without SetNX / IncrBy: the facade's fallback read-modify-writes run
	Raw     bool     `json:"raw"`    // cache tiers hand lists through by reference (the real memory.Storage behaviour)
	Locks   string   `json:"locks"`  // "" pinned code; "wb" key lock + synchronous cache fill; "wb+list" list operations hold it too
	Nodes   int      `json:"nodes"`  // nodes mode: number of hybrid instances with private local caches
	Steps   []stepIn `json:"steps"`  // nodes mode: sequential cross-node history (node -1 = a fresh cold-cache node)
	N       int      `json:"n"`
	M       int      `json:"m"`
	Kind    string   `json:"kind"`
}
type viol struct {
	Kind string `json:"kind"`
	Msg  string `json:"msg"`
	K    int    `json:"k"`
	Sup  string `json:"sup,omitempty"` // stale-read: the completed mutation the read should have reflected
}
type caseOut struct {
	Logs      [][]*opRec `json:"logs"`
	Sched     []int      `json:"sched"`
	Acc       []access   `json:"acc"`
	Final     [3][][]any `json:"final"` // per tier: [key index, value]
	Spawned   int        `json:"spawned"`
	Cats      []int      `json:"cats"`
	CacheSh   []bool     `json:"cache_shared"`
	Viol      []viol     `json:"viol"`
	WbRead    []int      `json:"wb_read"`
	LockNote  string     `json:"lock_note,omitempty"`
	Ng        int        `json:"stack_dumps"`
	Async     []asyncRec `json:"async"`
	WbMissing bool       `json:"wb_missing"`
	Overflow  bool       `json:"overflow"`
	Extra     any        `json:"extra,omitempty"`
}

type rig struct {
	h      *hybrid.Storage
	local  *memory.Storage
	shared *memory.Storage
	pers   *persDouble
	cancel context.CancelFunc
}

func newRig(c caseIn, s *sched) *rig {
	ctx, cancel := context.WithCancel(context.Background())
	r := &rig{local: memory.New(ctx), cancel: cancel}
	cfg := hybrid.DefaultConfig()
	cfg.EnablePersistent = c.Pers
	var sc types.CacheStorage
	if c.Shared {
		r.shared = memory.New(ctx)
		sc = &cacheDouble{under: r.shared, tier: tShared, s: s, raw: c.Raw}
		if c.Plain {
			sc = plainCache{sc.(*cacheDouble)}
		}
	}
	var ps types.PersistentStorage
	if c.Pers {
		r.pers = &persDouble{m: map[string]any{}, s: s, json: c.JSONP}
		ps = r.pers
	}
	var lc types.CacheStorage = &cacheDouble{under: r.local, tier: tLocal, s: s, raw: c.Raw}
	if c.Plain {
		lc = plainCache{lc.(*cacheDouble)}
	}
	r.h = hybrid.NewWithSharedCache(ctx, lc, sc, ps, cfg)
	return r
}

func (r *rig) seed(c caseIn) {
	for _, in := range c.Init {
		var v any
		switch {
		case in.L != nil:
			v = lval(*in.L)
		case in.I != nil:
			v = int64(*in.I)
		case in.V != nil:
			v = sval(*in.V)
		default:
			continue
		}
		if c.JSONP {
			v = toStored(v)
		}
		key := c.Keys[in.K]
		switch in.Tier {
		case tLocal:
			r.local.Set(key, v, 0)
		case tShared:
			if r.shared != nil {
				r.shared.Set(key, v, 0)
			}
		case tPers:
			if r.pers != nil {
				r.pers.m[key] = v
			}
		}
	}
}

// snapKey: canonical content of one key in the three tiers (read directly, deep)
func (r *rig) snapKey(c caseIn, k int) string {
	key := c.Keys[k]
	var o [3]any
	if v, err := r.local.Get(key); err == nil {
		o[0] = encVal(v)
	}
	if r.shared != nil {
		if v, err := r.shared.Get(key); err == nil {
			o[1] = encVal(v)
		}
	}
	if r.pers != nil {
		r.pers.mu.Lock()
		if v, ok := r.pers.m[key]; ok {
			o[2] = encVal(v)
		}
		r.pers.mu.Unlock()
	}
	// a cache entry that merely mirrors the persistent tier carries no information of its own (a cache fill is not a change)
	for t := 0; t < 2; t++ {
		if o[t] != nil && o[2] != nil && canon(o[t]) == canon(o[2]) {
			o[t] = nil
		}
	}
	return canon(o)
}

func (r *rig) snapshot(c caseIn) (out [3][][]any) {
	for t := 0; t < 3; t++ {
		out[t] = [][]any{}
	}
	for i, k := range c.Keys {
		if v, err := r.local.Get(k); err == nil {
			out[tLocal] = append(out[tLocal], []any{i, encVal(v)})
		}
		if r.shared != nil {
			if v, err := r.shared.Get(k); err == nil {
				out[tShared] = append(out[tShared], []any{i, encVal(v)})
			}
		}
		if r.pers != nil {
			if v, ok := r.pers.m[k]; ok {
				out[tPers] = append(out[tPers], []any{i, encVal(v)})
			}
		}
	}
	return
}

func resErr(err error) []any {
	if err == nil {
		return []any{0}
	}
	if errors.Is(err, types.ErrKeyNotFound) {
		return []any{2}
	}
	return []any{1}
}

func doOp(h *hybrid.Storage, keys []string, op opIn) []any {
	res, _ := doOpV(h, keys, op)
	return res
}

func doOpV(h *hybrid.Storage, keys []string, op opIn) ([]any, any) {
	key := keys[op.K]
	var val any = sval(op.V)
	if op.L != nil {
		val = lval(*op.L)
	}
	switch op.Op {
	case "set":
		return resErr(h.Set(key, val, 0)), nil
	case "setlist": // the facade's third list writer: SetList(key, values, ttl)
		l, _ := val.([]interface{})
		return resErr(h.SetList(key, l, 0)), nil
	case "get":
		v, err := h.Get(key)
		if err != nil {
			return resErr(err), nil
		}
		return []any{3, encVal(v)}, v
	case "getlist": // the list reader of the facade (decodes JSON text)
		l, err := h.GetList(key)
		if err != nil {
			return resErr(err), nil
		}
		return []any{3, encVal(l)}, l
	case "del":
		return resErr(h.Delete(key)), nil
	case "exists":
		b, err := h.Exists(key)
		if err != nil {
			return resErr(err), nil
		}
		return []any{4, b}, nil
	case "append":
		return resErr(h.AppendToList(key, fmt.Sprintf("e%d", op.V))), nil
	case "remove":
		return resErr(h.RemoveFromList(key, fmt.Sprintf("e%d", op.V))), nil
	case "incr":
		n, err := h.Incr(key)
		if err != nil {
			return resErr(err), nil
		}
		return []any{5, int(n)}, nil
	case "setnx":
		ok, err := h.SetNX(key, val, 0)
		if err != nil {
			return resErr(err), nil
		}
		return []any{4, ok}, nil
	// operations outside the model: only their tier routing is judged
	case "incrby":
		n, err := h.IncrBy(key, int64(op.V))
		if err != nil {
			return resErr(err), nil
		}
		return []any{5, int(n)}, nil
	case "sethash":
		return resErr(h.SetHash(key, "f", val)), nil
	case "gethash":
		_, err := h.GetHash(key, "f")
		return resErr(err), nil
	case "delhash":
		return resErr(h.DeleteHash(key, "f")), nil
	case "setexp":
		return resErr(h.SetExpiration(key, time.Hour)), nil
	}
	panic("unknown op " + op.Op)
}

var wbWait = 3 * time.Second

func allowedTier(cat int, shared, pers bool, tier int) bool {
	cacheT := tLocal
	if (cat == 2 || cat == 3) && shared {
		cacheT = tShared
	}
	if tier == cacheT {
		return true
	}
	return tier == tPers && pers && (cat == 1 || cat == 3)
}

func runSched(c caseIn) *caseOut {
	out := &caseOut{Viol: []viol{}}
	n := len(c.Threads)
	tot := n + c.MaxWb
	s := &sched{n: n, maxWb: c.MaxWb, goids: map[uint64]int{}, arrive: make(chan int), wbLeft: make(chan int),
		resume: make([]chan struct{}, tot), cur: make([]*opRec, n), faults: make([][]bool, n), keys: c.Keys}
	for i := range s.resume {
		s.resume[i] = make(chan struct{})
	}
	r := newRig(c, s)
	defer r.cancel()
	r.seed(c)
	s.onFirst = func(who int, rec *opRec) { rec.before = r.snapKey(c, rec.K) }
	for i := range c.Keys {
		out.Cats = append(out.Cats, hybrid.VerifCategory(r.h, c.Keys[i]))
		out.CacheSh = append(out.CacheSh, hybrid.VerifCacheForKeyIsShared(r.h, c.Keys[i]))
	}
	// hybrid-visible initial value per key: cache tier content, else persistent content
	visible := func(k int) string {
		key := c.Keys[k]
		var v any
		var err error
		if (out.Cats[k] == 2 || out.Cats[k] == 3) && c.Shared {
			v, err = r.shared.Get(key)
		} else {
			v, err = r.local.Get(key)
		}
		if err == nil {
			return canon(encVal(v))
		}
		if c.Pers && (out.Cats[k] == 1 || out.Cats[k] == 3) {
			if pv, ok := r.pers.m[key]; ok {
				return canon(encVal(pv))
			}
		}
		return "none"
	}
	initVis := make([]string, len(c.Keys))
	for k := range c.Keys {
		initVis[k] = visible(k)
	}
	logs := make([][]*opRec, n)
	done := make([]chan struct{}, n)
	doneCh := make(chan int, n+1)
	for i, t := range c.Threads {
		s.faults[i] = append([]bool(nil), t.Faults...)
		done[i] = make(chan struct{})
		ready := make(chan struct{})
		go func(i int, t thrIn) {
			defer func() { close(done[i]); doneCh <- i }()
			s.mu.Lock()
			s.goids[goid()] = i
			s.mu.Unlock()
			close(ready)
			for _, op := range t.Ops {
				rec := &opRec{Op: op.Op, K: op.K, V: op.V, First: -1, Last: -1}
				if op.L != nil {
					rec.L = append([]int{}, (*op.L)...)
				}
				s.mu.Lock()
				s.cur[i] = rec
				s.mu.Unlock()
				res, rv := doOpV(r.h, c.Keys, op)
				if l, ok := rv.([]interface{}); ok {
					rec.ret, rec.retCopy = l, canon(encVal(l))
				}
				rec.after = r.snapKey(c, op.K)
				s.mu.Lock()
				rec.Res = res
				s.cur[i] = nil
				logs[i] = append(logs[i], rec)
				s.mu.Unlock()
			}
		}(i, t)
		<-ready
	}
	parked := make([]bool, tot)
	finished := make([]bool, tot)
	blocked := make([]bool, n)   // waiting for the key lock of the repaired code (sync.Mutex.Lock inside hybrid)
	arrived := make([]bool, tot) // parked since the last settle round
	wbArrived := 0
	note := func(j int) {
		parked[j] = true
		arrived[j] = true
		if j < n {
			blocked[j] = false
		}
		if j >= n {
			wbArrived++
		}
	}
	gids := make([]uint64, n)
	s.mu.Lock()
	for g, i := range s.goids {
		if i < n {
			gids[i] = g
		}
	}
	s.mu.Unlock()
	// settleAll: wait until every caller is parked at a tier call, finished, or blocked on hybrid's key lock.  "Blocked" is
	// read off the goroutine's state and stack ([sync.Mutex.Lock] called directly from package hybrid), in a dump taken
	// after every other caller has settled — nobody can release a lock any more at that point.
	// poll: busy-wait (timers are far too coarse here) up to d for an arrival or a finished caller
	poll := func(d time.Duration) bool {
		for t0 := time.Now(); ; {
			select {
			case j := <-s.arrive:
				note(j)
				return true
			case i := <-doneCh:
				finished[i] = true
				return true
			default:
			}
			if time.Since(t0) > d {
				return false
			}
			runtime.Gosched()
		}
	}
	settleAll := func() {
		deadline := time.Now().Add(20 * time.Second)
		for {
			var pending []int
			for i := 0; i < n; i++ {
				if !parked[i] && !finished[i] {
					pending = append(pending, i)
				}
			}
			if len(pending) == 0 {
				return
			}
			if c.Locks == "" {
				select {
				case j := <-s.arrive:
					note(j)
					continue
				case i := <-doneCh:
					finished[i] = true
					continue
				case <-time.After(20 * time.Second):
				}
			} else if poll(40 * time.Microsecond) {
				continue
			}
			if c.Locks != "" {
				dump := allStacks()
				all := true
				for _, i := range pending {
					if !blockedOnHybridLock(dump, gids[i]) {
						all = false
					}
				}
				if all {
					// confirm with a second, later dump: a caller that is really waiting for the key lock stays exactly there
					if poll(30 * time.Microsecond) {
						continue
					}
					dump2 := allStacks()
					for _, i := range pending {
						if !blockedOnHybridLock(dump2, gids[i]) {
							all = false
						}
					}
					if !all {
						continue
					}
					for _, i := range pending {
						blocked[i] = true
					}
					return
				}
			}
			if time.Now().After(deadline) {
				out.Viol = append(out.Viol, viol{Kind: "harness-timeout", Msg: fmt.Sprintf("callers %v neither reached a tier call, finished nor blocked on the key lock within 20s", pending), K: -1})
				for _, i := range pending {
					finished[i] = true
				}
				return
			}
		}
	}
	waitWb := func() {
		if c.Locks != "" { // repaired code: the cache fill is synchronous, no write-back goroutine exists
			return
		}
		for {
			s.mu.Lock()
			exp := s.expWb
			s.mu.Unlock()
			if exp > c.MaxWb {
				exp = c.MaxWb
			}
			if wbArrived >= exp {
				return
			}
			select {
			case j := <-s.arrive:
				note(j)
			case <-time.After(wbWait):
				out.WbMissing = true
				wbWait = 50 * time.Millisecond
				return
			}
		}
	}
	// lock acquisitions are not tier calls: the harness observes them (the key's lock is held and a caller that can hold it
	// has just parked) and records them as an extra entry of that caller in the executed schedule; the model's step of a
	// caller that wants the lock is "acquire it if free".
	type holderRec struct {
		thread int
		rec    *opRec
	}
	holder := make([]holderRec, len(c.Keys))
	for k := range holder {
		holder[k].thread = -1
	}
	canHold := func(i int) bool {
		s.mu.Lock()
		rec := s.cur[i]
		s.mu.Unlock()
		if rec == nil {
			return false
		}
		switch rec.Op {
		case "set", "setlist", "del", "setnx", "incr", "incrby", "setexp":
			return true
		case "append", "remove":
			return c.Locks == "wb+list" || rec.First >= 0
		case "get", "getlist":
			return rec.First >= 0
		}
		return false
	}
	emitAcquisitions := func(stepped int, wasBlocked []bool) {
		if c.Locks == "" {
			return
		}
		for k := range c.Keys {
			held, ok := hybrid.VerifKeyLockHeld(r.h, c.Keys[k])
			if !ok || !held {
				holder[k] = holderRec{thread: -1}
				continue
			}
			if h := holder[k]; h.thread >= 0 {
				s.mu.Lock()
				same := s.cur[h.thread] == h.rec
				s.mu.Unlock()
				if same && !finished[h.thread] {
					continue
				}
			}
			cand := -1
			for i := 0; i < n; i++ {
				if !arrived[i] || !parked[i] || !canHold(i) {
					continue
				}
				s.mu.Lock()
				onKey := s.cur[i] != nil && s.cur[i].K == k
				s.mu.Unlock()
				if !onKey {
					continue
				}
				if cand < 0 || (wasBlocked[i] && !wasBlocked[cand]) || (i == stepped && !wasBlocked[cand] && cand != stepped && false) {
					cand = i
				}
			}
			if cand >= 0 {
				s.mu.Lock()
				holder[k] = holderRec{thread: cand, rec: s.cur[cand]}
				s.mu.Unlock()
				out.Sched = append(out.Sched, cand)
			} else {
				out.LockNote = fmt.Sprintf("the lock of key %q was held although no parked caller of a locking operation could be holding it", c.Keys[k])
			}
		}
		for i := range arrived {
			arrived[i] = false
		}
	}
	// goroutines spawned by the facade must have reached their tier call (and be parked) before the next step is taken, otherwise
	// their position in the schedule would depend on the Go scheduler.  Cheap test first (number of live goroutines), stack dump
	// only when something unknown is alive.
	base := 0
	waitAsync := func() {
		deadline := time.Now().Add(5 * time.Second)
		for {
			nf, na := 0, 0
			for i := 0; i < n; i++ {
				if finished[i] {
					nf++
				}
			}
			for j := n; j < tot; j++ {
				if parked[j] && !finished[j] {
					na++
				}
			}
			if runtime.NumGoroutine() <= base-nf+na {
				return
			}
			if spawnedPending(allStacks()) == 0 {
				return
			}
			poll(60 * time.Microsecond)
			if time.Now().After(deadline) {
				out.WbMissing = true
				return
			}
		}
	}
	settleAll()
	base = runtime.NumGoroutine()
	emitAcquisitions(-1, make([]bool, n))
	stepOne := func(i int) {
		out.Sched = append(out.Sched, i)
		if i < 0 || i >= tot || finished[i] || !parked[i] {
			return
		}
		s.mu.Lock()
		s.step = len(out.Sched) - 1
		s.mu.Unlock()
		wasBlocked := append([]bool(nil), blocked...)
		parked[i] = false
		s.resume[i] <- struct{}{}
		if i < n {
			settleAll()
			waitWb()
			waitAsync()
			emitAcquisitions(i, wasBlocked)
		} else {
			<-s.wbLeft
			finished[i] = true
		}
	}
	for _, i := range c.Sched {
		stepOne(i)
	}
	drain := func(lim int) {
		for progress := true; progress; {
			progress = false
			for i := 0; i < lim; i++ {
				for parked[i] && !finished[i] {
					stepOne(i)
					progress = true
				}
			}
			for j := n; j < tot; j++ {
				if parked[j] && !finished[j] {
					stepOne(j)
					progress = true
				}
			}
			if !progress && c.Locks != "" {
				// nothing can move although callers are unfinished: re-examine the callers believed to be blocked before giving up
				stuck := false
				for i := 0; i < lim; i++ {
					if !finished[i] && !parked[i] {
						blocked[i], stuck = false, true
					}
				}
				if stuck {
					settleAll()
					for i := 0; i < lim; i++ {
						if parked[i] && !finished[i] {
							progress = true
							out.LockNote = fmt.Sprintf("caller %d had been judged blocked on the key lock but went on without anybody releasing it", i)
						}
					}
				}
			}
		}
	}
	if c.Reader && n > 0 {
		drain(n - 1)
	}
	drain(n)
	for i := 0; i < n; i++ {
		if !finished[i] {
			select {
			case <-done[i]:
			case <-time.After(5 * time.Second):
				out.Viol = append(out.Viol, viol{Kind: "harness-deadlock", K: -1, Msg: fmt.Sprintf("caller %d never finished (blocked=%v parked=%v)", i, blocked[i], parked[i])})
			}
		}
	}
	if out.Sched == nil {
		out.Sched = []int{}
	}
	s.mu.Lock()
	out.Acc = s.acc
	out.Spawned = s.nextWb
	out.Overflow = s.over
	out.Ng = nDumps
	out.Async = append([]asyncRec{}, s.async...)
	out.WbRead = append([]int{}, s.wbRead...)
	s.free = true
	s.mu.Unlock()
	if out.Acc == nil {
		out.Acc = []access{}
	}
	out.Final = r.snapshot(c)
	for i := range logs {
		if logs[i] == nil {
			logs[i] = []*opRec{}
		}
	}
	out.Logs = logs

	// ---------------- property predicates on the real outputs ----------------
	// (1) tier routing
	for _, a := range out.Acc {
		ki := a.KI
		if ki < 0 {
			continue
		}
		if !allowedTier(out.Cats[ki], c.Shared, c.Pers, a.Tier) {
			out.Viol = append(out.Viol, viol{Kind: "routing:" + a.Op, K: ki, Msg: fmt.Sprintf("%s on key %q (category %d, shared cache %v, persistence %v) called %s on tier %d, which Set/Get/Delete never use for this key",
				a.Op, c.Keys[ki], out.Cats[ki], c.Shared, c.Pers, a.M, a.Tier)})
		}
	}
	var all []*opRec
	for i := range logs {
		all = append(all, logs[i]...)
	}
	kind := func(k int) string {
		if k < len(c.Kinds) {
			return c.Kinds[k]
		}
		return "x"
	}
	for k := range c.Keys {
		switch kind(k) {
		case "s":
			out.Viol = append(out.Viol, staleReads(c, k, all, initVis[k])...)
		case "c":
			out.Viol = append(out.Viol, counterPred(c, k, all)...)
		}
	}
	// (4) list updates all take effect: read every list key back through the real facade, at quiescence
	for k := range c.Keys {
		if kind(k) != "l" {
			continue
		}
		v, err := r.h.Get(c.Keys[k])
		got := map[int]bool{}
		if err == nil {
			if e := encVal(v); len(e) == 2 && e[0] == 1 {
				for _, x := range e[1].([]int) {
					got[x] = true
				}
			}
		}
		out.Viol = append(out.Viol, listPred(c, k, all, got)...)
	}
	out.Viol = append(out.Viol, aliasPreds(c, out, all, kind)...)
	return out
}

// aliasPreds: (a) a list operation that returns an error leaves the stored list (all three tiers) exactly as it found it,
// provided nobody else touched the key meanwhile; (b) a value handed to a caller by Get never changes afterwards;
// (c) every list ever read or left in a tier of a list key is duplicate-free and made of members somebody put there.
func aliasPreds(c caseIn, out *caseOut, all []*opRec, kind func(int) string) []viol {
	var vs []viol
	n := len(c.Threads)
	for who, lg := range out.Logs {
		for _, o := range lg {
			if (o.Op == "append" || o.Op == "remove") && o.First >= 0 && int(toInt(o.Res[0])) == 1 && o.before != "" && o.before != o.after {
				foreign, nfault := false, 0
				for _, a := range out.Acc {
					if a.KI == o.K && a.Who != who && a.Step >= o.First && a.Step <= o.Last+1 {
						foreign = true
					}
					if a.Who == who && a.Fault && a.Step >= o.First && a.Step <= o.Last {
						nfault++
					}
				}
				if nfault > 1 { // two tier calls of one operation failed: the error reports an unknown outcome
					foreign = true
				}
				_ = n
				if !foreign {
					vs = append(vs, viol{Kind: "failed-list-op-changed-state", K: o.K, Msg: fmt.Sprintf("%s(e%d) on %q returned an error but the stored list changed from %s to %s (tiers local/shared/persistent) although nobody else touched the key",
						o.Op, o.V, c.Keys[o.K], o.before, o.after)})
				}
			}
			if o.ret != nil && canon(encVal(o.ret)) != o.retCopy {
				vs = append(vs, viol{Kind: "returned-value-mutated", K: o.K, Msg: fmt.Sprintf("the list returned by Get(%q) at step %d was %s and later read %s: a value already handed to a caller changed underneath it",
					c.Keys[o.K], o.Last, o.retCopy, canon(encVal(o.ret)))})
			}
		}
	}
	for k := range c.Keys {
		if kind(k) != "l" {
			continue
		}
		legit := map[int]bool{}
		for _, in := range c.Init {
			if in.K == k && in.L != nil {
				for _, e := range *in.L {
					legit[e] = true
				}
			}
		}
		clean := true
		for _, o := range all {
			if o.K != k {
				continue
			}
			switch o.Op {
			case "append":
				legit[o.V] = true
			case "setlist":
				for _, e := range o.L {
					legit[e] = true
				}
			case "set", "setnx":
				clean = false
			}
		}
		if !clean {
			continue
		}
		check := func(where string, e any) {
			ev, ok := e.([]any)
			if !ok || len(ev) != 2 || toInt(ev[0]) != 1 {
				return
			}
			l, ok := ev[1].([]int)
			if !ok {
				return
			}
			seen := map[int]bool{}
			for _, x := range l {
				if seen[x] || !legit[x] {
					vs = append(vs, viol{Kind: "list-corrupt", K: k, Msg: fmt.Sprintf("%s of %q is %v: a list no operation ever wrote (duplicate or foreign member e%d)", where, c.Keys[k], l, x)})
					return
				}
				seen[x] = true
			}
		}
		for _, o := range all {
			if o.K == k && (o.Op == "get" || o.Op == "getlist") && int(toInt(o.Res[0])) == 3 {
				check(fmt.Sprintf("the list returned by Get at step %d", o.Last), o.Res[1])
			}
		}
		for t := 0; t < 3; t++ {
			for _, e := range out.Final[t] {
				if int(toInt(e[0])) == k {
					check(fmt.Sprintf("the final content of tier %d", t), e[1])
				}
			}
		}
	}
	return vs
}

func canon(x any) string {
	b, _ := json.Marshal(x)
	return string(b)
}

type mut struct {
	first, last int
	val         string
	definite    bool
	what        string
}

// staleReads: regular-register freshness.  A read G may return the value of a mutation M (or the initial
// value) only if M is not superseded: there is no successful mutation M2 that began after M returned and
// returned before G began.
func staleReads(c caseIn, k int, all []*opRec, init string) []viol {
	var muts []mut
	for _, o := range all {
		if o.K != k || o.First < 0 {
			continue
		}
		code := int(toInt(o.Res[0]))
		switch o.Op {
		case "set":
			muts = append(muts, mut{o.First, o.Last, canon([]any{0, o.V}), code == 0, fmt.Sprintf("Set(v%d)", o.V)})
		case "setlist":
			muts = append(muts, mut{o.First, o.Last, canon([]any{1, o.L}), code == 0, fmt.Sprintf("SetList(%v)", o.L)})
		case "del":
			muts = append(muts, mut{o.First, o.Last, "none", code == 0, "Delete"})
		case "setnx":
			if code == 4 && o.Res[1] == true {
				muts = append(muts, mut{o.First, o.Last, canon([]any{0, o.V}), true, fmt.Sprintf("SetNX(v%d)", o.V)})
			} else if code != 4 {
				muts = append(muts, mut{o.First, o.Last, canon([]any{0, o.V}), false, fmt.Sprintf("SetNX(v%d)", o.V)})
			}
		}
	}
	var out []viol
	for _, g := range all {
		if g.K != k || g.First < 0 || (g.Op != "get" && g.Op != "getlist" && g.Op != "exists") {
			continue
		}
		code := int(toInt(g.Res[0]))
		var obs string
		switch {
		case g.Op != "exists" && code == 3:
			obs = canon(g.Res[1])
		case g.Op != "exists" && code == 2:
			obs = "none"
		case g.Op == "exists" && code == 4:
			obs = fmt.Sprint(g.Res[1])
		default:
			continue // the read itself failed: no claim
		}
		allowed := map[string]bool{}
		var newest *mut
		initOK := true
		for i := range muts {
			m2 := &muts[i]
			if m2.definite && m2.last < g.First {
				initOK = false
				if newest == nil || m2.last > newest.last {
					newest = m2
				}
			}
		}
		if initOK {
			allowed[init] = true
		}
		for i := range muts {
			m := &muts[i]
			if m.first > g.Last {
				continue
			}
			sup := false
			for j := range muts {
				m2 := &muts[j]
				if m2.definite && m2.first > m.last && m2.last < g.First {
					sup = true
					break
				}
			}
			if !sup {
				allowed[m.val] = true
			}
		}
		ok := allowed[obs]
		if g.Op == "exists" {
			ok = false
			for a := range allowed {
				if fmt.Sprint(a != "none") == obs {
					ok = true
				}
			}
		}
		if !ok {
			after, sup := "the initial state", "init"
			if newest != nil {
				after = fmt.Sprintf("%s, which had returned at step %d", newest.what, newest.last)
				sup = strings.SplitN(newest.what, "(", 2)[0]
			}
			out = append(out, viol{Kind: "stale-read", K: k, Sup: sup, Msg: fmt.Sprintf("%s of key %q at steps %d..%d returned %s after %s; values still current then: %v",
				g.Op, c.Keys[k], g.First, g.Last, obs, after, keysOf(allowed))})
		}
	}
	return out
}

func keysOf(m map[string]bool) []string {
	var o []string
	for k := range m {
		o = append(o, k)
	}
	sort.Strings(o)
	return o
}

func toInt(x any) int64 {
	switch v := x.(type) {
	case int:
		return int64(v)
	case int64:
		return v
	case float64:
		return int64(v)
	}
	return -1
}

// counterPred: successful Incr results on one counter are pairwise distinct, and when the key is only ever
// incremented the largest result equals initial + number of successful increments.
func counterPred(c caseIn, k int, all []*opRec) []viol {
	seen := map[int64]bool{}
	var out []viol
	cnt, max, only := int64(0), int64(0), true
	for _, o := range all {
		if o.K != k {
			continue
		}
		if o.Op != "incr" {
			if o.Op != "get" && o.Op != "exists" {
				only = false
			}
			continue
		}
		if int(toInt(o.Res[0])) != 5 {
			continue
		}
		v := toInt(o.Res[1])
		if seen[v] {
			out = append(out, viol{Kind: "incr-duplicate", K: k, Msg: fmt.Sprintf("two Incr calls on %q both returned %d", c.Keys[k], v)})
		}
		seen[v] = true
		cnt++
		if v > max {
			max = v
		}
	}
	init := int64(0)
	for _, in := range c.Init {
		if in.K == k && in.I != nil {
			init = int64(*in.I)
		}
	}
	if only && cnt > 0 && max != init+cnt {
		out = append(out, viol{Kind: "incr-lost", K: k, Msg: fmt.Sprintf("%d successful Incr calls on %q starting from %d ended at %d", cnt, c.Keys[k], init, max)})
	}
	return out
}

// listPred: every element whose Append succeeded (and that nobody removes) is in the list read back at
// quiescence, every initial element that nobody removes is still there, and an element whose Remove succeeded
// (and that nobody re-adds) is gone.  Elements are unique per Append.  Cases with SetList/Delete on the key
// make no claim about elements added before them.
func listPred(c caseIn, k int, all []*opRec, got map[int]bool) []viol {
	var out []viol
	var setlists []*opRec
	removes := map[int]bool{}
	removedOK := map[int]bool{}
	appended := map[int]bool{}
	for _, o := range all {
		if o.K != k {
			continue
		}
		if o.Op == "set" || o.Op == "del" || o.Op == "setnx" {
			return nil
		}
		if o.Op == "setlist" {
			setlists = append(setlists, o)
		}
		if o.Op == "remove" {
			removes[o.V] = true
			if int(toInt(o.Res[0])) == 0 {
				removedOK[o.V] = true
			}
		}
		if o.Op == "append" && int(toInt(o.Res[0])) == 0 {
			appended[o.V] = true
		}
	}
	initial := map[int]bool{}
	for _, in := range c.Init {
		if in.K == k && in.L != nil {
			for _, e := range *in.L {
				initial[e] = true
			}
		}
	}
	if len(setlists) > 1 {
		return nil // several SetList calls: which one is last depends on the schedule; the model comparison decides
	}
	if len(setlists) == 1 {
		// ONE SetList: once it has returned nil its members stay (nobody removes them) and every Append that began afterwards is added
		sl := setlists[0]
		if int(toInt(sl.Res[0])) == 0 {
			for _, e := range sl.L {
				if !removes[e] && !got[e] {
					out = append(out, viol{Kind: "list-lost-setlist", K: k, Msg: fmt.Sprintf("SetList(%v) on %q returned nil but member e%d is not in the list read back after all calls returned", sl.L, c.Keys[k], e)})
				}
			}
		}
		for _, o := range all {
			if o.K == k && o.Op == "append" && int(toInt(o.Res[0])) == 0 && o.First > sl.Last && !removes[o.V] && !got[o.V] {
				out = append(out, viol{Kind: "list-lost-append", K: k, Msg: fmt.Sprintf("Append(e%d) to %q began after SetList returned, returned nil, but e%d is not in the list read back", o.V, c.Keys[k], o.V)})
			}
		}
		return out
	}
	for e := range appended {
		if !removes[e] && !got[e] {
			out = append(out, viol{Kind: "list-lost-append", K: k, Msg: fmt.Sprintf("Append(e%d) to %q returned nil but e%d is not in the list read back after all calls returned", e, c.Keys[k], e)})
		}
	}
	for e := range initial {
		if !removes[e] && !got[e] {
			out = append(out, viol{Kind: "list-lost-member", K: k, Msg: fmt.Sprintf("initial member e%d of %q vanished although nobody removed it", e, c.Keys[k])})
		}
	}
	for e := range removedOK {
		if !appended[e] && got[e] {
			out = append(out, viol{Kind: "list-lost-remove", K: k, Msg: fmt.Sprintf("Remove(e%d) from %q returned nil but e%d is still in the list read back after all calls returned", e, c.Keys[k], e)})
		}
	}
	return out
}

// ---- category correspondence: real getCategory / getCacheForKey on arbitrary keys ------------------
func runCat(c caseIn) *caseOut {
	out := &caseOut{Viol: []viol{}, Sched: []int{}, Acc: []access{}, Logs: [][]*opRec{}}
	r := newRig(caseIn{Shared: true, Pers: true}, nil)
	defer r.cancel()
	for _, k := range c.Keys {
		out.Cats = append(out.Cats, hybrid.VerifCategory(r.h, k))
		out.CacheSh = append(out.CacheSh, hybrid.VerifCacheForKeyIsShared(r.h, k))
	}
	for t := 0; t < 3; t++ {
		out.Final[t] = [][]any{}
	}
	return out
}

// ---- contention supplement (ungated): N goroutines x M operations on one key -------------------------
func runStress(c caseIn) *caseOut {
	out := &caseOut{Viol: []viol{}, Sched: []int{}, Acc: []access{}, Logs: [][]*opRec{}}
	for t := 0; t < 3; t++ {
		out.Final[t] = [][]any{}
	}
	r := newRig(c, nil)
	defer r.cancel()
	key := c.Keys[0]
	var wg sync.WaitGroup
	res := make([][]int64, c.N)
	start := make(chan struct{})
	for i := 0; i < c.N; i++ {
		wg.Add(1)
		go func(i int) {
			defer wg.Done()
			<-start
			for j := 0; j < c.M; j++ {
				switch c.Kind {
				case "incr":
					v, err := r.h.Incr(key)
					if err == nil {
						res[i] = append(res[i], v)
					}
				case "append":
					if r.h.AppendToList(key, fmt.Sprintf("e%d", i*c.M+j)) == nil {
						res[i] = append(res[i], int64(i*c.M+j))
					}
				}
			}
		}(i)
	}
	close(start)
	wg.Wait()
	time.Sleep(5 * time.Millisecond)
	switch c.Kind {
	case "incr":
		seen := map[int64]bool{}
		dup, tot := 0, 0
		for _, l := range res {
			for _, v := range l {
				if seen[v] {
					dup++
				}
				seen[v] = true
				tot++
			}
		}
		if dup > 0 {
			out.Viol = append(out.Viol, viol{Kind: "incr-duplicate", K: 0, Msg: fmt.Sprintf("%d goroutines x %d Incr(%q): %d duplicate return values among %d", c.N, c.M, key, dup, tot)})
		}
		out.Extra = map[string]int{"total": tot, "duplicates": dup}
	case "append":
		v, _ := r.h.Get(key)
		got := map[int]bool{}
		if e := encVal(v); len(e) == 2 && e[0] == 1 {
			for _, x := range e[1].([]int) {
				got[x] = true
			}
		}
		lost, tot := 0, 0
		for _, l := range res {
			for _, x := range l {
				tot++
				if !got[int(x)] {
					lost++
				}
			}
		}
		if lost > 0 {
			out.Viol = append(out.Viol, viol{Kind: "list-lost-append", K: 0, Msg: fmt.Sprintf("%d goroutines x %d AppendToList(%q): %d of %d successful appends are missing from the final list", c.N, c.M, key, lost, tot)})
		}
		out.Extra = map[string]int{"total": tot, "lost": lost}
	}
	return out
}

func runCase(raw json.RawMessage) interface{} {
	var c caseIn
	must(json.Unmarshal(raw, &c))
	switch c.Mode {
	case "cat":
		return runCat(c)
	case "stress":
		return runStress(c)
	case "nodes":
		return runNodes(c)
	case "probe":
		return runProbe()
	case "tables":
		cfg := hybrid.DefaultConfig()
		return map[string][]string{"persistent": cfg.PersistentPrefixes, "shared": cfg.SharedPrefixes,
			"shared_persistent": cfg.SharedPersistentPrefixes, "runtime": hybrid.RuntimePrefixes}
	}
	return runSched(c)
}

func coqBytes(s string) string {
	var b []string
	for i := 0; i < len(s); i++ {
		b = append(b, strconv.Itoa(int(s[i])))
	}
	return "[" + strings.Join(b, ";") + "]"
}

func gen() {
	cfg := hybrid.DefaultConfig()
	fmt.Println("(* generated by verif_c14 gen from /repo's working tree — do not edit *)")
	fmt.Println("From Coq Require Import NArith List. Import ListNotations.")
	fmt.Println("Open Scope N_scope.")
	table := func(name string, l []string) {
		fmt.Printf("Definition %s : list (list N) := [\n", name)
		for i, p := range l {
			sep := ";"
			if i == len(l)-1 {
				sep = ""
			}
			fmt.Printf("  %s%s  (* %q *)\n", coqBytes(p), sep, p)
		}
		fmt.Println("].")
	}
	table("PersistentPrefixes", cfg.PersistentPrefixes)
	table("SharedPrefixes", cfg.SharedPrefixes)
	table("SharedPersistentPrefixes", cfg.SharedPersistentPrefixes)
	table("RuntimePrefixes", hybrid.RuntimePrefixes)
	k := hybrid.VerifCategoryConstants()
	fmt.Printf("Definition CatRuntime := %d. Definition CatPersistent := %d. Definition CatShared := %d. Definition CatSharedPersistent := %d.\n", k[0], k[1], k[2], k[3])
	fmt.Printf("Definition DefaultEnablePersistent : bool := %v.\n", cfg.EnablePersistent)
	// sample keys classified by the REAL getCategory / getCacheForKey (shared cache present)
	r := newRig(caseIn{Shared: true, Pers: true}, nil)
	defer r.cancel()
	var samples []string
	add := func(s string) { samples = append(samples, s) }
	for _, l := range [][]string{cfg.PersistentPrefixes, cfg.SharedPrefixes, cfg.SharedPersistentPrefixes, hybrid.RuntimePrefixes} {
		for _, p := range l {
			add(p)
			add(p + "42")
			add(p[:len(p)-1])
			add("x" + p)
		}
	}
	for _, s := range []string{"", "tunnox:", "tunnox:http_domain:next_id", "tunnox:http_domain:next_id:2", "tunnox:client_mappings:7", "webhook", "webhooks:all",
		"tunnox:runtime:conncode:abc", "tunnox:runtime:other", "tunnox:stats:persistent:x", "tunnox:persist:clients:list", "unrelated"} {
		add(s)
	}
	fmt.Println("(* (key, real getCategory, real getCacheForKey selects the shared cache) *)")
	fmt.Println("Definition sample_table : list (list N * N * bool) := [")
	for i, s := range samples {
		sep := ";"
		if i == len(samples)-1 {
			sep = ""
		}
		fmt.Printf("  (%s, %d, %v)%s\n", coqBytes(s), hybrid.VerifCategory(r.h, s), hybrid.VerifCacheForKeyIsShared(r.h, s), sep)
	}
	fmt.Println("].")
	fmt.Println("Close Scope N_scope.")
}

func main() {
	if len(os.Args) > 1 && os.Args[1] == "gen" {
		gen()
		return
	}
	forEachCase(runCase)
}

// ---- behavioural probes of the tree variant ---------------------------------------------------------
type probeCache struct {
	*cacheDouble
	onCall  func(m, key string)
	failSet bool
	failGet bool
	deleted bool
}

func (p *probeCache) Set(key string, v any, ttl time.Duration) error {
	p.onCall("Set", key)
	if p.failSet {
		return errInjected
	}
	return p.cacheDouble.Set(key, v, ttl)
}
func (p *probeCache) Get(key string) (any, error) {
	p.onCall("Get", key)
	if p.failGet {
		return nil, errInjected
	}
	return p.cacheDouble.Get(key)
}
func (p *probeCache) Delete(key string) error {
	p.deleted = true
	return p.cacheDouble.Delete(key)
}

func runProbe() map[string]bool {
	ctx, cancel := context.WithCancel(context.Background())
	defer cancel()
	out := map[string]bool{}
	var h *hybrid.Storage
	seen := map[string]bool{}
	pc := &probeCache{cacheDouble: &cacheDouble{under: memory.New(ctx), tier: tLocal}}
	pc.onCall = func(m, key string) {
		if held, ok := hybrid.VerifKeyLockHeld(h, key); ok && held {
			seen[m] = true
		}
	}
	cfg := hybrid.DefaultConfig()
	cfg.EnablePersistent = true
	h = hybrid.NewWithSharedCache(ctx, pc, nil, &persDouble{m: map[string]any{}}, cfg)
	_ = h.Set("tunnox:user:probe", "v1", 0)
	out["lock_in_set"] = seen["Set"]
	seen = map[string]bool{}
	_ = h.AppendToList("tunnox:temp:probe", "e1")
	out["lock_in_append"] = seen["Get"]
	seen = map[string]bool{}
	_ = h.SetExpiration("tunnox:user:probe", time.Hour)
	out["lock_in_setexp_read"] = seen["Get"]
	pc.failSet = true
	_ = h.Set("tunnox:user:probe", "v2", 0)
	out["invalidates"] = pc.deleted
	pc.failSet, pc.failGet = false, false
	_ = h.Set("tunnox:temp:probe2", "v1", 0)
	pc.failGet = true
	_, err := h.Get("tunnox:temp:probe2")
	out["read_error_is_error"] = err != nil && !errors.Is(err, types.ErrKeyNotFound)
	return out
}

//go:build verif

package adapter

import "io"

// VerifHandleConnection runs the real per-connection entry point (initializeConnection + connectionReadLoop +
// cleanupConnection) of the TCP adapter on an arbitrary connection.
func (t *TcpAdapter) VerifHandleConnection(conn io.ReadWriteCloser) { t.handleConnection(t, conn) }

//go:build verif

// verif_c05: hostile byte streams through the real StreamProcessor.ReadPacket (watchdog + allocation
// measurement) and every decoded packet through the real SessionManager.HandlePacket on a fresh
// connection of a fully wired server fixture (inside recover()).
package main

import (
	"bytes"
	"compress/gzip"
	"context"
	"encoding/binary"
	"encoding/json"
	"fmt"
	"io"
	"net"
	"os"
	"runtime"
	"runtime/debug"
	"strings"
	"sync/atomic"
	"time"

	"tunnox-core/internal/app/server"
	"tunnox-core/internal/constants"
	"tunnox-core/internal/core/storage/memory"
	"tunnox-core/internal/core/types"
	"tunnox-core/internal/packet"
	"tunnox-core/internal/protocol/adapter"
	"tunnox-core/internal/stream"
)

type chunkReader struct {
	data []byte
	cuts []int
}

func (c *chunkReader) Read(p []byte) (int, error) {
	if len(p) == 0 {
		return 0, nil
	}
	if len(c.data) == 0 {
		return 0, io.EOF
	}
	k := len(c.data)
	if len(c.cuts) > 0 {
		k = c.cuts[0]
		if k < 1 {
			k = 1
		}
		c.cuts = c.cuts[1:]
	}
	if k > len(p) {
		k = len(p)
	}
	if k > len(c.data) {
		k = len(c.data)
	}
	copy(p, c.data[:k])
	c.data = c.data[k:]
	return k, nil
}

// fake transport for fresh connections: reads block until closed, writes are swallowed
type fakeConn struct {
	ip     string
	closed chan struct{}
	wrote  int64
}

func newFakeConn(ip string) *fakeConn { return &fakeConn{ip: ip, closed: make(chan struct{})} }
func (f *fakeConn) Read(p []byte) (int, error) {
	<-f.closed
	return 0, io.EOF
}
func (f *fakeConn) Write(p []byte) (int, error) { atomic.AddInt64(&f.wrote, int64(len(p))); return len(p), nil }
func (f *fakeConn) Close() error {
	select {
	case <-f.closed:
	default:
		close(f.closed)
	}
	return nil
}
func (f *fakeConn) LocalAddr() net.Addr  { return &net.TCPAddr{IP: net.ParseIP("127.0.0.1"), Port: 7000} }
func (f *fakeConn) RemoteAddr() net.Addr { return &net.TCPAddr{IP: net.ParseIP(f.ip), Port: 40000} }
func (f *fakeConn) SetDeadline(time.Time) error      { return nil }
func (f *fakeConn) SetReadDeadline(time.Time) error  { return nil }
func (f *fakeConn) SetWriteDeadline(time.Time) error { return nil }

// hostileConn: a finite hostile byte stream delivered in chunks, then EOF; writes are swallowed
type hostileConn struct {
	chunkReader
	ip     string
	closed int32
}

func (h *hostileConn) Write(p []byte) (int, error) { return len(p), nil }
func (h *hostileConn) Close() error                { atomic.AddInt32(&h.closed, 1); return nil }
func (h *hostileConn) LocalAddr() net.Addr         { return &net.TCPAddr{IP: net.ParseIP("127.0.0.1"), Port: 7000} }
func (h *hostileConn) RemoteAddr() net.Addr        { return &net.TCPAddr{IP: net.ParseIP(h.ip), Port: 40001} }
func (h *hostileConn) SetDeadline(time.Time) error      { return nil }
func (h *hostileConn) SetReadDeadline(time.Time) error  { return nil }
func (h *hostileConn) SetWriteDeadline(time.Time) error { return nil }

// runLoop: the real per-connection read loop of the adapter (AcceptConnection -> ReadPacket -> HandlePacket -> ...
// -> cleanup) fed with a finite hostile stream: it must return, not panic, close the transport and leave the
// session's connection table as it found it.
func runLoop(wire []byte, cuts []int, out *caseOut) {
	connSeq++
	hc := &hostileConn{chunkReader: chunkReader{data: wire, cuts: append([]int(nil), cuts...)}, ip: fmt.Sprintf("192.0.2.%d", connSeq%250+1)}
	before := fx.Session.GetActiveConnections()
	ta := adapter.NewTcpAdapter(fx.Ctx, fx.Session)
	done := make(chan string, 1)
	go func() {
		defer func() {
			if r := recover(); r != nil {
				done <- fmt.Sprintf("panic: %v\n%s", r, string(debug.Stack()))
				return
			}
			done <- ""
		}()
		ta.VerifHandleConnection(hc)
	}()
	select {
	case p := <-done:
		if p != "" {
			out.Panicked = "connection read loop: " + firstLines(p, 14)
		}
	case <-time.After(20 * time.Second):
		out.TimedOut = true
		out.PropMsg = "the adapter's connection read loop did not return on a finite stream within 20s"
		return
	}
	// asynchronous work spawned by handlers (config push etc.) may still touch the connection briefly
	deadline := time.Now().Add(2 * time.Second)
	for fx.Session.GetActiveConnections() > before && time.Now().Before(deadline) {
		time.Sleep(5 * time.Millisecond)
	}
	if after := fx.Session.GetActiveConnections(); after > before && out.Panicked == "" {
		out.PropOK, out.PropMsg = false, fmt.Sprintf("connection table grew from %d to %d after the hostile connection ended (not cleaned up)", before, after)
	}
	if atomic.LoadInt32(&hc.closed) == 0 && out.Panicked == "" && out.PropOK {
		// a connection switched to stream mode is handed over and closed by the tunnel; anything else must be closed here
		out.Dispatched = -1
	}
}

type caseIn struct {
	Mode string `json:"mode"` // stream | bomb | dispatch | loop
	Wire string `json:"wire"`
	Cuts []int  `json:"cuts"`
	// bomb: a single compressed packet whose body inflates to Inflated bytes of Fill
	Ty       int `json:"ty"`
	Inflated int `json:"inflated"`
	Pre      []preIn `json:"pre,omitempty"` // dispatch: packets handed to the dispatcher on the SAME fresh connection before the packet under test
	BadJSON  bool `json:"badjson,omitempty"` // bomb on a command-carrying type: the inflated body is NOT JSON (bytes 0x01): the frame is refused; the refusal must stay within the allocation bound too
	// dispatch: one packet handed directly to HandlePacket
	Payload string                `json:"payload"`
	Cmd     *packet.CommandPacket `json:"cmd,omitempty"`
	NoDispatch bool `json:"no_dispatch"`
	Sweep      bool `json:"sweep,omitempty"` // retain: packet i carries command type i%256 on packet type 0x10/0x11 alternating every 256
	Reps       int  `json:"reps"` // retain: how many times the packet is dispatched on ONE connection
}
type obs struct {
	Ok   bool   `json:"ok"`
	Ty   int    `json:"ty"`
	Body string `json:"body"`
	N    int    `json:"n"`
	Err  string `json:"err,omitempty"`
}
type caseOut struct {
	Wire       string          `json:"wire"`
	WireLen    int             `json:"wire_len"`
	Obs        []obs           `json:"obs"`
	Infl       [][]interface{} `json:"infl"`
	Json       [][]interface{} `json:"json"`
	MaxPayload int             `json:"max_payload"`
	AllocBytes uint64          `json:"alloc_bytes"`
	Panicked   string          `json:"panicked"`
	TimedOut   bool            `json:"timed_out"`
	Dispatched int             `json:"dispatched"`
	DispErr    []bool          `json:"disp_err"`
	RetainedPerOp float64      `json:"retained_per_op"`
	PropOK     bool            `json:"prop_ok"`
	PropMsg    string          `json:"prop_msg"`
}

var fx *server.VerifFixture
var connSeq int

type preIn struct {
	Ty      int                   `json:"ty"`
	Payload string                `json:"payload"`
	Cmd     *packet.CommandPacket `json:"cmd,omitempty"`
}

var wedged bool

func dispatchWait() time.Duration {
	if wedged {
		return 500 * time.Millisecond
	}
	return 15 * time.Second
}

var dispatchPre []preIn // set by the "dispatch" case around freshDispatch

func freshDispatch(tp *packet.TransferPacket, out *caseOut) {
	connSeq++
	ip := fmt.Sprintf("198.51.%d.%d", (connSeq/250)%250, connSeq%250+1)
	fc := newFakeConn(ip)
	defer fc.Close()
	done := make(chan string, 1)
	var herr error
	go func() {
		defer func() {
			if r := recover(); r != nil {
				done <- fmt.Sprintf("panic: %v\n%s", r, string(debug.Stack()))
			}
		}()
		conn, err := fx.Session.CreateConnection(fc, fc)
		if err != nil {
			herr = err
			done <- ""
			return
		}
		for _, q := range dispatchPre {
			_ = fx.Session.HandlePacket(&types.StreamPacket{ConnectionID: conn.ID, Timestamp: time.Now(),
				Packet: &packet.TransferPacket{PacketType: packet.Type(q.Ty), Payload: unhx(q.Payload), CommandPacket: q.Cmd}})
		}
		herr = fx.Session.HandlePacket(&types.StreamPacket{ConnectionID: conn.ID, Packet: tp, Timestamp: time.Now()})
		_ = fx.Session.CloseConnection(conn.ID)
		done <- ""
	}()
	select {
	case p := <-done:
		if p != "" && out.Panicked == "" {
			out.Panicked = fmt.Sprintf("HandlePacket(type %#x): %s", byte(tp.PacketType), firstLines(p, 12))
		}
	case <-time.After(dispatchWait()):
		out.TimedOut = true
		out.PropMsg = fmt.Sprintf("HandlePacket(type %#x) did not return within %v", byte(tp.PacketType), dispatchWait())
		wedged = true // the session manager may be blocked for good: do not wait 15 s for every later case
	}
	out.Dispatched++
	out.DispErr = append(out.DispErr, herr != nil)
}

// stallConn: a peer that sends but never reads: every Write blocks until the transport is closed
type stallConn struct{ *fakeConn }

func (s *stallConn) Write(p []byte) (int, error) {
	<-s.closed
	return 0, io.ErrClosedPipe
}

// runStall: an unauthenticated peer A sends packets that make the server answer (heartbeat, handshake, command) and never reads
// the answers, so the server's reply write on A stalls.  That may hold up A's own dispatch, but it must not block the server:
// packets of a fresh, unrelated connection B must still be dispatched promptly, and connections must still be accepted and closed.
func runStall(c caseIn, out *caseOut) {
	connSeq++
	fa := &stallConn{newFakeConn(fmt.Sprintf("198.19.%d.%d", (connSeq/250)%250, connSeq%250+1))}
	connA, err := fx.Session.CreateConnection(fa, fa)
	if err != nil {
		out.PropOK, out.PropMsg = false, "CreateConnection: "+err.Error()
		return
	}
	aDone := make(chan struct{})
	go func() {
		defer close(aDone)
		defer func() { recover() }()
		tp := &packet.TransferPacket{PacketType: packet.Type(c.Ty), Payload: unhx(c.Payload), CommandPacket: c.Cmd}
		_ = fx.Session.HandlePacket(&types.StreamPacket{ConnectionID: connA.ID, Packet: tp, Timestamp: time.Now()})
	}()
	time.Sleep(30 * time.Millisecond) // let A's dispatch reach its reply write (or finish)
	bDone := make(chan string, 1)
	go func() {
		defer func() {
			if r := recover(); r != nil {
				bDone <- fmt.Sprintf("panic: %v", r)
			}
		}()
		connSeq++
		fb := newFakeConn(fmt.Sprintf("198.19.%d.%d", (connSeq/250)%250, connSeq%250+1))
		defer fb.Close()
		connB, err := fx.Session.CreateConnection(fb, fb)
		if err != nil {
			bDone <- ""
			return
		}
		for _, ty := range []byte{0x03, 0x01, 0x20} {
			_ = fx.Session.HandlePacket(&types.StreamPacket{ConnectionID: connB.ID,
				Packet: &packet.TransferPacket{PacketType: packet.Type(ty), Payload: []byte("{}")}, Timestamp: time.Now()})
		}
		_ = fx.Session.ListConnections()
		_ = fx.Session.CloseConnection(connB.ID)
		bDone <- ""
	}()
	select {
	case p := <-bDone:
		if p != "" {
			out.Panicked = p
		}
	case <-time.After(4 * time.Second):
		out.TimedOut = true
		out.PropMsg = fmt.Sprintf("a peer that sent a packet of type %#x and does not read the reply blocks the server: dispatch, listing and close of an UNRELATED fresh connection did not finish within 4s", byte(c.Ty))
	}
	fa.Close() // the stalled write fails now
	select {
	case <-aDone:
	case <-time.After(4 * time.Second):
		if !out.TimedOut {
			out.TimedOut = true
			out.PropMsg = fmt.Sprintf("dispatch of a packet of type %#x did not return within 4s after its transport was closed", byte(c.Ty))
		}
	}
	_ = fx.Session.CloseConnection(connA.ID)
	out.Dispatched = 1
}

// runRetain: the same pre-auth packet dispatched Reps times on ONE unauthenticated connection; the heap retained
// after a GC must not grow with the number of packets ("never ... retains memory beyond a fixed bound").
func runRetain(c caseIn, out *caseOut) {
	connSeq++
	fc := newFakeConn(fmt.Sprintf("198.18.%d.%d", (connSeq/250)%250, connSeq%250+1))
	defer fc.Close()
	conn, err := fx.Session.CreateConnection(fc, fc)
	if err != nil {
		out.PropOK, out.PropMsg = false, "CreateConnection: "+err.Error()
		return
	}
	defer fx.Session.CloseConnection(conn.ID)
	send := func(n int) string {
		for i := 0; i < n; i++ {
			tp := &packet.TransferPacket{PacketType: packet.Type(c.Ty), Payload: unhx(c.Payload)}
			if c.Cmd != nil {
				cp := *c.Cmd
				cp.CommandId = fmt.Sprintf("%s-%d", cp.CommandId, i)
				// every packet names fresh identifiers of its own (request ids, tunnel ids ...): state keyed by a peer-chosen id must not pile up
				cp.CommandBody = strings.ReplaceAll(cp.CommandBody, "@SEQ@", fmt.Sprintf("%d-%d", connSeq, i))
				if c.Sweep { // cycle through every command type and both command-carrying packet types
					cp.CommandType = packet.CommandType(i % 256)
					tp.PacketType = packet.Type(0x10 + (i/256)%2)
				}
				tp.CommandPacket = &cp
			}
			var pan string
			func() {
				defer func() {
					if r := recover(); r != nil {
						pan = fmt.Sprintf("panic: %v", r)
					}
				}()
				_ = fx.Session.HandlePacket(&types.StreamPacket{ConnectionID: conn.ID, Packet: tp, Timestamp: time.Now()})
			}()
			if pan != "" {
				return pan
			}
		}
		return ""
	}
	heap := func() uint64 {
		runtime.GC()
		runtime.GC()
		var m runtime.MemStats
		runtime.ReadMemStats(&m)
		return m.HeapAlloc
	}
	warm := 200
	if c.Sweep {
		warm = 512
	}
	if p := send(warm); p != "" { // warm-up: lazily created structures
		out.Panicked = p
		return
	}
	time.Sleep(20 * time.Millisecond)
	h0 := heap()
	if p := send(c.Reps); p != "" {
		out.Panicked = p
		return
	}
	time.Sleep(50 * time.Millisecond)
	h1 := heap()
	grow := float64(0)
	if h1 > h0 {
		grow = float64(h1-h0) / float64(c.Reps)
	}
	if c.Sweep { // judged on the total: one leaking (packet type, command type) pair in 512 must show
		grow = 0
		if h1 > h0+(768<<10) {
			grow = float64(h1-h0) / (float64(c.Reps) / 512) // per visit of the (single) leaking pair
		}
	}
	out.RetainedPerOp = grow
	out.Dispatched = c.Reps
}

func firstLines(s string, n int) string {
	ls := strings.Split(s, "\n")
	if len(ls) > n {
		ls = ls[:n]
	}
	return strings.Join(ls, "\n")
}

func isJSONType(t byte) bool { return packet.Type(t).IsJsonCommand() || packet.Type(t).IsCommandResp() }

// independent walk of the wire format, only to build the oracle tables the model needs
func tables(wire []byte, out *caseOut) {
	seenI := map[string]bool{}
	seenJ := map[string]bool{}
	s := wire
	for len(s) > 0 {
		ty := s[0]
		s = s[1:]
		if ty&0x3F == 3 {
			continue
		}
		if len(s) < 4 {
			return
		}
		n := binary.BigEndian.Uint32(s[:4])
		s = s[4:]
		if n > uint32(constants.MaxPacketBodySize) || uint32(len(s)) < n {
			return
		}
		body := s[:n]
		s = s[n:]
		if ty&0x80 != 0 {
			return
		}
		raw := body
		if ty&0x40 != 0 {
			k := hx(body)
			var res interface{}
			zr, err := gzip.NewReader(bytes.NewReader(body))
			var dec []byte
			if err == nil {
				dec, err = io.ReadAll(io.LimitReader(zr, int64(constants.MaxPacketBodySize)+1))
			}
			if err == nil && len(dec) > constants.MaxPacketBodySize {
				err = fmt.Errorf("too large")
			}
			if err == nil && len(dec) > 4096 {
				err = fmt.Errorf("not echoed") // large results are not pushed through the model; see big flag
			}
			if err == nil {
				res = hx(dec)
				raw = dec
			}
			if !seenI[k] {
				seenI[k] = true
				out.Infl = append(out.Infl, []interface{}{k, res})
			}
			if err != nil {
				return
			}
		}
		if isJSONType(ty) {
			var cp packet.CommandPacket
			ok := json.Unmarshal(raw, &cp) == nil
			k := hx(raw)
			if !seenJ[k] {
				seenJ[k] = true
				var norm interface{}
				if ok {
					nb, _ := json.Marshal(&cp)
					norm = hx(nb)
				}
				out.Json = append(out.Json, []interface{}{k, norm})
			}
			if !ok {
				return
			}
		}
	}
}

func runStream(wire []byte, cuts []int, echo bool, dispatch bool, out *caseOut) {
	type result struct {
		obs  []obs
		pkts []*packet.TransferPacket
		pan  string
	}
	done := make(chan result, 1)
	runtime.GC()
	var m0, m1 runtime.MemStats
	runtime.ReadMemStats(&m0)
	go func() {
		var res result
		defer func() {
			if r := recover(); r != nil {
				res.pan = fmt.Sprintf("panic: %v\n%s", r, string(debug.Stack()))
			}
			done <- res
		}()
		r := &chunkReader{data: wire, cuts: append([]int(nil), cuts...)}
		sp := stream.NewStreamProcessor(r, io.Discard, context.Background())
		defer sp.Close()
		for i := 0; i < len(wire)+2; i++ {
			p, n, err := sp.ReadPacket()
			if err != nil {
				res.obs = append(res.obs, obs{Ok: false, N: n, Err: err.Error()})
				return
			}
			o := obs{Ok: true, Ty: int(p.PacketType), N: n}
			pl := len(p.Payload)
			if p.CommandPacket != nil {
				b, _ := json.Marshal(p.CommandPacket)
				o.Body = hx(b)
			} else if echo && pl <= 4096 {
				o.Body = hx(p.Payload)
			}
			if pl > out.MaxPayload {
				out.MaxPayload = pl
			}
			res.obs = append(res.obs, o)
			res.pkts = append(res.pkts, p)
		}
		res.obs = append(res.obs, obs{Ok: false, N: -1, Err: "harness: reader did not stop"})
	}()
	var res result
	select {
	case res = <-done:
	case <-time.After(20 * time.Second):
		out.TimedOut = true
		out.PropMsg = "ReadPacket loop did not finish a finite stream within 20s (spin or block)"
		return
	}
	runtime.ReadMemStats(&m1)
	out.AllocBytes = m1.TotalAlloc - m0.TotalAlloc
	out.Obs = res.obs
	if res.pan != "" {
		out.Panicked = "ReadPacket: " + firstLines(res.pan, 12)
	}
	if dispatch {
		for _, p := range res.pkts {
			freshDispatch(p, out)
		}
	}
}

func runCase(raw json.RawMessage) interface{} {
	var c caseIn
	must(json.Unmarshal(raw, &c))
	out := &caseOut{PropOK: true}
	switch c.Mode {
	case "stream":
		wire := unhx(c.Wire)
		runStream(wire, c.Cuts, true, !c.NoDispatch, out)
		out.Wire = hx(wire)
		out.WireLen = len(wire)
		tables(wire, out)
	case "bomb":
		var zb bytes.Buffer
		zw, _ := gzip.NewWriterLevel(&zb, gzip.BestCompression)
		chunk := make([]byte, 1<<20)
		// command-carrying types decode their body as JSON: fill with JSON whitespace and end with "{}" so that a body
		// within the limit is a well-formed command and the positive cases exercise the whole decode path
		isCmd := c.Ty&0x3F == 0x10 || c.Ty&0x3F == 0x11
		if isCmd {
			for i := range chunk {
				chunk[i] = ' '
			}
		}
		if c.BadJSON {
			isCmd = false
			for i := range chunk {
				chunk[i] = 1
			}
		}
		left := c.Inflated
		for left > 0 {
			k := len(chunk)
			if k > left {
				k = left
			}
			if isCmd && k == left && k >= 2 {
				last := append([]byte(nil), chunk[:k]...)
				last[k-2], last[k-1] = '{', '}'
				zw.Write(last)
			} else {
				zw.Write(chunk[:k])
			}
			left -= k
		}
		zw.Close()
		wire := []byte{byte(c.Ty)}
		var l [4]byte
		binary.BigEndian.PutUint32(l[:], uint32(zb.Len()))
		wire = append(wire, l[:]...)
		wire = append(wire, zb.Bytes()...)
		// follow with a small valid packet to observe alignment after the bomb
		wire = append(wire, 0x20, 0, 0, 0, 2, 0x41, 0x42)
		runStream(wire, c.Cuts, false, false, out)
		out.WireLen = len(wire)
	case "retain":
		runRetain(c, out)
	case "stall":
		runStall(c, out)
	case "loop":
		wire := unhx(c.Wire)
		runLoop(wire, c.Cuts, out)
		out.WireLen = len(wire)
	case "dispatch":
		tp := &packet.TransferPacket{PacketType: packet.Type(c.Ty), Payload: unhx(c.Payload), CommandPacket: c.Cmd}
		dispatchPre = c.Pre
		freshDispatch(tp, out)
		dispatchPre = nil
	default:
		panic("bad mode")
	}
	// the property predicate on the implementation's own outputs
	limit := uint64(constants.MaxPacketBodySize)
	switch {
	case out.Panicked != "":
		out.PropOK, out.PropMsg = false, out.Panicked
	case out.TimedOut:
		out.PropOK = false
	case out.RetainedPerOp > 96:
		out.PropOK, out.PropMsg = false, fmt.Sprintf("heap retained after GC grows by %.0f bytes per dispatched pre-auth packet (%d packets on one connection): memory retained without bound", out.RetainedPerOp, out.Dispatched)
	case uint64(out.MaxPayload) > limit:
		out.PropOK, out.PropMsg = false, fmt.Sprintf("decoded payload of %d bytes exceeds MaxPacketBodySize %d", out.MaxPayload, limit)
	case out.AllocBytes > 6*limit+(8<<20):
		out.PropOK, out.PropMsg = false, fmt.Sprintf("decoding a %d-byte stream allocated %d bytes (bound 6*MaxPacketBodySize+8MiB)", out.WireLen, out.AllocBytes)
	}
	return out
}

func gen() {
	fmt.Println("(* generated by verif_c05 gen from /repo's working tree — do not edit *)")
	fmt.Println("From Coq Require Import NArith List. Import ListNotations. Open Scope N_scope.")
	fmt.Printf("Definition MaxPacketBodySize : N := %d.\n", constants.MaxPacketBodySize)
	// for every type byte: does the real dispatcher answer "unhandled packet type" on a fresh connection?
	fmt.Println("Definition unhandled_table : list bool := [")
	for i := 0; i < 256; i++ {
		out := &caseOut{}
		connSeq++
		fc := newFakeConn(fmt.Sprintf("203.0.113.%d", i%250+1))
		conn, err := fx.Session.CreateConnection(fc, fc)
		must(err)
		var herr error
		func() {
			defer func() { recover() }()
			herr = fx.Session.HandlePacket(&types.StreamPacket{ConnectionID: conn.ID,
				Packet: &packet.TransferPacket{PacketType: packet.Type(byte(i)), Payload: []byte("{}")}, Timestamp: time.Now()})
		}()
		_ = fx.Session.CloseConnection(conn.ID)
		fc.Close()
		_ = out
		un := herr != nil && strings.Contains(herr.Error(), "unhandled packet type")
		sep := ";"
		if i == 255 {
			sep = ""
		}
		if un {
			fmt.Printf(" true%s\n", sep)
		} else {
			fmt.Printf(" false%s\n", sep)
		}
	}
	fmt.Println("].")
}

func main() {
	var err error
	fx, err = server.VerifNewFixture(context.Background(), memory.New(context.Background()), server.VerifFixtureOptions{})
	must(err)
	if len(os.Args) > 1 && os.Args[1] == "gen" {
		gen()
		return
	}
	forEachCase(runCase)
}

//go:build verif

package main

import (
	"context"
	"fmt"

	"tunnox-core/internal/app/server"
	"tunnox-core/internal/core/storage/memory"
)

func main() {
	st := memory.New(context.Background())
	f, err := server.VerifNewFixture(context.Background(), st, server.VerifFixtureOptions{})
	fmt.Println(f != nil, err)
}

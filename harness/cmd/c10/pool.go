//go:build verif

// mode "pool": a cross-node stream over a POOLED connection that is reused.  The real NodeConnectionPool dials a loopback
// listener of the harness ("the other node"); each round takes a connection with pool.Get (a reused one passes through
// the real Conn.IsHealthy probe), runs one tunnel over it — the peer writes its payload and closes, a real FrameStream
// on the pooled connection reads to end-of-stream — and gives it back with Release().  No faults are injected.
// Predicate `pooled-connection-reuse`: in EVERY round the bytes arrive unchanged and complete, followed by end-of-stream —
// the previous use, the idle time in the pool and the health probe must leave the connection a clean transport.
// The harness sets no deadline of its own on these connections (it waits on channels), so whatever deadline state the
// code under test leaves behind is what the next user sees.
package main

import (
	"bytes"
	"context"
	"io"
	"net"
	"time"

	"tunnox-core/internal/protocol/session/crossnode"
)

type roundIn struct {
	ID       string `json:"id"`       // tunnel-id string (hex)
	Len      int    `json:"len"`      // payload the peer writes
	Chunk    int    `json:"chunk"`    // peer Write size
	End      string `json:"end"`      // "c" | "cw"
	IdleMs   int    `json:"idle_ms"`  // time the connection sits idle in the pool after this round
	Residual string `json:"residual"` // hex: raw bytes (late frames of THIS tunnel) the peer writes after the round was returned
}

func runPool(c *caseIn, out *caseOut) {
	ln, err := net.ListenTCP("tcp", &net.TCPAddr{IP: net.IPv4(127, 0, 0, 1)})
	hmust(err)
	defer ln.Close()
	accepted := make(chan *net.TCPConn, 16)
	go func() {
		for {
			cn, err := ln.AcceptTCP()
			if err != nil {
				return
			}
			cn.SetLinger(0)
			accepted <- cn
		}
	}()
	var created int64
	cfg := crossnode.DefaultPoolConfig()
	cfg.MaxConns = 4
	pool := crossnode.NewNodeConnectionPool(context.Background(), "node-b", ln.Addr().String(), cfg, &created)
	defer pool.CloseAll()
	var prev *crossnode.Conn
	var peerTCP *net.TCPConn
	defer func() {
		if peerTCP != nil {
			peerTCP.Close()
		}
	}()
	for i, rd := range c.Rounds {
		type getRes struct {
			cn  *crossnode.Conn
			err error
		}
		gch := make(chan getRes, 1)
		go func() { cn, err := pool.Get(context.Background()); gch <- getRes{cn, err} }()
		var g getRes
		select {
		case g = <-gch:
		case <-watchdog(10 * time.Second):
			out.fail("pool-hang", "round %d: NodeConnectionPool.Get did not return", i)
			return
		}
		if g.err != nil {
			out.fail("pooled-connection-reuse", "round %d: NodeConnectionPool.Get failed: %v", i, g.err)
			return
		}
		reused := g.cn == prev
		out.Reused = append(out.Reused, reused)
		if !reused {
			select {
			case cn := <-accepted:
				if peerTCP != nil {
					peerTCP.Close()
				}
				peerTCP = cn
			case <-watchdog(10 * time.Second):
				panic(harnessErr("no connection accepted for a freshly dialled pool connection"))
			}
		}
		idStr := string(unhx(rd.ID))
		id, err := crossnode.TunnelIDFromString(idStr)
		hmust(err)
		payload := pattern(rd.Len, uint32(c.Seed)+uint32(i)*7919)
		// the other node: a FrameStream on the accepted connection writes the payload and ends its direction
		peer := crossnode.NewFrameStream(crossnode.NewConn(context.Background(), "node-a", peerTCP, nil), id)
		wdone := make(chan error, 1)
		go func() {
			k := rd.Chunk
			if k < 1 {
				k = 32768
			}
			for p := payload; len(p) > 0; {
				n := k
				if n > len(p) {
					n = len(p)
				}
				if _, err := peer.Write(p[:n]); err != nil {
					wdone <- err
					return
				}
				p = p[n:]
			}
			if rd.End == "cw" {
				wdone <- peer.CloseWrite()
			} else {
				wdone <- peer.Close()
			}
		}()
		fs := crossnode.NewFrameStream(g.cn, id)
		type readRes struct {
			b   []byte
			err error
		}
		rch := make(chan readRes, 1)
		go func() { b, err := io.ReadAll(fs); rch <- readRes{b, err} }()
		var rr readRes
		select {
		case rr = <-rch:
		case <-watchdog(2 * time.Second):
			if reused && i > 0 && c.Rounds[i-1].Residual != "" {
				out.fail("pool-probe-consumes-residual-byte", "round %d, tunnel %q on a REUSED pooled connection that carried %d residual bytes of the previous tunnel when Conn.IsHealthy probed it: the probe consumed one byte and reported healthy, the frame stream is misaligned and FrameStream.Read never reaches end-of-stream (peer wrote %d bytes and closed)",
					i, idStr, len(c.Rounds[i-1].Residual)/2, len(payload))
			} else {
				out.fail("stream-end-not-delivered", "round %d (reused=%v): the peer wrote %d bytes and closed, but the pooled connection's FrameStream did not reach end-of-stream", i, reused, len(payload))
			}
			peerTCP.Close()
			return
		}
		select {
		case <-wdone:
		case <-watchdog(10 * time.Second):
		}
		if (rr.err != nil || !bytes.Equal(rr.b, payload)) && reused && i > 0 && c.Rounds[i-1].Residual != "" {
			// the previous tunnel's peer sent late frames after the connection had gone back to the pool: the health probe
			// read (and dropped) their first byte and still reported the connection healthy
			out.fail("pool-probe-consumes-residual-byte", "round %d, tunnel %q on a REUSED pooled connection that carried %d residual bytes of the previous tunnel when Conn.IsHealthy probed it: the probe consumed one byte and reported healthy, the frame stream is misaligned: the peer wrote %d bytes and closed; FrameStream.Read delivered %d bytes, err=%v",
				i, idStr, len(c.Rounds[i-1].Residual)/2, len(payload), len(rr.b), rr.err)
			return
		}
		if rr.err != nil || !bytes.Equal(rr.b, payload) {
			out.fail("pooled-connection-reuse", "round %d, tunnel %q on a %s connection (previous round idle %d ms in the pool, then NodeConnectionPool.Get/IsHealthy): the peer wrote %d bytes and closed; FrameStream.Read delivered %d bytes, err=%v (first difference at byte %d)",
				i, idStr, map[bool]string{true: "REUSED pooled", false: "freshly dialled"}[reused], lastIdle(c, i), len(payload), len(rr.b), rr.err, firstDiff(rr.b, payload))
			return
		}
		if fs.IsBroken() {
			out.fail("pooled-connection-reuse", "round %d: connection marked broken after a complete, correctly terminated tunnel", i)
			return
		}
		out.WireLen += len(payload)
		g.cn.Release()
		prev = g.cn
		if rd.Residual != "" {
			peerTCP.Write(unhx(rd.Residual))
		}
		time.Sleep(time.Duration(rd.IdleMs) * time.Millisecond)
	}
	// exclusive ownership: a connection that went back to the pool is handed to ONE user at a time, also when its previous user
	// releases it a second time (Release is called from deferred clean-up paths as well as from the forwarder's normal end).
	// Two users of one connection would each drop the other's frames as foreign-tunnel frames: bytes written would not arrive.
	if prev != nil && out.PropOK {
		prev.Release()
		type getRes struct {
			cn  *crossnode.Conn
			err error
		}
		gch := make(chan getRes, 2)
		for k := 0; k < 2; k++ {
			cn, err := pool.Get(context.Background())
			gch <- getRes{cn, err}
		}
		a, b := <-gch, <-gch
		if a.err == nil && b.err == nil && a.cn == b.cn {
			out.fail("pool-exclusive-ownership", "after %d rounds the last connection was released (and released once more by its previous user): two consecutive NodeConnectionPool.Get calls, neither connection given back in between, returned the SAME *Conn — two tunnels would share one connection and each FrameStream.Read would discard the other's frames",
				len(c.Rounds))
		}
	drain:
		for {
			select {
			case cn := <-accepted:
				cn.Close()
			case <-time.After(20 * time.Millisecond):
				break drain
			}
		}
	}
	// with nothing left unread on the connection and no faults, every later round must have reused the pooled connection
	for i, r := range out.Reused {
		if i > 0 && !r && c.Rounds[i-1].Residual == "" {
			out.fail("pooled-connection-reuse", "round %d: the healthy idle connection of round %d was not reused (health probe rejected it)", i, i-1)
		}
	}
}

func lastIdle(c *caseIn, i int) int {
	if i == 0 {
		return 0
	}
	return c.Rounds[i-1].IdleMs
}

//go:build verif

// mode "listener": the real CrossNodeListener.handleConnection (cross_node_listener.go) is given a connection on which the
// target node sends what forwardToSourceNode sends: ONE TargetReady frame and then the raw tunnel bytes.  The frame and
// the first tunnel bytes arrive in the chunking given by the case: all in one write (coalesced in the socket buffer),
// in pieces cut anywhere (inside the header, inside the message, inside the payload), or the payload only after the
// listener has consumed the frame.  Predicate `listener-handover`: the bridge's source side receives exactly the
// tunnel bytes, then end-of-stream — the frame reader must consume the frame's bytes and not one byte more.
package main

import (
	"bytes"
	"context"
	"io"
	"time"

	"tunnox-core/internal/protocol/session"
	"tunnox-core/internal/protocol/session/crossnode"
)

func runListener(c *caseIn, out *caseOut) {
	idStr := string(unhx(c.Reader))
	payload := pattern(c.UpLen, uint32(c.Seed))
	ctx, cancel := context.WithCancel(context.Background())
	defer cancel()
	srcPeer, srcConn := tcpPairLinger(false)
	defer srcPeer.Close()
	xPeer, xConn := tcpPairLinger(false)
	defer xPeer.Close()
	l, bridge := session.VerifNewListenerWithBridge(ctx, idStr, srcConn)
	hdone := make(chan struct{})
	go func() {
		defer close(hdone)
		defer func() {
			if p := recover(); p != nil {
				out.fail("listener-panic", "CrossNodeListener.handleConnection panicked: %v", p)
			}
		}()
		l.VerifHandleConnection(ctx, xConn)
	}()
	wid, err := crossnode.TunnelIDFromString(idStr)
	hmust(err)
	var frame bytes.Buffer
	hmust(crossnode.WriteFrameToWriter(&frame, wid, crossnode.FrameTypeTargetReady, crossnode.EncodeTargetReadyMessage(idStr, "node-target")))
	if c.Order == "separate" {
		xPeer.Write(frame.Bytes())
		dl := time.Now().Add(hangWait(5 * time.Second))
		for !bridge.IsTargetReady() && time.Now().Before(dl) {
			time.Sleep(time.Millisecond)
		}
		xPeer.Write(payload)
	} else {
		msg := append(append([]byte{}, frame.Bytes()...), payload...)
		i := 0
		for len(msg) > 0 {
			k := len(msg)
			if i < len(c.Cuts) && c.Cuts[i] >= 1 && c.Cuts[i] < k {
				k = c.Cuts[i]
			}
			i++
			xPeer.Write(msg[:k])
			msg = msg[k:]
			if len(msg) > 0 && i <= len(c.Cuts) {
				time.Sleep(300 * time.Microsecond) // separate segments (only affects how the bytes are chunked)
			}
		}
	}
	xPeer.CloseWrite() // end of the target -> source direction
	type res struct {
		b   []byte
		err error
	}
	rch := make(chan res, 1)
	go func() { b, err := io.ReadAll(srcPeer); rch <- res{b, err} }()
	var rr res
	select {
	case rr = <-rch:
	case <-watchdog(10 * time.Second):
		out.fail("stream-end-not-delivered", "listener handover: the source side of the bridge did not reach end-of-stream (tunnel %q, %d payload bytes, order %s, cuts %v)", idStr, len(payload), c.Order, headInts(c.Cuts))
		srcPeer.Close()
		xPeer.Close()
		return
	}
	srcPeer.Close() // ends the source -> target direction
	select {
	case <-hdone:
	case <-watchdog(10 * time.Second):
		out.fail("listener-hang", "CrossNodeListener.handleConnection did not return after both directions ended")
	}
	if !bytes.Equal(rr.b, payload) {
		out.fail("listener-handover", "TargetReady frame (%d bytes) followed by %d tunnel bytes, order=%s cuts=%v: the bridge's source side received %d bytes (err=%v, first difference at byte %d) — tunnel bytes arriving together with the first frame must not be consumed with it",
			frame.Len(), len(payload), c.Order, headInts(c.Cuts), len(rr.b), rr.err, firstDiff(rr.b, payload))
	}
	out.WireLen = len(payload)
}

//go:build verif

// Full-duplex checks of the real runBidirectionalForward (session/cross_node_forward_helper.go):
//
//	mode "gated"   fake (non-TCP) local and remote connections whose every Read/Write blocks until the scheduler releases
//	               that direction: a schedule of the model (coq/Model/Forward.v: one token = one Read or one Write of one
//	               copy loop) is replayed deterministically on the real code.
//	mode "duplex"  app A <-> forwarder A <== real FrameStreams over loopback TCP ==> forwarder B <-> app B with BOTH
//	               directions streaming distinct patterned payloads at the same time; local legs are loopback TCP with the
//	               traffic counters enabled, or in-memory synchronous pipes (non-TCP), with or without counters.
//
// Predicate in both modes: each direction delivers exactly the bytes of ITS OWN source, unchanged, in order and
// complete (compared byte by byte, SHA-256 reported), whatever the other direction does at the same time.
package main

import (
	"bytes"
	"context"
	"crypto/sha256"
	"fmt"
	"io"
	"sync"
	"sync/atomic"
	"time"

	"tunnox-core/internal/protocol/session"
	"tunnox-core/internal/protocol/session/crossnode"
)

func forwardGuarded(out *caseOut, cfg *session.BidirectionalForwardConfig) {
	defer func() {
		if p := recover(); p != nil {
			out.fail("forwarder-panic", "runBidirectionalForward panicked: %v", p)
		}
	}()
	session.VerifRunBidirectionalForward(cfg)
}

// ---------------------------------------------------------------------------------------------
// gated doubles
// ---------------------------------------------------------------------------------------------

type gate struct {
	arrive chan struct{}
	grant  chan struct{}
	done   chan struct{}
}

func newGate() *gate {
	return &gate{arrive: make(chan struct{}), grant: make(chan struct{}), done: make(chan struct{})}
}
func (g *gate) enter() { g.arrive <- struct{}{}; <-g.grant }
func (g *gate) leave() { g.done <- struct{}{} }

// step releases exactly one pending call of this direction and waits until it has returned
func (g *gate) step() { <-g.arrive; g.grant <- struct{}{}; <-g.done }

// one end of the forwarder: Read serves scripted chunks (one per call), Write records what the buffer holds at the
// moment the call is released
type gatedEnd struct {
	rg, wg *gate
	eofl   bool // the last chunk is returned TOGETHER with io.EOF (legal io.Reader behaviour)
	closed int32 // Close() was called on this end: like a real connection, later Reads and Writes fail
	mu     sync.Mutex
	src    [][]byte
	sink   bytes.Buffer
	events []string
}

func (e *gatedEnd) Read(p []byte) (int, error) {
	e.rg.enter()
	defer e.rg.leave()
	if atomic.LoadInt32(&e.closed) != 0 {
		return 0, io.ErrClosedPipe
	}
	if len(e.src) == 0 {
		return 0, io.EOF
	}
	n := copy(p, e.src[0])
	if n < len(e.src[0]) {
		e.src[0] = e.src[0][n:]
	} else {
		e.src = e.src[1:]
	}
	if e.eofl && len(e.src) == 0 {
		return n, io.EOF
	}
	return n, nil
}

func (e *gatedEnd) Write(p []byte) (int, error) {
	e.wg.enter()
	defer e.wg.leave()
	if atomic.LoadInt32(&e.closed) != 0 {
		return 0, io.ErrClosedPipe
	}
	e.mu.Lock()
	defer e.mu.Unlock()
	return e.sink.Write(p)
}

func (e *gatedEnd) note(s string) { e.mu.Lock(); e.events = append(e.events, s); e.mu.Unlock() }
func (e *gatedEnd) snapshot() []byte {
	e.mu.Lock()
	defer e.mu.Unlock()
	return append([]byte(nil), e.sink.Bytes()...)
}

type gatedRemote struct {
	gatedEnd
	cwOnce sync.Once
	cw     chan struct{} // closed at the first CloseWrite: the upload loop has ended
}

func (r *gatedRemote) CloseWrite() error {
	r.note("closewrite")
	r.cwOnce.Do(func() { close(r.cw) })
	return nil
}
func (r *gatedRemote) Close() error      { r.note("close"); return nil }

// the three method sets a LocalConn can show the forwarder
type gatedLocalRW struct{ *gatedEnd }  // Read / Write only
type gatedLocalRWC struct{ *gatedEnd } // + Close
type gatedLocalCW struct{ *gatedEnd }  // + Close + CloseWrite

func (e *gatedEnd) doClose() error { e.note("close"); atomic.StoreInt32(&e.closed, 1); return nil }

func (l gatedLocalRWC) Close() error     { return l.doClose() }
func (l gatedLocalCW) Close() error      { return l.doClose() }
func (l gatedLocalCW) CloseWrite() error { l.note("closewrite"); return nil }

type endCloser struct{ e *gatedEnd }

func (c endCloser) Close() error { return c.e.doClose() }

func unhxAll(hs []string) [][]byte {
	out := make([][]byte, len(hs))
	for i, h := range hs {
		out[i] = unhx(h)
	}
	return out
}

var gatedHangs int32

func runGated(c *caseIn, out *caseOut) {
	up, down := unhxAll(c.Up), unhxAll(c.Down)
	gU, gD := newGate(), newGate() // upload: local.Read + remote.Write ; download: remote.Read + local.Write
	local := &gatedEnd{rg: gU, wg: gD, src: up, eofl: c.UpEofl}
	var localConn io.ReadWriter
	switch c.Shape {
	case "rw":
		localConn = gatedLocalRW{local}
	case "cw":
		localConn = gatedLocalCW{local}
	default:
		localConn = gatedLocalRWC{local}
	}
	remote := &gatedRemote{gatedEnd: gatedEnd{rg: gD, wg: gU, src: down, eofl: c.DownEofl}, cw: make(chan struct{})}
	cfg := &session.BidirectionalForwardConfig{TunnelID: "gated", LogPrefix: "gated", LocalConn: localConn, RemoteConn: remote}
	if c.UseCloser {
		cfg.LocalConnCloser = endCloser{local}
	}
	var sent, recv atomic.Int64
	if c.Counters {
		cfg.BytesSentCounter, cfg.BytesReceivedCounter = &sent, &recv
	}
	fdone := make(chan struct{})
	go func() { forwardGuarded(out, cfg); close(fdone) }()

	// how many gated calls each direction will make in total: per chunk one Read + one Write, plus the EOF Read
	calls := [2]int{0, 0}
	for d, chunks := range [][][]byte{up, down} {
		for _, ch := range chunks {
			if len(ch) == 0 || len(ch) > 32768 {
				panic("bad gated chunk size (must be 1..32768 so that one Read returns one chunk)")
			}
		}
		calls[d] = 2*len(chunks) + 1
		if len(chunks) > 0 && ((d == 0 && c.UpEofl) || (d == 1 && c.DownEofl)) {
			calls[d] = 2 * len(chunks) // no separate (0, io.EOF) Read
		}
	}
	made := [2]int{0, 0}
	gates := [2]*gate{gU, gD}
	hung := false
	stepd := func(d int) {
		if made[d] >= calls[d] {
			return // that copy loop has ended: the token is a no-op (as in the model)
		}
		ok := make(chan struct{})
		arrived := make(chan struct{})
		go func() {
			<-gates[d].arrive
			close(arrived)
			gates[d].grant <- struct{}{}
			<-gates[d].done
			close(ok)
		}()
		wait := 5 * time.Second
		if atomic.LoadInt32(&gatedHangs) >= 2 {
			wait = 300 * time.Millisecond // a tree that hangs every replay must not cost 5 s per case
		}
		var early <-chan struct{}
		if d == 0 {
			early = remote.cw
		}
		select {
		case <-arrived:
			<-ok
			made[d]++
		case <-early:
			// the upload loop ended (it half-closed the remote) before making all the calls its source warrants:
			// stop scheduling it; the content comparison below reports what was lost
			select {
			case <-arrived: // (a call that raced with the close signal cannot exist: CloseWrite follows the loop)
				<-ok
				made[d]++
			default:
				made[d] = calls[d]
			}
		case <-time.After(hangWait(wait)):
			hung = true
			atomic.AddInt32(&gatedHangs, 1)
		}
	}
	for _, t := range c.Sched {
		if hung {
			break
		}
		if t == 0 || t == 1 {
			stepd(t)
		}
	}
	out.UpMid, out.DownMid = hx(remote.snapshot()), hx(local.snapshot())
	// drain: release everything that is left, alternating
	for !hung && (made[0] < calls[0] || made[1] < calls[1]) {
		stepd(0)
		stepd(1)
	}
	if !hung {
		select {
		case <-fdone:
		case <-watchdog(5 * time.Second):
			hung = true
			atomic.AddInt32(&gatedHangs, 1)
		}
	}
	if hung {
		out.fail("forwarder-hang", "gated replay: the forwarder did not make the expected Read/Write call or did not return (calls made: up %d/%d, down %d/%d)",
			made[0], calls[0], made[1], calls[1])
		return
	}
	gotUp, gotDown := remote.snapshot(), local.snapshot()
	out.UpFinal, out.DownFinal = hx(gotUp), hx(gotDown)
	wantUp, wantDown := bytes.Join(up, nil), bytes.Join(down, nil)
	midUp, midDown := unhx(out.UpMid), unhx(out.DownMid)
	switch {
	case !bytes.Equal(gotUp, wantUp):
		out.fail("forwarder-duplex-content", "gated schedule %v (then the alternating drain 0,1,0,1,...): upload direction delivered %q..., its source was %q... (first difference at byte %d of %d; other direction's source starts %q; LocalConn shape %q, LocalConnCloser=%v, events on the local end %v)",
			headInts(c.Sched), head(gotUp), head(wantUp), firstDiff(gotUp, wantUp), len(wantUp), head(wantDown), c.Shape, c.UseCloser, local.events)
	case !bytes.Equal(gotDown, wantDown):
		out.fail("forwarder-duplex-content", "gated schedule %v (then the alternating drain 0,1,0,1,...): download direction delivered %q..., its source was %q... (first difference at byte %d of %d)",
			headInts(c.Sched), head(gotDown), head(wantDown), firstDiff(gotDown, wantDown), len(wantDown))
	case !bytes.HasPrefix(wantUp, midUp) || !bytes.HasPrefix(wantDown, midDown):
		out.fail("forwarder-duplex-content", "gated schedule %v: bytes delivered after the scheduled prefix are not a prefix of the source", headInts(c.Sched))
	}
	out.Sent, out.Recv = sent.Load(), recv.Load()
	if c.Counters && (sent.Load() != int64(len(wantUp)) || recv.Load() != int64(len(wantDown))) {
		out.fail("forwarder-counters", "traffic counters: sent=%d received=%d, want %d / %d", sent.Load(), recv.Load(), len(wantUp), len(wantDown))
	}
	ncw := 0
	for _, e := range remote.events {
		if e == "closewrite" {
			ncw++
		}
	}
	if ncw != 1 {
		out.fail("forwarder-half-close", "RemoteConn.CloseWrite called %d times after the upload direction ended, want 1", ncw)
	}
	out.WireLen = len(wantUp) + len(wantDown)
}

func head(b []byte) string {
	if len(b) > 12 {
		b = b[:12]
	}
	return string(b)
}
func headInts(s []int) []int {
	if len(s) > 24 {
		return s[:24]
	}
	return s
}

// ---------------------------------------------------------------------------------------------
// real full-duplex streaming
// ---------------------------------------------------------------------------------------------

// synchronous in-memory duplex connection with half-close (a non-TCP LocalConn)
type halfPipe struct {
	r *io.PipeReader
	w *io.PipeWriter
}

func newHalfPipePair() (*halfPipe, *halfPipe) {
	r1, w1 := io.Pipe()
	r2, w2 := io.Pipe()
	return &halfPipe{r1, w2}, &halfPipe{r2, w1}
}
func (h *halfPipe) Read(p []byte) (int, error)  { return h.r.Read(p) }
func (h *halfPipe) Write(p []byte) (int, error) { return h.w.Write(p) }
func (h *halfPipe) CloseWrite() error           { return h.w.Close() }
func (h *halfPipe) Close() error                { h.w.Close(); return h.r.Close() }

type appConn interface {
	io.ReadWriteCloser
	CloseWrite() error
}

func pattern(n int, seed uint32) []byte {
	b := make([]byte, n)
	x := seed*2654435761 + 1
	for i := range b {
		x = x*1664525 + 1013904223
		b[i] = byte(x >> 24)
	}
	return b
}

func runDuplex(c *caseIn, out *caseOut) {
	upData, downData := pattern(c.UpLen, uint32(c.Seed)), pattern(c.DownLen, uint32(c.Seed)+77777)
	idStr := "duplex-tunnel"
	id, err := crossnode.TunnelIDFromString(idStr)
	hmust(err)
	xa, xb := tcpPair()
	if c.SmallBuf {
		// small socket buffers on the cross-node leg: writes stall under back-pressure while the other direction reads
		xa.SetWriteBuffer(4096)
		xa.SetReadBuffer(4096)
		xb.SetWriteBuffer(4096)
		xb.SetReadBuffer(4096)
	}
	var appA, appB appConn
	var localA, localB io.ReadWriter
	var closers []io.Closer
	if c.Local == "pipe" {
		a1, a2 := newHalfPipePair()
		b1, b2 := newHalfPipePair()
		appA, localA, localB, appB = a1, a2, b1, b2
		closers = []io.Closer{a1, a2, b1, b2}
	} else {
		a1, a2 := tcpPairLinger(false)
		b1, b2 := tcpPairLinger(false)
		appA, localA, localB, appB = a1, a2, b1, b2
		closers = []io.Closer{a1, a2, b1, b2}
	}
	fsA := crossnode.NewFrameStream(crossnode.NewConn(context.Background(), "B", xa, nil), id)
	fsB := crossnode.NewFrameStream(crossnode.NewConn(context.Background(), "A", xb, nil), id)
	var sentA, recvA, sentB, recvB atomic.Int64
	cfgA := &session.BidirectionalForwardConfig{TunnelID: idStr, LogPrefix: "A", LocalConn: localA, RemoteConn: fsA}
	cfgB := &session.BidirectionalForwardConfig{TunnelID: idStr, LogPrefix: "B", LocalConn: localB, RemoteConn: fsB}
	if c.Counters {
		cfgA.BytesSentCounter, cfgA.BytesReceivedCounter = &sentA, &recvA
		cfgB.BytesSentCounter, cfgB.BytesReceivedCounter = &sentB, &recvB
	}
	fdone := make(chan struct{}, 2)
	go func() { forwardGuarded(out, cfgA); fdone <- struct{}{} }()
	go func() { forwardGuarded(out, cfgB); fdone <- struct{}{} }()

	start := make(chan struct{})     // both writers start together
	firstW := make(chan struct{}, 2) // a writer has completed its first Write
	readGo := make(chan struct{})    // readers start only when both directions are in flight
	writer := func(cn appConn, data []byte) {
		<-start
		i, first := 0, true
		for len(data) > 0 {
			k := len(data)
			if len(c.Wsize) > 0 {
				if w := c.Wsize[i%len(c.Wsize)]; w >= 1 && w < k {
					k = w
				}
			}
			i++
			if _, err := cn.Write(data[:k]); err != nil {
				break
			}
			data = data[k:]
			if first {
				first = false
				firstW <- struct{}{}
			}
		}
		if first {
			firstW <- struct{}{}
		}
		cn.CloseWrite()
	}
	type res struct {
		b   []byte
		err error
	}
	reader := func(cn appConn, ch chan res) {
		<-readGo
		b, err := io.ReadAll(cn)
		ch <- res{b, err}
	}
	aGot, bGot := make(chan res, 1), make(chan res, 1)
	go writer(appA, upData)
	go writer(appB, downData)
	go reader(appA, aGot)
	go reader(appB, bGot)
	close(start)
	go func() {
		// overlap gate: readers are released once both writers have pushed their first block (synchronous pipes:
		// once the forwarders picked it up), or after 50 ms; the timer only affects how much the copies overlap
		t := time.After(50 * time.Millisecond)
		for n := 0; n < 2; {
			select {
			case <-firstW:
				n++
			case <-t:
				n = 2
			}
		}
		close(readGo)
	}()
	deadline := watchdog(20 * time.Second)
	var ra, rb res
	okA, okB, fwd := false, false, 0
	for !(okA && okB && fwd == 2) {
		select {
		case ra = <-aGot:
			okA = true
		case rb = <-bGot:
			okB = true
		case <-fdone:
			fwd++
		case <-deadline:
			out.fail("forwarder-hang", "duplex up=%d down=%d local=%s: after 20 s app A got EOF=%v, app B got EOF=%v, forwarders returned=%d/2", c.UpLen, c.DownLen, c.Local, okA, okB, fwd)
			okA, okB, fwd = true, true, 2
		}
	}
	xa.Close()
	xb.Close()
	for _, cl := range closers {
		cl.Close()
	}
	if !out.PropOK {
		return
	}
	sum := func(b []byte) string { h := sha256.Sum256(b); return fmt.Sprintf("%x", h[:6]) }
	if rb.err != nil || !bytes.Equal(rb.b, upData) {
		out.fail("forwarder-duplex-content", "duplex up=%d down=%d local=%s counters=%v: A->B arrived as %d bytes sha %s, sent sha %s (err=%v, first difference at byte %d)",
			c.UpLen, c.DownLen, c.Local, c.Counters, len(rb.b), sum(rb.b), sum(upData), rb.err, firstDiff(rb.b, upData))
	}
	if ra.err != nil || !bytes.Equal(ra.b, downData) {
		out.fail("forwarder-duplex-content", "duplex up=%d down=%d local=%s counters=%v: B->A arrived as %d bytes sha %s, sent sha %s (err=%v, first difference at byte %d)",
			c.UpLen, c.DownLen, c.Local, c.Counters, len(ra.b), sum(ra.b), sum(downData), ra.err, firstDiff(ra.b, downData))
	}
	if c.Counters {
		if sentA.Load() != int64(c.UpLen) || recvA.Load() != int64(c.DownLen) || sentB.Load() != int64(c.DownLen) || recvB.Load() != int64(c.UpLen) {
			out.fail("forwarder-counters", "traffic counters A(sent %d, received %d) B(sent %d, received %d), payloads up=%d down=%d",
				sentA.Load(), recvA.Load(), sentB.Load(), recvB.Load(), c.UpLen, c.DownLen)
		}
	}
	out.WireLen = c.UpLen + c.DownLen
}

// ---------------------------------------------------------------------------------------------
// chunk-oracle local connection + real FrameStream + traffic counters
// ---------------------------------------------------------------------------------------------

// oracleLocal is a non-TCP LocalConn whose Read side is the chunk oracle of coq/Base/Chunks.v over a byte string
// (cuts), optionally handing out the LAST chunk together with io.EOF; its Write side collects the download.
type oracleLocal struct {
	chunkReader
	eofl bool
	mu   sync.Mutex
	down bytes.Buffer
}

func (l *oracleLocal) Read(p []byte) (int, error) {
	n, err := l.chunkReader.Read(p)
	if err == nil && l.eofl && n > 0 && len(l.chunkReader.data) == 0 {
		return n, io.EOF
	}
	return n, err
}
func (l *oracleLocal) Write(p []byte) (int, error) {
	l.mu.Lock()
	defer l.mu.Unlock()
	return l.down.Write(p)
}

// runFwdCut: the real runBidirectionalForward between an oracle-chunked local source and a real FrameStream over
// loopback TCP; the peer (a real FrameStream) reads to end-of-stream, answers with the given Write calls and closes.
// Observables: bytes the peer received, bytes the local side received, BytesSentCounter, BytesReceivedCounter.
func runFwdCut(c *caseIn, out *caseOut) {
	data := unhx(c.Wire)
	resp := unhxAll(c.Down)
	idStr := "fwdcut-tunnel"
	id, err := crossnode.TunnelIDFromString(idStr)
	hmust(err)
	xa, xb := tcpPair()
	local := &oracleLocal{chunkReader: chunkReader{data: data, cuts: append([]int(nil), c.Cuts...)}, eofl: c.UpEofl}
	fsA := crossnode.NewFrameStream(crossnode.NewConn(context.Background(), "B", xa, nil), id)
	cfg := &session.BidirectionalForwardConfig{TunnelID: idStr, LogPrefix: "fwdcut", LocalConn: local, RemoteConn: fsA}
	var sent, recv atomic.Int64
	if c.Counters {
		cfg.BytesSentCounter, cfg.BytesReceivedCounter = &sent, &recv
	}
	type res struct {
		b   []byte
		err error
	}
	pdone := make(chan res, 1)
	go func() {
		peer := crossnode.NewFrameStream(crossnode.NewConn(context.Background(), "A", xb, nil), id)
		got, err := io.ReadAll(peer)
		for _, w := range resp {
			if err == nil {
				_, err = peer.Write(w)
			}
		}
		if err == nil {
			err = peer.Close()
		}
		pdone <- res{got, err}
	}()
	fdone := make(chan struct{})
	go func() { forwardGuarded(out, cfg); close(fdone) }()
	var pr res
	hung := false
	select {
	case pr = <-pdone:
	case <-watchdog(15 * time.Second):
		hung = true
	}
	if !hung {
		select {
		case <-fdone:
		case <-watchdog(15 * time.Second):
			hung = true
			if pr.err == nil {
				out.fail("stream-end-not-delivered", "the peer FrameStream wrote its %d-byte answer and its Close() returned, but the forwarder's FrameStream.Read never saw end-of-stream (forwarder still running at the watchdog)", len(bytes.Join(resp, nil)))
			}
		}
	}
	xa.Close()
	xb.Close()
	if hung {
		out.fail("forwarder-hang", "oracle-chunked local source (%d bytes, eof with last chunk=%v): peer or forwarder did not finish", len(data), c.UpEofl)
		return
	}
	local.mu.Lock()
	gotDown := append([]byte(nil), local.down.Bytes()...)
	local.mu.Unlock()
	wantDown := bytes.Join(resp, nil)
	out.UpFinal, out.DownFinal = hx(pr.b), hx(gotDown)
	out.Sent, out.Recv = sent.Load(), recv.Load()
	out.WireLen = len(data) + len(wantDown)
	if pr.err != nil || !bytes.Equal(pr.b, data) {
		out.fail("forwarder-truncation", "local source of %d bytes in %d cuts, last chunk together with io.EOF=%v, counters=%v: the peer FrameStream received %d bytes before end-of-stream (err=%v, first difference at byte %d)",
			len(data), len(c.Cuts), c.UpEofl, c.Counters, len(pr.b), pr.err, firstDiff(pr.b, data))
	}
	if !bytes.Equal(gotDown, wantDown) {
		out.fail("forwarder-truncation", "response of %d bytes arrived at the local side as %d bytes (first difference at byte %d)", len(wantDown), len(gotDown), firstDiff(gotDown, wantDown))
	}
	if c.Counters && (sent.Load() != int64(len(data)) || recv.Load() != int64(len(wantDown))) {
		out.fail("forwarder-counters", "traffic counters: sent=%d received=%d, but %d bytes were read from the local side and %d written to it (eof with last chunk=%v)",
			sent.Load(), recv.Load(), len(data), len(wantDown), c.UpEofl)
	}
}

// ---------------------------------------------------------------------------------------------
// order of half-closes x shape of the local connection
// ---------------------------------------------------------------------------------------------

// what the forwarder is allowed to see of its LocalConn
type shapeRW struct{ c appConn }
type shapeRWC struct{ c appConn }

func (s shapeRW) Read(p []byte) (int, error)   { return s.c.Read(p) }
func (s shapeRW) Write(p []byte) (int, error)  { return s.c.Write(p) }
func (s shapeRWC) Read(p []byte) (int, error)  { return s.c.Read(p) }
func (s shapeRWC) Write(p []byte) (int, error) { return s.c.Write(p) }
func (s shapeRWC) Close() error                { return s.c.Close() }

// eofSignal wraps the forwarder's RemoteConn (a real FrameStream): same method set (Read/Write/Close/CloseWrite);
// closes `ended` when a Read reports the end of the download direction
type eofSignal struct {
	fs    *crossnode.FrameStream
	once  sync.Once
	ended chan struct{}
}

func (e *eofSignal) Read(p []byte) (int, error) {
	n, err := e.fs.Read(p)
	if err != nil {
		e.once.Do(func() { close(e.ended) })
	}
	return n, err
}
func (e *eofSignal) Write(p []byte) (int, error) { return e.fs.Write(p) }
func (e *eofSignal) Close() error                { return e.fs.Close() }
func (e *eofSignal) CloseWrite() error           { return e.fs.CloseWrite() }

// runHalfClose: app <-local-> real forwarder <== real FrameStream over loopback TCP ==> peer (a real FrameStream driven by
// the harness).  order "peer-first": the peer greets and half-closes (EOF frame); only after the forwarder's download
// direction has seen that does the local application upload its payload and close ITS side.  order "local-first": the
// application uploads and half-closes first, then the peer answers and closes.  Predicate: every byte the local side
// wrote before its own close reaches the peer (and the peer's bytes reach the application), whatever the order.
func runHalfClose(c *caseIn, out *caseOut) {
	upData, downData := pattern(c.UpLen, uint32(c.Seed)), pattern(c.DownLen, uint32(c.Seed)+4242)
	idStr := "halfclose-tunnel"
	id, err := crossnode.TunnelIDFromString(idStr)
	hmust(err)
	xa, xb := tcpPair()
	var app, inner appConn
	if c.Local == "pipe" {
		a, b := newHalfPipePair()
		app, inner = a, b
	} else {
		a, b := tcpPairLinger(false)
		app, inner = a, b
	}
	var localConn io.ReadWriter
	switch c.Shape {
	case "rw":
		localConn = shapeRW{inner}
	case "rwc":
		localConn = shapeRWC{inner}
	default:
		localConn = inner
	}
	remote := &eofSignal{fs: crossnode.NewFrameStream(crossnode.NewConn(context.Background(), "B", xa, nil), id), ended: make(chan struct{})}
	cfg := &session.BidirectionalForwardConfig{TunnelID: idStr, LogPrefix: "hc", LocalConn: localConn, RemoteConn: remote}
	if c.UseCloser {
		cfg.LocalConnCloser = inner
	}
	var sent, recv atomic.Int64
	if c.Counters {
		cfg.BytesSentCounter, cfg.BytesReceivedCounter = &sent, &recv
	}
	peer := crossnode.NewFrameStream(crossnode.NewConn(context.Background(), "A", xb, nil), id)
	fdone := make(chan struct{})
	go func() { forwardGuarded(out, cfg); close(fdone) }()

	type res struct {
		b   []byte
		err error
	}
	writeAll := func(w io.Writer, data []byte) error {
		for len(data) > 0 {
			k := len(data)
			if k > 20000 {
				k = 20000
			}
			if _, err := w.Write(data[:k]); err != nil {
				return err
			}
			data = data[k:]
		}
		return nil
	}
	peerGot, appGot := make(chan res, 1), make(chan res, 1)
	var appWriteErr error
	done := make(chan struct{})
	go func() {
		defer close(done)
		if c.Order == "peer-first" {
			go func() { b, err := io.ReadAll(peer); peerGot <- res{b, err} }()
			// peer: greeting, then half-close
			if err := writeAll(peer, downData); err != nil {
				out.fail("forwarder-half-close-order", "peer could not write its greeting: %v", err)
				return
			}
			hmust(peer.CloseWrite())
			// application: receives the whole greeting ...
			got := make([]byte, len(downData))
			_, err := io.ReadFull(app, got)
			appGot <- res{got, err}
			// ... and uploads only after the forwarder's download direction has ended (plus a settle time for whatever the
			// forwarder does at that moment; the delay only affects what a broken forwarder gets the chance to break)
			select {
			case <-remote.ended:
			case <-watchdog(10 * time.Second):
			}
			time.Sleep(40 * time.Millisecond)
			appWriteErr = writeAll(app, upData)
			app.CloseWrite()
		} else {
			go func() { b, err := io.ReadAll(peer); peerGot <- res{b, err} }()
			appWriteErr = writeAll(app, upData)
			app.CloseWrite()
			pr := <-peerGot
			peerGot <- pr
			// the peer answers only after it has seen the application's end-of-stream, then closes
			if err := writeAll(peer, downData); err != nil {
				out.fail("forwarder-half-close-order", "peer could not write its answer after the local half-close: %v", err)
				return
			}
			hmust(peer.Close())
			got := make([]byte, len(downData))
			_, err := io.ReadFull(app, got)
			appGot <- res{got, err}
		}
	}()
	hung := false
	select {
	case <-done:
	case <-watchdog(20 * time.Second):
		hung = true
	}
	var pr, ar res
	if !hung {
		select {
		case pr = <-peerGot:
		case <-watchdog(15 * time.Second):
			hung = true
		}
	}
	if !hung {
		select {
		case ar = <-appGot:
		default:
		}
		select {
		case <-fdone:
		case <-watchdog(15 * time.Second):
			hung = true
		}
	}
	xa.Close()
	xb.Close()
	app.Close()
	inner.Close()
	desc := fmt.Sprintf("order=%s local=%s shape=%s LocalConnCloser=%v counters=%v up=%d down=%d", c.Order, c.Local, c.Shape, c.UseCloser, c.Counters, c.UpLen, c.DownLen)
	if hung {
		out.fail("forwarder-hang", "%s: application, peer or forwarder did not finish", desc)
		return
	}
	out.WireLen = c.UpLen + c.DownLen
	if pr.err != nil || !bytes.Equal(pr.b, upData) {
		out.fail("forwarder-half-close-order", "%s: the local side wrote %d bytes before its own close (write error: %v); the peer FrameStream received %d bytes before end-of-stream (err=%v, first difference at byte %d)",
			desc, len(upData), appWriteErr, len(pr.b), pr.err, firstDiff(pr.b, upData))
	}
	if ar.err != nil || !bytes.Equal(ar.b, downData) {
		out.fail("forwarder-half-close-order", "%s: the peer wrote %d bytes; the local application received %d (err=%v, first difference at byte %d)",
			desc, len(downData), len(ar.b), ar.err, firstDiff(ar.b, downData))
	}
	if c.Counters && (sent.Load() != int64(len(upData)) || recv.Load() != int64(len(downData))) {
		out.fail("forwarder-counters", "%s: traffic counters sent=%d received=%d", desc, sent.Load(), recv.Load())
	}
}

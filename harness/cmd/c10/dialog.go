//go:build verif

// mode "dialog": TWO real FrameStreams of one tunnel, one on each end of a loopback TCP connection, and a sequential
// script of calls on either end, executed on one goroutine (deterministic): Write / CloseWrite / Close, "read exactly n
// bytes", "read to end-of-stream".  The TCP connection stays OPEN throughout, so end-of-stream can only come from an
// EOF/Close FRAME.  Every read runs under a read deadline (watchdog): a Read that would block for ever becomes the
// predicate failure `stream-end-not-delivered` and the harness goes on with the next case.
//
// Predicate: each end reads exactly the bytes the other end wrote before ITS close/half-close, in order; after the other
// end's Close()/CloseWrite() has returned, reading to end-of-stream yields the remaining bytes and then io.EOF — whatever
// this end has itself read, written or half-closed before (in particular: peer half-closes, we read that EOF, we write,
// we Close: the peer must get our bytes AND the end-of-stream).
package main

import (
	"bytes"
	"context"
	"errors"
	"fmt"
	"io"
	"net"
	"os"
	"time"

	"tunnox-core/internal/protocol/session/crossnode"
)

type stepIn struct {
	Who  int    `json:"who"` // 0 = end A, 1 = end B
	K    string `json:"k"`   // "w" | "cw" | "c" | "rn" (read exactly n) | "ra" (read to end-of-stream)
	Data string `json:"data"`
	N    int    `json:"n"`
	Cap  int    `json:"cap"`
}

type stepObs struct {
	N    int    `json:"n"`
	E    int    `json:"e"`
	Data string `json:"data"`
	Term string `json:"term,omitempty"` // reads: "ok" | "eof" | "blocked" | "err"
}

func runDialog(c *caseIn, out *caseOut) {
	id, err := crossnode.TunnelIDFromString(string(unhx(c.Reader)))
	hmust(err)
	a, b := tcpPair()
	defer a.Close()
	defer b.Close()
	tcp := [2]*net.TCPConn{a, b}
	fs := [2]*crossnode.FrameStream{
		crossnode.NewFrameStream(crossnode.NewConn(context.Background(), "B", a, nil), id),
		crossnode.NewFrameStream(crossnode.NewConn(context.Background(), "A", b, nil), id),
	}
	var sent [2][]byte   // bytes end X wrote before its close
	var closed [2]bool   // end X has called CloseWrite/Close
	var taken [2]int     // how many of sent[1-X] end X has read so far
	name := [2]string{"A", "B"}
	readOnce := func(x int, buf []byte) (int, error) {
		tcp[x].SetReadDeadline(time.Now().Add(hangWait(3 * time.Second)))
		n, err := fs[x].Read(buf)
		tcp[x].SetReadDeadline(time.Time{})
		return n, err
	}
	classify := func(err error) string {
		var ne net.Error
		switch {
		case err == io.EOF:
			return "eof"
		case errors.As(err, &ne) && ne.Timeout(), errors.Is(err, os.ErrDeadlineExceeded):
			return "blocked"
		}
		return "err"
	}
	for i, st := range c.Dialog {
		x, y := st.Who, 1-st.Who
		switch st.K {
		case "w":
			d := unhx(st.Data)
			n, err := fs[x].Write(d)
			out.Steps = append(out.Steps, stepObs{N: n, E: errKind(err)})
			if closed[x] {
				if n != 0 || errKind(err) != 1 {
					out.fail("write-after-close", "step %d: %s.Write after its close returned (%d, errkind %d)", i, name[x], n, errKind(err))
				}
			} else {
				if err != nil || n != len(d) {
					out.fail("write-result", "step %d: %s.Write of %d bytes returned (%d, %v)", i, name[x], len(d), n, err)
				}
				sent[x] = append(sent[x], d...)
			}
		case "cw", "c":
			var err error
			if st.K == "cw" {
				err = fs[x].CloseWrite()
			} else {
				err = fs[x].Close()
			}
			out.Steps = append(out.Steps, stepObs{E: errKind(err)})
			if err != nil {
				out.fail("write-result", "step %d: %s.%s returned %v", i, name[x], st.K, err)
			}
			closed[x] = true
		case "rn", "ra":
			// a script may only read what a correct stream can deliver without blocking: anything else is a malformed
			// case (e.g. an over-eager shrink), not a finding about the code
			if st.K == "ra" && !closed[y] {
				panic("bad dialog script: read-to-end-of-stream before the other end has closed")
			}
			if st.K == "rn" && st.N > len(sent[y])-taken[x] {
				panic("bad dialog script: reads more bytes than the other end has written")
			}
			k := st.Cap
			if k < 1 {
				k = 1
			}
			var got []byte
			term := "ok"
			for st.K == "ra" || len(got) < st.N {
				want := k
				if st.K == "rn" && st.N-len(got) < want {
					want = st.N - len(got)
				}
				buf := make([]byte, want)
				n, err := readOnce(x, buf)
				got = append(got, buf[:n]...)
				if err != nil {
					term = classify(err)
					break
				}
				if n == 0 {
					term = "err"
					break
				}
				if len(got) > len(sent[y])+1024 {
					term = "err"
					break
				}
			}
			out.Steps = append(out.Steps, stepObs{Data: hx(got), Term: term})
			rest := sent[y][taken[x]:]
			desc := fmt.Sprintf("step %d: %s reads (%s) after %s wrote %d bytes (closed=%v), %d already read", i, name[x], st.K, name[y], len(sent[y]), closed[y], taken[x])
			if st.K == "rn" {
				if term != "ok" || !bytes.Equal(got, rest[:minInt(st.N, len(rest))]) {
					if term == "blocked" {
						out.fail("stream-end-not-delivered", "%s: Read blocked (watchdog) with %d of %d bytes", desc, len(got), st.N)
					} else {
						out.fail("stream-transparency", "%s: got %d bytes, term=%s, first difference at byte %d", desc, len(got), term, firstDiff(got, rest))
					}
				}
				taken[x] += len(got)
			} else {
				switch {
				case !bytes.Equal(got, rest):
					if term == "blocked" && bytes.HasPrefix(rest, got) {
						out.fail("stream-end-not-delivered", "%s: Read blocked (watchdog) after %d of %d remaining bytes", desc, len(got), len(rest))
					} else {
						out.fail("stream-transparency", "%s: got %d bytes, want %d (term=%s, first difference at byte %d)", desc, len(got), len(rest), term, firstDiff(got, rest))
					}
				case term == "blocked":
					out.fail("stream-end-not-delivered", "%s: all %d bytes written before %s's close arrived, but its Close()/CloseWrite() had returned and NO end-of-stream followed: Read blocked until the watchdog", desc, len(rest), name[y])
				case term != "eof":
					out.fail("stream-transparency", "%s: bytes complete but the read ended with %s instead of end-of-stream", desc, term)
				}
				taken[x] += len(got)
			}
		default:
			panic("bad dialog step " + st.K)
		}
		if !out.PropOK {
			return
		}
	}
	out.WireLen = len(sent[0]) + len(sent[1])
}

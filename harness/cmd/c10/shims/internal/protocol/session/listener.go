//go:build verif

package session

import (
	"context"
	"net"
	"time"
)

// VerifNewListenerWithBridge builds a CrossNodeListener over a bare SessionManager that holds exactly one TunnelBridge
// (tunnelID, source side = srcConn), the way cross_node_listener.go finds it when a TargetReady frame arrives
// (verification harness only).
func VerifNewListenerWithBridge(ctx context.Context, tunnelID string, srcConn net.Conn) (*CrossNodeListener, *TunnelBridge) {
	bridge := NewTunnelBridge(ctx, &TunnelBridgeConfig{TunnelID: tunnelID, MappingID: "", SourceConn: srcConn})
	sm := &SessionManager{
		tunnelBridges: map[string]*TunnelBridge{tunnelID: bridge},
		closedTunnels: make(map[string]time.Time),
	}
	return NewCrossNodeListener(sm, 0), bridge
}

// VerifHandleConnection exposes the unexported per-connection entry point of the listener.
func (l *CrossNodeListener) VerifHandleConnection(ctx context.Context, conn net.Conn) {
	l.handleConnection(ctx, conn)
}

//go:build verif

package session

// VerifRunBidirectionalForward exposes the unexported half-close aware forwarder (cross_node_forward_helper.go)
// to the C10 verification harness.
func VerifRunBidirectionalForward(cfg *BidirectionalForwardConfig) { runBidirectionalForward(cfg) }

//go:build verif

package crossnode

// VerifIsConnectionClosedError exposes the unexported classifier used by FrameStream.Read to decide
// whether a ReadFrame error is reported to the caller as a clean io.EOF (verification harness only).
func VerifIsConnectionClosedError(err error) bool { return isConnectionClosedError(err) }

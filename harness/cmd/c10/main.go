//go:build verif

// verif_c10: drives the real cross-node frame codec (frame.go) and FrameStream (stream.go).
//
//	mode "dec"    raw bytes + chunk oracle -> ReadFrameFromReader until the first error (allocation measured)
//	mode "enc"    frames -> WriteFrameToWriter -> chunk oracle -> ReadFrameFromReader (round trip)
//	mode "stream" a script of FrameStream.Write/CloseWrite/Close calls of several tunnels, raw WriteFrame calls and raw
//	              bytes on ONE loopback TCP connection; a real FrameStream on the peer reads with the given buffer sizes
//	mode "tid"    TunnelIDFromString / TunnelIDToString on id strings
//
// Every mode evaluates the property's own predicate on the real code's outputs (prop_ok / prop_key / prop_msg) with a
// small independent reference written here, and echoes the observables the Coq model is compared with.
package main

import (
	"bytes"
	"sync"
	"sync/atomic"
	"context"
	"encoding/binary"
	"errors"
	"fmt"
	"encoding/json"
	"io"
	"net"
	"os"
	"runtime"
	"strings"
	"time"

	"tunnox-core/internal/protocol/session"
	"tunnox-core/internal/protocol/session/crossnode"
)

const maxFrame = crossnode.MaxFrameSize
const hdrSize = crossnode.FrameHeaderSize

// ---------------------------------------------------------------------------------------------
// chunk-controlled reader (same contract as coq/Base/Chunks.v: never returns (0,nil) for a non-empty buffer)
// ---------------------------------------------------------------------------------------------

type chunkReader struct {
	data []byte
	cuts []int
}

func (c *chunkReader) Read(p []byte) (int, error) {
	if len(p) == 0 {
		return 0, nil
	}
	if len(c.data) == 0 {
		return 0, io.EOF
	}
	k := len(c.data)
	if len(c.cuts) > 0 {
		k = c.cuts[0]
		if k < 1 {
			k = 1
		}
		c.cuts = c.cuts[1:]
	}
	if k > len(p) {
		k = len(p)
	}
	if k > len(c.data) {
		k = len(c.data)
	}
	copy(p, c.data[:k])
	c.data = c.data[k:]
	return k, nil
}

// ---------------------------------------------------------------------------------------------
// case formats
// ---------------------------------------------------------------------------------------------

type frameIn struct {
	Tid  string `json:"tid"` // hex, 16 bytes
	Ty   int    `json:"ty"`
	Data string `json:"data"` // hex
}

type opIn struct {
	K    string `json:"k"`    // "w" Write | "cw" CloseWrite | "c" Close | "f" raw WriteFrame | "raw" raw bytes
	W    int    `json:"w"`    // writer index (w/cw/c)
	Data string `json:"data"` // hex (w/f/raw)
	Tid  string `json:"tid"`  // hex 16 bytes (f)
	Ty   int    `json:"ty"`   // (f)
}

type caseIn struct {
	Mode   string    `json:"mode"`
	Wire   string    `json:"wire"`
	Cuts   []int     `json:"cuts"`
	Frames []frameIn `json:"frames"`

	Writers  []string `json:"writers"` // tunnel-id STRINGS (hex of the string bytes), one FrameStream each
	Reader   string   `json:"reader"`  // tunnel-id string of the reading FrameStream
	ReaderCW bool     `json:"reader_cw"`
	Ops      []opIn   `json:"ops"`
	Caps     []int    `json:"caps"`
	Dcap     int      `json:"dcap"`
	Dribble  []int    `json:"dribble"`

	// stream mode: the reading FrameStream is created with a TunnelStateTracker (NewFrameStreamWithTracker);
	// premarked ids are reported closed from the start, marks[i] = {after: k, id} is reported closed once k Reads have returned
	Tracker   bool     `json:"tracker"`
	Premarked []string `json:"premarked"`
	Marks     []markIn `json:"marks"`

	Strs []string `json:"strs"` // tid mode: id strings (hex)

	Req   string `json:"req"`   // fwd mode: request bytes (hex), response bytes (hex), application write sizes
	Resp  string `json:"resp"`
	Wsize []int  `json:"wsize"`

	// gated mode: per-Read chunks of each direction (hex) and the schedule (0 = upload loop, 1 = download loop)
	Up       []string `json:"up"`
	Down     []string `json:"down"`
	Sched    []int    `json:"sched"`
	Counters bool     `json:"counters"`
	UpEofl   bool     `json:"up_eofl"`   // the upload source returns its last chunk together with io.EOF
	DownEofl bool     `json:"down_eofl"` // same for the download source (gated mode)
	// duplex mode
	UpLen    int    `json:"up_len"`
	DownLen  int    `json:"down_len"`
	Seed     int    `json:"seed"`
	Local    string `json:"local"` // "tcp" | "pipe"
	SmallBuf bool   `json:"small_buf"`
	// the method set the forwarder sees on LocalConn: "cw" Read/Write/Close/CloseWrite, "rwc" Read/Write/Close, "rw" Read/Write
	Shape     string `json:"shape"`
	UseCloser bool   `json:"use_closer"` // LocalConnCloser configured
	Order     string `json:"order"`      // halfclose mode: "peer-first" | "local-first"
	Dialog    []stepIn `json:"dialog"`   // dialog mode
	Rounds    []roundIn `json:"rounds"`  // pool mode
}

type markIn struct {
	After int    `json:"after"`
	ID    string `json:"id"` // hex of the tunnel-id string
}

// mapTracker: the node-wide closed-tunnel set (SessionManager.MarkTunnelClosed / IsTunnelClosed) as a plain map
type mapTracker struct {
	mu     sync.Mutex
	closed map[string]bool
}

func (t *mapTracker) IsTunnelClosed(id string) bool {
	t.mu.Lock()
	defer t.mu.Unlock()
	return t.closed[id]
}
func (t *mapTracker) mark(id string) { t.mu.Lock(); t.closed[id] = true; t.mu.Unlock() }

type decObs struct {
	Ok       bool   `json:"ok"`
	Tid      string `json:"tid,omitempty"`
	Ty       int    `json:"ty"`
	Data     string `json:"data"`
	Eof      bool   `json:"eof"`
	Consumed int    `json:"consumed"`
}

type wres struct {
	N int `json:"n"`
	E int `json:"e"` // 0 nil, 1 io.ErrClosedPipe, 2 other error
}

type caseOut struct {
	Wire    string   `json:"wire"`
	WireLen int      `json:"wire_len"`
	Obs     []decObs `json:"obs,omitempty"`
	MaxAllocDelta uint64 `json:"max_alloc_delta"`

	Wres   []wres   `json:"wres,omitempty"`
	Reads  []string `json:"reads"`
	Term   string   `json:"term,omitempty"`  // "eof" | "err" | "zero" | "runaway" | "hang"
	Final  string   `json:"final,omitempty"` // result of one more Read after the terminal one: "eof" | "err" | "data"
	Broken bool     `json:"broken"`
	Hostile bool    `json:"hostile"`

	UpMid     string `json:"up_mid,omitempty"` // gated mode: bytes delivered per direction after the scheduled prefix / at the end
	DownMid   string `json:"down_mid,omitempty"`
	UpFinal   string `json:"up_final,omitempty"`
	DownFinal string `json:"down_final,omitempty"`
	Sent      int64  `json:"sent"` // BytesSentCounter / BytesReceivedCounter after the run (gated, fwdcut)
	Recv      int64  `json:"recv"`

	Reused  []bool `json:"reused,omitempty"`  // pool mode: per round, was the connection a reused pooled one
	Skipped bool   `json:"skipped,omitempty"` // not run: the hang budget of this harness invocation was used up
	Steps  []stepObs `json:"steps,omitempty"` // dialog mode
	Hashes bool    `json:"hashes"`          // tid mode: this tree derives long wire ids from the whole string
	Ids   []string `json:"ids,omitempty"`   // tid mode: TunnelIDFromString(s) hex
	Backs []string `json:"backs,omitempty"` // tid mode: TunnelIDToString(id) hex

	PropOK  bool   `json:"prop_ok"`
	PropKey string `json:"prop_key,omitempty"`
	PropMsg string `json:"prop_msg,omitempty"`
}

// harness-side failures (bad case files, no loopback TCP, ...) are not findings about the real code
type harnessErr string

func hmust(err error) {
	if err != nil {
		panic(harnessErr(err.Error()))
	}
}

var failMu sync.Mutex

// ---- watchdogs: no wait of this harness is unbounded, and a tree on which everything hangs must not cost the full
// per-wait timeout thousands of times.  After two hang-type failures in this process (or with VERIF_C10_FASTHANG set, as
// the driver does while shrinking) every wait is capped at 700 ms; after 90 s spent in hanging cases the remaining
// cases of this invocation are skipped (reported as skipped, never as passed checks of the predicate).
var hangCount int32
var hangSpentNs int64
var fastHang = os.Getenv("VERIF_C10_FASTHANG") != ""

func isHangKey(key string) bool {
	return strings.Contains(key, "hang") || strings.Contains(key, "not-delivered")
}
func hangWait(d time.Duration) time.Duration {
	if (fastHang || atomic.LoadInt32(&hangCount) >= 2) && d > 700*time.Millisecond {
		return 700 * time.Millisecond
	}
	return d
}
func watchdog(d time.Duration) <-chan time.Time { return time.After(hangWait(d)) }

// safeReadFrame: one ReadFrameFromReader call under recover (the property says bad input is REJECTED, never a panic)
func safeReadFrame(r io.Reader) (tid [16]byte, ty byte, data []byte, err error, panicked interface{}) {
	defer func() {
		if p := recover(); p != nil {
			panicked = p
		}
	}()
	tid, ty, data, err = crossnode.ReadFrameFromReader(r)
	return
}

func (o *caseOut) fail(key, format string, args ...interface{}) {
	failMu.Lock()
	defer failMu.Unlock()
	if o.PropOK {
		if isHangKey(key) {
			atomic.AddInt32(&hangCount, 1)
		}
		o.PropOK = false
		o.PropKey = key
		o.PropMsg = fmt.Sprintf(format, args...)
	}
}

// pad16: the harness's own statement of the wire id of a tunnel-id string (first 16 bytes, zero padded)
func pad16(s []byte) [16]byte {
	var id [16]byte
	if len(s) > 16 {
		s = s[:16]
	}
	copy(id[:], s)
	return id
}

// Which TunnelIDFromString does this tree have?  Probed behaviourally: two long ids that share their first 16 bytes.
//   truncating (pinned): both get the same wire id (known finding wire-id-truncation)
//   hashing (fixes/C10-wire-id-hash.diff): ids longer than 16 bytes get 16 bytes derived from the WHOLE string
const probeA = "tcp-tunnel-1759260000000000000-8080"
const probeB = "tcp-tunnel-1759263600000000000-9090"

var treeHashes = func() bool {
	a, _ := crossnode.TunnelIDFromString(probeA)
	b, _ := crossnode.TunnelIDFromString(probeB)
	return a != b
}()

// specID: the wire id the harness expects for a tunnel-id string.  Short ids (<= 16 bytes): verbatim, zero padded, on
// both variants.  Long ids: the first 16 bytes on a truncating tree; on a hashing tree the tree's own function is the
// hash oracle H (any hash will do) and what is checked is that H separates all the ids in use (wire-id-collision).
func specID(s []byte) [16]byte {
	if len(s) > 16 && treeHashes {
		id, err := crossnode.TunnelIDFromString(string(s))
		hmust(err)
		return id
	}
	return pad16(s)
}

func tid16(h string) [16]byte {
	b := unhx(h)
	if len(b) != 16 {
		panic("tid must be 16 bytes")
	}
	var id [16]byte
	copy(id[:], b)
	return id
}

// ---------------------------------------------------------------------------------------------
// decoder
// ---------------------------------------------------------------------------------------------

// decodeAll runs the real ReadFrameFromReader until its first error, checking every result against an
// independent walk of the byte string (ref*) and measuring heap allocation per call.
func decodeAll(wire []byte, cuts []int, out *caseOut, record bool) []decObs {
	r := &chunkReader{data: wire, cuts: append([]int(nil), cuts...)}
	var obs []decObs
	pos := 0
	var m1, m2 runtime.MemStats
	for i := 0; i <= len(wire)/hdrSize+1; i++ {
		before := len(r.data)
		hdrN := int64(-1)
		if before >= hdrSize {
			hdrN = int64(binary.BigEndian.Uint32(r.data[17:21]))
		}
		snap := *r
		runtime.ReadMemStats(&m1)
		tid, ty, data, err, pnc := safeReadFrame(r)
		runtime.ReadMemStats(&m2)
		if pnc != nil {
			hd := snap.data
			if len(hd) > hdrSize {
				hd = hd[:hdrSize]
			}
			out.fail("decoder-panic", "ReadFrameFromReader PANICKED (%v) at offset %d on header % x (type byte %#x, declared length %d) instead of returning an error",
				pnc, pos, hd, typeByte(snap.data), hdrN)
			obs = append(obs, decObs{Ok: false, Eof: false, Consumed: -1})
			return obs
		}
		delta := m2.TotalAlloc - m1.TotalAlloc
		consumed := before - len(r.data)
		// allocation bound: header + payload (<= MaxFrameSize) + slack for size classes and error values;
		// when the declared length exceeds the limit nothing but the header and the error may be allocated
		bound := uint64(8192)
		if hdrN >= 0 && hdrN <= maxFrame {
			bound += uint64(hdrN) + uint64(hdrN)/4
		}
		// TotalAlloc is process wide: other goroutines (runtime, package-level background workers of the linked
		// packages) may allocate during the window.  The decoder's own allocation is deterministic, so a reading
		// above the bound is re-measured on a copy of the reader and the minimum is what counts.
		for try := 0; try < 6 && delta > bound && delta < bound+(1<<20); try++ { // noise is kilobytes, not megabytes
			r2 := snap
			runtime.Gosched()
			runtime.ReadMemStats(&m1)
			safeReadFrame(&r2)
			runtime.ReadMemStats(&m2)
			if d := m2.TotalAlloc - m1.TotalAlloc; d < delta {
				delta = d
			}
		}
		if record && delta > out.MaxAllocDelta {
			out.MaxAllocDelta = delta
		}
		if delta > bound {
			out.fail("decoder-allocation", "ReadFrameFromReader allocated %d bytes for a frame declaring length %d (bound %d, limit %d+%d) at offset %d",
				delta, hdrN, bound, maxFrame, hdrSize, pos)
		}
		if err != nil {
			o := decObs{Ok: false, Eof: err == io.EOF, Consumed: consumed}
			obs = append(obs, o)
			switch {
			case before == 0:
				if !o.Eof || consumed != 0 {
					out.fail("decoder-result", "empty input: expected io.EOF, got %v", err)
				}
			case before < hdrSize:
				if o.Eof || consumed != before {
					out.fail("decoder-result", "%d-byte truncated header at offset %d: err=%v consumed=%d", before, pos, err, consumed)
				}
			case hdrN > maxFrame:
				if o.Eof || consumed != hdrSize {
					out.fail("decoder-result", "oversized frame (%d) at offset %d: err=%v consumed=%d", hdrN, pos, err, consumed)
				}
			case int64(before-hdrSize) < hdrN:
				if o.Eof || consumed != before {
					out.fail("decoder-result", "truncated payload at offset %d: err=%v consumed=%d of %d", pos, err, consumed, before)
				}
			default:
				out.fail("decoder-result", "ReadFrameFromReader rejected a complete frame (len %d) at offset %d: %v", hdrN, pos, err)
			}
			return obs
		}
		o := decObs{Ok: true, Tid: hx(tid[:]), Ty: int(ty), Data: hx(data), Consumed: consumed}
		obs = append(obs, o)
		if hdrN < 0 || hdrN > maxFrame || int64(before-hdrSize) < hdrN {
			out.fail("decoder-result", "ReadFrameFromReader accepted an incomplete or oversized frame at offset %d (declared %d, %d bytes left)", pos, hdrN, before)
			return obs
		}
		n := int(hdrN)
		if consumed != hdrSize+n || !bytes.Equal(tid[:], wire[pos:pos+16]) || ty != wire[pos+16] || !bytes.Equal(data, wire[pos+hdrSize:pos+hdrSize+n]) {
			out.fail("decoder-result", "frame at offset %d decoded wrongly (consumed %d, want %d)", pos, consumed, hdrSize+n)
			return obs
		}
		pos += consumed
	}
	out.fail("decoder-result", "decoder did not stop on a %d-byte input", len(wire))
	return obs
}

func typeByte(b []byte) int {
	if len(b) > 16 {
		return int(b[16])
	}
	return -1
}

func sameDec(a, b []decObs) bool {
	if len(a) != len(b) {
		return false
	}
	for i := range a {
		if a[i] != b[i] {
			return false
		}
	}
	return true
}

func runDec(c *caseIn, out *caseOut) {
	var wire []byte
	if c.Mode == "enc" {
		var buf bytes.Buffer
		var accepted []frameIn
		for i, f := range c.Frames {
			data := unhx(f.Data)
			before := buf.Len()
			err := crossnode.WriteFrameToWriter(&buf, tid16(f.Tid), byte(f.Ty), data)
			switch {
			case len(data) > maxFrame:
				if err == nil || buf.Len() != before {
					out.fail("encoder-limit", "frame %d: WriteFrameToWriter accepted %d > MaxFrameSize bytes (err=%v, wrote %d)", i, len(data), err, buf.Len()-before)
				}
			case err != nil:
				out.fail("roundtrip", "frame %d: WriteFrameToWriter refused a %d-byte frame: %v", i, len(data), err)
			default:
				if buf.Len()-before != hdrSize+len(data) {
					out.fail("roundtrip", "frame %d: wrote %d bytes for a %d-byte payload", i, buf.Len()-before, len(data))
				}
				accepted = append(accepted, f)
			}
		}
		wire = append([]byte(nil), buf.Bytes()...)
		obs := decodeAll(wire, c.Cuts, out, true)
		out.Obs = obs
		// the round trip itself: decode(encode f) = f for every accepted frame, then a clean io.EOF
		if len(obs) != len(accepted)+1 {
			out.fail("roundtrip", "wrote %d frames, decoded %d results", len(accepted), len(obs))
		} else {
			for i, f := range accepted {
				o := obs[i]
				if !o.Ok || o.Tid != f.Tid || o.Ty != f.Ty&0xff || o.Data != f.Data {
					out.fail("roundtrip", "frame %d (type %#x, %d bytes) decoded as ok=%v type=%#x %d bytes", i, f.Ty, len(f.Data)/2, o.Ok, o.Ty, len(o.Data)/2)
					break
				}
			}
			last := obs[len(obs)-1]
			if last.Ok || !last.Eof {
				out.fail("roundtrip", "no clean io.EOF after the last frame: %+v", last)
			}
		}
	} else {
		wire = unhx(c.Wire)
		out.Obs = decodeAll(wire, c.Cuts, out, true)
	}
	// chunk independence evaluated on the implementation: one-shot delivery and 1-byte delivery must agree
	var scratch caseOut
	scratch.PropOK = true
	ref := decodeAll(wire, nil, &scratch, false)
	if !sameDec(out.Obs, ref) {
		out.fail("chunk-independence", "ReadFrameFromReader results differ between this chunking and one-shot delivery")
	}
	out.Wire = hx(wire)
	out.WireLen = len(wire)
}

// ---------------------------------------------------------------------------------------------
// FrameStream over loopback TCP
// ---------------------------------------------------------------------------------------------

var listener *net.TCPListener

func tcpPair() (*net.TCPConn, *net.TCPConn) { return tcpPairLinger(true) }

func tcpPairLinger(rst bool) (*net.TCPConn, *net.TCPConn) {
	if listener == nil {
		l, err := net.ListenTCP("tcp", &net.TCPAddr{IP: net.IPv4(127, 0, 0, 1)})
		hmust(err)
		listener = l
	}
	type res struct {
		c   *net.TCPConn
		err error
	}
	ch := make(chan res, 1)
	go func() {
		c, err := listener.AcceptTCP()
		ch <- res{c, err}
	}()
	a, err := net.DialTCP("tcp", nil, listener.Addr().(*net.TCPAddr))
	hmust(err)
	var r res
	select {
	case r = <-ch:
	case <-watchdog(10 * time.Second):
		panic(harnessErr("loopback accept did not complete"))
	}
	hmust(r.err)
	a.SetNoDelay(true)
	// close with RST instead of FIN/TIME_WAIT: thousands of short-lived loopback connections per run must not
	// exhaust the ephemeral port range (both ends are only closed after the reader has finished)
	if rst {
		a.SetLinger(0)
		r.c.SetLinger(0)
	}
	return a, r.c
}

func errKind(err error) int {
	switch {
	case err == nil:
		return 0
	case errors.Is(err, io.ErrClosedPipe):
		return 1
	}
	return 2
}

// execOps performs the script on the writer side of the connection with REAL FrameStreams / WriteFrame.
func execOps(c *caseIn, a *net.TCPConn) []wres {
	conn := crossnode.NewConn(context.Background(), "peer", a, nil)
	streams := make([]*crossnode.FrameStream, len(c.Writers))
	for i, w := range c.Writers {
		id, err := crossnode.TunnelIDFromString(string(unhx(w)))
		hmust(err)
		streams[i] = crossnode.NewFrameStream(conn, id)
	}
	var res []wres
	for _, op := range c.Ops {
		switch op.K {
		case "w":
			n, err := streams[op.W].Write(unhx(op.Data))
			res = append(res, wres{n, errKind(err)})
		case "cw":
			res = append(res, wres{0, errKind(streams[op.W].CloseWrite())})
		case "c":
			res = append(res, wres{0, errKind(streams[op.W].Close())})
		case "f":
			res = append(res, wres{0, errKind(crossnode.WriteFrame(a, tid16(op.Tid), byte(op.Ty), unhx(op.Data)))})
		case "raw":
			_, err := a.Write(unhx(op.Data))
			res = append(res, wres{0, errKind(err)})
		default:
			panic("bad op " + op.K)
		}
	}
	return res
}

type readRes struct {
	panicMsg string
	reads  [][]byte
	term   string
	final  string
	broken bool
}

func readerSide(c *caseIn, b *net.TCPConn, limit int) readRes {
	conn := crossnode.NewConn(context.Background(), "peer", b, nil)
	id, err := crossnode.TunnelIDFromString(string(unhx(c.Reader)))
	hmust(err)
	fs := crossnode.NewFrameStream(conn, id)
	var tr *mapTracker
	if c.Tracker {
		tr = &mapTracker{closed: map[string]bool{}}
		for _, h := range c.Premarked {
			tr.mark(string(unhx(h)))
		}
		fs = crossnode.NewFrameStreamWithTracker(conn, id, tr)
	}
	applyMarks := func(readsDone int) {
		if tr == nil {
			return
		}
		for _, m := range c.Marks {
			if m.After == readsDone {
				tr.mark(string(unhx(m.ID)))
			}
		}
	}
	if c.ReaderCW {
		hmust(fs.CloseWrite())
	}
	var rr readRes
	got := 0
	dcap := c.Dcap
	if dcap < 1 {
		dcap = 32768
	}
	for i := 0; ; i++ {
		k := dcap
		if i < len(c.Caps) {
			k = c.Caps[i]
		}
		if k < 1 {
			k = 1
		}
		buf := make([]byte, k)
		applyMarks(i)
		n, err := fs.Read(buf)
		if err != nil {
			if err == io.EOF {
				rr.term = "eof"
			} else {
				rr.term = "err"
			}
			if n != 0 {
				rr.term = "err+data"
			}
			break
		}
		if n == 0 {
			rr.term = "zero" // (0, nil) for a non-empty buffer: breaks the io.Reader contract and would spin io.Copy
			break
		}
		rr.reads = append(rr.reads, append([]byte(nil), buf[:n]...))
		got += n
		if i > limit || got > limit+1024 { // more reads / bytes than the whole script contains
			rr.term = "runaway"
			break
		}
	}
	buf := make([]byte, 64)
	n, err := fs.Read(buf)
	switch {
	case err == io.EOF && n == 0:
		rr.final = "eof"
	case err != nil:
		rr.final = "err"
	default:
		rr.final = "data"
	}
	rr.broken = fs.IsBroken()
	return rr
}

// runReader: writer goroutine (script or dribbled wire) + reader goroutine on a fresh TCP pair
func runReader(c *caseIn, wire []byte, dribble []int, limit int) readRes {
	a, b := tcpPair()
	wdone := make(chan struct{})
	go func() {
		defer close(wdone)
		if wire == nil {
			execOps(c, a)
		} else {
			rest := wire
			for _, k := range dribble {
				if len(rest) == 0 {
					break
				}
				if k < 1 {
					k = 1
				}
				if k > len(rest) {
					k = len(rest)
				}
				if _, err := a.Write(rest[:k]); err != nil {
					return
				}
				rest = rest[k:]
				time.Sleep(150 * time.Microsecond)
			}
			if len(rest) > 0 {
				a.Write(rest)
			}
		}
		a.CloseWrite() // TCP FIN: the transport ends after the script, so the reader always terminates
	}()
	rdone := make(chan readRes, 1)
	go func() {
		defer func() {
			if p := recover(); p != nil {
				rdone <- readRes{term: "panic", panicMsg: fmt.Sprint(p)}
			}
		}()
		rdone <- readerSide(c, b, limit)
	}()
	var rr readRes
	select {
	case rr = <-rdone:
	case <-watchdog(30 * time.Second):
		rr = readRes{term: "hang"}
	}
	b.Close()
	a.Close()
	<-wdone
	return rr
}

// reference delivery: what the reading stream must deliver, from the script alone.
// mineW decides which writers belong to the reader's tunnel; raw frames are matched on the 16 wire bytes.
func reference(c *caseIn, mineW func(i int) bool) (exp []byte, hostile bool) {
	rid := specID(unhx(c.Reader))
	wclosed := map[int]bool{}
	done := false
	for _, op := range c.Ops {
		switch op.K {
		case "w":
			d := unhx(op.Data)
			if wclosed[op.W] || len(d) == 0 {
				continue
			}
			if mineW(op.W) && !done {
				exp = append(exp, d...)
			}
		case "cw", "c":
			if !wclosed[op.W] {
				wclosed[op.W] = true
				if mineW(op.W) {
					done = true
				}
			}
		case "f":
			d := unhx(op.Data)
			if len(d) > maxFrame {
				continue
			}
			if tid16(op.Tid) == rid {
				switch byte(op.Ty) {
				case crossnode.FrameTypeData:
					if !done {
						exp = append(exp, d...)
					}
				case crossnode.FrameTypeEOF, crossnode.FrameTypeClose:
					done = true
				}
			}
		case "raw":
			hostile = true
		}
	}
	return
}

func runStream(c *caseIn, out *caseOut) {
	// pass A: the script against a raw tap -> the exact wire bytes and the writer-side results
	a, b := tcpPair()
	tap := make(chan []byte, 1)
	go func() {
		w, _ := io.ReadAll(b)
		tap <- w
	}()
	out.Wres = execOps(c, a)
	a.CloseWrite()
	wire := <-tap
	a.Close()
	b.Close()
	out.Wire = hx(wire)
	out.WireLen = len(wire)

	total := 0
	for _, op := range c.Ops {
		total += len(op.Data) / 2
	}
	limit := total + len(c.Ops) + 16

	// pass B: the same script against a real FrameStream reader
	rr := runReader(c, nil, nil, limit)
	for _, r := range rr.reads {
		out.Reads = append(out.Reads, hx(r))
	}
	out.Term, out.Final, out.Broken = rr.term, rr.final, rr.broken

	readerStr := unhx(c.Reader)
	expS, hostile := reference(c, func(i int) bool { return bytes.Equal(unhx(c.Writers[i]), readerStr) })
	out.Hostile = hostile
	got := bytes.Join(rr.reads, nil)

	// writer-side results: a Write on an open stream reports all its bytes; after CloseWrite/Close it is refused
	wclosed := map[int]bool{}
	for i, op := range c.Ops {
		r := out.Wres[i]
		switch op.K {
		case "w":
			if wclosed[op.W] {
				if r.E != 1 || r.N != 0 {
					out.fail("write-after-close", "op %d: Write after CloseWrite/Close returned (%d, errkind %d), want (0, io.ErrClosedPipe)", i, r.N, r.E)
				}
			} else if r.E != 0 || r.N != len(op.Data)/2 {
				out.fail("write-result", "op %d: Write of %d bytes returned (%d, errkind %d)", i, len(op.Data)/2, r.N, r.E)
			}
		case "cw", "c":
			wclosed[op.W] = true
			if r.E != 0 {
				out.fail("write-result", "op %d: %s returned errkind %d", i, op.K, r.E)
			}
		}
	}

	if rr.term == "panic" {
		out.fail("decoder-panic", "FrameStream.Read PANICKED (%s) on a connection carrying %d wire bytes % x... instead of returning an error", rr.panicMsg, len(wire), wire[:minInt(len(wire), 63)])
	}
	switch rr.term {
	case "hang", "runaway", "zero", "err+data":
		out.fail("reader-"+rr.term, "FrameStream.Read: %s after %d reads / %d bytes", rr.term, len(rr.reads), len(got))
	}
	for i, r := range rr.reads {
		k := c.Dcap
		if i < len(c.Caps) {
			k = c.Caps[i]
		}
		if k >= 1 && len(r) > k {
			out.fail("reader-overrun", "read %d returned %d bytes into a %d-byte buffer", i, len(r), k)
		}
	}
	if !hostile {
		// the property on well-formed traffic: delivered bytes = bytes written to THIS tunnel (string identity),
		// in order, complete, then end-of-stream; nothing of other tunnels / unknown frame types
		if !bytes.Equal(got, expS) || rr.term != "eof" {
			expW, _ := reference(c, func(i int) bool { return specID(unhx(c.Writers[i])) == specID(readerStr) })
			collide := false
			for _, w := range c.Writers {
				ws := unhx(w)
				if !treeHashes && !bytes.Equal(ws, readerStr) && pad16(ws) == pad16(readerStr) && (len(ws) > 16 || len(readerStr) > 16) {
					collide = true
				}
			}
			if collide && rr.term == "eof" && bytes.Equal(got, expW) {
				out.fail("wire-id-truncation", "reader for tunnel %q received %d bytes, %d were written to it: frames of a different tunnel whose id shares the first 16 bytes were delivered/obeyed (first difference at byte %d)",
					string(readerStr), len(got), len(expS), firstDiff(got, expS))
			} else {
				out.fail("stream-transparency", "reader for tunnel %q: got %d bytes (term=%s), want %d bytes then EOF (first difference at byte %d)",
					string(readerStr), len(got), rr.term, len(expS), firstDiff(got, expS))
			}
		}
		if rr.final != "eof" {
			out.fail("eof-not-sticky", "Read after end-of-stream returned %s", rr.final)
		}
	}

	// pass C: the same wire bytes dribbled in pieces over a real TCP connection: identical Read results
	if len(c.Dribble) > 0 {
		rc := runReader(c, wire, c.Dribble, limit)
		same := rc.term == rr.term && rc.final == rr.final && len(rc.reads) == len(rr.reads)
		if same {
			for i := range rc.reads {
				if !bytes.Equal(rc.reads[i], rr.reads[i]) {
					same = false
					break
				}
			}
		}
		if !same {
			out.fail("chunk-independence", "FrameStream.Read results changed when the same %d wire bytes arrived in %d pieces (%d vs %d reads, term %s vs %s)",
				len(wire), len(c.Dribble), len(rc.reads), len(rr.reads), rc.term, rr.term)
		}
	}
}

// runConc: the writers of the script run in their OWN goroutines on one connection (each writer's ops in order, raw
// WriteFrame calls in one more goroutine), so frames of different tunnels interleave as the Go scheduler and the
// kernel decide.  Supplement to the deterministic scripts: whatever the interleaving, the reader must receive
// exactly what was written to its tunnel (WriteFrame must put a frame on the connection atomically).
func runConc(c *caseIn, out *caseOut) {
	total := 0
	for _, op := range c.Ops {
		total += len(op.Data) / 2
	}
	limit := total + len(c.Ops) + 16
	a, b := tcpPair()
	conn := crossnode.NewConn(context.Background(), "peer", a, nil)
	streams := make([]*crossnode.FrameStream, len(c.Writers))
	for i, w := range c.Writers {
		id, err := crossnode.TunnelIDFromString(string(unhx(w)))
		hmust(err)
		streams[i] = crossnode.NewFrameStream(conn, id)
	}
	groups := make([][]opIn, len(c.Writers)+1)
	for _, op := range c.Ops {
		switch op.K {
		case "w", "cw", "c":
			groups[op.W] = append(groups[op.W], op)
		case "f":
			groups[len(c.Writers)] = append(groups[len(c.Writers)], op)
		default:
			panic("bad op in conc mode " + op.K)
		}
	}
	rdone := make(chan readRes, 1)
	go func() {
		defer func() {
			if p := recover(); p != nil {
				rdone <- readRes{term: "panic", panicMsg: fmt.Sprint(p)}
			}
		}()
		rdone <- readerSide(c, b, limit)
	}()
	wdone := make(chan struct{}, len(groups))
	start := make(chan struct{})
	for _, g := range groups {
		go func(g []opIn) {
			defer func() { wdone <- struct{}{} }()
			<-start
			for _, op := range g {
				switch op.K {
				case "w":
					streams[op.W].Write(unhx(op.Data))
				case "cw":
					streams[op.W].CloseWrite()
				case "c":
					streams[op.W].Close()
				case "f":
					crossnode.WriteFrame(a, tid16(op.Tid), byte(op.Ty), unhx(op.Data))
				}
			}
		}(g)
	}
	close(start)
	alldone := make(chan struct{})
	go func() {
		defer close(alldone)
		for range groups {
			<-wdone
		}
		a.CloseWrite()
	}()
	var rr readRes
	select {
	case rr = <-rdone:
	case <-watchdog(30 * time.Second):
		rr = readRes{term: "hang"}
	}
	b.Close()
	a.Close()
	<-alldone // no writer goroutine survives the case
	out.Term, out.Final, out.Broken = rr.term, rr.final, rr.broken
	got := bytes.Join(rr.reads, nil)
	out.WireLen = len(got)
	readerStr := unhx(c.Reader)
	// per-writer order is preserved by construction, so the string-level reference over the script applies
	exp, _ := reference(c, func(i int) bool { return bytes.Equal(unhx(c.Writers[i]), readerStr) })
	if !bytes.Equal(got, exp) || rr.term != "eof" {
		out.fail("concurrent-writers", "reader for tunnel %q with %d concurrent writers: got %d bytes (term=%s), want %d bytes then EOF (first difference at byte %d)",
			string(readerStr), len(groups), len(got), rr.term, len(exp), firstDiff(got, exp))
	}
}

// runFwd: the real runBidirectionalForward on BOTH nodes, joined by real FrameStreams over a loopback TCP connection:
//
//	app A <-tcp-> forwarder A <== FrameStream / TCP ==> forwarder B <-tcp-> app B
//
// App A sends a request and half-closes (the HTTP request-response pattern the helper documents), app B answers after
// the full request and closes.  Predicate: both byte strings arrive unchanged and complete, app A then sees
// end-of-stream, and both forwarders return.
func runFwd(c *caseIn, out *caseOut) {
	req, resp := unhx(c.Req), unhx(c.Resp)
	idStr := string(unhx(c.Reader))
	id, err := crossnode.TunnelIDFromString(idStr)
	hmust(err)
	xa, xb := tcpPair()
	appA, localA := tcpPairLinger(false)
	localB, appB := tcpPairLinger(false)
	fsA := crossnode.NewFrameStream(crossnode.NewConn(context.Background(), "B", xa, nil), id)
	fsB := crossnode.NewFrameStream(crossnode.NewConn(context.Background(), "A", xb, nil), id)
	fdone := make(chan string, 2)
	go func() {
		forwardGuarded(out, &session.BidirectionalForwardConfig{TunnelID: idStr, LogPrefix: "A", LocalConn: localA, RemoteConn: fsA})
		fdone <- "A"
	}()
	go func() {
		forwardGuarded(out, &session.BidirectionalForwardConfig{TunnelID: idStr, LogPrefix: "B", LocalConn: localB, RemoteConn: fsB})
		fdone <- "B"
	}()
	chunked := func(w io.Writer, data []byte) {
		i := 0
		for len(data) > 0 {
			k := len(data)
			if i < len(c.Wsize) && c.Wsize[i] >= 1 && c.Wsize[i] < k {
				k = c.Wsize[i]
			}
			i++
			if _, err := w.Write(data[:k]); err != nil {
				return
			}
			data = data[k:]
		}
	}
	type res struct {
		b   []byte
		err error
	}
	bdone := make(chan res, 1)
	go func() { // app B: read the whole request, answer, close
		got := make([]byte, len(req))
		_, err := io.ReadFull(appB, got)
		chunked(appB, resp)
		appB.CloseWrite()
		bdone <- res{got, err}
	}()
	adone := make(chan res, 1)
	go func() { // app A: request, half-close, read the answer to end-of-stream
		chunked(appA, req)
		appA.CloseWrite()
		got, err := io.ReadAll(appA)
		adone <- res{got, err}
	}()
	deadline := watchdog(10 * time.Second)
	var ra, rb res
	okA, okB := false, false
	fwd := 0
	for !(okA && okB && fwd == 2) {
		select {
		case ra = <-adone:
			okA = true
		case rb = <-bdone:
			okB = true
		case <-fdone:
			fwd++
		case <-deadline:
			out.fail("forwarder-hang", "request %d / response %d bytes: after 10 s app A done=%v, app B done=%v, forwarders returned=%d/2", len(req), len(resp), okA, okB, fwd)
			okA, okB, fwd = true, true, 2
		}
	}
	for _, cn := range []*net.TCPConn{xa, xb, appA, localA, localB, appB} {
		cn.Close()
	}
	if out.PropOK {
		if rb.err != nil || !bytes.Equal(rb.b, req) {
			out.fail("forwarder-transparency", "request of %d bytes arrived at app B as %d bytes (err=%v, first difference at %d)", len(req), len(rb.b), rb.err, firstDiff(rb.b, req))
		}
		if ra.err != nil || !bytes.Equal(ra.b, resp) {
			out.fail("forwarder-transparency", "response of %d bytes arrived at app A as %d bytes (err=%v, first difference at %d)", len(resp), len(ra.b), ra.err, firstDiff(ra.b, resp))
		}
	}
	out.WireLen = len(req) + len(resp)
}

func minInt(a, b int) int {
	if a < b {
		return a
	}
	return b
}

func firstDiff(a, b []byte) int {
	n := len(a)
	if len(b) < n {
		n = len(b)
	}
	for i := 0; i < n; i++ {
		if a[i] != b[i] {
			return i
		}
	}
	return n
}

// ---------------------------------------------------------------------------------------------
// tunnel-id strings
// ---------------------------------------------------------------------------------------------

func runTid(c *caseIn, out *caseOut) {
	var ids [][16]byte
	for _, h := range c.Strs {
		s := unhx(h)
		id, err := crossnode.TunnelIDFromString(string(s))
		if err != nil {
			out.fail("wire-id-mapping", "TunnelIDFromString(%q) failed: %v", string(s), err)
		}
		again, _ := crossnode.TunnelIDFromString(string(s))
		switch {
		case again != id:
			out.fail("wire-id-mapping", "TunnelIDFromString(%q) is not deterministic: %x then %x", string(s), id, again)
		case len(s) <= 16 && id != pad16(s):
			out.fail("wire-id-mapping", "TunnelIDFromString(%q) = %x, want the bytes verbatim, zero padded", string(s), id)
		case len(s) > 16 && !treeHashes && id != pad16(s):
			out.fail("wire-id-mapping", "TunnelIDFromString(%q) = %x, want the first 16 bytes (truncating tree)", string(s), id)
		}
		ids = append(ids, id)
		out.Ids = append(out.Ids, hx(id[:]))
		out.Backs = append(out.Backs, hx([]byte(crossnode.TunnelIDToString(id))))
	}
	out.Hashes = treeHashes
	// the filter of FrameStream.Read can only separate tunnels whose wire ids differ
	for i := range ids {
		for j := i + 1; j < len(ids); j++ {
			si, sj := unhx(c.Strs[i]), unhx(c.Strs[j])
			if !bytes.Equal(si, sj) && ids[i] == ids[j] {
				switch {
				case len(si) <= 16 && len(sj) <= 16:
					out.fail("wire-id-nul-padding", "distinct tunnel ids %q and %q share wire id %x", string(si), string(sj), ids[i])
				case treeHashes:
					// this tree separates the probe pair, i.e. it claims to derive long ids from the whole string
					out.fail("wire-id-collision", "this tree derives long wire ids by hashing (the probe ids %q / %q differ) but distinct tunnel ids %q and %q share wire id %x",
						probeA, probeB, string(si), string(sj), ids[i])
				default:
					out.fail("wire-id-truncation", "distinct tunnel ids %q and %q share wire id %q", string(si), string(sj), strings.TrimRight(string(ids[i][:]), "\x00"))
				}
			}
		}
	}
}

// ---------------------------------------------------------------------------------------------

func runCase(raw json.RawMessage) (res interface{}) {
	var c caseIn
	hmust(json.Unmarshal(raw, &c))
	out := &caseOut{PropOK: true}
	if atomic.LoadInt64(&hangSpentNs) > int64(90*time.Second) {
		out.Skipped = true // hang budget of this invocation used up (see watchdogs above)
		return out
	}
	t0 := time.Now()
	defer func() {
		if !out.PropOK && isHangKey(out.PropKey) {
			atomic.AddInt64(&hangSpentNs, int64(time.Since(t0)))
		}
	}()
	defer func() {
		if p := recover(); p != nil {
			if _, ok := p.(harnessErr); ok {
				panic(p)
			}
			if s, ok := p.(string); ok && (strings.HasPrefix(s, "bad ") || strings.HasPrefix(s, "tid must")) {
				panic(p)
			}
			out.fail("panic", "the real code panicked: %v", p)
			res = out
		}
	}()
	switch c.Mode {
	case "dec", "enc":
		runDec(&c, out)
	case "stream":
		runStream(&c, out)
	case "tid":
		runTid(&c, out)
	case "conc":
		runConc(&c, out)
	case "fwd":
		runFwd(&c, out)
	case "gated":
		runGated(&c, out)
	case "duplex":
		runDuplex(&c, out)
	case "fwdcut":
		runFwdCut(&c, out)
	case "halfclose":
		runHalfClose(&c, out)
	case "dialog":
		runDialog(&c, out)
	case "pool":
		runPool(&c, out)
	case "listener":
		runListener(&c, out)
	default:
		panic("bad mode " + c.Mode)
	}
	return out
}

func nl(b []byte) string {
	var sb strings.Builder
	sb.WriteString("[")
	for i, x := range b {
		if i > 0 {
			sb.WriteString(";")
		}
		fmt.Fprintf(&sb, "%d", x)
	}
	sb.WriteString("]")
	return sb.String()
}

func bl(x bool) string {
	if x {
		return "true"
	}
	return "false"
}

func gen() {
	fmt.Println("(* generated by verif_c10 gen from /repo's working tree — do not edit *)")
	fmt.Println("From Coq Require Import NArith List. Import ListNotations. Open Scope N_scope.")
	fmt.Printf("Definition MaxFrameSize : N := %d.\n", crossnode.MaxFrameSize)
	fmt.Printf("Definition FrameHeaderSize : N := %d.\n", crossnode.FrameHeaderSize)
	fmt.Printf("Definition FT_Data : N := %d.\nDefinition FT_Close : N := %d.\nDefinition FT_EOF : N := %d.\n",
		crossnode.FrameTypeData, crossnode.FrameTypeClose, crossnode.FrameTypeEOF)
	fmt.Printf("Definition FT_others : list N := [%d;%d;%d;%d;%d;%d;%d;%d].\n", crossnode.FrameTypeTargetReady, crossnode.FrameTypeAck,
		crossnode.FrameTypeHTTPProxy, crossnode.FrameTypeHTTPResponse, crossnode.FrameTypeDNSQuery, crossnode.FrameTypeDNSResponse,
		crossnode.FrameTypeCommand, crossnode.FrameTypeCommandResponse)
	// header layout: a sample frame as the two real writers emit it
	var tid [16]byte
	for i := range tid {
		tid[i] = byte(0xA0 + i)
	}
	data := make([]byte, 0x0102)
	for i := range data {
		data[i] = byte(i * 7)
	}
	var buf bytes.Buffer
	hmust(crossnode.WriteFrameToWriter(&buf, tid, 0xC3, data))
	a, b := tcpPair()
	tap := make(chan []byte, 1)
	go func() {
		w, _ := io.ReadAll(b)
		tap <- w
	}()
	hmust(crossnode.WriteFrame(a, tid, 0xC3, data))
	a.CloseWrite()
	tcpWire := <-tap
	a.Close()
	b.Close()
	fmt.Printf("Definition sample_tid : list N := %s.\nDefinition sample_ty : N := %d.\nDefinition sample_data : list N := %s.\n", nl(tid[:]), 0xC3, nl(data))
	fmt.Printf("Definition sample_wire_writer : list N := %s.\n", nl(buf.Bytes()))
	fmt.Printf("Definition sample_wire_tcp : list N := %s.\n", nl(tcpWire))
	// TunnelIDFromString / TunnelIDToString on representative strings
	strs := []string{"", "a", "my-tunnel-id", "1234567890123456", "12345678901234567", "tcp-tunnel-1759260000000000000-8080",
		"tcp-tunnel-1759263600000000000-9090", "tcp-tunnel-1759260000000000000-8081", "udp-tunnel-1759260000000000000-53", "socks5-tunnel-1759260000000000000-1080",
		// non-ASCII ids: at most 16 runes but more than 16 bytes, pairs sharing their first 16 bytes (the second pair's
		// 16-byte prefix ends in the middle of a rune)
		"隧道-华东节点-01", "隧道-华东节点-02", "tunnel-zürich-é1", "tunnel-zürich-é2", "😀😀😀😀a😀1", "😀😀😀😀a😀2"}
	v := 0
	if treeHashes {
		v = 1
	}
	fmt.Println("(* 0 = TunnelIDFromString truncates long ids to 16 bytes (pinned), 1 = long ids are hashed (probed on two ids with a common 16-byte prefix) *)")
	fmt.Printf("Definition wire_id_variant : N := %d.\n", v)
	fmt.Println("Definition wire_id_table : list (list N * list N * list N) := [")
	for i, s := range strs {
		id, err := crossnode.TunnelIDFromString(s)
		hmust(err)
		sep := ";"
		if i == len(strs)-1 {
			sep = ""
		}
		fmt.Printf(" (%s, %s, %s)%s\n", nl([]byte(s)), nl(id[:]), nl([]byte(crossnode.TunnelIDToString(id))), sep)
	}
	fmt.Println("].")
	// how FrameStream.Read classifies the decoder's errors: (is io.EOF, reported as clean end of stream)
	hdr := func(n uint32) []byte {
		h := make([]byte, 21)
		binary.BigEndian.PutUint32(h[17:], n)
		return h
	}
	inputs := [][]byte{{}, {1, 2, 3}, hdr(crossnode.MaxFrameSize + 1), hdr(5), append(hdr(5), 1, 2)}
	fmt.Println("(* decoder errors on: empty input, truncated header, oversized length, missing payload, truncated payload *)")
	fmt.Println("Definition decode_error_table : list (bool * bool) := [")
	for i, in := range inputs {
		_, _, _, err, pnc := safeReadFrame(bytes.NewReader(in))
		sep := ";"
		if i == len(inputs)-1 {
			sep = ""
		}
		if err == nil || pnc != nil {
			// the probe did not get the error every decoder must give here: emit a row no model row can equal
			// (io.EOF yet not "closed"), so that Proofs/SideC10.v error_classification_matches_code fails and names it
			fmt.Printf(" (true, false)%s (* PROBE FAILED on input %d (% x): err=%v panic=%v *)\n", sep, i, in, err, pnc)
			continue
		}
		fmt.Printf(" (%s, %s)%s\n", bl(err == io.EOF), bl(crossnode.VerifIsConnectionClosedError(err)), sep)
	}
	fmt.Println("].")
}

func main() {
	if len(os.Args) > 1 && os.Args[1] == "gen" {
		defer func() {
			if p := recover(); p != nil {
				// never leave a half-written but well-formed file behind: the driver keeps the previous Gen/C10.v,
				// reports the translator as broken AFTER it has run all cases, and this text says why
				fmt.Printf("\n(* GEN ABORTED: %v *)\nDefinition gen_aborted : False := I.\n", p)
				os.Exit(3)
			}
		}()
		gen()
		return
	}
	forEachCase(runCase)
}

//go:build verif

// Multi-step histories through the REAL SessionManager.HandlePacket: sequences of TunnelOpen requests (by the listening /
// target clients of two mappings M1, M2, an unauthenticated or half-handshaken connection), mapping state changes
// (revoke / expire / deactivate / delete / re-activate), routing-table changes made by "another node", bridge closures and
// short delays, on two tunnel ids.  With a routing table configured a target-side request that arrives BEFORE its tunnel
// exists is parked inside HandlePacket (lookupTunnelRouting polls up to 10 s): it is run on its own goroutine and its
// resolution is awaited (positively) after every later step that makes a routing record visible.
// The property predicate is evaluated at EVERY attachment point: whoever a bridge holds / is forwarded / reads tunnel bytes
// must have presented the mapping the tunnel belongs to and must have been entitled to it when its request arrived.
package main

import (
	"bytes"
	"context"
	"encoding/json"
	"fmt"
	"net"
	"strings"
	"time"

	"tunnox-core/internal/cloud/models"
	"tunnox-core/internal/core/types"
	"tunnox-core/internal/packet"
	"tunnox-core/internal/protocol/session"
	"tunnox-core/internal/stream"
)

type histStep struct {
	Op     string `json:"op"`     // open | setm | route | close | sleep | srv
	Who    string `json:"who"`    // open: none | half | L | T | S | X
	Mid    string `json:"mid"`    // open: none | m1 | m2
	Secret string `json:"secret"` // open: none | right | wrong
	Tun    int    `json:"tun"`    // open/route/close: 0 | 1
	M      string `json:"m"`      // setm/route: m1 | m2
	State  string `json:"state"`  // setm: active | revoked | expired | inactive | missing
	Node   string `json:"node"`   // route: other | none
	Ms     int    `json:"ms"`     // sleep
	Reuse  int    `json:"reuse"`  // open: 1 + index of an earlier open step whose CONNECTION sends this request too (0 = a new connection)
}
type histIn struct {
	Mode    string     `json:"mode"`
	Routing bool       `json:"routing"`
	Steps   []histStep `json:"steps"`
}
type histStepOut struct {
	Ack        int   `json:"ack"`  // open: 0 none 1 success 2 failure
	Role       int   `json:"role"` // open: 0 none, 1 source of existing bridge, 2 target of existing bridge, 3 new bridge, 4 forwarded, 6 parked in the routing poll
	Registered bool  `json:"registered"`
	Snap       []int `json:"snap"` // after the step (and the resolutions it triggered): [b0, mid0, src0, tgt0, b1, mid1, src1, tgt1, forwarded tunnels, parked]
}
type histOut struct {
	Steps     []histStepOut `json:"steps"`
	Ambiguous bool          `json:"ambiguous"` // two requests parked on one tunnel id at once: resolution order is the scheduler's
	Readers   []string      `json:"readers"`   // who read the bytes written by the other end at the end ("step<i>@tun<k>")
	PropOK    bool          `json:"prop_ok"`
	PropMsg   string        `json:"prop_msg"`
	Class     string        `json:"class"`
	BadStep   int           `json:"bad_step"`
	SetupErr  string        `json:"setup_err"`
}

type hOpen struct {
	step    int
	fc      *fakeConn
	c       *types.Connection
	tun     int
	named   string // "", m1, m2
	entNamed bool  // entitled to the NAMED mapping when the request arrived (identity, credential, mapping state at that time)
	done    chan error
	herr    error
	finished bool
	parked  bool
	connIdx    int  // 1 + step index of the FIRST request sent on this connection (= this step unless the connection is re-used)
	superseded bool // a later step sent another request on the same connection
	fwdMap  string // mapping of the routing record at the moment THIS request was forwarded
	waiting bool // inside handleLocalBridgeWait: the record said "on this node", it polls tunnelBridges for a bridge to appear
	skip    int
}

func runHist(w *world, in histIn) (out histOut) {
	out.PropOK = true
	out.BadStep = -1
	cellSeq++
	base := cellSeq
	defer func() {
		if r := recover(); r != nil {
			out.SetupErr = fmt.Sprintf("%v", r)
			out.PropOK, out.Class = false, "setup"
			out.PropMsg = "harness: history could not be driven: " + out.SetupErr
		}
	}()
	tunID := []string{fmt.Sprintf("vh%da", base), fmt.Sprintf("vh%db", base)}
	mk := func(listen, target int64, key string) *models.PortMapping {
		m, err := w.fx.Cloud.CreatePortMapping(&models.PortMapping{ListenClientID: listen, TargetClientID: target, SecretKey: key,
			Protocol: models.ProtocolTCP, SourcePort: 18000, TargetHost: "127.0.0.1", TargetPort: 18001, Status: models.MappingStatusActive})
		must(err)
		return m
	}
	keys := map[string]string{"m1": fmt.Sprintf("hk%d-one", base), "m2": fmt.Sprintf("hk%d-two", base), "m3": fmt.Sprintf("hk%d-srv", base), "m4": ""}
	// m3: a SERVER-SIDE listener (stored listening client id 0), target client T
	maps := map[string]*models.PortMapping{"m1": mk(w.L.id, w.T.id, keys["m1"]), "m2": mk(w.S.id, w.X.id, keys["m2"]), "m3": mk(0, w.T.id, keys["m3"]),
		"m4": mk(w.L.id, w.T.id, "")} // m4: a mapping that stores NO secret (as ActivateConnectionCode creates them)
	mstate := map[string]string{"m1": "active", "m2": "active", "m3": "active", "m4": "active"}
	idOf := map[string]string{maps["m1"].ID: "m1", maps["m2"].ID: "m2", maps["m3"].ID: "m3", maps["m4"].ID: "m4"}
	routeM := map[int]string{} // mapping of the routing record the harness ("another node") registered per tunnel
	fwdM := map[int]string{}   // mapping of the routing record at the moment a request was forwarded on that tunnel id
	clients := map[string]client{"L": w.L, "T": w.T, "S": w.S, "X": w.X, "half": w.S}
	listenOf := map[string]string{"m1": "L", "m2": "S", "m3": "-", "m4": "L"}
	targetOf := map[string]string{"m1": "T", "m2": "X", "m3": "T", "m4": "T"}

	var opens []*hOpen
	var srvFakes []*fakeConn
	defer func() {
		for _, f := range srvFakes {
			f.Close()
		}
	}()
	var peers []*net.TCPConn
	fail := func(step int, class, msg string) {
		if out.PropOK {
			out.PropOK, out.Class, out.PropMsg, out.BadStep = false, class, msg, step
		}
	}
	defer func() {
		for _, t := range tunID {
			w.fx.Session.VerifForgetBridge(t)
			if w.routing != nil {
				_ = w.routing.RemoveWaitingTunnel(context.Background(), t)
			}
			if w.connMgr != nil {
				w.connMgr.CloseTunnel(t)
			}
		}
		for _, p := range peers {
			p.Close()
		}
		for _, o := range opens {
			o.fc.Close()
			{
				id := o.c.ID
				bounded(func() { _ = w.fx.Session.CloseConnection(id) })
			}
		}
	}()
	byStream := func(tc interface{ GetStream() stream.PackageStreamer }) int {
		if tc == nil {
			return 0
		}
		for _, o := range opens {
			if tc.GetStream() == o.c.Stream {
				return o.connIdx
			}
		}
		return 999 // not a connection of this history: the server's own source of a StartServerTunnel bridge
	}
	// the entitlement of an attached request with respect to the mapping the tunnel really belongs to
	checkAttach := func(step int, o *hOpen, tunnelMapping string, how string) {
		if o.named != tunnelMapping || !o.entNamed {
			why := "was not entitled to the mapping it named when it arrived"
			if o.named != tunnelMapping {
				why = fmt.Sprintf("presented mapping %q but the tunnel belongs to %q", o.named, tunnelMapping)
			}
			fail(step, "hist-attach:"+how, fmt.Sprintf("the request of step %d %s and %s (tunnel %d)", o.step, how, why, o.tun))
		}
	}
	finish := func(o *hOpen, d time.Duration) bool {
		if o.finished {
			return true
		}
		select {
		case e := <-o.done:
			o.herr, o.finished = e, true
			return true
		default:
		}
		if d <= 0 {
			return false
		}
		select {
		case e := <-o.done:
			o.herr, o.finished = e, true
			return true
		case <-time.After(d):
			return false
		}
	}
	routeVisible := func(tun int) bool {
		if w.routing == nil {
			return false
		}
		_, err := w.routing.LookupWaitingTunnel(context.Background(), tunID[tun])
		return err == nil
	}
	routeSelf := func(tun int) bool { // a record for the tunnel id that names THIS node
		if w.routing == nil {
			return false
		}
		st, err := w.routing.LookupWaitingTunnel(context.Background(), tunID[tun])
		return err == nil && st.SourceNodeID == w.node
	}
	drainPeers := func() {
		for {
			select {
			case nc := <-w.accepted:
				peers = append(peers, nc)
			default:
				return
			}
		}
	}
	// await the requests parked on tunnels whose routing record is visible now; returns after they returned
	settle := func(step int) {
		for _, o := range opens {
			if o.finished || !(o.parked || o.waiting) {
				continue
			}
			if o.parked && routeSelf(o.tun) && routeM[o.tun] == o.named && w.fx.Session.VerifBridge(tunID[o.tun]) == nil {
				o.parked, o.waiting = false, true // its routing poll found a record naming this node: it goes on waiting for a local bridge
			}
			if o.waiting {
				// the wait ends when a bridge is registered under the tunnel id (poll interval <= 200 ms) — or after 5 s
				if w.fx.Session.VerifBridge(tunID[o.tun]) != nil {
					if !finish(o, 4*time.Second) {
						panic(fmt.Sprintf("request of step %d is still inside handleLocalBridgeWait 4 s after a bridge was registered under its tunnel id", o.step))
					}
				} else {
					finish(o, 0)
				}
				if o.finished {
					o.waiting = false
					if b := w.fx.Session.VerifBridge(tunID[o.tun]); b != nil {
						if t := b.GetTargetTunnelConn(); t != nil && t.GetStream() == o.c.Stream {
							checkAttach(step, o, idOf[b.GetMappingID()], "was attached as bridge target at the end of its wait for a local bridge")
						}
					}
				}
				continue
			}
			visible := routeVisible(o.tun)
			if visible && !finish(o, 6*time.Second) {
				panic(fmt.Sprintf("request of step %d is still inside HandlePacket 6 s after a routing record for its tunnel became visible", o.step))
			}
			if !visible && finish(o, 0) {
				// it was not parked after all, only slow (loaded machine): its step was reported as parked, so the history is
				// kept out of the model diff; the attachment predicate below is still evaluated
				out.Ambiguous = true
			}
			if o.finished {
				o.parked = false
				// where did it end up?
				if b := w.fx.Session.VerifBridge(tunID[o.tun]); b != nil {
					if t := b.GetTargetTunnelConn(); t != nil && t.GetStream() == o.c.Stream {
						checkAttach(step, o, idOf[b.GetMappingID()], "was attached as bridge target when its routing poll fired")
					}
				}
				if o.herr != nil && strings.Contains(o.herr.Error(), "cross-node forwarding") {
					fwdM[o.tun] = routeM[o.tun]
					o.fwdMap = routeM[o.tun]
					checkAttach(step, o, routeM[o.tun], "was forwarded to the tunnel's node when its routing poll fired")
				}
			}
		}
	}
	snapshot := func() []int {
		s := make([]int, 0, 10)
		for k := 0; k < 2; k++ {
			b := w.fx.Session.VerifBridge(tunID[k])
			if b == nil {
				s = append(s, 0, 0, 0, 0)
				continue
			}
			mid := 0
			if idOf[b.GetMappingID()] == "m1" {
				mid = 1
			} else if idOf[b.GetMappingID()] == "m2" {
				mid = 2
			} else if idOf[b.GetMappingID()] == "m3" {
				mid = 3
			} else if idOf[b.GetMappingID()] == "m4" {
				mid = 4
			}
			s = append(s, 1, mid, byStream(b.GetSourceTunnelConn()), byStream(b.GetTargetTunnelConn()))
		}
		nf := 0
		if w.connMgr != nil {
			for _, t := range tunID {
				if w.connMgr.GetConnection(t) != nil {
					nf++
				}
			}
		}
		np := 0
		perTun := map[int]int{}
		for _, o := range opens {
			if (o.parked || o.waiting) && !o.finished {
				np++
				perTun[o.tun]++
			}
		}
		for _, n := range perTun {
			if n > 1 {
				out.Ambiguous = true
			}
		}
		return append(s, nf, np)
	}

	for i, st := range in.Steps {
		so := histStepOut{}
		switch st.Op {
		case "sleep":
			time.Sleep(time.Duration(st.Ms) * time.Millisecond)
		case "setm":
			if mstate[st.M] == "missing" || strings.HasPrefix(mstate[st.M], "aged-") {
				panic("generator: setm after delete / after the main record aged out")
			}
			m, err := w.fx.Cloud.GetPortMapping(maps[st.M].ID)
			must(err)
			m.IsRevoked, m.ExpiresAt, m.Status = false, nil, models.MappingStatusActive
			switch st.State {
			case "active":
				must(w.fx.Cloud.UpdatePortMapping(m))
			case "aged-revoked", "aged-inactive":
				// the mapping is revoked / deactivated and then left alone until its MAIN record reaches its TTL (DefaultMappingDataTTL):
				// storage drops that key while the index lists (which hold the copy written at creation) never expire.
				// No fault involved: this is what time does to a mapping nobody touches any more.
				setMappingState(w, m, strings.TrimPrefix(st.State, "aged-"))
				must(w.gate.FullStorage.Delete("tunnox:port_mapping:" + m.ID))
				if _, err := w.gate.FullStorage.Get("tunnox:port_mapping:" + m.ID); err == nil {
					panic("harness: the main record of the mapping is still there (key layout changed?)")
				}
			default:
				setMappingState(w, m, st.State)
			}
			mstate[st.M] = st.State
		case "route":
			if w.routing == nil {
				panic("generator: route step without routing table")
			}
			if st.Node == "none" {
				must(w.routing.RemoveWaitingTunnel(context.Background(), tunID[st.Tun]))
				delete(routeM, st.Tun)
			} else {
				node := otherNode
				if st.Node == "self" { // a record that says "on THIS node" while no bridge is registered here (stale / not yet created)
					node = w.node
				}
				must(w.routing.RegisterWaitingTunnel(context.Background(), &session.TunnelWaitingState{TunnelID: tunID[st.Tun], MappingID: maps[st.M].ID,
					SecretKey: keys[st.M], SourceNodeID: node, TargetHost: "127.0.0.1", TargetPort: 18001}))
				routeM[st.Tun] = st.M
			}
		case "srv":
			// the server itself starts a tunnel on the server-side-listener mapping m3 (the tunnel id is chosen by the server)
			w.seq++
			sf := newFakeConn("198.51.99.8", 30000+w.seq%20000)
			srvFakes = append(srvFakes, sf)
			id, err := w.fx.Session.StartServerTunnel(maps["m3"].ID, sf)
			must(err)
			tunID[st.Tun] = id
		case "close":
			had := routeVisible(st.Tun) && w.fx.Session.VerifBridge(tunID[st.Tun]) != nil
			if fb := w.fx.Session.VerifForgetBridge(tunID[st.Tun]); fb != nil {
				// the bridge ends the way it does in production: its ends go away, its own lifecycle goroutine cleans up
				for _, o := range opens {
					if k := o.connIdx; k == byStream(fb.GetSourceTunnelConn()) || k == byStream(fb.GetTargetTunnelConn()) {
						o.fc.Close()
					}
				}
				if w.routing != nil {
					_ = w.routing.RemoveWaitingTunnel(context.Background(), tunID[st.Tun])
				}
			}
			if had { // runBridgeLifecycle removes the routing record asynchronously: wait for it (positive)
				dl := time.Now().Add(5 * time.Second)
				for routeVisible(st.Tun) && time.Now().Before(dl) {
					time.Sleep(500 * time.Microsecond)
				}
				delete(routeM, st.Tun)
			}
		case "open":
			var fc *fakeConn
			var c *types.Connection
			if st.Reuse > 0 {
				// another TunnelOpen on the connection of an earlier step (whose requests so far were refused): same identity
				var prev *hOpen
				for _, po := range opens {
					if po.step == st.Reuse-1 {
						prev = po
					}
				}
				if prev == nil || !prev.finished {
					panic("generator: reuse of a connection that has no finished request")
				}
				fc, c = prev.fc, prev.c
				prev.superseded = true
			} else {
				fc, c = w.nextConn()
			}
			o := &hOpen{step: i, fc: fc, c: c, tun: st.Tun, done: make(chan error, 1), connIdx: i + 1}
			if st.Reuse > 0 {
				for _, po := range opens {
					if po.step == st.Reuse-1 {
						o.connIdx = po.connIdx
					}
				}
			}
			opens = append(opens, o)
			var me client
			authed := false
			switch {
			case st.Reuse > 0:
				if cl, ok := clients[st.Who]; ok && st.Who != "half" {
					me = cl
					authed = true
				}
			case st.Who == "half":
				w.authTunnelConn(fc, c, clients["half"], 1)
			case st.Who == "L" || st.Who == "T" || st.Who == "S" || st.Who == "X":
				me = clients[st.Who]
				w.authTunnelConn(fc, c, me, 2)
				authed = true
			}
			req := &packet.TunnelOpenRequest{TunnelID: tunID[st.Tun]}
			named := ""
			if st.Mid == "m1" || st.Mid == "m2" || st.Mid == "m3" || st.Mid == "m4" {
				named = st.Mid
				req.MappingID = maps[named].ID
			}
			o.named = named
			{
				right, other := keys["m1"], keys["m2"]
				if named == "m2" {
					right, other = keys["m2"], keys["m1"]
				} else if named == "m3" {
					right = keys["m3"]
				} else if named == "m4" {
					right = "" // nothing stored: "the mapping's secret" is the empty string = presenting no secret
				}
				req.SecretKey = secretFor(st.Secret, right, other)
			}
			// specification: entitlement to the named mapping at arrival
			if authed && named != "" && (mstate[named] == "active" || mstate[named] == "soon60s") {
				isL, isT := listenOf[named] == st.Who, targetOf[named] == st.Who
				o.entNamed = (isL && st.Secret == "none") || ((isL || isT) && st.Secret == "right")
				if named == "m4" { // no stored secret: only the listening client with the mapping id alone
					o.entNamed = isL && (st.Secret == "none" || st.Secret == "right")
				}
			}
			// the mapping the tunnel belongs to at arrival
			tunnelMapping := named
			if b := w.fx.Session.VerifBridge(tunID[st.Tun]); b != nil {
				tunnelMapping = idOf[b.GetMappingID()]
			} else if rm, ok := routeM[st.Tun]; ok && routeVisible(st.Tun) {
				tunnelMapping = rm
			} else if w.routing != nil && routeVisible(st.Tun) {
				tunnelMapping = "?" // record registered by a bridge that is gone: nobody is entitled
			}
			entitled := o.entNamed && named == tunnelMapping
			so.Registered = w.fx.Session.VerifHasControlRecord(c.ID)
			o.skip = len(fc.output())
			body, _ := json.Marshal(req)
			go func() {
				o.done <- w.send(c, &packet.TransferPacket{PacketType: packet.TunnelOpen, TunnelID: req.TunnelID, Payload: body})
			}()
			// wait for the verdict: the call returns, or (success ack written and the call stays inside the routing poll)
			ack := func() (int, int) {
				n, last := 0, 0
				for _, p := range fc.packets(o.skip) {
					if p.PacketType&0x3F != packet.TunnelOpenAck {
						break
					}
					var r packet.TunnelOpenAckResponse
					if json.Unmarshal(p.Payload, &r) == nil {
						n++
						last = 2
						if r.Success {
							last = 1
						}
					}
				}
				return n, last
			}
			start := time.Now()
			for !finish(o, 2*time.Millisecond) {
				_, a := ack()
				el := time.Since(start)
				if a == 1 && w.routing != nil && !routeVisible(st.Tun) && el > 120*time.Millisecond {
					// acknowledged, nothing to attach to, still inside HandlePacket: it polls the routing table
					held := false
					if b := w.fx.Session.VerifBridge(tunID[st.Tun]); b != nil {
						held = byStream(b.GetSourceTunnelConn()) == o.connIdx || byStream(b.GetTargetTunnelConn()) == o.connIdx
					}
					if !held {
						o.parked = true
						break
					}
				}
				if a == 0 && el > 150*time.Millisecond && routeSelf(st.Tun) && w.fx.Session.VerifBridge(tunID[st.Tun]) == nil {
					o.waiting = true // no acknowledgement yet, a record names this node, no bridge here: it polls tunnelBridges
					break
				}
				if el > 8*time.Second {
					panic(fmt.Sprintf("step %d: HandlePacket(TunnelOpen) neither returned nor parked within 8 s", i))
				}
			}
			n, a := ack()
			so.Ack = a
			if n > 1 {
				fail(i, "hist-double-ack", fmt.Sprintf("step %d: %d TunnelOpenAck packets for one request", i, n))
			}
			hadBridge := tunnelMapping != named || false
			_ = hadBridge
			switch {
			case o.parked:
				so.Role = 6
			case o.waiting:
				so.Role = 8
			default:
				if b := w.fx.Session.VerifBridge(tunID[st.Tun]); b != nil {
					if byStream(b.GetTargetTunnelConn()) == o.connIdx {
						so.Role = 2
						checkAttach(i, o, idOf[b.GetMappingID()], "was attached as bridge target")
					} else if byStream(b.GetSourceTunnelConn()) == o.connIdx {
						so.Role = 3
						if o.herr != nil && strings.Contains(o.herr.Error(), "existing bridge") {
							so.Role = 1
						}
						checkAttach(i, o, idOf[b.GetMappingID()], "became the bridge source")
					}
				}
				if o.herr != nil && strings.Contains(o.herr.Error(), "cross-node forwarding") {
					so.Role = 4
					fwdM[st.Tun] = routeM[st.Tun]
					o.fwdMap = routeM[st.Tun]
					checkAttach(i, o, routeM[st.Tun], "was forwarded to the tunnel's node")
				}
			}
			if !entitled && so.Ack != 2 {
				fail(i, "hist-no-failure-ack", fmt.Sprintf("step %d: a request that is not entitled to the tunnel's mapping (%q, named %q, entitled to named: %v) got ack=%d instead of a failure acknowledgement",
					i, tunnelMapping, named, o.entNamed, so.Ack))
			}
		default:
			panic("bad op " + st.Op)
		}
		settle(i)
		drainPeers()
		so.Snap = snapshot()
		out.Steps = append(out.Steps, so)
	}

	// the other end writes: whoever reads it must be entitled
	for k := 0; k < 2; k++ {
		b := w.fx.Session.VerifBridge(tunID[k])
		if b == nil || !b.IsTargetReady() {
			continue
		}
		si := byStream(b.GetSourceTunnelConn())
		if si == 0 || si == 999 {
			continue
		}
		marker := []byte(fmt.Sprintf("SECRET-FROM-SOURCE-%s", tunID[k]))
		opens2 := opens
		var src *hOpen
		for _, o := range opens2 {
			if o.connIdx == si && !o.superseded {
				src = o
			}
		}
		src.fc.feed(marker)
		dl := time.Now().Add(3 * time.Second)
		for time.Now().Before(dl) {
			got := false
			for _, o := range opens {
				if o != src && !o.superseded && bytes.Contains(o.fc.output(), marker) {
					got = true
				}
			}
			if got {
				break
			}
			time.Sleep(300 * time.Microsecond)
		}
		for _, o := range opens {
			if o != src && !o.superseded && bytes.Contains(o.fc.output(), marker) {
				out.Readers = append(out.Readers, fmt.Sprintf("step%d@tun%d", o.step, k))
				checkAttach(len(in.Steps), o, idOf[b.GetMappingID()], "read the bytes the tunnel's source wrote")
			}
		}
	}
	for pi, p := range peers {
		marker := []byte(fmt.Sprintf("SECRET-FROM-PEER-%d-%d", base, pi))
		p.SetReadDeadline(time.Now().Add(2 * time.Second))
		tid, ft, _, ferr := session.ReadFrame(p)
		if ferr != nil || ft != session.FrameTypeTargetReady {
			continue
		}
		k := -1
		for j, t := range tunID {
			if session.TunnelIDToString(tid) == t {
				k = j
			}
		}
		p.Write(marker)
		dl := time.Now().Add(3 * time.Second)
		for time.Now().Before(dl) {
			got := false
			for _, o := range opens {
				if bytes.Contains(o.fc.output(), marker) {
					got = true
				}
			}
			if got {
				break
			}
			time.Sleep(300 * time.Microsecond)
		}
		for _, o := range opens {
			if !o.superseded && bytes.Contains(o.fc.output(), marker) && k >= 0 {
				out.Readers = append(out.Readers, fmt.Sprintf("step%d@peer-tun%d", o.step, k))
				// a forwarded request is judged against the record it was forwarded on (the harness's fake peer lets a history
				// replace the record of a live tunnel on the SAME node, which a real node does not do while its bridge lives)
				tm := fwdM[k]
				if o.fwdMap != "" {
					tm = o.fwdMap
				}
				checkAttach(len(in.Steps), o, tm, "read the bytes the tunnel's node wrote")
			}
		}
	}
	return out
}

//go:build verif

package session

// Export shims for the C04 verification harness (compiled only with -tags verif via -overlay).

// VerifBridge returns the bridge registered under tunnelID on this node (nil if none).
func (s *SessionManager) VerifBridge(tunnelID string) *TunnelBridge {
	s.bridgeLock.RLock()
	defer s.bridgeLock.RUnlock()
	return s.tunnelBridges[tunnelID]
}

// VerifDropBridge closes and forgets a bridge (harness cleanup between table cells).
func (s *SessionManager) VerifDropBridge(tunnelID string) {
	s.bridgeLock.Lock()
	b := s.tunnelBridges[tunnelID]
	delete(s.tunnelBridges, tunnelID)
	s.bridgeLock.Unlock()
	if b != nil {
		b.Close()
	}
}

// VerifHasControlRecord reports whether a control-connection record exists for connID.
func (s *SessionManager) VerifHasControlRecord(connID string) bool {
	return s.getControlConnectionByConnID(connID) != nil
}

// VerifForgetBridge removes a bridge from tunnelBridges WITHOUT closing it (the harness then closes the transports of its two
// ends, so that the bridge ends through its own lifecycle goroutine exactly as it does when a client disconnects).
func (s *SessionManager) VerifForgetBridge(tunnelID string) *TunnelBridge {
	s.bridgeLock.Lock()
	b := s.tunnelBridges[tunnelID]
	delete(s.tunnelBridges, tunnelID)
	s.bridgeLock.Unlock()
	return b
}

// VerifAddr returns the address the cross-node listener actually listens on (port 0 = chosen by the kernel).
func (l *CrossNodeListener) VerifAddr() string {
	l.mu.Lock()
	defer l.mu.Unlock()
	if l.listener == nil {
		return ""
	}
	return l.listener.Addr().String()
}

//go:build verif

// verif_c04: drives the REAL SessionManager.HandlePacket (TunnelOpen dispatcher) of a fully wired server fixture
// through one table cell per input line:
//
//	identity (none/half/listen/target/stranger) x named mapping (none/tunnel's/other) x secret (none/right/wrong)
//	x resume token x state of the named mapping (active/revoked/expired/inactive/missing)
//	x tunnel state at arrival (no bridge / bridge waiting locally / bridge already served / waiting on another node)
//
// and reports the observables of property C04: the TunnelOpenAck written to the requesting connection, which
// connection objects the bridge holds afterwards, whether a cross-node forward was started, and whether bytes written
// by the other end become readable on the requesting connection.  The property predicate (attach => entitled,
// not entitled => failure ack and no bytes) is evaluated here, on the real code's own outputs.
//
// `gen` prints coq/Gen/C04.v: truth tables of the real PortMapping.IsValid / CanBeAccessedBy, of the real
// ServerTunnelHandler.HandleTunnelOpen (credential validator), the wiring fact "resume tokens are not supported by the
// installed cloud control", and the table dimensions.
package main

import (
	"bytes"
	"context"
	"crypto/hmac"
	"crypto/sha256"
	"encoding/hex"
	"encoding/json"
	"fmt"
	"io"
	"net"
	"os"
	"strings"
	"sync"
	"time"

	"tunnox-core/internal/app/server"
	"tunnox-core/internal/cloud/models"
	corelog "tunnox-core/internal/core/log"
	"tunnox-core/internal/core/storage"
	"tunnox-core/internal/core/storage/memory"
	"tunnox-core/internal/core/types"
	"tunnox-core/internal/packet"
	"tunnox-core/internal/protocol/session"
	"tunnox-core/internal/stream"
)

// ---------------------------------------------------------------------------------------------
// fake transport: server-side reads block on an input queue, server-side writes are captured
// ---------------------------------------------------------------------------------------------

type fakeConn struct {
	mu     sync.Mutex
	cond   *sync.Cond
	in     []byte
	out    []byte
	closed bool
	ip     string
	port   int

	wgateParked  chan struct{}
	wgateRelease chan struct{}
}

func newFakeConn(ip string, port int) *fakeConn {
	f := &fakeConn{ip: ip, port: port}
	f.cond = sync.NewCond(&f.mu)
	return f
}
func (f *fakeConn) Read(p []byte) (int, error) {
	f.mu.Lock()
	defer f.mu.Unlock()
	for len(f.in) == 0 && !f.closed {
		f.cond.Wait()
	}
	if len(f.in) == 0 {
		return 0, io.EOF
	}
	n := copy(p, f.in)
	f.in = f.in[n:]
	return n, nil
}
func (f *fakeConn) Write(p []byte) (int, error) {
	f.mu.Lock()
	if f.wgateParked != nil { // one-shot gate: park the writer (the request's own goroutine) before its next write
		pk, rl := f.wgateParked, f.wgateRelease
		f.wgateParked = nil
		f.mu.Unlock()
		close(pk)
		<-rl
		f.mu.Lock()
	}
	defer f.mu.Unlock()
	if f.closed {
		return 0, io.ErrClosedPipe
	}
	f.out = append(f.out, p...)
	f.cond.Broadcast()
	return len(p), nil
}
func (f *fakeConn) Close() error {
	f.mu.Lock()
	f.closed = true
	f.cond.Broadcast()
	f.mu.Unlock()
	return nil
}
func (f *fakeConn) feed(b []byte) {
	f.mu.Lock()
	f.in = append(f.in, b...)
	f.cond.Broadcast()
	f.mu.Unlock()
}
func (f *fakeConn) output() []byte {
	f.mu.Lock()
	defer f.mu.Unlock()
	return append([]byte(nil), f.out...)
}

// waitOutput waits (positively) until the captured output contains marker
func (f *fakeConn) waitOutput(marker []byte, d time.Duration) bool {
	deadline := time.Now().Add(d)
	for {
		if bytes.Contains(f.output(), marker) {
			return true
		}
		if time.Now().After(deadline) {
			return false
		}
		time.Sleep(200 * time.Microsecond)
	}
}
func (f *fakeConn) LocalAddr() net.Addr { return &net.TCPAddr{IP: net.ParseIP("127.0.0.1"), Port: 7000} }
func (f *fakeConn) RemoteAddr() net.Addr {
	return &net.TCPAddr{IP: net.ParseIP(f.ip), Port: f.port}
}
func (f *fakeConn) SetDeadline(time.Time) error      { return nil }
func (f *fakeConn) SetReadDeadline(time.Time) error  { return nil }
func (f *fakeConn) SetWriteDeadline(time.Time) error { return nil }

// packets the server wrote to this connection so far (decoded with the real StreamProcessor)
func (f *fakeConn) packets(skip int) []*packet.TransferPacket {
	data := f.output()
	if skip > len(data) {
		skip = len(data)
	}
	sp := stream.NewStreamProcessor(bytes.NewReader(data[skip:]), io.Discard, context.Background())
	defer sp.Close()
	var out []*packet.TransferPacket
	for i := 0; i < 64; i++ {
		p, _, err := sp.ReadPacket()
		if err != nil {
			break
		}
		out = append(out, p)
	}
	return out
}

// ---------------------------------------------------------------------------------------------
// world: one fixture (optionally with routing + a fake "other node"), three registered clients + a bystander
// ---------------------------------------------------------------------------------------------

type client struct {
	id     int64
	secret string
}

type world struct {
	fx       *server.VerifFixture
	routing  *session.TunnelRoutingTable
	connMgr  *session.TunnelConnectionManager
	listener *net.TCPListener
	accepted chan *net.TCPConn
	L, T, S  client
	X        client
	seq      int
	gate     *gatedStorage
	node     string
	cnl      *session.CrossNodeListener
}

const otherNode = "node-other"

func (w *world) nextConn() (*fakeConn, *types.Connection) {
	w.seq++
	fc := newFakeConn(fmt.Sprintf("198.51.%d.%d", (w.seq/250)%250, w.seq%250+1), 20000+w.seq%40000)
	c, err := w.fx.Session.CreateConnection(fc, fc)
	must(err)
	return fc, c
}

func (w *world) send(c *types.Connection, tp *packet.TransferPacket) error {
	return w.fx.Session.HandlePacket(&types.StreamPacket{ConnectionID: c.ID, Packet: tp, Timestamp: time.Now()})
}

func (w *world) handshakeRaw(fc *fakeConn, c *types.Connection, req *packet.HandshakeRequest) (*packet.HandshakeResponse, error) {
	skip := len(fc.output())
	body, _ := json.Marshal(req)
	herr := w.send(c, &packet.TransferPacket{PacketType: packet.Handshake, Payload: body})
	for _, p := range fc.packets(skip) {
		if p.PacketType&0x3F == packet.HandshakeResp {
			var r packet.HandshakeResponse
			if err := json.Unmarshal(p.Payload, &r); err == nil {
				return &r, herr
			}
		}
	}
	return nil, herr
}

// newClient registers a fresh anonymous client over a control connection (the real first-connection handshake)
func (w *world) newClient() client {
	fc, c := w.nextConn()
	r, err := w.handshakeRaw(fc, c, &packet.HandshakeRequest{Token: "new-client", Version: "3.0", Protocol: "tcp", ConnectionType: "control"})
	if err != nil || r == nil || !r.Success || r.ClientID == 0 {
		panic(fmt.Sprintf("harness: cannot register a client: %v %+v", err, r))
	}
	return client{id: r.ClientID, secret: r.SecretKey}
}

// authTunnelConn performs the real two-phase challenge-response handshake of a tunnel-type connection.
// phases: 1 = only the first message (half-authenticated record), 2 = complete.
func (w *world) authTunnelConn(fc *fakeConn, c *types.Connection, cl client, phases int) {
	r, err := w.handshakeRaw(fc, c, &packet.HandshakeRequest{ClientID: cl.id, Version: "3.0", Protocol: "tcp", ConnectionType: "tunnel"})
	if err != nil || r == nil || !r.NeedResponse || r.Challenge == "" {
		panic(fmt.Sprintf("harness: challenge phase failed: %v %+v", err, r))
	}
	if phases < 2 {
		return
	}
	h := hmac.New(sha256.New, []byte(cl.secret))
	h.Write([]byte(r.Challenge))
	r2, err := w.handshakeRaw(fc, c, &packet.HandshakeRequest{ClientID: cl.id, Version: "3.0", Protocol: "tcp", ConnectionType: "tunnel",
		ChallengeResponse: hex.EncodeToString(h.Sum(nil))})
	if err != nil || r2 == nil || !r2.Success {
		panic(fmt.Sprintf("harness: response phase failed: %v %+v", err, r2))
	}
}

type ackObs struct {
	N       int  // number of TunnelOpenAck packets
	Success bool // flag of the last one
}

func (w *world) tunnelOpen(fc *fakeConn, c *types.Connection, req *packet.TunnelOpenRequest) (ackObs, error) {
	skip := len(fc.output())
	body, _ := json.Marshal(req)
	err := w.send(c, &packet.TransferPacket{PacketType: packet.TunnelOpen, TunnelID: req.TunnelID, Payload: body})
	var a ackObs
	for _, p := range fc.packets(skip) {
		if p.PacketType&0x3F == packet.TunnelOpenAck {
			var r packet.TunnelOpenAckResponse
			if json.Unmarshal(p.Payload, &r) == nil {
				a.N++
				a.Success = r.Success
			}
		} else {
			break // after a mode switch the rest of the output is raw tunnel bytes
		}
	}
	return a, err
}

func newWorld(withRouting bool) *world {
	gs := &gatedStorage{FullStorage: memory.New(context.Background())}
	w := newWorldOn(gs, "node-verif", withRouting, false)
	w.L, w.T, w.S, w.X = w.newClient(), w.newClient(), w.newClient(), w.newClient()
	return w
}

// newWorldOn wires one server node over the given (possibly shared) storage.
// realPeer=false: the "other node" is a fake TCP listener of the harness (single-node tables);
// realPeer=true : the node runs the REAL CrossNodeListener and finds its peers through the routing table's node addresses,
//                 exactly as components_session.go wires a cluster node (two such nodes over one storage = a two-node cluster).
func newWorldOn(gs *gatedStorage, node string, withRouting, realPeer bool) *world {
	ctx := context.Background()
	var st storage.Storage = gs
	fx, err := server.VerifNewFixture(ctx, st, server.VerifFixtureOptions{NodeID: node, WithRouting: withRouting})
	must(err)
	w := &world{fx: fx, gate: gs, node: node}
	if withRouting {
		w.routing = session.NewTunnelRoutingTable(st, 30*time.Second)
		if realPeer {
			w.cnl = session.NewCrossNodeListener(fx.Session, 0)
			must(w.cnl.Start(ctx))
			fx.Session.SetCrossNodeListener(w.cnl)
			addr := w.cnl.VerifAddr()
			_, port, err := net.SplitHostPort(addr)
			must(err)
			must(w.routing.RegisterNodeAddress(node, "127.0.0.1:"+port))
		} else {
			ln, err := net.ListenTCP("tcp", &net.TCPAddr{IP: net.ParseIP("127.0.0.1"), Port: 0})
			must(err)
			w.listener = ln
			w.accepted = make(chan *net.TCPConn, 64)
			go func() {
				for {
					c, err := ln.AcceptTCP()
					if err != nil {
						return
					}
					w.accepted <- c
				}
			}()
			must(w.routing.RegisterNodeAddress(otherNode, ln.Addr().String()))
		}
		// exactly as components_session.go wires it: node addresses come from the routing table
		w.connMgr = session.NewTunnelConnectionManager(w.routing.GetNodeAddress, session.DefaultTunnelConnectionManagerConfig())
		fx.Session.SetTunnelConnectionManager(w.connMgr)
	}
	return w
}

// newCluster: three real nodes A, B and C over ONE storage; the four clients are registered once (through node A) and can
// authenticate on either node.
func newCluster() (*world, *world, *world) {
	gs := &gatedStorage{FullStorage: memory.New(context.Background())}
	a := newWorldOn(gs, "node-A", true, true)
	b := newWorldOn(gs, "node-B", true, true)
	c := newWorldOn(gs, "node-C", true, true)
	a.L, a.T, a.S, a.X = a.newClient(), a.newClient(), a.newClient(), a.newClient()
	b.L, b.T, b.S, b.X = a.L, a.T, a.S, a.X
	c.L, c.T, c.S, c.X = a.L, a.T, a.S, a.X
	return a, b, c
}

// ---------------------------------------------------------------------------------------------
// one table cell
// ---------------------------------------------------------------------------------------------

// bounded runs a cleanup action of the real code (Bridge.Close, CloseConnection) but does not let the harness hang on it:
// teardown ordering of a bridge whose two ends were just replaced is C16's subject, not C04's.
var cleanupStuck int

func bounded(f func()) {
	done := make(chan struct{})
	go func() {
		defer func() { recover(); close(done) }()
		f()
	}()
	select {
	case <-done:
	case <-time.After(3 * time.Second):
		cleanupStuck++
		fmt.Fprintf(os.Stderr, "verif_c04: a cleanup call of the real code did not return within 3 s (%d so far)\n", cleanupStuck)
	}
}

// secretFor derives the presented secret from the named mapping's real secret.
// none | right | wrong (unrelated) | prefix1 (first character) | prefixall (all but the last character) | suffix (all but
// the first) | plus (right + one character) | case (case flipped) | onechar (same length, last character changed) |
// other (the right secret of ANOTHER mapping)
func secretFor(kind, right, other string) string {
	switch kind {
	case "none":
		return ""
	case "right":
		return right
	case "wrong":
		return "not-the-secret"
	case "prefix1":
		return right[:1]
	case "prefixall":
		return right[:len(right)-1]
	case "suffix":
		return right[1:]
	case "plus":
		return right + "x"
	case "case":
		if up := strings.ToUpper(right); up != right {
			return up
		}
		return strings.ToLower(right)
	case "onechar":
		b := []byte(right)
		b[len(b)-1] ^= 1
		return string(b)
	case "other":
		return other
	}
	panic("bad secret kind " + kind)
}

var secretKinds = []string{"none", "right", "wrong", "prefix1", "prefixall", "suffix", "plus", "case", "onechar", "other"}

type cellIn struct {
	ID     string `json:"id"`     // none | half | listen | target | stranger
	Mid    string `json:"mid"`    // none | tunnel | other
	Secret string `json:"secret"` // see secretFor
	Resume bool   `json:"resume"`
	MState string `json:"mstate"` // active | revoked | expired | inactive | missing  (state of the NAMED mapping; of the tunnel's mapping when none is named)
	TState string `json:"tstate"` // none | waiting | served | remote
	Party  string `json:"party"`  // "" / normal | listen0 (stored listening client id 0: server-side listener) | target0 (stored target client id 0)
}

type cellOut struct {
	Ack        int    `json:"ack"`         // 0 none, 1 success, 2 failure
	AckCount   int    `json:"ack_count"`
	Role       int    `json:"role"`        // 0 not attached, 1 source of the existing bridge, 2 target of the existing bridge, 3 source of a new bridge, 4 forwarded to the other node
	GotBytes   bool   `json:"got_bytes"`   // the other end's bytes became readable on the requesting connection
	MarkerAt   string `json:"marker_at"`   // requester | legit | nobody | n/a
	Entitled   bool   `json:"entitled"`    // the specification's answer for this cell (computed independently of the code)
	Registered bool   `json:"registered"`  // a control-connection record existed for the requesting connection at arrival
	HErr       bool   `json:"herr"`        // HandlePacket returned an error (mode switch counts as error)
	ModeSwitch bool   `json:"mode_switch"`
	PropOK     bool   `json:"prop_ok"`
	PropMsg    string `json:"prop_msg"`
	Class      string `json:"class"` // violation class (branch + reason) when !PropOK
	SetupErr   string `json:"setup_err"`
}

var cellSeq int

func setMappingState(w *world, m *models.PortMapping, st string) {
	switch st {
	case "active":
	case "revoked":
		m.IsRevoked = true // only the flag: Status stays active so that the IsRevoked test itself is what decides
		must(w.fx.Cloud.UpdatePortMapping(m))
	case "expired":
		t := time.Now().Add(-time.Hour)
		m.ExpiresAt = &t
		must(w.fx.Cloud.UpdatePortMapping(m))
	case "exp25s", "exp10s", "exp2s", "exp1ms", "soon60s":
		// expiry boundary: ExpiresAt shortly before now (expired, however recently) / shortly after now (still valid).
		// The code reads time.Now() directly, so real offsets are used; the request follows within milliseconds.
		off := map[string]time.Duration{"exp25s": -25 * time.Second, "exp10s": -10 * time.Second, "exp2s": -2 * time.Second,
			"exp1ms": -time.Millisecond, "soon60s": 60 * time.Second}[st]
		t := time.Now().Add(off)
		m.ExpiresAt = &t
		must(w.fx.Cloud.UpdatePortMapping(m))
	case "inactive":
		m.Status = models.MappingStatusInactive
		must(w.fx.Cloud.UpdatePortMapping(m))
	case "missing":
		must(w.fx.Cloud.DeletePortMapping(m.ID))
	default:
		panic("bad mstate " + st)
	}
}

func runCell(wLocal, wRemote *world, in cellIn) (out cellOut) {
	w := wLocal
	if in.TState == "remote" {
		w = wRemote
	}
	cellSeq++
	tunnelID := fmt.Sprintf("vt%d", cellSeq)
	defer func() {
		if r := recover(); r != nil {
			out.SetupErr = fmt.Sprintf("%v", r)
			out.PropOK = false
			out.PropMsg = "harness setup failed (a LEGITIMATE step was refused or the fixture broke): " + out.SetupErr
			out.Class = "setup"
		}
	}()

	// who is asking
	var me client
	switch in.ID {
	case "listen":
		me = w.L
	case "target":
		me = w.T
	case "stranger", "half":
		me = w.S
	}
	// mappings: M1 is the tunnel's mapping; M2 is another mapping on which the requester is the listening client
	mk := func(listen, target int64, key string) *models.PortMapping {
		m, err := w.fx.Cloud.CreatePortMapping(&models.PortMapping{ListenClientID: listen, TargetClientID: target, SecretKey: key,
			Protocol: models.ProtocolTCP, SourcePort: 18000, TargetHost: "127.0.0.1", TargetPort: 18001, Status: models.MappingStatusActive})
		must(err)
		return m
	}
	k1 := fmt.Sprintf("k%d-one-secret", cellSeq)
	k2 := fmt.Sprintf("k%d-two-secret", cellSeq)
	own := me.id
	if own == 0 {
		own = w.S.id
	}
	l1, t1, l2, t2 := w.L.id, w.T.id, own, w.X.id
	switch in.Party {
	case "listen0":
		l1, l2 = 0, 0
	case "target0":
		t1, t2 = 0, 0
	case "nosecret": // the mappings store NO secret (SecretKey ""), as ActivateConnectionCode creates them
		k1, k2 = "", ""
	}
	m1 := mk(l1, t1, k1)
	m2 := mk(l2, t2, k2)

	var conns []*types.Connection
	var fakes []*fakeConn
	open := func(cl client, req *packet.TunnelOpenRequest) (*fakeConn, *types.Connection, ackObs) {
		fc, c := w.nextConn()
		conns, fakes = append(conns, c), append(fakes, fc)
		w.authTunnelConn(fc, c, cl, 2)
		a, _ := w.tunnelOpen(fc, c, req)
		return fc, c, a
	}
	defer func() {
		w.fx.Session.VerifForgetBridge(tunnelID)
		for _, f := range fakes {
			f.Close()
		}
		for _, c := range conns {
			{
				id := c.ID
				bounded(func() { _ = w.fx.Session.CloseConnection(id) })
			}
		}
		if w.connMgr != nil {
			w.connMgr.CloseTunnel(tunnelID)
		}
	}()

	// tunnel state at arrival, built with LEGITIMATE opens (what the real client sends: mapping id + the mapping's secret)
	var srcFake, tgtFake *fakeConn
	var srcConn, tgtConn *types.Connection
	legit := &packet.TunnelOpenRequest{MappingID: m1.ID, TunnelID: tunnelID, SecretKey: k1}
	switch in.TState {
	case "waiting", "served":
		if in.Party == "listen0" {
			// a server-side listener: the SERVER starts the tunnel itself (StartServerTunnel chooses the tunnel id)
			if in.TState == "served" {
				panic("generator: no 'served' state for a server-side listener")
			}
			w.seq++
			srcFake = newFakeConn("198.51.99.9", 30000+w.seq%20000)
			fakes = append(fakes, srcFake)
			id, err := w.fx.Session.StartServerTunnel(m1.ID, srcFake)
			must(err)
			tunnelID = id
			if b := w.fx.Session.VerifBridge(tunnelID); b == nil || b.GetMappingID() != m1.ID {
				panic("StartServerTunnel did not register the bridge")
			}
			break
		}
		if in.Party == "target0" && in.TState == "served" {
			panic("generator: no 'served' state for a mapping without target client")
		}
		var a ackObs
		srcFake, srcConn, a = open(w.L, legit)
		b := w.fx.Session.VerifBridge(tunnelID)
		if a.N != 1 || !a.Success || b == nil || b.GetSourceTunnelConn() == nil || b.GetSourceTunnelConn().GetStream() != srcConn.Stream {
			panic(fmt.Sprintf("legitimate source open (listen client, mapping id + secret) did not create the bridge: ack=%+v bridge=%v", a, b != nil))
		}
		if in.TState == "served" {
			tgtFake, tgtConn, a = open(w.T, legit)
			if a.N != 1 || !a.Success || b.GetTargetTunnelConn() == nil || b.GetTargetTunnelConn().GetStream() != tgtConn.Stream {
				panic(fmt.Sprintf("legitimate target open (target client, mapping id + secret) was not attached: ack=%+v", a))
			}
			// the served bridge really forwards
			srcFake.feed([]byte("warmup-" + tunnelID))
			if !tgtFake.waitOutput([]byte("warmup-"+tunnelID), 5*time.Second) {
				panic("served bridge does not forward source bytes to its legitimate target")
			}
		}
	case "remote":
		must(w.routing.RegisterWaitingTunnel(context.Background(), &session.TunnelWaitingState{TunnelID: tunnelID, MappingID: m1.ID, SecretKey: k1,
			SourceNodeID: otherNode, SourceClientID: w.L.id, TargetClientID: w.T.id, TargetHost: "127.0.0.1", TargetPort: 18001}))
		defer w.routing.RemoveWaitingTunnel(context.Background(), tunnelID)
	}

	// state of the named mapping at arrival (changed AFTER the tunnel was set up)
	named := m1
	if in.Mid == "other" {
		named = m2
	}
	setMappingState(w, named, in.MState)

	// the request
	req := &packet.TunnelOpenRequest{TunnelID: tunnelID}
	switch in.Mid {
	case "tunnel":
		req.MappingID = m1.ID
	case "other":
		req.MappingID = m2.ID
	}
	otherKey := k2
	if in.Mid == "other" {
		otherKey = k1
	}
	req.SecretKey = secretFor(in.Secret, named.SecretKey, otherKey)
	if in.Resume {
		req.ResumeToken = "resume." + tunnelID + ".sig"
	}
	fc, c := w.nextConn()
	conns, fakes = append(conns, c), append(fakes, fc)
	switch in.ID {
	case "half":
		w.authTunnelConn(fc, c, me, 1)
	case "listen", "target", "stranger":
		w.authTunnelConn(fc, c, me, 2)
	}
	out.Registered = w.fx.Session.VerifHasControlRecord(c.ID)
	a, herr := w.tunnelOpen(fc, c, req)
	out.AckCount = a.N
	switch {
	case a.N == 0:
		out.Ack = 0
	case a.Success:
		out.Ack = 1
	default:
		out.Ack = 2
	}
	out.HErr = herr != nil
	out.ModeSwitch = herr != nil && strings.Contains(strings.ToLower(herr.Error()), "switching to stream mode")

	// which connection objects does the bridge hold now
	b := w.fx.Session.VerifBridge(tunnelID)
	hadBridge := in.TState == "waiting" || in.TState == "served"
	if b != nil {
		if s := b.GetSourceTunnelConn(); s != nil && s.GetStream() == c.Stream {
			if hadBridge {
				out.Role = 1
			} else {
				out.Role = 3
			}
		}
		if t := b.GetTargetTunnelConn(); t != nil && t.GetStream() == c.Stream {
			out.Role = 2
		}
	}
	out.MarkerAt = "n/a"
	marker := []byte("SECRET-FROM-SOURCE-" + tunnelID)
	switch in.TState {
	case "waiting", "served":
		if b != nil && b.IsTargetReady() {
			// the other end writes; whoever the bridge forwards to will see it
			srcFake.feed(marker)
			deadline := time.Now().Add(5 * time.Second)
			out.MarkerAt = "nobody"
			for time.Now().Before(deadline) {
				if bytes.Contains(fc.output(), marker) {
					out.MarkerAt = "requester"
					break
				}
				if tgtFake != nil && bytes.Contains(tgtFake.output(), marker) {
					out.MarkerAt = "legit"
					break
				}
				time.Sleep(200 * time.Microsecond)
			}
			out.GotBytes = bytes.Contains(fc.output(), marker)
		}
	case "remote":
		// forwardToSourceNode is synchronous inside HandlePacket: the dedicated connection exists now or never
		if w.connMgr.GetConnection(tunnelID) != nil {
			select {
			case nc := <-w.accepted:
				out.Role = 4
				_, ft, _, ferr := session.ReadFrame(nc)
				if ferr != nil || ft != session.FrameTypeTargetReady {
					out.SetupErr = fmt.Sprintf("other node: unexpected first frame type=%d err=%v", ft, ferr)
				}
				nc.Write(marker)
				out.MarkerAt = "nobody"
				if fc.waitOutput(marker, 5*time.Second) {
					out.MarkerAt = "requester"
					out.GotBytes = true
				}
				nc.Close()
			case <-time.After(5 * time.Second):
				out.SetupErr = "connection manager reports a dedicated connection but the other node never accepted one"
			}
		} else {
			select {
			case nc := <-w.accepted:
				out.Role = 4
				out.SetupErr = "other node accepted a connection the connection manager does not know"
				nc.Close()
			default:
			}
		}
	}

	// ---- the specification, computed from the cell alone ----
	authenticated := in.ID == "listen" || in.ID == "target" || in.ID == "stranger"
	// the tunnel's mapping: M1 when a tunnel exists (here or on the other node); otherwise the mapping the request names
	tunnelMapping := "m1"
	if in.TState == "none" {
		tunnelMapping = map[string]string{"none": "", "tunnel": "m1", "other": "m2"}[in.Mid]
	}
	namedMapping := map[string]string{"none": "", "tunnel": "m1", "other": "m2"}[in.Mid]
	// a stored party id 0 means "nobody" (server-side listener / no target client): no connection is that party, least of all an
	// unauthenticated one whose client id is also 0
	if in.Party == "nosecret" && in.Secret != "none" && in.Secret != "wrong" {
		panic("generator: a mapping without stored secret is driven with secrets none / wrong only")
	}
	isListen := ((tunnelMapping == "m1" && in.ID == "listen") || (tunnelMapping == "m2" && authenticated)) && in.Party != "listen0"
	isTarget := tunnelMapping == "m1" && in.ID == "target" && in.Party != "target0"
	valid := in.MState == "active" || in.MState == "soon60s" // the state dimension applies to the named mapping, which must be the tunnel's mapping anyway
	out.Entitled = authenticated && tunnelMapping != "" && namedMapping == tunnelMapping && valid &&
		((isListen && in.Secret == "none") || ((isListen || isTarget) && in.Secret == "right" && in.Party != "nosecret"))

	// ---- the property predicate on the real code's outputs ----
	out.PropOK = true
	attached := out.Role != 0
	reason := func() string {
		switch {
		case !authenticated:
			return "unauthenticated"
		case namedMapping != tunnelMapping:
			return "wrong-mapping"
		case !valid:
			return "invalid-mapping"
		case !(isListen || isTarget):
			return "stranger"
		default:
			return "bad-credential"
		}
	}
	branch := map[string]string{"none": "new-bridge", "waiting": "existing-bridge", "served": "existing-bridge", "remote": "cross-node"}[in.TState]
	switch {
	case out.SetupErr != "":
		out.PropOK, out.PropMsg, out.Class = false, "harness: "+out.SetupErr, "setup"
	case !out.Entitled && (attached || out.GotBytes):
		out.PropOK = false
		out.Class = branch + ":" + reason()
		out.PropMsg = fmt.Sprintf("connection NOT entitled to the tunnel's mapping (%s) was attached: role=%d got_bytes=%v ack=%d", reason(), out.Role, out.GotBytes, out.Ack)
	case !out.Entitled && out.Ack != 2:
		out.PropOK = false
		out.Class = branch + ":" + reason()
		if out.Ack == 0 {
			out.Class = "no-failure-ack:" + branch
		}
		out.PropMsg = fmt.Sprintf("refusable request (%s) did not receive a failure acknowledgement: ack=%d (0 none, 1 success)", reason(), out.Ack)
	case out.AckCount > 1:
		out.PropOK, out.Class = false, "double-ack:"+branch
		out.PropMsg = fmt.Sprintf("%d TunnelOpenAck packets for one request", out.AckCount)
	}
	_ = tgtConn
	return out
}

// ---------------------------------------------------------------------------------------------
// gen: tables evaluated from the real code
// ---------------------------------------------------------------------------------------------

func b2s(b bool) string {
	if b {
		return "true"
	}
	return "false"
}

func gen() {
	w := newWorld(false)
	var sb strings.Builder
	sb.WriteString("(* Gen/C04.v — GENERATED by harness/cmd/c04 `gen` from the working tree of the repository; do not edit. *)\n")
	sb.WriteString("From Coq Require Import List NArith Bool.\nImport ListNotations.\nOpen Scope N_scope.\n\n")
	// wiring fact: resumeTunnel needs cloudControl to implement ValidateTunnelResumeToken
	_, resume := interface{}(w.fx.Cloud).(interface {
		ValidateTunnelResumeToken(string) (*session.TunnelState, error)
	})
	sb.WriteString("(* does the cloud control installed in ServerTunnelHandler implement ValidateTunnelResumeToken? *)\n")
	sb.WriteString("Definition ResumeSupported : bool := " + b2s(resume) + ".\n\n")
	sb.WriteString(fmt.Sprintf("Definition PT_TunnelOpen : N := %d.\nDefinition PT_TunnelOpenAck : N := %d.\n\n", packet.TunnelOpen, packet.TunnelOpenAck))

	// models.PortMapping.IsValid / CanBeAccessedBy over (revoked, expired, status in active/inactive/error) x client in listen/target/other
	sb.WriteString("(* rows: (revoked, expired, status_is_active) -> (IsValid, CanBeAccessedBy listen, CanBeAccessedBy target, CanBeAccessedBy other) *)\n")
	sb.WriteString("Definition mapping_table : list ((bool * bool * bool) * (bool * bool * bool * bool)) := [\n")
	var rows []string
	for _, rev := range []bool{false, true} {
		for _, exp := range []bool{false, true} {
			for _, stt := range []models.MappingStatus{models.MappingStatusActive, models.MappingStatusInactive, models.MappingStatusError} {
				m := &models.PortMapping{ID: "g", ListenClientID: 11, TargetClientID: 12, IsRevoked: rev, Status: stt}
				if exp {
					t := time.Now().Add(-time.Hour)
					m.ExpiresAt = &t
				} else if rev {
					t := time.Now().Add(time.Hour)
					m.ExpiresAt = &t
				}
				rows = append(rows, fmt.Sprintf("  ((%s, %s, %s), (%s, %s, %s, %s))", b2s(rev), b2s(exp), b2s(stt == models.MappingStatusActive),
					b2s(m.IsValid()), b2s(m.CanBeAccessedBy(11)), b2s(m.CanBeAccessedBy(12)), b2s(m.CanBeAccessedBy(13))))
			}
		}
	}
	sb.WriteString(strings.Join(rows, ";\n") + "\n].\n\n")

	// the expiry boundary of the real PortMapping.IsExpired / IsValid: offsets of ExpiresAt from now, in milliseconds
	sb.WriteString("(* rows: (ExpiresAt - now in ms, negative = in the past; 0 encodes \"no expiry\") -> (past, IsExpired, IsValid of an otherwise active mapping) *)\n")
	sb.WriteString("Definition expiry_table : list (N * bool * (bool * bool)) := [\n")
	rows = nil
	for _, off := range []int64{-3600000, -45000, -31000, -29000, -25000, -10000, -2000, -1000, -50, -1, 2000, 29000, 31000, 60000, 3600000} {
		m := &models.PortMapping{ID: "g", ListenClientID: 11, TargetClientID: 12, Status: models.MappingStatusActive}
		t := time.Now().Add(time.Duration(off) * time.Millisecond)
		m.ExpiresAt = &t
		abs := off
		if abs < 0 {
			abs = -abs
		}
		rows = append(rows, fmt.Sprintf("  (%d, %s, (%s, %s))", abs, b2s(off < 0), b2s(m.IsExpired()), b2s(m.IsValid())))
	}
	// far past, beyond what a Duration offset from now can express: the zero time.Time (what a JSON round trip of
	// "0001-01-01T00:00:00Z" yields), the Unix epoch, and 100 years ago — a non-nil ExpiresAt in the past is expired, however old
	for _, fp := range []struct {
		ms int64
		t  time.Time
	}{{63900000000000, time.Time{}}, {1700000000000, time.Unix(0, 0)}, {3155760000000, time.Now().AddDate(-100, 0, 0)}} {
		m := &models.PortMapping{ID: "g", ListenClientID: 11, TargetClientID: 12, Status: models.MappingStatusActive}
		t := fp.t
		m.ExpiresAt = &t
		rows = append(rows, fmt.Sprintf("  (%d, true, (%s, %s))", fp.ms, b2s(m.IsExpired()), b2s(m.IsValid())))
	}
	{
		m := &models.PortMapping{ID: "g", ListenClientID: 11, TargetClientID: 12, Status: models.MappingStatusActive}
		rows = append(rows, fmt.Sprintf("  (0, false, (%s, %s))", b2s(m.IsExpired()), b2s(m.IsValid())))
	}
	sb.WriteString(strings.Join(rows, ";\n") + "\n].\n\n")

	// the real PortMapping.Revoke — how a mapping BECOMES revoked — on every status x expiry x caller, followed by a re-activation
	// of the status (pause / revoke / resume histories): a revocation reported as done must leave the mapping revoked, invalid and
	// inaccessible for good
	sb.WriteString("(* rows: ((status: 0 active 1 inactive 2 error, expired, caller: 1 listen 2 target 3 other) ->\n")
	sb.WriteString("          (Revoke reported success, IsRevoked after, IsValid after, after Status:=active: IsValid, CanBeAccessedBy listen, CanBeAccessedBy target)) *)\n")
	sb.WriteString("Definition revoke_table : list ((N * bool * N) * (bool * bool * bool * (bool * bool * bool))) := [\n")
	rows = nil
	for si, stt := range []models.MappingStatus{models.MappingStatusActive, models.MappingStatusInactive, models.MappingStatusError} {
		for _, exp := range []bool{false, true} {
			for ci, caller := range []int64{11, 12, 13} {
				m := &models.PortMapping{ID: "g", ListenClientID: 11, TargetClientID: 12, SecretKey: "k", Status: stt}
				if exp {
					t := time.Now().Add(-time.Hour)
					m.ExpiresAt = &t
				}
				err := m.Revoke("verif", caller)
				r1, v1 := m.IsRevoked, m.IsValid()
				m.Status = models.MappingStatusActive
				rows = append(rows, fmt.Sprintf("  ((%d, %s, %d), (%s, %s, %s, (%s, %s, %s)))", si, b2s(exp), ci+1,
					b2s(err == nil), b2s(r1), b2s(v1), b2s(m.IsValid()), b2s(m.CanBeAccessedBy(11)), b2s(m.CanBeAccessedBy(12))))
			}
		}
	}
	sb.WriteString(strings.Join(rows, ";\n") + "\n].\n\n")

	// the real credential validator ServerTunnelHandler.HandleTunnelOpen on
	//   client in (0, listen, target, other) x mapping id named? x secret (none/right/wrong) x resume x mapping state
	sb.WriteString("(* rows: ((client: 0 none 1 listen 2 target 3 other, names_mapping, secret: 0 none 1 right 2 unrelated 3 first char 4 all but last 5 all but first 6 right+1 7 case flipped 8 last char changed, resume),\n")
	sb.WriteString("          mapping state: 0 active 1 revoked 2 expired 3 inactive 4 missing) -> accepted *)\n")
	sb.WriteString("Definition validator_table : list ((N * bool * N * bool * N) * bool) := [\n")
	rows = nil
	states := []string{"active", "revoked", "expired", "inactive", "missing"}
	n := 0
	for ci, cl := range []int64{0, w.L.id, w.T.id, w.S.id} {
		for _, names := range []bool{false, true} {
			for si, sec := range secretKinds[:9] {
				for _, res := range []bool{false, true} {
					for mi, ms := range states {
						n++
						m, err := w.fx.Cloud.CreatePortMapping(&models.PortMapping{ListenClientID: w.L.id, TargetClientID: w.T.id, SecretKey: fmt.Sprintf("Gk-%d-s3cret", n),
							Protocol: models.ProtocolTCP, TargetHost: "127.0.0.1", TargetPort: 1, Status: models.MappingStatusActive})
						must(err)
						key := m.SecretKey
						setMappingState(w, m, ms)
						req := &packet.TunnelOpenRequest{TunnelID: fmt.Sprintf("g%d", n)}
						if names {
							req.MappingID = m.ID
						}
						req.SecretKey = secretFor(sec, key, "")
						if res {
							req.ResumeToken = "tok"
						}
						cc := session.NewControlConnection(fmt.Sprintf("gen-%d", n), nil, nil, "tcp")
						cc.SetClientID(cl)
						cc.SetAuthenticated(cl != 0)
						ok := w.fx.Tunnel.HandleTunnelOpen(cc, req) == nil
						rows = append(rows, fmt.Sprintf("  ((%d, %s, %d, %s, %d), %s)", ci, b2s(names), si, b2s(res), mi, b2s(ok)))
					}
				}
			}
		}
	}
	sb.WriteString(strings.Join(rows, ";\n") + "\n].\n\n")
	// the real credential validator on a mapping that stores NO secret: client x names_mapping x presented (0 none, 2 unrelated non-empty)
	sb.WriteString("(* rows: (client: 0 none 1 listen 2 target 3 other, names_mapping, presented secret: 0 none 2 unrelated) -> accepted, on an ACTIVE mapping whose stored secret is empty *)\n")
	sb.WriteString("Definition nosecret_table : list ((N * bool * N) * bool) := [\n")
	rows = nil
	for ci, cl := range []int64{0, w.L.id, w.T.id, w.S.id} {
		for _, names := range []bool{false, true} {
			for _, si := range []int{0, 2} {
				n++
				m, err := w.fx.Cloud.CreatePortMapping(&models.PortMapping{ListenClientID: w.L.id, TargetClientID: w.T.id, SecretKey: "",
					Protocol: models.ProtocolTCP, TargetHost: "127.0.0.1", TargetPort: 1, Status: models.MappingStatusActive})
				must(err)
				req := &packet.TunnelOpenRequest{TunnelID: fmt.Sprintf("g%d", n)}
				if names {
					req.MappingID = m.ID
				}
				if si == 2 {
					req.SecretKey = "anything-non-empty"
				}
				cc := session.NewControlConnection(fmt.Sprintf("gen-%d", n), nil, nil, "tcp")
				cc.SetClientID(cl)
				cc.SetAuthenticated(cl != 0)
				ok := w.fx.Tunnel.HandleTunnelOpen(cc, req) == nil
				rows = append(rows, fmt.Sprintf("  ((%d, %s, %d), %s)", ci, b2s(names), si, b2s(ok)))
			}
		}
	}
	sb.WriteString(strings.Join(rows, ";\n") + "\n].\n\n")
	// the routing table answers only for the tunnel id that was asked: a record registered under an id of length L is looked up
	// under (first `cut` bytes of that id + "-x") and under the id itself
	sb.WriteString("(* rows: (length of the registered id, cut) -> (found under the registered id, found under its first `cut` bytes + \"-x\") *)\n")
	sb.WriteString("Definition routing_key_table : list ((N * N) * (bool * bool)) := [\n")
	rows = nil
	{
		rt := session.NewTunnelRoutingTable(memory.New(context.Background()), 30*time.Second)
		for _, l := range []int{20, 63, 64, 65, 100, 300} {
			for _, cut := range []int{16, 63, 64, 65, 100} {
				if cut > l {
					continue
				}
				n++
				id := fmt.Sprintf("gr%d-", n) + strings.Repeat("q", l)
				id = id[:l]
				must(rt.RegisterWaitingTunnel(context.Background(), &session.TunnelWaitingState{TunnelID: id, MappingID: "pm", SourceNodeID: "n"}))
				_, e1 := rt.LookupWaitingTunnel(context.Background(), id)
				_, e2 := rt.LookupWaitingTunnel(context.Background(), id[:cut]+"-x")
				rows = append(rows, fmt.Sprintf("  ((%d, %d), (%s, %s))", l, cut, b2s(e1 == nil), b2s(e2 == nil)))
			}
		}
	}
	sb.WriteString(strings.Join(rows, ";\n") + "\n].\n\n")
	// does the secret-key path consult IsValid on this tree? (right secret, target client, revoked mapping)
	sb.WriteString("(* dimensions of the dispatcher table driven through SessionManager.HandlePacket (lib/props/c04.py) *)\n")
	sb.WriteString("Definition table_dims : list N := [5; 3; 10; 2; 10; 4].\n")
	sb.WriteString("(* sub-table with the mapping-party dimension (listen id 0 / target id 0) *)\nDefinition party_dims : list N := [2; 5; 3; 4; 1; 3; 3].\nDefinition nosecret_dims : list N := [5; 3; 2; 1; 3; 3].\n")
	sb.WriteString("Close Scope N_scope.\n")
	fmt.Print(sb.String())
}

func main() {
	corelog.SetDefault(corelog.NewNopLogger())
	if len(os.Args) > 1 && os.Args[1] == "gen" {
		gen()
		return
	}
	var wLocal, wRemote *world
	forEachCase(func(raw json.RawMessage) interface{} {
		var probe struct {
			Mode string `json:"mode"`
		}
		_ = json.Unmarshal(raw, &probe)
		if probe.Mode == "stale" {
			var x staleIn
			must(json.Unmarshal(raw, &x))
			if wLocal == nil {
				wLocal = newWorld(false)
			}
			return runStale(wLocal, x)
		}
		if probe.Mode == "xnode" {
			var x xIn
			must(json.Unmarshal(raw, &x))
			return runXnode(x)
		}
		if probe.Mode == "race" {
			var r raceIn
			must(json.Unmarshal(raw, &r))
			if wLocal == nil {
				wLocal = newWorld(false)
			}
			return runRace(wLocal, r)
		}
		if probe.Mode == "hist" {
			var h histIn
			must(json.Unmarshal(raw, &h))
			if h.Routing {
				if wRemote == nil {
					wRemote = newWorld(true)
				}
				return runHist(wRemote, h)
			}
			if wLocal == nil {
				wLocal = newWorld(false)
			}
			return runHist(wLocal, h)
		}
		var in cellIn
		must(json.Unmarshal(raw, &in))
		if in.TState == "remote" {
			if wRemote == nil {
				wRemote = newWorld(true)
			}
		} else if wLocal == nil {
			wLocal = newWorld(false)
		}
		return runCell(wLocal, wRemote, in)
	})
}
